/-
  C05 — OBJ write/read round trip: the property theorems.

  Statements only; definitions, helper lemmas and proofs are in `PolyVerif/Lemmas/Obj.lean` (namespace
  `PolyVerif.ObjL`), the model in `PolyVerif/Model/Obj.lean` (tied text-exactly to /repo/formats/obj by the
  `c05` correspondence stream).  Each theorem is followed, where it has hypotheses, by a concrete instance.
  Intermediate results that are not property clauses (helpers): `obj_roundtrip_struct`,
  `readObj_transport`, `readObj_normals_complete`, `readObj_noMatlessAfterMat`.
-/
import PolyVerif.Lemmas.Obj

set_option linter.unusedSimpArgs false
set_option linter.unusedSectionVars false

namespace PolyVerif
namespace C05
open Obj ObjL

section s1
variable {τ α : Type} [DecidableEq τ] (pc : τ → Except Err Corner)

/-- **Material ranges cover the triangles.**  For every input the reader accepts — any arrangement of
    `v/vt/vn/f/g/usemtl/mtllib`/comment lines, any corner tokens — every group it returns has either no
    material ranges or ranges whose counts sum to exactly the group's triangle count, and the groups
    together hold exactly as many triangles as the input has `f` lines (a count; content and order are
    `readObj_faces_content`). -/
theorem readObj_ranges_sum {ls : List (Line τ α)} {gs : List (Group τ α)} {libs : List String}
    (h : readObj pc ls = .ok (gs, libs)) :
    (∀ g ∈ gs, g.tris.length = g.ftoks.length ∧ (g.mats = [] ∨ matSum g.mats = g.tris.length)) ∧
    (gs.map (·.tris.length)).sum = faceCount ls :=
  ObjL.readObj_ranges_sum pc h

/-- **The groups hold exactly the input's face lines — content and order.**  For every accepted input the
    face lines recorded group by group (the ghost field `ftoks`, to which `readObj_corners` ties the
    triangles and vertex tables) are, concatenated in group order, exactly the `f` lines of the input in
    file order: none lost, none invented, none reordered, none moved across another. -/
theorem readObj_faces_content {ls : List (Line τ α)} {gs : List (Group τ α)} {libs : List String}
    (h : readObj pc ls = .ok (gs, libs)) : gs.flatMap (·.ftoks) = faceToks ls :=
  ObjL.readObj_faces_content pc h

/-- **What the reader's tables contain.**  For every input the reader accepts and every group it
    returns, relative to the file's `v` / `vn` / `vt` lines (`poolV/N/T`, in file order):
    the group's vertex `k` is the position its `k`-th distinct corner token refers to; its normals / uvs
    are those of the tokens that carry a `vn` / `vt` slot, in token order; and the `j`-th triangle's
    three indices point at the three tokens of the group's `j`-th face line.  Hence every corner of every
    triangle read carries exactly the position the file's face line refers to. -/
theorem readObj_corners {ls : List (Line τ α)} {gs : List (Group τ α)} {libs : List String}
    (h : readObj pc ls = .ok (gs, libs)) : ∀ g ∈ gs, GInv pc (poolV ls) (poolN ls) (poolT ls) g :=
  ObjL.readObj_corners pc h

/-- **When a group keeps its normals.**  For every accepted input and every returned group: the normal
    table is complete (`normals.length = verts.length`, the condition under which `toMesh` keeps it)
    exactly when every corner token of the group carries a `vn` slot, and then normal `k` is the pool
    entry the `k`-th token refers to — aligned with vertex `k`.  (Same for texture coordinates.) -/
theorem readObj_normals_complete {ls : List (Line τ α)} {gs : List (Group τ α)} {libs : List String}
    (h : readObj pc ls = .ok (gs, libs)) : ∀ g ∈ gs,
    (g.normals.length = g.verts.length ↔ ∀ t ∈ g.toks, (nIdx pc t).isSome) ∧
    (g.normals.length = g.verts.length →
      g.normals.map some = g.toks.map (fun t => (nIdx pc t).bind fun i => (poolN ls)[i]?)) ∧
    (g.uvs.length = g.verts.length ↔ ∀ t ∈ g.toks, (tIdx pc t).isSome) ∧
    (g.uvs.length = g.verts.length →
      g.uvs.map some = g.toks.map (fun t => (tIdx pc t).bind fun i => (poolT ls)[i]?)) :=
  ObjL.readObj_normals_complete pc h

/-- **What the reader returns never has a material-less group (with faces) after a group with ranges**:
    once a `usemtl` has been seen, every later group that has a face has a range. -/
theorem readObj_noMatlessAfterMat {ls : List (Line τ α)} {gs : List (Group τ α)} {libs : List String}
    (h : readObj pc ls = .ok (gs, libs)) : NoMatlessAfterMat none (gs.map toMesh) :=
  ObjL.readObj_noMatlessAfterMat pc h

/-- **Load → save keeps every corner where it was.**  For every accepted input, saving what was read
    succeeds, and the saved text has — face by face and corner by corner, in order — exactly the corner
    positions of the input (each face corner resolved against its own text's `v` lines), all of them
    resolvable.  (Texture coordinates / normals of the saved text: oracle `c05.holds.resave` only.) -/
theorem obj_resave_positions {ls : List (Line τ α)} {gs : List (Group τ α)} {libs : List String}
    (h : readObj pc ls = .ok (gs, libs)) (matFile : String) :
    ∃ out, writeObj matFile (gs.map toMesh) = .ok out ∧
      cornerPositions pcId out = cornerPositions pc ls ∧ ∀ o ∈ cornerPositions pc ls, o.isSome :=
  ObjL.obj_resave_positions pc h matFile

/-- **Load → save → load.**  For every text the reader accepts, if every group it returns has a face and
    its material names survive blank removal: saving what was read succeeds, the reader accepts the saved
    lines again, and the second load returns the same scene as the first — one group per group, same
    names, same triangles in order, same position / texture coordinate / normal on every corner, same
    material ranges (`RoundTripsCarry`).  With `readObj_corners` (the first load carries what the text
    says) this is the content half of "load and save loses or invents no face". -/
theorem obj_reload [DecidableEq α] {ls : List (Line τ α)} {gs : List (Group τ α)} {libs : List String}
    (h : readObj pc ls = .ok (gs, libs)) (hne : ∀ g ∈ gs, g.tris ≠ [])
    (hnames : ∀ g ∈ gs, ∀ p ∈ g.mats, matName (some p.1) ≠ "") (matFile : String) :
    ∃ out gs' libs', writeObj matFile (gs.map toMesh) = .ok out ∧ readObj pcId out = .ok (gs', libs') ∧
      RoundTripsCarry id none (gs.map toMesh) (gs'.map toMesh) = true :=
  ObjL.obj_reload pc h hne hnames matFile

/-- **Load → save → load, strict.**  Under the hypotheses of `obj_reload` the second load satisfies the
    strict property predicate `RoundTrips` against the first: same material ranges on every group, none
    inherited. -/
theorem obj_reload_strict [DecidableEq α] {ls : List (Line τ α)} {gs : List (Group τ α)} {libs : List String}
    (h : readObj pc ls = .ok (gs, libs)) (hne : ∀ g ∈ gs, g.tris ≠ [])
    (hnames : ∀ g ∈ gs, ∀ p ∈ g.mats, matName (some p.1) ≠ "") (matFile : String) :
    ∃ out gs' libs', writeObj matFile (gs.map toMesh) = .ok out ∧ readObj pcId out = .ok (gs', libs') ∧
      RoundTrips id (gs.map toMesh) (gs'.map toMesh) = true :=
  ObjL.obj_reload_strict pc h hne hnames matFile

/-- **Load → save: every corner of the saved text.**  For every accepted input, saving what was read
    succeeds and the saved text has — face by face, corner by corner, in order — for each corner token of
    the input: the same position, the same texture coordinate if EVERY corner of its group has one (none
    otherwise), the same normal if every corner of its group has one (none otherwise); every corner of the
    saved text resolves against its own `v / vt / vn` lines.  (Final-pool form of the oracle predicate
    `Resaves`: corners are resolved against the whole pool of their text.) -/
theorem obj_resave_corners {ls : List (Line τ α)} {gs : List (Group τ α)} {libs : List String}
    (h : readObj pc ls = .ok (gs, libs)) (matFile : String) :
    ∃ out, writeObj matFile (gs.map toMesh) = .ok out ∧
      cornerAttrs pcId out =
        gs.flatMap (fun g => (flatC g.ftoks).map (savedCorner pc (poolV ls) (poolN ls) (poolT ls) g)) ∧
      ∀ o ∈ cornerAttrs pcId out, o.isSome :=
  ObjL.obj_resave_corners pc h matFile

/-- **`Resaves` for texts whose groups each use one corner shape** (all four shapes allowed, a different one
    per group): the saved text has exactly the corners of the input — position, texture coordinate and normal
    of every face corner, in order — and every one of them resolves. -/
theorem obj_resave_corners_uniform {ls : List (Line τ α)} {gs : List (Group τ α)} {libs : List String}
    (h : readObj pc ls = .ok (gs, libs)) (hu : UniformGroups pc gs) (matFile : String) :
    ∃ out, writeObj matFile (gs.map toMesh) = .ok out ∧ cornerAttrs pcId out = cornerAttrs pc ls ∧
      ∀ o ∈ cornerAttrs pcId out, o.isSome :=
  ObjL.obj_resave_corners_uniform pc h hu matFile

end s1

section s2
variable {τ α : Type}

/-- **Load → save keeps every face.**  For every input the reader accepts (any arrangement of `g`,
    `usemtl`, data and face lines, any corner tokens, faces before any `g`, repeated or empty material
    ranges, …), saving what was read succeeds (no panic) and the saved text has exactly as many `f`
    lines as the input: no face lost, none invented. -/
theorem obj_resave_faces [DecidableEq τ] (pc : τ → Except Err Corner) {ls : List (Line τ α)}
    {gs : List (Group τ α)} {libs : List String} (h : readObj pc ls = .ok (gs, libs)) (matFile : String) :
    ∃ out, writeObj matFile (gs.map toMesh) = .ok out ∧ faceCount out = faceCount ls :=
  ObjL.obj_resave_faces pc h matFile

end s2

section s3
variable {α : Type}

/-- **OBJ round trip, structural part.**  For every non-empty list of named well-formed triangle meshes
    (any number, any per-mesh combination of uv / normal attributes, any partition of each mesh's triangles
    into material ranges incl. empty ranges and nil materials, shared / unreferenced vertices; every mesh
    but the last with at least one triangle) and every material-file name: `WriteMeshes` does not panic, and
    `ReadMesh` of its output succeeds and returns exactly one group per mesh, in order, with the mesh's
    name, one triangle per index triple in order whose corners are the tokens `(i+1+vo, i+1+to, i+1+no)` —
    each pool addressed with ITS OWN running offset — and the mesh's material ranges (`expMats`: a mesh
    without ranges inherits the material in effect).  The pools of the written text are the concatenated
    attribute arrays.  Together with `readObj_corners` this pins every corner's position / uv / normal. -/
theorem obj_roundtrip_struct (matFile : String) (ms : List (String × Mesh α)) (hne : ms ≠ [])
    (hwf : ∀ p ∈ ms, WFMesh p.2) (hnb : NonemptyButLast ms) :
    ∃ ls gs, writeObj matFile ms = .ok ls ∧
      readObj pcId ls = .ok (gs, if matFile = "" then [] else [matFile]) ∧
      gs.map sumG = expSum 0 0 0 none ms ∧
      poolV ls = ms.flatMap (fun p => optList p.2.pos) ∧ poolN ls = ms.flatMap (fun p => optList p.2.nrm) ∧
      poolT ls = ms.flatMap (fun p => optList p.2.uv) :=
  ObjL.obj_roundtrip_struct matFile ms hne hwf hnb

/-- **C05, clause 1 — exactly what the code does.**  For every non-empty list of named well-formed triangle
    meshes (hypotheses as in `obj_roundtrip_struct`): writing and reading back succeeds and the result
    satisfies `RoundTripsCarry`: one group per mesh, same names, same number of triangles in the same
    order, every corner with the same position / texture coordinate / normal (an absent attribute stays
    absent), and the mesh's material ranges — where a mesh WITHOUT ranges inherits the material in effect. -/
theorem obj_roundtrip_carry [DecidableEq α] (matFile : String) (ms : List (String × Mesh α)) (hne : ms ≠ [])
    (hwf : ∀ p ∈ ms, WFMesh p.2) (hnb : NonemptyButLast ms) :
    ∃ ls gs libs, writeObj matFile ms = .ok ls ∧ readObj pcId ls = .ok (gs, libs) ∧
      RoundTripsCarry id none ms (gs.map toMesh) = true :=
  ObjL.obj_roundtrip_carry matFile ms hne hwf hnb

/-- **C05, clause 1 — as the property states it.**  Under the additional hypothesis that no mesh without
    material ranges follows a mesh with ranges, the read-back scene satisfies the strict predicate
    `RoundTrips` (same material ranges on every mesh, none invented). -/
theorem obj_roundtrip [DecidableEq α] (matFile : String) (ms : List (String × Mesh α)) (hne : ms ≠ [])
    (hwf : ∀ p ∈ ms, WFMesh p.2) (hnb : NonemptyButLast ms) (hmat : NoMatlessAfterMat none ms) :
    ∃ ls gs libs, writeObj matFile ms = .ok ls ∧ readObj pcId ls = .ok (gs, libs) ∧
      RoundTrips id ms (gs.map toMesh) = true :=
  ObjL.obj_roundtrip matFile ms hne hwf hnb hmat

end s3

section s4
variable {τ τ' α β : Type} [DecidableEq τ] [DecidableEq τ']

/-- **The reader commutes with the text layer.**  If tokens are transported by an injective `ft` that the
    second parser undoes (`pc' (ft t) = pc t`) and scalars by any `fs`, then reading the transported lines
    gives the transported result: same groups, names, triangles, ranges; tables mapped by `fs`. -/
theorem readObj_transport (pc : τ → Except Err Corner) (pc' : τ' → Except Err Corner) (ft : τ → τ') (fs : α → β)
    (hinj : ∀ a b, ft a = ft b → a = b) (hpc : ∀ t, pc' (ft t) = pc t) (ls : List (Line τ α)) :
    readObj pc' (ls.map (mapLine ft fs)) =
      (match readObj pc ls with
       | .ok (gs, libs) => .ok (gs.map (mapGroup ft fs), libs)
       | .error e => .error e) :=
  ObjL.readObj_transport pc pc' ft fs hinj hpc ls

end s4

section s5
variable {α : Type} [DecidableEq α]

/-- **C05 clause 1 through the text layer, print/parse as an explicit law.**  Let corners be printed by
    any `show` that the reader's corner parser `pc'` undoes (`pc' (show c) = ok c`) and let every scalar
    come back from the text as `rt x` (for the real code: shortest decimal, then `ParseFloat(·, 32)` —
    float32 precision).  Then for every non-empty list of named well-formed triangle meshes, reading the
    written text succeeds and the result satisfies `RoundTripsCarry rt` — and the strict property
    predicate `RoundTrips rt` whenever no material-less mesh follows a mesh with ranges. -/
theorem obj_roundtrip_text {τ' : Type} [DecidableEq τ'] (pc' : τ' → Except Err Corner) (shw : Corner → τ')
    (rt : α → α) (hshow : ∀ c, pc' (shw c) = .ok c) (matFile : String) (ms : List (String × Mesh α))
    (hne : ms ≠ []) (hwf : ∀ p ∈ ms, WFMesh p.2) (hnb : NonemptyButLast ms) :
    ∃ ls gs libs, writeObj matFile ms = .ok ls ∧ readObj pc' (ls.map (mapLine shw rt)) = .ok (gs, libs) ∧
      RoundTripsCarry rt none ms (gs.map toMesh) = true ∧
      (NoMatlessAfterMat none ms → RoundTrips rt ms (gs.map toMesh) = true) :=
  ObjL.obj_roundtrip_text pc' shw rt hshow matFile ms hne hwf hnb

end s5

section s6


/-- **A single shared offset is wrong for mixed attribute sets** (the defect the tree was pinned with):
    on `mixedWitness` the shared-offset writer emits `f 4//4 6//6 5//5` although only three `vn` lines
    exist, and reading its output panics; the writer with separate offsets round-trips the same scene. -/
theorem obj_shared_offset_breaks :
    (match thenRead (writeObjShared "" mixedWitness) with | .error .panic => true | _ => false) = true ∧
    (match thenRead (writeObj "" mixedWitness) with
     | .ok (gs, _) => RoundTrips id mixedWitness gs
     | .error _ => false) = true :=
  ObjL.obj_shared_offset_breaks

/-- **Known finding 1, as a theorem about the model**: on `matlessWitness` the round trip satisfies the
    exact-behaviour predicate but NOT the property predicate — `B` comes back with material `red`. -/
theorem obj_matless_after_mat_witness :
    (match thenRead (writeObj "" matlessWitness) with
     | .ok (gs, _) => RoundTripsCarry id none matlessWitness gs && !RoundTrips id matlessWitness gs &&
        (gs.map fun p => p.2.mats) == [[(some "red", 1)], [(some "red", 1)]]
     | .error _ => false) = true :=
  ObjL.obj_matless_after_mat_witness

/-- **Known finding 2**: on `emptyMidWitness` only two groups come back (`A` and `B`); the empty mesh's
    group is lost, so the property predicate is false. -/
theorem obj_empty_mesh_not_last_witness :
    (match thenRead (writeObj "" emptyMidWitness) with
     | .ok (gs, _) => (gs.map fun p => p.1) == ["A", "B"] && !RoundTrips id emptyMidWitness gs
     | .error _ => false) = true :=
  ObjL.obj_empty_mesh_not_last_witness

end s6

/-! ### concrete instances of the hypotheses (non-vacuity) -/

section instances

/-- `WFMesh` is satisfiable with a mixed scene (hypotheses of `obj_roundtrip*`) -/
example : mixedWitness ≠ [] ∧ NonemptyButLast mixedWitness ∧ NoMatlessAfterMat none mixedWitness :=
  ⟨by decide, ⟨by decide, trivial⟩, ⟨by intro _ _; rfl, ⟨by intro _ _; rfl, trivial⟩⟩⟩

/-- a small accepted text: two groups, usemtl before and after `g`, a shared corner token -/
def sampleText : List (Line Corner Nat) :=
  [.v ⟨0, 0, 0⟩, .v ⟨1, 0, 0⟩, .v ⟨0, 1, 0⟩, .vn ⟨0, 0, 1⟩, .usemtl "red",
   .f ⟨1, none, some 1⟩ ⟨2, none, some 1⟩ ⟨3, none, some 1⟩, .g "b", .usemtl "blue", .f ⟨3, none, none⟩ ⟨2, none, none⟩ ⟨1, none, none⟩]

/-- `readObj … = .ok …` is satisfiable, with every group having a face and non-blank material names:
    the hypotheses `h`, `hne`, `hnames` of `obj_reload` / `obj_reload_strict` -/
example : ∃ gs libs, readObj pcId sampleText = .ok (gs, libs) ∧ (∀ g ∈ gs, g.tris ≠ []) ∧
    (∀ g ∈ gs, ∀ p ∈ g.mats, matName (some p.1) ≠ "") ∧ (gs.map fun g => (g.name, g.mats)) = [("", [("red", 1)]), ("b", [("blue", 1)])] := by
  refine ⟨_, _, rfl, ?_, ?_, ?_⟩ <;> decide

/-- `UniformGroups` is satisfiable: in `sampleText` the first group uses `v//vn`, the second plain `v` -/
example : ∃ gs libs, readObj pcId sampleText = .ok (gs, libs) ∧ UniformGroups pcId gs := by
  refine ⟨_, _, rfl, ?_⟩
  unfold UniformGroups
  decide

/-- the print/parse law `hshow` of `obj_roundtrip_text` is satisfiable (tokens = corners) -/
example : ∀ c : Corner, pcId (id c) = .ok c := fun _ => rfl

end instances

end C05
end PolyVerif
