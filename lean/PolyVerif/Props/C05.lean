/-
  C05 — OBJ write/read round trip.  Theorems about `PolyVerif.Model.Obj` (model of
  /repo/formats/obj writer.go / reader.go, tied text-exactly by the `c05` correspondence stream).
  Helper lemmas are named `*_aux`.
-/
import PolyVerif.Model.Obj

set_option linter.unusedSimpArgs false
set_option linter.unusedSectionVars false

namespace PolyVerif
namespace C05
open Obj

section reader
variable {τ α : Type} [DecidableEq τ] (pc : τ → Except Err Corner)

def matSum (mats : List (String × Nat)) : Nat := (mats.map (·.2)).sum

theorem matSum_append_aux (a b : List (String × Nat)) : matSum (a ++ b) = matSum a + matSum b := by
  simp [matSum]

theorem setLast_concat_aux (init : List (String × Nat)) (m : String) (c n : Nat) :
    setLast (init ++ [(m, c)]) n = init ++ [(m, n)] := by
  simp [setLast]

/-- `addCorner` touches only the vertex tables of the group -/
theorem addCorner_frame_aux {s : RState τ α} {g g' : Group τ α} {t : τ} {p : Nat}
    (h : addCorner pc s g t = .ok (p, g')) :
    g'.tris = g.tris ∧ g'.ftoks = g.ftoks ∧ g'.mats = g.mats ∧ g'.name = g.name := by
  unfold addCorner at h
  split at h
  · cases h; simp
  · split at h
    · cases h
    · split at h
      · cases h
      · split at h
        · cases h
        · split at h
          · cases h
          · split at h
            · cases h
            · cases h; simp

/-- a group's material ranges account for each of its triangles exactly once (or it has no ranges) -/
def GroupOK (g : Group τ α) : Prop :=
  g.tris.length = g.ftoks.length ∧ (g.mats = [] ∨ matSum g.mats = g.tris.length)

/-- the working group: closed ranges plus the open count cover the triangles read so far; the open range
    still has count 0 -/
def CurOK (s : RState τ α) : Prop :=
  s.cur.tris.length = s.cur.ftoks.length ∧
  ((s.cur.mats = [] ∧ s.since = s.cur.tris.length ∧ (s.cur.tris ≠ [] → s.inEffect = none)) ∨
   (∃ init m, s.cur.mats = init ++ [(m, 0)] ∧ matSum init + s.since = s.cur.tris.length))

def faceTotal (s : RState τ α) : Nat := (s.done.map (·.tris.length)).sum + s.cur.tris.length

def Inv (s : RState τ α) : Prop := (∀ g ∈ s.done, GroupOK g) ∧ CurOK s

def isFace : Line τ α → Bool
  | .f _ _ _ => true
  | _ => false

theorem faceCount_cons_aux (l : Line τ α) (ls : List (Line τ α)) :
    faceCount (l :: ls) = (if isFace l then 1 else 0) + faceCount ls := by
  unfold faceCount
  cases l <;> simp [isFace, List.filter_cons] <;> omega

theorem faceCount_append_aux (a b : List (Line τ α)) : faceCount (a ++ b) = faceCount a + faceCount b := by
  simp [faceCount, List.filter_append]

/-- closing the open range of a working group in state `CurOK` gives a `GroupOK` group -/
theorem close_ok_aux {s : RState τ α} (h : CurOK s) :
    GroupOK { s.cur with mats := if s.since > 0 ∧ s.cur.mats ≠ [] then setLast s.cur.mats s.since else s.cur.mats } := by
  obtain ⟨hl, h⟩ := h
  refine ⟨hl, ?_⟩
  rcases h with ⟨h0, _, _⟩ | ⟨init, m, hm, hs⟩
  · left; simp [h0]
  · right
    by_cases hp : s.since > 0
    · have : s.cur.mats ≠ [] := by rw [hm]; simp
      simp only [hp, this, ne_eq, not_false_eq_true, and_self, ↓reduceIte, hm, setLast_concat_aux]
      simp [matSum_append_aux, matSum]; simpa [matSum] using hs
    · have h0 : s.since = 0 := by omega
      simp only [hp, false_and, ↓reduceIte, hm]
      simp [matSum_append_aux, matSum]; simpa [matSum, h0] using hs

theorem step_inv_aux {s s' : RState τ α} {l : Line τ α} (hi : Inv s) (h : step pc s l = .ok s') :
    Inv s' ∧ faceTotal s' = faceTotal s + (if isFace l then 1 else 0) := by
  obtain ⟨hd, hc⟩ := hi
  cases l with
  | other t => simp only [step, Except.ok.injEq] at h; subst h; exact ⟨⟨hd, hc⟩, by simp [isFace]⟩
  | bad e => simp [step] at h
  | mtllib fs =>
    simp only [step] at h
    split at h
    · cases h
    · cases h; exact ⟨⟨hd, hc⟩, by simp [isFace, faceTotal]⟩
  | v p => simp only [step, Except.ok.injEq] at h; subst h; exact ⟨⟨hd, hc⟩, by simp [isFace, faceTotal]⟩
  | vn p => simp only [step, Except.ok.injEq] at h; subst h; exact ⟨⟨hd, hc⟩, by simp [isFace, faceTotal]⟩
  | vt p => simp only [step, Except.ok.injEq] at h; subst h; exact ⟨⟨hd, hc⟩, by simp [isFace, faceTotal]⟩
  | usemtl name =>
    simp only [step] at h
    split at h
    · cases h
    · cases h
      refine ⟨⟨hd, ?_⟩, by simp [isFace, faceTotal]⟩
      obtain ⟨hl, hc⟩ := hc
      refine ⟨hl, Or.inr ?_⟩
      rcases hc with ⟨h0, hs, _⟩ | ⟨init, m, hm, hs⟩
      · by_cases hp : s.since > 0
        · exact ⟨[("Default", s.since)], name, by simp [hp, h0], by simp [matSum, hs]⟩
        · exact ⟨[], name, by simp [hp, h0], by simp [matSum]; omega⟩
      · by_cases hp : s.since > 0
        · have hne : s.cur.mats ≠ [] := by rw [hm]; simp
          refine ⟨init ++ [(m, s.since)], name, ?_, ?_⟩
          · simp [hp, hm, setLast_concat_aux]
          · simp [matSum_append_aux, matSum]; simpa [matSum] using hs
        · have h0 : s.since = 0 := by omega
          refine ⟨init ++ [(m, 0)], name, by simp [hp, hm], ?_⟩
          simp [matSum_append_aux, matSum]; simpa [matSum, h0] using hs
  | g name =>
    simp only [step] at h
    split at h
    · cases h
      refine ⟨⟨?_, ?_⟩, ?_⟩
      · intro g hg
        rcases List.mem_append.1 hg with hg | hg
        · exact hd g hg
        · simp only [List.mem_singleton] at hg; subst hg; exact close_ok_aux ⟨hc.1, hc.2⟩
      · exact ⟨rfl, Or.inl ⟨rfl, rfl, by simp⟩⟩
      · simp [isFace, faceTotal]
    · cases h
      refine ⟨⟨hd, ?_⟩, by simp [isFace, faceTotal]⟩
      exact hc
  | f a b c =>
    simp only [step] at h
    split at h
    · cases h
    · rename_i p1 g1 e1
      split at h
      · cases h
      · rename_i p2 g2 e2
        split at h
        · cases h
        · rename_i p3 g3 e3
          cases h
          obtain ⟨t1, f1, m1, _⟩ := addCorner_frame_aux pc e1
          obtain ⟨t2, f2, m2, _⟩ := addCorner_frame_aux pc e2
          obtain ⟨t3, f3, m3, _⟩ := addCorner_frame_aux pc e3
          simp only at t1 f1 m1
          have ht : g3.tris = s.cur.tris := by rw [t3, t2, t1]
          have hf : g3.ftoks = s.cur.ftoks := by rw [f3, f2, f1]
          have hm := m3.trans (m2.trans m1)
          refine ⟨⟨hd, ?_⟩, ?_⟩
          · obtain ⟨hl, hc⟩ := hc
            refine ⟨by simp [ht, hf, hl], ?_⟩
            simp only [ht, hm, List.length_append, List.length_singleton]
            rcases hc with ⟨h0, hs, hie⟩ | ⟨init, m, hmm, hs⟩
            · cases hin : s.inEffect with
              | none => left; simp [h0, hs]
              | some m =>
                right
                have : s.cur.tris = [] := by
                  by_cases ht0 : s.cur.tris = []
                  · exact ht0
                  · have := hie ht0; rw [hin] at this; cases this
                refine ⟨[], m, by simp [h0], ?_⟩
                simp [matSum, hs, this]
            · right
              have hne : s.cur.mats ≠ [] := by rw [hmm]; simp
              exact ⟨init, m, by simp [hne, hmm], by omega⟩
          · simp [isFace, faceTotal, ht]; omega

theorem steps_inv_aux : ∀ (ls : List (Line τ α)) {s s' : RState τ α}, Inv s → steps pc s ls = .ok s' →
    Inv s' ∧ faceTotal s' = faceTotal s + faceCount ls
  | [], s, s', hi, h => by simp only [steps, Except.ok.injEq] at h; subst h; exact ⟨hi, by simp [faceCount]⟩
  | l :: ls, s, s', hi, h => by
    simp only [steps] at h
    split at h
    · cases h
    · rename_i s1 e1
      obtain ⟨hi1, hf1⟩ := step_inv_aux pc hi e1
      obtain ⟨hi2, hf2⟩ := steps_inv_aux ls hi1 h
      exact ⟨hi2, by rw [hf2, hf1, faceCount_cons_aux]; omega⟩

theorem inv_init_aux : Inv ({} : RState τ α) :=
  ⟨(by intro g hg; cases hg), rfl, Or.inl ⟨rfl, rfl, by simp⟩⟩

/-- **Material ranges cover the triangles.**  For every input the reader accepts — any arrangement of
    `v/vt/vn/f/g/usemtl/mtllib`/comment lines, any corner tokens — every group it returns has either no
    material ranges or ranges whose counts sum to exactly the group's triangle count, and the groups
    together hold exactly the `f` lines of the input (none lost, none invented). -/
theorem readObj_ranges_sum {ls : List (Line τ α)} {gs : List (Group τ α)} {libs : List String}
    (h : readObj pc ls = .ok (gs, libs)) :
    (∀ g ∈ gs, g.tris.length = g.ftoks.length ∧ (g.mats = [] ∨ matSum g.mats = g.tris.length)) ∧
    (gs.map (·.tris.length)).sum = faceCount ls := by
  unfold readObj at h
  split at h
  · cases h
  · rename_i s e
    simp only [finish, Except.ok.injEq, Prod.mk.injEq] at h
    obtain ⟨rfl, rfl⟩ := h
    obtain ⟨⟨hd, hc⟩, hf⟩ := steps_inv_aux pc ls inv_init_aux e
    constructor
    · intro g hg
      rcases List.mem_append.1 hg with hg | hg
      · exact hd g hg
      · simp only [List.mem_singleton] at hg; subst hg; exact close_ok_aux hc
    · simp [faceTotal] at hf
      simp [hf]

end reader

/-! ### the writer on what the reader returns -/

section resave
variable {τ α : Type}

theorem flatTris_append_aux : ∀ (a b : List (Nat × Nat × Nat)), flatTris (a ++ b) = flatTris a ++ flatTris b
  | [], _ => rfl
  | (x, y, z) :: a, b => by simp [flatTris, flatTris_append_aux a b]

theorem flatTris_length_aux : ∀ ts : List (Nat × Nat × Nat), (flatTris ts).length = 3 * ts.length
  | [] => rfl
  | (_, _, _) :: ts => by simp [flatTris, flatTris_length_aux ts]; omega

/-- the face lines for a list of index triples -/
def faceLines (mk : Nat → Corner) (ts : List (Nat × Nat × Nat)) : List (Line Corner α) :=
  ts.map fun t => .f (mk t.1) (mk t.2.1) (mk t.2.2)

theorem faceCount_faceLines_aux (mk : Nat → Corner) (ts : List (Nat × Nat × Nat)) :
    faceCount (faceLines (α := α) mk ts) = ts.length := by
  induction ts with
  | nil => rfl
  | cons t ts ih => rw [faceLines, List.map_cons, faceCount_cons_aux]; simp [isFace]; rw [← faceLines, ih]; omega

/-- the face cursor consumes exactly `n` triples when they are there -/
theorem faceRun_flat_aux (mk : Nat → Corner) : ∀ (ts : List (Nat × Nat × Nat)) (rest : List Nat),
    faceRun (α := α) mk ts.length (flatTris ts ++ rest) = .ok (faceLines mk ts, rest)
  | [], rest => rfl
  | (a, b, c) :: ts, rest => by
    simp [flatTris, faceRun, faceRun_flat_aux mk ts rest, faceLines]

theorem rangeRun_flat_aux (mk : Nat → Corner) : ∀ (mats : List (Option String × Nat)) (ts : List (Nat × Nat × Nat)),
    (mats.map (·.2)).sum = ts.length →
    ∃ ls, rangeRun (α := α) mk mats (flatTris ts) = .ok ls ∧ faceCount ls = ts.length
  | [], ts, h => by
    have : ts = [] := List.eq_nil_of_length_eq_zero (by simpa using h.symm)
    subst this; exact ⟨[], rfl, rfl⟩
  | (m, n) :: ms, ts, h => by
    simp only [List.map_cons, List.sum_cons] at h
    have hn : (ts.take n).length = n := by simp [List.length_take]; omega
    have hsplit : flatTris ts = flatTris (ts.take n) ++ flatTris (ts.drop n) := by
      rw [← flatTris_append_aux, List.take_append_drop]
    have hrun := faceRun_flat_aux (α := α) mk (ts.take n) (flatTris (ts.drop n))
    rw [hn] at hrun
    obtain ⟨ls', hr, hc⟩ := rangeRun_flat_aux mk ms (ts.drop n) (by simp [List.length_drop]; omega)
    refine ⟨.usemtl (matName m) :: faceLines mk (ts.take n) ++ ls', ?_, ?_⟩
    · simp [rangeRun, hsplit, hrun, hr]
    · rw [List.cons_append, faceCount_cons_aux, faceCount_append_aux, faceCount_faceLines_aux, hc, hn]
      simp [isFace, List.length_drop]; omega

theorem writeGroup_ok_aux (multi : Bool) (vo to no : Nat) (g : Group τ α)
    (hg : g.mats = [] ∨ matSum g.mats = g.tris.length) :
    ∃ ls, writeGroup multi vo to no (toMesh g).1 (toMesh g).2 = .ok ls ∧ faceCount ls = g.tris.length := by
  have hhdr : ∀ (h : List (Line Corner α)), (h = [] ∨ ∃ n, h = [.g n]) → faceCount h = 0 := by
    intro h hh; rcases hh with rfl | ⟨n, rfl⟩ <;> rfl
  by_cases hm : g.mats = []
  · have h1 := faceRun_flat_aux (α := α)
      (mkCorner (toMesh g).2.uv.isSome (toMesh g).2.nrm.isSome vo to no) g.tris []
    rw [List.append_nil] at h1
    have h2 : ((flatTris g.tris).length + 2) / 3 = g.tris.length := by rw [flatTris_length_aux]; omega
    refine ⟨(if (multi || decide (g.name ≠ "")) = true then [Line.g g.name] else []) ++
      faceLines (mkCorner (toMesh g).2.uv.isSome (toMesh g).2.nrm.isSome vo to no) g.tris, ?_, ?_⟩
    · simp only [writeGroup, toMesh, hm, List.map_nil, ↓reduceIte, h2]
      simp only [toMesh] at h1
      rw [h1]; rfl
    · rw [faceCount_append_aux, faceCount_faceLines_aux]
      have := hhdr (if (multi || decide (g.name ≠ "")) = true then [Line.g g.name] else [])
        (by split <;> simp)
      simp [toMesh] at this ⊢
      omega
  · have hs : matSum g.mats = g.tris.length := by rcases hg with h | h; exact absurd h hm; exact h
    obtain ⟨ls, hr, hc⟩ := rangeRun_flat_aux (α := α)
      (mkCorner (toMesh g).2.uv.isSome (toMesh g).2.nrm.isSome vo to no)
      (g.mats.map fun (n, c) => (some n, c)) g.tris (by simpa [matSum, List.map_map, Function.comp_def] using hs)
    have hne : (g.mats.map fun (p : String × Nat) => ((some p.1 : Option String), p.2)) ≠ [] := by simpa using hm
    refine ⟨(if (multi || decide (g.name ≠ "")) = true then [Line.g g.name] else []) ++ ls, ?_, ?_⟩
    · simp only [writeGroup, toMesh] at hr ⊢
      simp only [hne, ↓reduceIte, hr]
      try rfl
    · rw [faceCount_append_aux, hc]
      have := hhdr (if (multi || decide (g.name ≠ "")) = true then [Line.g g.name] else [])
        (by split <;> simp)
      simp [toMesh] at this ⊢
      omega

theorem writeGroups_ok_aux (multi : Bool) : ∀ (gs : List (Group τ α)) (vo to no : Nat),
    (∀ g ∈ gs, g.mats = [] ∨ matSum g.mats = g.tris.length) →
    ∃ ls, writeGroups multi vo to no (gs.map toMesh) = .ok ls ∧ faceCount ls = (gs.map (·.tris.length)).sum
  | [], _, _, _, _ => ⟨[], rfl, rfl⟩
  | g :: gs, vo, to, no, h => by
    obtain ⟨a, ha, hca⟩ := writeGroup_ok_aux multi vo to no g (h g (by simp))
    obtain ⟨b, hb, hcb⟩ := writeGroups_ok_aux multi gs (vo + optLen (toMesh g).2.pos) (to + optLen (toMesh g).2.uv)
      (no + optLen (toMesh g).2.nrm) (fun g' hg' => h g' (by simp [hg']))
    refine ⟨a ++ b, ?_, by rw [faceCount_append_aux, hca, hcb]; simp⟩
    have e : toMesh g = ((toMesh g).1, (toMesh g).2) := rfl
    rw [List.map_cons, e]
    simp only [writeGroups, ha, hb]

theorem faceCount_dataLines_aux : ∀ ms : List (String × Mesh α), faceCount (dataLines ms) = 0
  | [] => rfl
  | (_, m) :: ms => by
    have hv : ∀ l : List (V3 α), faceCount (l.map (Line.v (τ := Corner))) = 0 := by
      intro l; induction l with
      | nil => rfl
      | cons a l ih => rw [List.map_cons, faceCount_cons_aux, ih]; rfl
    have hn : ∀ l : List (V3 α), faceCount (l.map (Line.vn (τ := Corner))) = 0 := by
      intro l; induction l with
      | nil => rfl
      | cons a l ih => rw [List.map_cons, faceCount_cons_aux, ih]; rfl
    have ht : ∀ l : List (V2 α), faceCount (l.map (Line.vt (τ := Corner))) = 0 := by
      intro l; induction l with
      | nil => rfl
      | cons a l ih => rw [List.map_cons, faceCount_cons_aux, ih]; rfl
    simp [dataLines, meshData, faceCount_append_aux, hv, hn, ht, faceCount_dataLines_aux ms]

theorem faceCount_header_aux (f : String) : faceCount (headerLines (α := α) f) = 0 := by
  unfold headerLines; split <;> rfl

/-- **Load → save keeps every face.**  For every input the reader accepts (any arrangement of `g`,
    `usemtl`, data and face lines, any corner tokens, faces before any `g`, repeated or empty material
    ranges, …), saving what was read succeeds (no panic) and the saved text has exactly as many `f`
    lines as the input: no face lost, none invented. -/
theorem obj_resave_faces [DecidableEq τ] (pc : τ → Except Err Corner) {ls : List (Line τ α)}
    {gs : List (Group τ α)} {libs : List String} (h : readObj pc ls = .ok (gs, libs)) (matFile : String) :
    ∃ out, writeObj matFile (gs.map toMesh) = .ok out ∧ faceCount out = faceCount ls := by
  obtain ⟨hok, hsum⟩ := readObj_ranges_sum pc h
  obtain ⟨body, hb, hc⟩ := writeGroups_ok_aux (decide ((gs.map toMesh).length > 1)) gs 0 0 0 (fun g hg => (hok g hg).2)
  refine ⟨headerLines matFile ++ dataLines (gs.map toMesh) ++ body, by simp only [writeObj, hb], ?_⟩
  rw [faceCount_append_aux, faceCount_append_aux, faceCount_header_aux, faceCount_dataLines_aux, hc, hsum]
  omega

end resave

/-! ### the pinned defect: one shared offset for v / vt / vn -/

section shared

/-- write, then read the lines back (corner tokens are the corners themselves) -/
def thenRead {α : Type} (w : Except Err (List (Line Corner α))) : Except Err (List (String × Mesh α) × List String) :=
  match w with
  | .error e => .error e
  | .ok ls => match readObj (fun c => .ok c) ls with
    | .error e => .error e
    | .ok (gs, libs) => .ok (gs.map toMesh, libs)

/-- a mesh without normals followed by a mesh with normals (one triangle each; payload `Nat`) -/
def mixedWitness : List (String × Mesh Nat) :=
  [("A", ⟨[0, 1, 2], some [⟨0, 0, 0⟩, ⟨1, 0, 0⟩, ⟨0, 1, 0⟩], none, none, []⟩),
   ("B", ⟨[0, 2, 1], some [⟨5, 0, 0⟩, ⟨6, 0, 0⟩, ⟨5, 1, 0⟩], none, some [⟨7, 7, 1⟩, ⟨8, 8, 1⟩, ⟨9, 9, 1⟩], []⟩)]

/-- **A single shared offset is wrong for mixed attribute sets** (the defect the tree was pinned with):
    on `mixedWitness` the shared-offset writer emits `f 4//4 6//6 5//5` although only three `vn` lines
    exist, and reading its output panics; the writer with separate offsets round-trips the same scene. -/
theorem obj_shared_offset_breaks :
    (match thenRead (writeObjShared "" mixedWitness) with | .error .panic => true | _ => false) = true ∧
    (match thenRead (writeObj "" mixedWitness) with
     | .ok (gs, _) => RoundTrips id mixedWitness gs
     | .error _ => false) = true := by
  constructor <;> decide

end shared

end C05
end PolyVerif
