/-
  C05 — OBJ write/read round trip.  Theorems about `PolyVerif.Model.Obj`.
-/
import PolyVerif.Model.Obj

namespace PolyVerif
namespace C05
open Obj

end C05
end PolyVerif
