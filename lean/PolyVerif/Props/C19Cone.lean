/-
  C19, rounded cone — `Gen.sdf.RoundedCone` (regenerated from /repo/math/sdf/rounded_cone.go on every run) at ℝ.

  ALL parameters.  The sign, zero-set, Lipschitz and exact-distance theorems named `…_all` hold for every
  `a b r1 r2` (including `a = b`, nested balls, negative radii: an empty ball changes nothing).  The source has two
  regimes, separated exactly by the guard

      hg : |r1 − r2| < a.Distance b          (the radii differ by less than the axis length; ⇔ `a2 > 0`, `Cone.a2_nonpos_iff`)

  * under the guard the closure is Quilez' three-branch formula: `roundedCone_profile` (2-D profile of cylindrical
    coordinates) and the `…_profile` sign/zero forms need `hg`;
  * otherwise one ball contains the other (or touches it from inside) and the source returns the larger ball's sphere
    field: `roundedCone_nested`, `roundedCone_same_centre`.
  In BOTH regimes the field is the MINIMUM over `t ∈ [0, 1]` of `|p − (a + t(b − a))| − (r1 + t(r2 − r1))`
  (`roundedCone_isLeast_all`), from which everything else follows: a minimum of 1-Lipschitz functions of `p` is
  1-Lipschitz, and it is negative exactly when some member is.

  History.  The early return for nested balls was added to /repo (commit b302544) after this proof found that the bare
  formula is wrong outside the guard: `a2 = l2 − rr² ≤ 0`, the side branch takes the square root of a non-positive
  number, and the sign is wrong — `roundedCone_guard_needed`, `roundedCone_guard_sharp` are closed witnesses about
  `coneFormulaOld`, a local copy of the closure body without the early return.

  Branch tests.  The two tests of the source, `sign(z)·a2·z2 > k` and `sign(y)·a2·y2 < k`, are equivalent — exactly,
  with no boundary case lost, because `x ↦ sign x · x²` is strictly increasing — to `ℓ > c·L` and `ℓ < 0` for the
  single affine functional `ℓ = c·h − s·ρ` of the cylindrical coordinates (`Cone.test1_iff`, `Cone.test2_iff`).
  On the two boundary lines `ℓ = 0`, `ℓ = c·L` the source takes the slanted-side formula; the adjacent cap formula
  has the same value there (`coneProfile_boundary_a`, `coneProfile_boundary_b`), so the profile is continuous.
-/
import PolyVerif.Model.SdfVarLine
import PolyVerif.Props.C19
import PolyVerif.Lemmas.RoundedCone
import Mathlib.Analysis.Convex.Join
import Mathlib.Analysis.Normed.Module.Convex

namespace PolyVerif
namespace C19
open Gen Gen.sdf

/-! ### rounded cone: cylindrical coordinates and the 2-D profile -/

/-- axial coordinate `h = (p − a)·u`, `u = (b − a)/|b − a|` -/
noncomputable def coneH (a b p : P3) : ℝ := (p.Sub a).Dot (b.Sub a) / a.Distance b

/-- distance from the axis, `ρ = √(|p − a|² − h²)` -/
noncomputable def coneRho (a b p : P3) : ℝ := Real.sqrt ((p.Sub a).Dot (p.Sub a) - coneH a b p ^ 2)

/-- `s = (r1 − r2)/L`: sine of the half opening angle -/
noncomputable def coneS (a b : P3) (r1 r2 : ℝ) : ℝ := (r1 - r2) / a.Distance b

/-- `c = √(1 − s²)`: cosine of the half opening angle -/
noncomputable def coneC (a b : P3) (r1 r2 : ℝ) : ℝ := Real.sqrt (1 - coneS a b r1 r2 ^ 2)

/-- `ℓ = c·h − s·ρ`: the affine functional whose level lines `ℓ = 0`, `ℓ = c·L` separate the three regions -/
noncomputable def coneEll (a b : P3) (r1 r2 : ℝ) (p : P3) : ℝ :=
  coneC a b r1 r2 * coneH a b p - coneS a b r1 r2 * coneRho a b p

/-- the 2-D profile: sphere cap at `b`, sphere cap at `a`, slanted side -/
noncomputable def coneProfile (L r1 r2 h ρ : ℝ) : ℝ :=
  let s := (r1 - r2) / L
  let c := Real.sqrt (1 - s ^ 2)
  let ℓ := c * h - s * ρ
  if c * L < ℓ then Real.sqrt ((h - L) ^ 2 + ρ ^ 2) - r2
  else if ℓ < 0 then Real.sqrt (h ^ 2 + ρ ^ 2) - r1
  else ρ * c + h * s - r1

theorem coneRho_nonneg (a b p : P3) : 0 ≤ coneRho a b p := Real.sqrt_nonneg _

/-- `ρ² = |p − a|² − h²` (Cauchy–Schwarz makes the radicand non-negative) -/
theorem coneRho_sq (a b p : P3) (hab : a ≠ b) :
    coneRho a b p ^ 2 = (p.Sub a).Dot (p.Sub a) - coneH a b p ^ 2 :=
  Cone.radial_sq a b p (lt_of_le_of_ne (V3.distance_nonneg a b) (fun h => hab (V3.distance_eq_zero.mp h.symm)))

/-- `ρ` is the distance from `p` to the foot of the perpendicular on the axis line -/
theorem coneRho_eq_distance (a b p : P3) (hab : a ≠ b) :
    coneRho a b p = p.Distance (segPoint a b (coneH a b p / a.Distance b)) := by
  have hL : 0 < a.Distance b :=
    lt_of_le_of_ne (V3.distance_nonneg a b) (fun h => hab (V3.distance_eq_zero.mp h.symm))
  have := Cone.distance_axis_point a b p hL (coneH a b p / a.Distance b)
  rw [segPoint, this]
  have e : Cone.axial a b p - coneH a b p / a.Distance b * a.Distance b = 0 := by
    show coneH a b p - _ = 0; field_simp; ring
  rw [e]; simp only [ne_eq, OfNat.ofNat_ne_zero, not_false_eq_true, zero_pow, zero_add]
  exact (Real.sqrt_sq (Cone.radial_nonneg a b p)).symm

theorem cone_guard_ne {a b : P3} {r1 r2 : ℝ} (hg : |r1 - r2| < a.Distance b) : a ≠ b := by
  rintro rfl
  have : (a.Distance a) = 0 := V3.distance_eq_zero.mpr rfl
  rw [this] at hg
  exact absurd hg (not_lt.mpr (abs_nonneg _))

theorem cone_guard_facts {a b : P3} {r1 r2 : ℝ} (hg : |r1 - r2| < a.Distance b) :
    0 < a.Distance b ∧ 0 < coneC a b r1 r2 ∧ coneS a b r1 r2 ^ 2 + coneC a b r1 r2 ^ 2 = 1 ∧
      r1 - coneS a b r1 r2 * a.Distance b = r2 := by
  obtain ⟨hL, hc, hsc, hrr⟩ := Cone.guard_facts hg
  exact ⟨hL, hc, hsc, by unfold coneS; linarith⟩

/-- (1) the generated closure IS the 2-D profile of the cylindrical coordinates of `p` -/
theorem roundedCone_profile (a b : P3) (r1 r2 : ℝ) (hg : |r1 - r2| < a.Distance b) (p : P3) :
    RoundedCone a b r1 r2 p = coneProfile (a.Distance b) r1 r2 (coneH a b p) (coneRho a b p) :=
  Cone.roundedCone_eq_prof a b r1 r2 hg p

/-- the same, with the three regions written through `ℓ`, `s`, `c` -/
theorem roundedCone_profile' (a b : P3) (r1 r2 : ℝ) (hg : |r1 - r2| < a.Distance b) (p : P3) :
    RoundedCone a b r1 r2 p =
      if coneC a b r1 r2 * a.Distance b < coneEll a b r1 r2 p then
        Real.sqrt ((coneH a b p - a.Distance b) ^ 2 + coneRho a b p ^ 2) - r2
      else if coneEll a b r1 r2 p < 0 then Real.sqrt (coneH a b p ^ 2 + coneRho a b p ^ 2) - r1
      else coneRho a b p * coneC a b r1 r2 + coneH a b p * coneS a b r1 r2 - r1 :=
  Cone.roundedCone_eq_prof a b r1 r2 hg p

/-- on the boundary line `ℓ = 0` the cap-at-`a` formula and the side formula agree -/
theorem coneProfile_boundary_a {s c h ρ : ℝ} (hsc : s ^ 2 + c ^ 2 = 1) (hc : 0 < c) (hρ : 0 ≤ ρ)
    (hl : c * h - s * ρ = 0) : Real.sqrt (h ^ 2 + ρ ^ 2) = ρ * c + h * s := by
  have hm : 0 ≤ ρ * c + h * s := by
    have : c * (ρ * c + h * s) = ρ := by linear_combination s * hl + ρ * hsc
    by_contra hneg
    have := mul_neg_of_pos_of_neg hc (not_le.mp hneg)
    linarith
  have e : h ^ 2 + ρ ^ 2 = (ρ * c + h * s) ^ 2 := by
    linear_combination (c * h - s * ρ) * hl - (h ^ 2 + ρ ^ 2) * hsc
  rw [e, Real.sqrt_sq hm]

/-- on the boundary line `ℓ = c·L` the cap-at-`b` formula and the side formula agree (`r2 = r1 − s·L`) -/
theorem coneProfile_boundary_b {L s c r1 r2 h ρ : ℝ} (hsc : s ^ 2 + c ^ 2 = 1) (hc : 0 < c) (hρ : 0 ≤ ρ)
    (hr : r1 - s * L = r2) (hl : c * h - s * ρ = c * L) :
    Real.sqrt ((h - L) ^ 2 + ρ ^ 2) - r2 = ρ * c + h * s - r1 := by
  rw [coneProfile_boundary_a hsc hc hρ (h := h - L) (by linarith)]
  linarith

/-! ### rounded cone, ALL parameters: the field is the least gap to the balls along the axis -/

/-- lower bound: for every `t ∈ [0, 1]` the field is at most the signed gap to the ball centred at
    `a + t(b − a)` with the linearly interpolated radius `r1 + t(r2 − r1)` -/
theorem roundedCone_le_ball_all (a b : P3) (r1 r2 : ℝ) (p : P3)
    (t : ℝ) (h0 : 0 ≤ t) (h1 : t ≤ 1) :
    RoundedCone a b r1 r2 p ≤ p.Distance (segPoint a b t) - (r1 + t * (r2 - r1)) :=
  Cone.roundedCone_le_ball a b r1 r2 p h0 h1

/-- … and the bound is attained -/
theorem roundedCone_attained_all (a b : P3) (r1 r2 : ℝ) (p : P3) :
    ∃ t, 0 ≤ t ∧ t ≤ 1 ∧ RoundedCone a b r1 r2 p = p.Distance (segPoint a b t) - (r1 + t * (r2 - r1)) :=
  Cone.roundedCone_attained a b r1 r2 p

/-- the field is the minimum over the family of balls -/
theorem roundedCone_isLeast_all (a b : P3) (r1 r2 : ℝ) (p : P3) :
    IsLeast {d | ∃ t, 0 ≤ t ∧ t ≤ 1 ∧ d = p.Distance (segPoint a b t) - (r1 + t * (r2 - r1))}
      (RoundedCone a b r1 r2 p) := by
  constructor
  · obtain ⟨t, h0, h1, h⟩ := roundedCone_attained_all a b r1 r2 p
    exact ⟨t, h0, h1, h⟩
  · rintro d ⟨t, h0, h1, rfl⟩
    exact roundedCone_le_ball_all a b r1 r2 p t h0 h1

/-! ### rounded cone: 1-Lipschitz -/

/-- (2) the rounded cone is 1-Lipschitz -/
theorem roundedCone_lipschitz_all (a b : P3) (r1 r2 : ℝ) :
    Lipschitz1 (RoundedCone a b r1 r2) := by
  intro p q
  obtain ⟨tp, hp0, hp1, hp⟩ := roundedCone_attained_all a b r1 r2 p
  obtain ⟨tq, hq0, hq1, hq⟩ := roundedCone_attained_all a b r1 r2 q
  have lp := roundedCone_le_ball_all a b r1 r2 p tq hq0 hq1
  have lq := roundedCone_le_ball_all a b r1 r2 q tp hp0 hp1
  have t1 := V3.distance_triangle p q (segPoint a b tq)
  have t2 := V3.distance_triangle q p (segPoint a b tp)
  rw [V3.distance_comm q p] at t2
  rw [abs_le]; constructor <;> linarith

/-- exact-distance lower bound: no surface point is closer to `p` than `|f p|` -/
theorem roundedCone_exact_le_all (a b : P3) (r1 r2 : ℝ) (p s : P3)
    (hs : RoundedCone a b r1 r2 s = 0) : |RoundedCone a b r1 r2 p| ≤ p.Distance s :=
  lipschitz_zero_bound (roundedCone_lipschitz_all a b r1 r2) p s hs

/-- exact distance, attained, OUTSIDE or ON the shape (radii ≥ 0): the radial projection of `p` onto the nearest ball of
    the family is a surface point at distance exactly `f p`; with `roundedCone_exact_le`, `f p` IS the distance from
    `p` to the surface there -/
theorem roundedCone_exact_attained_outside_all (a b : P3) (r1 r2 : ℝ)
    (hr1 : 0 ≤ r1) (hr2 : 0 ≤ r2) (p : P3) (hp : 0 ≤ RoundedCone a b r1 r2 p) :
    ∃ s : P3, RoundedCone a b r1 r2 s = 0 ∧ p.Distance s = RoundedCone a b r1 r2 p := by
  obtain ⟨t, h0, h1, ht⟩ := roundedCone_attained_all a b r1 r2 p
  set c := segPoint a b t with hc
  set r := r1 + t * (r2 - r1) with hr
  have hr0 : 0 ≤ r := by
    have : r = (1 - t) * r1 + t * r2 := by rw [hr]; ring
    rw [this]; exact add_nonneg (mul_nonneg (sub_nonneg.mpr h1) hr1) (mul_nonneg h0 hr2)
  set d := p.Distance c with hd
  have hd0 : 0 ≤ d := V3.distance_nonneg _ _
  rcases hd0.lt_or_eq with hdpos | hdz
  · refine ⟨c.Add ((p.Sub c).Scale (r / d)), ?_, ?_⟩
    · have dist_p : p.Distance (c.Add ((p.Sub c).Scale (r / d))) = d - r := by
        rw [← dist_toE, toE_add, toE_scale, toE_sub]
        have : toE p - (toE c + (r / d) • (toE p - toE c)) = (1 - r / d) • (toE p - toE c) := by module
        rw [this, norm_smul, dist_toE, ← hd, Real.norm_eq_abs, abs_of_nonneg]
        · field_simp
        · rw [sub_nonneg, div_le_one hdpos]; linarith
      have dist_c : (c.Add ((p.Sub c).Scale (r / d))).Distance c = r := by
        rw [← dist_toE, toE_add, toE_scale, toE_sub, add_sub_cancel_left, norm_smul, dist_toE, ← hd,
          Real.norm_eq_abs, abs_of_nonneg (div_nonneg hr0 hdpos.le)]
        field_simp
      have up := roundedCone_le_ball_all a b r1 r2 (c.Add ((p.Sub c).Scale (r / d))) t h0 h1
      rw [← hc, ← hr, dist_c] at up
      have lo := roundedCone_lipschitz_all a b r1 r2 p (c.Add ((p.Sub c).Scale (r / d)))
      rw [dist_p] at lo
      have := (abs_le.mp lo).2
      linarith
    · rw [ht, ← dist_toE, toE_add, toE_scale, toE_sub]
      have : toE p - (toE c + (r / d) • (toE p - toE c)) = (1 - r / d) • (toE p - toE c) := by module
      rw [this, norm_smul, dist_toE, ← hd, Real.norm_eq_abs, abs_of_nonneg]
      · field_simp
      · rw [sub_nonneg, div_le_one hdpos]; linarith
  · refine ⟨p, ?_, ?_⟩
    · rw [ht, ← hdz]; linarith
    · have : p.Distance p = 0 := V3.distance_eq_zero.mpr rfl
      rw [this, ht, ← hdz]; linarith

/-! ### rounded cone: sign and zero set -/

/-- (3) negative exactly inside the union of the open balls `B(a + t(b − a), r1 + t(r2 − r1))`, `t ∈ [0, 1]` -/
theorem roundedCone_neg_iff_all (a b : P3) (r1 r2 : ℝ) (p : P3) :
    RoundedCone a b r1 r2 p < 0 ↔
      ∃ t, 0 ≤ t ∧ t ≤ 1 ∧ p.Distance (segPoint a b t) < r1 + t * (r2 - r1) := by
  constructor
  · intro h
    obtain ⟨t, h0, h1, ht⟩ := roundedCone_attained_all a b r1 r2 p
    exact ⟨t, h0, h1, by linarith⟩
  · rintro ⟨t, h0, h1, ht⟩
    have := roundedCone_le_ball_all a b r1 r2 p t h0 h1
    linarith

/-- zero exactly on the boundary of that union: some ball of the family has `p` on its sphere and none has `p` inside -/
theorem roundedCone_zero_iff_all (a b : P3) (r1 r2 : ℝ) (p : P3) :
    RoundedCone a b r1 r2 p = 0 ↔
      ∃ t, 0 ≤ t ∧ t ≤ 1 ∧ p.Distance (segPoint a b t) = r1 + t * (r2 - r1) ∧
        ∀ t', 0 ≤ t' → t' ≤ 1 → r1 + t' * (r2 - r1) ≤ p.Distance (segPoint a b t') := by
  constructor
  · intro h
    obtain ⟨t, h0, h1, ht⟩ := roundedCone_attained_all a b r1 r2 p
    refine ⟨t, h0, h1, by linarith, ?_⟩
    intro t' h0' h1'
    have := roundedCone_le_ball_all a b r1 r2 p t' h0' h1'
    linarith
  · rintro ⟨t, h0, h1, ht, hmin⟩
    have h2 := roundedCone_le_ball_all a b r1 r2 p t h0 h1
    obtain ⟨t', h0', h1', ht'⟩ := roundedCone_attained_all a b r1 r2 p
    have h3 := hmin t' h0' h1'
    linarith

/-- positive exactly strictly outside every closed ball of the family -/
theorem roundedCone_pos_iff_all (a b : P3) (r1 r2 : ℝ) (p : P3) :
    0 < RoundedCone a b r1 r2 p ↔
      ∀ t, 0 ≤ t → t ≤ 1 → r1 + t * (r2 - r1) < p.Distance (segPoint a b t) := by
  constructor
  · intro h t h0 h1
    have := roundedCone_le_ball_all a b r1 r2 p t h0 h1
    linarith
  · intro h
    obtain ⟨t, h0, h1, ht⟩ := roundedCone_attained_all a b r1 r2 p
    have := h t h0 h1
    linarith

/-! ### the same under the guard (corollaries, kept under their original names) -/

theorem roundedCone_le_ball (a b : P3) (r1 r2 : ℝ) (_hg : |r1 - r2| < a.Distance b) (p : P3)
    (t : ℝ) (h0 : 0 ≤ t) (h1 : t ≤ 1) :
    RoundedCone a b r1 r2 p ≤ p.Distance (segPoint a b t) - (r1 + t * (r2 - r1)) :=
  roundedCone_le_ball_all a b r1 r2 p t h0 h1

theorem roundedCone_attained (a b : P3) (r1 r2 : ℝ) (_hg : |r1 - r2| < a.Distance b) (p : P3) :
    ∃ t, 0 ≤ t ∧ t ≤ 1 ∧ RoundedCone a b r1 r2 p = p.Distance (segPoint a b t) - (r1 + t * (r2 - r1)) :=
  roundedCone_attained_all a b r1 r2 p

theorem roundedCone_isLeast (a b : P3) (r1 r2 : ℝ) (_hg : |r1 - r2| < a.Distance b) (p : P3) :
    IsLeast {d | ∃ t, 0 ≤ t ∧ t ≤ 1 ∧ d = p.Distance (segPoint a b t) - (r1 + t * (r2 - r1))}
      (RoundedCone a b r1 r2 p) :=
  roundedCone_isLeast_all a b r1 r2 p

/-- (2) the rounded cone is 1-Lipschitz -/
theorem roundedCone_lipschitz (a b : P3) (r1 r2 : ℝ) (_hg : |r1 - r2| < a.Distance b) :
    Lipschitz1 (RoundedCone a b r1 r2) :=
  roundedCone_lipschitz_all a b r1 r2

theorem roundedCone_exact_le (a b : P3) (r1 r2 : ℝ) (_hg : |r1 - r2| < a.Distance b) (p s : P3)
    (hs : RoundedCone a b r1 r2 s = 0) : |RoundedCone a b r1 r2 p| ≤ p.Distance s :=
  roundedCone_exact_le_all a b r1 r2 p s hs

theorem roundedCone_exact_attained_outside (a b : P3) (r1 r2 : ℝ) (_hg : |r1 - r2| < a.Distance b)
    (hr1 : 0 ≤ r1) (hr2 : 0 ≤ r2) (p : P3) (hp : 0 ≤ RoundedCone a b r1 r2 p) :
    ∃ s : P3, RoundedCone a b r1 r2 s = 0 ∧ p.Distance s = RoundedCone a b r1 r2 p :=
  roundedCone_exact_attained_outside_all a b r1 r2 hr1 hr2 p hp

/-- (3) negative exactly inside the union of the open balls `B(a + t(b − a), r1 + t(r2 − r1))`, `t ∈ [0, 1]` -/
theorem roundedCone_neg_iff (a b : P3) (r1 r2 : ℝ) (_hg : |r1 - r2| < a.Distance b) (p : P3) :
    RoundedCone a b r1 r2 p < 0 ↔
      ∃ t, 0 ≤ t ∧ t ≤ 1 ∧ p.Distance (segPoint a b t) < r1 + t * (r2 - r1) :=
  roundedCone_neg_iff_all a b r1 r2 p

theorem roundedCone_zero_iff (a b : P3) (r1 r2 : ℝ) (_hg : |r1 - r2| < a.Distance b) (p : P3) :
    RoundedCone a b r1 r2 p = 0 ↔
      ∃ t, 0 ≤ t ∧ t ≤ 1 ∧ p.Distance (segPoint a b t) = r1 + t * (r2 - r1) ∧
        ∀ t', 0 ≤ t' → t' ≤ 1 → r1 + t' * (r2 - r1) ≤ p.Distance (segPoint a b t') :=
  roundedCone_zero_iff_all a b r1 r2 p

theorem roundedCone_pos_iff (a b : P3) (r1 r2 : ℝ) (_hg : |r1 - r2| < a.Distance b) (p : P3) :
    0 < RoundedCone a b r1 r2 p ↔
      ∀ t, 0 ≤ t → t ≤ 1 → r1 + t * (r2 - r1) < p.Distance (segPoint a b t) :=
  roundedCone_pos_iff_all a b r1 r2 p

/-! ### rounded cone under the guard: sign and zero set in profile coordinates -/

/-- sign in profile coordinates: inside the cap at `a`, below the slanted side, or inside the cap at `b` -/
theorem roundedCone_neg_iff_profile (a b : P3) (r1 r2 : ℝ) (hg : |r1 - r2| < a.Distance b) (p : P3) :
    RoundedCone a b r1 r2 p < 0 ↔
      (coneEll a b r1 r2 p < 0 ∧ Real.sqrt (coneH a b p ^ 2 + coneRho a b p ^ 2) < r1) ∨
      (0 ≤ coneEll a b r1 r2 p ∧ coneEll a b r1 r2 p ≤ coneC a b r1 r2 * a.Distance b ∧
        coneRho a b p * coneC a b r1 r2 + coneH a b p * coneS a b r1 r2 < r1) ∨
      (coneC a b r1 r2 * a.Distance b < coneEll a b r1 r2 p ∧
        Real.sqrt ((coneH a b p - a.Distance b) ^ 2 + coneRho a b p ^ 2) < r2) := by
  obtain ⟨hL, hc, -, -⟩ := cone_guard_facts hg
  have hcL := mul_pos hc hL
  rw [roundedCone_profile' a b r1 r2 hg]
  split_ifs with c1 c2
  · constructor
    · intro h; exact Or.inr (Or.inr ⟨c1, by linarith⟩)
    · rintro (⟨h, -⟩ | ⟨-, h, -⟩ | ⟨-, h⟩) <;> linarith
  · constructor
    · intro h; exact Or.inl ⟨c2, by linarith⟩
    · rintro (⟨-, h⟩ | ⟨h, -, -⟩ | ⟨h, -⟩) <;> linarith
  · constructor
    · intro h; exact Or.inr (Or.inl ⟨not_lt.mp c2, not_lt.mp c1, by linarith⟩)
    · rintro (⟨h, -⟩ | ⟨-, -, h⟩ | ⟨h, -⟩)
      · exact absurd h c2
      · linarith
      · exact absurd h c1

/-- zero set in profile coordinates: on the sphere about `a`, on the slanted line, or on the sphere about `b`,
    each within its own region -/
theorem roundedCone_zero_iff_profile (a b : P3) (r1 r2 : ℝ) (hg : |r1 - r2| < a.Distance b) (p : P3) :
    RoundedCone a b r1 r2 p = 0 ↔
      (coneEll a b r1 r2 p < 0 ∧ Real.sqrt (coneH a b p ^ 2 + coneRho a b p ^ 2) = r1) ∨
      (0 ≤ coneEll a b r1 r2 p ∧ coneEll a b r1 r2 p ≤ coneC a b r1 r2 * a.Distance b ∧
        coneRho a b p * coneC a b r1 r2 + coneH a b p * coneS a b r1 r2 = r1) ∨
      (coneC a b r1 r2 * a.Distance b < coneEll a b r1 r2 p ∧
        Real.sqrt ((coneH a b p - a.Distance b) ^ 2 + coneRho a b p ^ 2) = r2) := by
  obtain ⟨hL, hc, -, -⟩ := cone_guard_facts hg
  have hcL := mul_pos hc hL
  rw [roundedCone_profile' a b r1 r2 hg]
  split_ifs with c1 c2
  · constructor
    · intro h; exact Or.inr (Or.inr ⟨c1, by linarith⟩)
    · rintro (⟨h, -⟩ | ⟨-, h, -⟩ | ⟨-, h⟩) <;> linarith
  · constructor
    · intro h; exact Or.inl ⟨c2, by linarith⟩
    · rintro (⟨-, h⟩ | ⟨h, -, -⟩ | ⟨h, -⟩) <;> linarith
  · constructor
    · intro h; exact Or.inr (Or.inl ⟨not_lt.mp c2, not_lt.mp c1, by linarith⟩)
    · rintro (⟨h, -⟩ | ⟨-, -, h⟩ | ⟨h, -⟩)
      · exact absurd h c2
      · linarith
      · exact absurd h c1

/-! ### rounded cone: the negative set is the convex hull of the two open balls -/

theorem toE_segPoint (a b : P3) (t : ℝ) : toE (segPoint a b t) = toE a + t • (toE b - toE a) := by
  rw [segPoint, toE_add, toE_scale, toE_sub]

/-- the union of the interpolated open balls along the axis is the convex hull of the two end balls -/
theorem balls_union_eq_convexHull (a b : P3) (r1 r2 : ℝ) (hr1 : 0 < r1) (hr2 : 0 < r2) (p : P3) :
    (∃ t, 0 ≤ t ∧ t ≤ 1 ∧ p.Distance (segPoint a b t) < r1 + t * (r2 - r1)) ↔
      toE p ∈ convexHull ℝ (Metric.ball (toE a) r1 ∪ Metric.ball (toE b) r2) := by
  rw [convexHull_union ⟨toE a, Metric.mem_ball_self hr1⟩ ⟨toE b, Metric.mem_ball_self hr2⟩,
    (convex_ball _ _).convexHull_eq, (convex_ball _ _).convexHull_eq, mem_convexJoin]
  constructor
  · rintro ⟨t, h0, h1, ht⟩
    rw [← dist_toE, toE_segPoint] at ht
    set r := r1 + t * (r2 - r1) with hr
    have hrpos : 0 < r := by
      have : r = (1 - t) * r1 + t * r2 := by rw [hr]; ring
      rw [this]
      rcases h0.lt_or_eq with h | h
      · have := mul_pos h hr2; have := mul_nonneg (sub_nonneg.mpr h1) hr1.le; linarith
      · subst h; simpa using hr1
    set v := toE p - (toE a + t • (toE b - toE a)) with hv
    have hball : ∀ (c : E3) (ρ : ℝ), 0 < ρ → c + (ρ / r) • v ∈ Metric.ball c ρ := by
      intro c ρ hρ
      rw [Metric.mem_ball, dist_eq_norm, add_sub_cancel_left, norm_smul, Real.norm_eq_abs,
        abs_of_pos (div_pos hρ hrpos), div_mul_eq_mul_div, div_lt_iff₀ hrpos]
      exact mul_lt_mul_of_pos_left ht hρ
    refine ⟨toE a + (r1 / r) • v, hball _ _ hr1, toE b + (r2 / r) • v, hball _ _ hr2, ?_⟩
    refine ⟨1 - t, t, sub_nonneg.mpr h1, h0, by ring, ?_⟩
    have hcoef : (1 - t) * (r1 / r) + t * (r2 / r) = 1 := by
      have e1 : (1 - t) * (r1 / r) + t * (r2 / r) = ((1 - t) * r1 + t * r2) / r := by ring
      have e2 : (1 - t) * r1 + t * r2 = r := by rw [hr]; ring
      rw [e1, e2, div_self hrpos.ne']
    calc (1 - t) • (toE a + (r1 / r) • v) + t • (toE b + (r2 / r) • v)
        = (toE a + t • (toE b - toE a)) + ((1 - t) * (r1 / r) + t * (r2 / r)) • v := by module
      _ = toE p := by rw [hcoef, one_smul, hv]; abel
  · rintro ⟨x, hx, y, hy, α, β, hα, hβ, hαβ, hp⟩
    rw [Metric.mem_ball, dist_eq_norm] at hx hy
    have hβ1 : β ≤ 1 := by linarith
    refine ⟨β, hβ, hβ1, ?_⟩
    rw [← dist_toE, toE_segPoint, ← hp]
    have e : α • x + β • y - (toE a + β • (toE b - toE a)) = α • (x - toE a) + β • (y - toE b) := by
      have : α = 1 - β := by linarith
      rw [this]; module
    rw [e]
    have n1 : ‖α • (x - toE a)‖ = α * ‖x - toE a‖ := by rw [norm_smul, Real.norm_eq_abs, abs_of_nonneg hα]
    have n2 : ‖β • (y - toE b)‖ = β * ‖y - toE b‖ := by rw [norm_smul, Real.norm_eq_abs, abs_of_nonneg hβ]
    have tri := norm_add_le (α • (x - toE a)) (β • (y - toE b))
    rw [n1, n2] at tri
    have hsum : α * ‖x - toE a‖ + β * ‖y - toE b‖ < α * r1 + β * r2 := by
      rcases hα.lt_or_eq with h | h
      · have := mul_lt_mul_of_pos_left hx h
        have := mul_le_mul_of_nonneg_left hy.le hβ
        linarith
      · have hb : β = 1 := by linarith
        rw [← h, hb]; linarith
    have : α * r1 + β * r2 = r1 + β * (r2 - r1) := by
      have : α = 1 - β := by linarith
      rw [this]; ring
    linarith

/-- (3') ALL parameters with positive radii: negative exactly inside the convex hull of the two open balls
    `B(a, r1)`, `B(b, r2)` (= the interior of the convex hull of the two closed balls) -/
theorem roundedCone_neg_iff_convexHull_all (a b : P3) (r1 r2 : ℝ) (hr1 : 0 < r1) (hr2 : 0 < r2) (p : P3) :
    RoundedCone a b r1 r2 p < 0 ↔
      toE p ∈ convexHull ℝ (Metric.ball (toE a) r1 ∪ Metric.ball (toE b) r2) := by
  rw [roundedCone_neg_iff_all a b r1 r2, balls_union_eq_convexHull a b r1 r2 hr1 hr2]

theorem roundedCone_neg_iff_convexHull (a b : P3) (r1 r2 : ℝ) (_hg : |r1 - r2| < a.Distance b)
    (hr1 : 0 < r1) (hr2 : 0 < r2) (p : P3) :
    RoundedCone a b r1 r2 p < 0 ↔
      toE p ∈ convexHull ℝ (Metric.ball (toE a) r1 ∪ Metric.ball (toE b) r2) :=
  roundedCone_neg_iff_convexHull_all a b r1 r2 hr1 hr2 p

/-! ### nested or internally tangent balls (the complement of the guard) -/

/-- the early return of the source: when one ball contains the other (or touches it from inside; also `a = b`)
    the field is the larger ball's sphere field -/
theorem roundedCone_nested (a b : P3) (r1 r2 : ℝ) (hg : ¬ |r1 - r2| < a.Distance b) :
    RoundedCone a b r1 r2 = if r2 ≤ r1 then Sphere a r1 else Sphere b r2 :=
  Cone.roundedCone_nested a b r1 r2 hg

/-- nested case, sign: inside the larger ball -/
theorem roundedCone_nested_neg_iff (a b : P3) (r1 r2 : ℝ) (hg : ¬ |r1 - r2| < a.Distance b) (p : P3) :
    RoundedCone a b r1 r2 p < 0 ↔ if r2 ≤ r1 then p.Distance a < r1 else p.Distance b < r2 := by
  rw [roundedCone_nested a b r1 r2 hg]
  split_ifs <;> exact sphere_neg_iff _ _ _

/-- `a = b` is covered (it violates the guard): the larger of the two concentric balls -/
theorem roundedCone_same_centre (a : P3) (r1 r2 : ℝ) :
    RoundedCone a a r1 r2 = Sphere a (max r1 r2) := by
  have hg : ¬ |r1 - r2| < a.Distance a := by
    rw [V3.distance_eq_zero.mpr rfl]; exact not_lt.mpr (abs_nonneg _)
  rw [roundedCone_nested a a r1 r2 hg]
  split_ifs with h
  · rw [max_eq_left h]
  · rw [max_eq_right (not_le.mp h).le]

/-! ### the formula without the early return (the source before /repo commit b302544) is wrong outside the guard -/

/-- the closure body alone — what `RoundedCone` computed for ALL parameters before the nested-balls early return
    was added to the source (local copy for the two witnesses below; under the guard it is still the field) -/
noncomputable def coneFormulaOld (a b : P3) (r1 r2 : ℝ) (p : P3) : ℝ :=
  Cone.core ((b.Sub a).Dot (b.Sub a)) r1 r2 ((p.Sub a).Dot (b.Sub a))
    (Gen.sdf.dot2 (((p.Sub a).Scale ((b.Sub a).Dot (b.Sub a))).Sub ((b.Sub a).Scale ((p.Sub a).Dot (b.Sub a)))))

theorem roundedCone_eq_formulaOld (a b : P3) (r1 r2 : ℝ) (hg : |r1 - r2| < a.Distance b) (p : P3) :
    RoundedCone a b r1 r2 p = coneFormulaOld a b r1 r2 p :=
  Cone.roundedCone_eq_core a b r1 r2 hg p

/-- outside the guard (`r1 − r2 > |b − a|`: the ball about `b` lies inside the ball about `a`) the bare formula has
    the wrong sign: a point strictly inside the big ball gets a positive value (defect found by this proof, fixed in
    /repo by the early return) -/
theorem roundedCone_guard_needed :
    ∃ (a b : P3) (r1 r2 : ℝ) (p : P3), a ≠ b ∧ 0 < r2 ∧ r2 < r1 ∧ p.Distance a < r1 ∧ 0 < coneFormulaOld a b r1 r2 p := by
  refine ⟨⟨0, 0, 0⟩, ⟨1, 0, 0⟩, 3, 1, ⟨-(5 / 2), 0, 0⟩, ?_, by norm_num, by norm_num, ?_, ?_⟩
  · intro h; have := congrArg V3.x h; simp at this
  · simp only [V3.Distance, V3.DistanceSquared, RS.sqrt_eq]
    rw [show ((0 : ℝ) - -(5 / 2)) * (0 - -(5 / 2)) + (0 - 0) * (0 - 0) + (0 - 0) * (0 - 0) = (5 / 2) ^ 2 by norm_num,
      Real.sqrt_sq (by norm_num)]
    norm_num
  · have : coneFormulaOld (⟨0, 0, 0⟩ : P3) ⟨1, 0, 0⟩ 3 1 ⟨-(5 / 2), 0, 0⟩ = 5 / 2 := by
      simp only [coneFormulaOld, V3.Sub, V3.Dot, V3.Scale, Gen.sdf.dot2, Cone.core, Cone.sign_eq]
      norm_num
    rw [this]; norm_num

private theorem d01 : (⟨0, 0, 0⟩ : P3).Distance ⟨1, 0, 0⟩ = 1 := by
  simp [V3.Distance, V3.DistanceSquared]

private theorem dm30 : (⟨-3, 0, 0⟩ : P3).Distance ⟨0, 0, 0⟩ = 3 := by
  simp only [V3.Distance, V3.DistanceSquared, RS.sqrt_eq]
  rw [show ((0 : ℝ) - -3) * (0 - -3) + (0 - 0) * (0 - 0) + (0 - 0) * (0 - 0) = 3 ^ 2 by norm_num,
    Real.sqrt_sq (by norm_num)]

/-- the guard is sharp for the bare formula: with internally tangent balls (`r1 − r2 = |b − a|`, so `a2 = 0`) a point
    on the axis strictly outside both balls gets a negative value -/
theorem roundedCone_guard_sharp :
    ∃ (a b : P3) (r1 r2 : ℝ) (p : P3), |r1 - r2| = a.Distance b ∧ 0 < r2 ∧ r2 < r1 ∧
      r1 < p.Distance a ∧ r2 < p.Distance b ∧ coneFormulaOld a b r1 r2 p < 0 := by
  have d3 : (⟨-3, 0, 0⟩ : P3).Distance ⟨1, 0, 0⟩ = 4 := by
    simp only [V3.Distance, V3.DistanceSquared, RS.sqrt_eq]
    rw [show ((1 : ℝ) - -3) * (1 - -3) + (0 - 0) * (0 - 0) + (0 - 0) * (0 - 0) = 4 ^ 2 by norm_num,
      Real.sqrt_sq (by norm_num)]
  refine ⟨⟨0, 0, 0⟩, ⟨1, 0, 0⟩, 2, 1, ⟨-3, 0, 0⟩, by rw [d01]; norm_num, by norm_num, by norm_num,
    by rw [dm30]; norm_num, by rw [d3]; norm_num, ?_⟩
  have : coneFormulaOld (⟨0, 0, 0⟩ : P3) ⟨1, 0, 0⟩ 2 1 ⟨-3, 0, 0⟩ = -5 := by
    simp only [coneFormulaOld, V3.Sub, V3.Dot, V3.Scale, Gen.sdf.dot2, Cone.core, Cone.sign_eq]
    norm_num
  rw [this]; norm_num

/-- the regenerated (fixed) source at the second witness: `+1`, the true distance to the ball of radius 2 about `a` -/
example : RoundedCone (⟨0, 0, 0⟩ : P3) ⟨1, 0, 0⟩ 2 1 ⟨-3, 0, 0⟩ = 1 := by
  rw [roundedCone_nested _ _ _ _ (by rw [d01]; norm_num), if_pos (by norm_num), sphere_eq, dm30]; norm_num

/-! ### VarryingThicknessLine = Union of the rounded cones of consecutive line points -/

/-- line.go:22 `VarryingThicknessLine`: the cones of consecutive `(point, radius)` pairs, handed to `Union`.
    This is the model `SdfVarLine.cones` (hand transcription of the loop, run at Float by the driver and compared with
    the Go function by the `c19.varline` lines) at the scalar ℝ — see `varLineCones_eq_model`. -/
noncomputable def varLineCones (pts : List (P3 × ℝ)) : List Field :=
  (pts.zip pts.tail).map (fun se => RoundedCone se.1.1 se.2.1 se.1.2 se.2.2)

theorem varLineCones_eq_model (pts : List (P3 × ℝ)) : varLineCones pts = SdfVarLine.cones pts := rfl

theorem varLine_eq_model (pts : List (P3 × ℝ)) :
    SdfOps.Union (varLineCones pts) = SdfVarLine.VarryingThicknessLine pts := rfl

theorem varLine_lipschitz (pts : List (P3 × ℝ)) (u : Field) (h : SdfOps.Union (varLineCones pts) = some u) :
    Lipschitz1 u := by
  refine union_lipschitz _ u h ?_
  intro f hf
  obtain ⟨se, -, rfl⟩ := List.mem_map.mp hf
  exact roundedCone_lipschitz_all _ _ _ _

/-- negative exactly inside the union, over the consecutive pairs, of the balls along the segment with linearly
    interpolated radius — for ALL radii and points (repeated points included) -/
theorem varLine_neg_iff (pts : List (P3 × ℝ)) (u : Field) (h : SdfOps.Union (varLineCones pts) = some u) (p : P3) :
    u p < 0 ↔ ∃ se ∈ pts.zip pts.tail, ∃ t, 0 ≤ t ∧ t ≤ 1 ∧
      p.Distance (segPoint se.1.1 se.2.1 t) < se.1.2 + t * (se.2.2 - se.1.2) := by
  rw [union_neg_iff _ u h]
  constructor
  · rintro ⟨f, hf, hneg⟩
    obtain ⟨se, hse, rfl⟩ := List.mem_map.mp hf
    exact ⟨se, hse, (roundedCone_neg_iff_all _ _ _ _ p).mp hneg⟩
  · rintro ⟨se, hse, ht⟩
    exact ⟨_, List.mem_map.mpr ⟨se, hse, rfl⟩, (roundedCone_neg_iff_all _ _ _ _ p).mpr ht⟩

/-- at least two line points give a field (fewer: the source panics / `Union` of nothing is `none`) -/
theorem varLine_isSome (p0 p1 : P3 × ℝ) (rest : List (P3 × ℝ)) :
    SdfOps.Union (varLineCones (p0 :: p1 :: rest)) ≠ none := by
  rw [Ne, union_none_iff]; simp [varLineCones]

/-! ### non-vacuity: concrete instances of the guard, one surface point in each of the three regions -/

/-- `a = 0`, `b = (5, 0, 0)`, `r1 = 4`, `r2 = 1`: `s = 3/5`, `c = 4/5` -/
theorem cone_example_guard : |(4 : ℝ) - 1| < (⟨0, 0, 0⟩ : P3).Distance ⟨5, 0, 0⟩ := by
  simp only [V3.Distance, V3.DistanceSquared, RS.sqrt_eq]
  rw [show ((5 : ℝ) - 0) * (5 - 0) + (0 - 0) * (0 - 0) + (0 - 0) * (0 - 0) = 5 ^ 2 by norm_num,
    Real.sqrt_sq (by norm_num)]
  norm_num

example : |(4 : ℝ) - 1| < (⟨0, 0, 0⟩ : P3).Distance ⟨5, 0, 0⟩ := cone_example_guard
example : Lipschitz1 (RoundedCone (⟨0, 0, 0⟩ : P3) ⟨5, 0, 0⟩ 4 1) := roundedCone_lipschitz _ _ _ _ cone_example_guard

/-- slanted side: `(4, 2, 0)` is the point of the side above the axis point `τ = 5/2` -/
example : RoundedCone (⟨0, 0, 0⟩ : P3) ⟨5, 0, 0⟩ 4 1 ⟨4, 2, 0⟩ = 0 := by
  rw [Cone.roundedCone_eq_core _ _ _ _ cone_example_guard]
  simp only [V3.Sub, V3.Dot, V3.Scale, Gen.sdf.dot2, Cone.core, Cone.sign_eq]
  norm_num

/-- cap at `a`: `(-4, 0, 0)` -/
example : RoundedCone (⟨0, 0, 0⟩ : P3) ⟨5, 0, 0⟩ 4 1 ⟨-4, 0, 0⟩ = 0 := by
  rw [Cone.roundedCone_eq_core _ _ _ _ cone_example_guard]
  simp only [V3.Sub, V3.Dot, V3.Scale, Gen.sdf.dot2, Cone.core, Cone.sign_eq]
  norm_num

/-- cap at `b`: `(6, 0, 0)` -/
example : RoundedCone (⟨0, 0, 0⟩ : P3) ⟨5, 0, 0⟩ 4 1 ⟨6, 0, 0⟩ = 0 := by
  rw [Cone.roundedCone_eq_core _ _ _ _ cone_example_guard]
  simp only [V3.Sub, V3.Dot, V3.Scale, Gen.sdf.dot2, Cone.core, Cone.sign_eq]
  norm_num

/-- an interior point (on the axis) is negative, via the union-of-balls characterisation -/
example : RoundedCone (⟨0, 0, 0⟩ : P3) ⟨5, 0, 0⟩ 4 1 ⟨1, 0, 0⟩ < 0 := by
  rw [roundedCone_neg_iff_all]
  refine ⟨0, le_rfl, by norm_num, ?_⟩
  simp only [segPoint, V3.Distance, V3.DistanceSquared, V3.Add, V3.Sub, V3.Scale, RS.sqrt_eq]
  norm_num

end C19
end PolyVerif
