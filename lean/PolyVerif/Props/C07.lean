/-
  C07 — Binary STL round trip and size law: the property theorems.

  Statements only; helper lemmas and proofs are in `PolyVerif/Lemmas/Stl.lean` (namespace `PolyVerif.StlL`),
  the model in `PolyVerif/Model/Stl.lean` (tied to /repo/formats/stl by the `c07` correspondence stream).
  `q32`, `up`, `avgNormal`, `flatNormal` (bundle `Params`) are opaque in every mesh-level theorem.
-/
import PolyVerif.Lemmas.Stl

namespace PolyVerif
namespace C07
open Stl StlL

variable {α : Type}

/-- `stl.Write` produces exactly `84 + 50·n` bytes for `n` triangle records. -/
theorem stl_length (h : Header) (ts : List Tri) : (encode h ts).length = 84 + 50 * ts.length :=
  StlL.stl_length h ts

/-- `stl.Read (stl.Write (hdr, ts))` returns the header and every record in order, bit for bit except
    that signalling-NaN words come back quieted (`quietTri`) — for every list of fewer than `2^32`
    records, even if more bytes follow. -/
theorem stl_roundtrip_trailing (h : Header) (ts : List Tri) (extra : List Byte)
    (hn : ts.length < 2 ^ 32) : decode (encode h ts ++ extra) = .ok (h, ts.map quietTri) :=
  StlL.stl_roundtrip_trailing h ts extra hn

theorem stl_roundtrip (h : Header) (ts : List Tri) (hn : ts.length < 2 ^ 32) :
    decode (encode h ts) = .ok (h, ts.map quietTri) :=
  StlL.stl_roundtrip h ts hn

/-- … and exactly `(hdr, ts)` when no float field holds a signalling NaN. -/
theorem stl_roundtrip_exact (h : Header) (ts : List Tri) (hn : ts.length < 2 ^ 32)
    (hq : ∀ t ∈ ts, quietTri t = t) : decode (encode h ts) = .ok (h, ts) :=
  StlL.stl_roundtrip_exact h ts hn hq

/-- the count field is `uint32(len)`: beyond `2^32 - 1` records the file no longer says how many
    records it holds (`2^32` records read back as none).  This is why `stl_roundtrip` carries its bound. -/
theorem stl_count_wraps (h : Header) (ts : List Tri) (hn : ts.length = 2 ^ 32) :
    decode (encode h ts) = .ok (h, []) :=
  StlL.stl_count_wraps h ts hn

/-- whatever `stl.Read` accepts is `header ++ count ++ n records` followed by unread bytes; the records
    returned are those of the file (signalling NaNs quieted) and `stl.Write` lays them out unchanged. -/
theorem stl_reencode_prefix {bs : List Byte} {h : Header} {ts : List Tri}
    (hd : decode bs = .ok (h, ts)) :
    ∃ raw extra, bs = encodeRaw h raw ++ extra ∧ ts = raw.map quietTri ∧
      encode h ts = encodeRaw h ts ∧ ts.length < 2 ^ 32 :=
  StlL.stl_reencode_prefix hd

/-- **Re-save.** For a well-formed file (length exactly `84 + 50·n`, `n` the count field): reading
    succeeds with the file's own header and records (`bs = encodeRaw h raw`, signalling NaNs quieted);
    writing the result gives a file of the same length that reads back to the same records, and it is
    the input byte for byte when no float field holds a signalling NaN. -/
theorem stl_reencode {bs : List Byte} (hwf : WellFormed bs) :
    ∃ h raw, bs = encodeRaw h raw ∧ decode bs = .ok (h, raw.map quietTri) ∧
      encode h (raw.map quietTri) = encodeRaw h (raw.map quietTri) ∧
      decode (encode h (raw.map quietTri)) = decode bs ∧
      ((∀ t ∈ raw, quietTri t = t) → encode h (raw.map quietTri) = bs) :=
  StlL.stl_reencode hwf

/-- `stl.Read` succeeds exactly when the input holds the header, the count and `count` whole records. -/
theorem stl_decode_ok_iff (bs : List Byte) :
    (∃ x, decode bs = .ok x) ↔ ∃ c rest, rd32 (bs.drop 80) = some (c, rest) ∧ 84 + 50 * c.toNat ≤ bs.length :=
  StlL.stl_decode_ok_iff bs

theorem stl_decode_short (bs : List Byte) (h : bs.length < 84) : decode bs = .error .short :=
  StlL.stl_decode_short bs h

/-- the Go loop's index arithmetic (`Tri(i)` = `indices[3i], [3i+1], [3i+2]`, `i < len/3`) visits
    exactly the consecutive triples, and never reads out of range -/
theorem chunks_eq_triples : ∀ idx : List Nat, triples idx = (chunks idx).map some :=
  StlL.chunks_eq_triples

/-- **Mesh round trip.**  For every well-formed triangle mesh `m` with positions (any index pattern:
    welded, shared, duplicated or unreferenced vertices; with or without normals; zero triangles
    included) with fewer than `2^32` triangles, and for every rounding / normal functions `P`
    (`hq`: a float64→float32 conversion never yields a signalling NaN):
    `WriteMesh` does not panic, its output has exactly `84 + 50·n` bytes, `ReadMesh` accepts it, and
    the mesh read back satisfies `RoundTrips` — `n` triangles in order, corner `k` = float32
    rounding of position `indices[k]`, facet normal = stored normalised mean (geometric normal
    where that is zero), normal attribute absent iff every stored normal is zero. -/
theorem stl_mesh_roundtrip [DecidableEq α] (P : Params α) (hq : ∀ x, quiet (P.q32 x) = P.q32 x)
    (m : Mesh α) (hwf : WF m) (hn : m.indices.length / 3 < 2 ^ 32) :
    ∃ bs r, writeMesh P m = .ok bs ∧ bs.length = 84 + 50 * (m.indices.length / 3) ∧
      readMesh P bs = .ok r ∧ RoundTrips P m r = true :=
  StlL.stl_mesh_roundtrip P hq m hwf hn

/-- `stl_mesh_roundtrip` is the proved part of the normal clause (`RoundTrips` lets the normal attribute be
    absent when every stored normal is zero); the full clause is `C07_geometric_normal_full` below. -/
theorem stl_mesh_roundtrip_partial [DecidableEq α] (P : Params α) (hq : ∀ x, quiet (P.q32 x) = P.q32 x)
    (m : Mesh α) (hwf : WF m) (hn : m.indices.length / 3 < 2 ^ 32) :
    ∃ bs r, writeMesh P m = .ok bs ∧ bs.length = 84 + 50 * (m.indices.length / 3) ∧
      readMesh P bs = .ok r ∧ RoundTrips P m r = true :=
  StlL.stl_mesh_roundtrip_partial P hq m hwf hn

/-- **The normal clause at full strength (as C07 states it)**: every read-back triangle has a facet
    normal, the stored one if non-zero, else the geometric one — also "when none are stored".
    NOT satisfied by the code (known finding): `stl_geometric_normal_counterexample`; the proved part is
    `stl_mesh_roundtrip_partial`. -/
abbrev C07_geometric_normal_full [DecidableEq α] (P : Params α) : Prop := StlL.C07_geometric_normal_full P

/-- **Known finding (closed witness)**: the one-triangle mesh without normals is written and read back
    with NO normal attribute — `RoundTrips` holds, `FullNormals` does not. -/
theorem stl_no_normals_witness :
    ∃ bs r, writeMesh natParams noNormalsWitness = .ok bs ∧ readMesh natParams bs = .ok r ∧
      RoundTrips natParams noNormalsWitness r = true ∧ r.nrm = none ∧
      FullNormals natParams noNormalsWitness r = false :=
  StlL.stl_no_normals_witness

/-- hence the full-strength clause is false of the (model of the) code -/
theorem stl_geometric_normal_counterexample : ¬ C07_geometric_normal_full natParams :=
  StlL.stl_geometric_normal_counterexample

/-- a mesh without a position attribute is written as the empty file (84 bytes, count 0), whatever
    its indices: `WriteMesh`'s explicit first branch. -/
theorem stl_mesh_nopos (P : Params α) (m : Mesh α) (h : m.pos = none) :
    writeMesh P m = .ok (encode zeroHeader []) ∧ (encode zeroHeader []).length = 84 :=
  StlL.stl_mesh_nopos P m h

/-- an index that is out of range of the position array makes `WriteMesh` panic (no file). -/
theorem stl_mesh_oob (P : Params α) (m : Mesh α) (ps : List (P3 α)) (hp : m.pos = some ps)
    (a b c : Nat) (r : List Nat) (hi : m.indices = a :: b :: c :: r) (ha : ps.length ≤ a) :
    writeMesh P m = .error .panic :=
  StlL.stl_mesh_oob P m ps hp a b c r hi ha

/-! ### ReadMesh → WriteMesh: exact behaviour (clause 3 itself is `stl_reencode`, at the Read/Write level) -/

/-- **ReadMesh → WriteMesh, exactly.**  For every input `stl.Read` accepts (header `h`, records `ts`) and every
    precision bundle: re-saving through a mesh does not panic and yields the file with a ZERO header, the same
    number of records in order, every position word widened and narrowed again (`q32 (up w)`), every normal
    re-derived as `q32 (avgNormal n n n)` from the normal `n` ReadMesh gave the record's corners (stored one
    widened, or the geometric one where it is zero) — or all-zero when every stored normal is zero —, and
    attribute word 0. -/
theorem stl_mesh_resave (P : Params α) {bs : List Byte} {h : Header} {ts : List Tri}
    (hd : decode bs = .ok (h, ts)) : resaveMesh P bs = .ok (encode zeroHeader (resaveTris P ts)) :=
  StlL.stl_mesh_resave P hd

/-- positions survive exactly when narrowing undoes widening on the stored words (the one hypothesis) -/
theorem stl_mesh_resave_positions (P : Params α) (ts : List Tri)
    (hid : ∀ t ∈ ts, (t.v1.map P.up).map P.q32 = t.v1 ∧ (t.v2.map P.up).map P.q32 = t.v2 ∧ (t.v3.map P.up).map P.q32 = t.v3) :
    (resaveTris P ts).map (fun t => (t.v1, t.v2, t.v3)) = ts.map (fun t => (t.v1, t.v2, t.v3)) :=
  StlL.stl_mesh_resave_positions P ts hid

/-- the attribute word is always lost (a mesh has no place for it) -/
theorem stl_mesh_resave_attr (P : Params α) (ts : List Tri) : ∀ t ∈ resaveTris P ts, t.attr = 0 :=
  StlL.stl_mesh_resave_attr P ts

/-- closed instance: attribute word 7 comes back as 0 -/
theorem stl_mesh_resave_attribute_witness :
    (resaveTris natParams [⟨⟨0, 0, 1⟩, ⟨0, 0, 0⟩, ⟨1, 0, 0⟩, ⟨0, 1, 0⟩, 7⟩]).map (·.attr) = [0] := by decide

/-- closed instance: a zero stored normal next to a non-zero one does NOT come back as zero — it is replaced
    by (the narrowing of) what the geometric fallback computed (here `natParams.flatNormal` = first corner) -/
theorem stl_mesh_resave_zero_normal_mixed_witness :
    (resaveTris natParams [⟨⟨0, 0, 1⟩, ⟨0, 0, 0⟩, ⟨1, 0, 0⟩, ⟨0, 1, 0⟩, 0⟩, ⟨⟨0, 0, 0⟩, ⟨5, 0, 0⟩, ⟨0, 1, 0⟩, ⟨1, 0, 0⟩, 0⟩]).map (·.n)
      = [⟨0, 0, 1⟩, ⟨5, 0, 0⟩] := by decide

/-- the hypothesis of `stl_mesh_resave_positions` is satisfiable -/
example : ∀ t ∈ [(⟨⟨0, 0, 1⟩, ⟨0, 0, 0⟩, ⟨1, 0, 0⟩, ⟨0, 1, 0⟩, 7⟩ : Tri)],
    (t.v1.map natParams.up).map natParams.q32 = t.v1 ∧ (t.v2.map natParams.up).map natParams.q32 = t.v2 ∧
    (t.v3.map natParams.up).map natParams.q32 = t.v3 := by decide

/-! ### concrete instances of the hypotheses (non-vacuity) -/

example : decodeRaw (encodeRaw zeroHeader [⟨⟨1,2,3⟩,⟨4,5,6⟩,⟨7,8,9⟩,⟨10,11,0xffc00001⟩,7⟩]) =
    .ok (zeroHeader, [⟨⟨1,2,3⟩,⟨4,5,6⟩,⟨7,8,9⟩,⟨10,11,0xffc00001⟩,7⟩]) := raw_roundtrip_aux _ _ (by decide)

example : WellFormed (encodeRaw zeroHeader [⟨⟨1,2,3⟩,⟨4,5,6⟩,⟨7,8,9⟩,⟨10,11,12⟩,7⟩]) := by
  refine ⟨1, encTris [⟨⟨1,2,3⟩,⟨4,5,6⟩,⟨7,8,9⟩,⟨10,11,12⟩,7⟩], ?_, ?_⟩
  · simp [encodeRaw, zeroHeader, rd32_le32_aux]
  · rw [raw_length_aux]; rfl

example : decode (encode zeroHeader [⟨⟨1,2,3⟩,⟨4,5,6⟩,⟨7,8,9⟩,⟨10,0x7fc00001,0xffffffff⟩,7⟩]) =
    .ok (zeroHeader, [⟨⟨1,2,3⟩,⟨4,5,6⟩,⟨7,8,9⟩,⟨10,0x7fc00001,0xffffffff⟩,7⟩]) :=
  stl_roundtrip_exact _ _ (by decide) (by decide)

example : WellFormed (encode zeroHeader [⟨⟨1,2,3⟩,⟨4,5,6⟩,⟨7,8,9⟩,⟨10,11,12⟩,7⟩]) := by
  refine ⟨1, encTris ([⟨⟨1,2,3⟩,⟨4,5,6⟩,⟨7,8,9⟩,⟨10,11,12⟩,7⟩].map quietTri), ?_, ?_⟩
  · simp [encode, encodeRaw, zeroHeader, rd32_le32_aux]
  · rw [stl_length]; rfl

example : WF (⟨[0, 1, 2, 2, 1, 3], some [⟨0, 0, 0⟩, ⟨1, 0, 0⟩, ⟨0, 1, 0⟩, ⟨1, 1, 5⟩],
    some [⟨0, 0, 1⟩, ⟨0, 0, 1⟩, ⟨0, 0, 1⟩, ⟨0, 1, 0⟩]⟩ : Mesh Int) :=
  ⟨rfl, _, rfl, by decide, by intro ns h; cases h; rfl⟩

/-- the hypothesis `hq` of `stl_mesh_roundtrip` is satisfiable -/
example : ∃ P : Params Nat, ∀ x, quiet (P.q32 x) = P.q32 x := ⟨natParams, natParams_hq⟩

end C07
end PolyVerif
