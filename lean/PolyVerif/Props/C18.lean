/-
  C18 — Solid primitives are closed, consistently oriented, outward-facing (and of the right volume).

  Property theorems about `PolyVerif.Model.Solids` (tied to /repo by the c18 correspondence stream:
  index lists compared exactly for every parameter choice, positions at Float, merge maps against the
  implementation's geometry) and `PolyVerif.Gen.CubeTable` (regenerated from cube.go / quad.go on
  every run).  Helper lemmas live in `PolyVerif.Lemmas.Solids`.

  `Closed ts`  : the directed edges of `ts` are pairwise distinct, closed under reversal, and none is a loop —
                 i.e. every undirected edge is shared by exactly two triangles that traverse it in opposite
                 directions (closed, consistently oriented surface).
  `ClosedMod pt ts` : the same after merging vertices by `pt`.
-/
import PolyVerif.Lemmas.Solids
import PolyVerif.Gen.CubeTable
import Mathlib.Tactic

namespace PolyVerif
namespace C18
open Solids

/-! ## Closedness -/

/-- **UV sphere, all sizes.** For every `rows ≥ 2`, `cols ≥ 3` (exactly the parameters `UVSphere` accepts) the
    index buffer of the welded sphere is a closed consistently oriented surface on its vertex ids. -/
theorem uvSphere_closed {rows cols : Nat} (hR : 2 ≤ rows) (hC : 3 ≤ cols) :
    Closed (uvSphereTris rows cols) := by
  rw [uvSphereTris_eq_map hR]
  exact (sphereL_closed hR hC).map_of_injOn (UvValid rows cols) (sphereL_valid hR hC) (uvEnc_injOn hR hC)

example : Closed (uvSphereTris 2 3) := uvSphere_closed (by decide) (by decide)
example : (uvSphereTris 5 7).length = 2 * 7 + 2 * (3 * 7) := by decide

/-- **Unwelded UV sphere, all sizes**: closed once every vertex is merged with the welded-sphere vertex it
    is a copy of (`uvUnweldedSrc`, validated against the implementation's positions on every run). -/
theorem uvSphereUnwelded_closed_mod_merge {rows cols : Nat} (hR : 2 ≤ rows) (hC : 3 ≤ cols) :
    ClosedMod (uvUnweldedSrc rows cols) (uvSphereUnweldedTris rows cols) := by
  rw [ClosedMod, uvUnwelded_map_src]
  exact uvSphere_closed hR hC

/-- **Hemisphere (cap fan + dome), all sizes**: `Hemisphere.UV` emits the sphere's pattern with every
    triangle reversed, which is closed as well. -/
theorem hemisphere_closed {rows cols : Nat} (hR : 2 ≤ rows) (hC : 3 ≤ cols) :
    Closed (hemisphereTris rows cols) := by
  rw [hemisphereTris_eq_flip]
  exact (uvSphere_closed hR hC).flip

example : Closed (hemisphereTris 4 5) := hemisphere_closed (by decide) (by decide)

/-- **Capped cylinder, all side counts `≥ 3`** (side strip + top circle + bottom circle rotated by π): closed once
    the seam column is merged with column 0 and each cap's rim with the side's rim (`cylinderPt`, validated
    against the implementation's positions on every run). -/
theorem cylinder_closed_mod_merge {sides : Nat} (hS : 3 ≤ sides) :
    ClosedMod (cylinderPt sides) (cylinderTris sides false false) := by
  rw [ClosedMod, cylinder_map_pt (by omega)]
  exact cylL_closed hS

example : ClosedMod (cylinderPt 3) (cylinderTris 3 false false) := cylinder_closed_mod_merge (by decide)

/-- the welded box's triangles: the regenerated `cubeVertIndices` table -/
def cubeWeldedTris : List Tri := unflat Gen.CubeTable.cubeVertIndices

/-- the welded box (cube.go `cubeVertIndices`) is a closed consistently oriented surface on its 8 vertices -/
theorem cubeWelded_closed : Closed cubeWeldedTris := by decide

/-- the model's quad index pattern is the one in quad.go -/
theorem quadTris_eq_table : quadTris = unflat Gen.CubeTable.quadIndices := by decide

/-- the box built from six quads is closed once its 24 vertices are merged into the 8 corners -/
theorem cubeQuads_closed_mod_merge : ClosedMod cubeQuadsPt cubeQuadsTris := by decide

end C18
end PolyVerif
