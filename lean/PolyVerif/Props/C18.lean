/-
  C18 — Solid primitives are closed, consistently oriented, outward-facing (and of the right volume).
  Property theorems about `PolyVerif.Model.Solids` (tied to /repo by the c18 correspondence stream) and
  `PolyVerif.Gen.CubeTable` (regenerated from cube.go / quad.go on every run).
-/
import PolyVerif.Model.Solids
import PolyVerif.Gen.CubeTable
import Mathlib.Tactic

namespace PolyVerif
namespace C18
open Solids

/-- the welded box's triangles: the regenerated `cubeVertIndices` table -/
def cubeWeldedTris : List Tri := unflat Gen.CubeTable.cubeVertIndices

/-- the welded box (cube.go `cubeVertIndices`) is a closed consistently oriented surface on its 8 vertices -/
theorem cubeWelded_closed : Closed cubeWeldedTris := by decide

/-- the model's quad index pattern is the one in quad.go -/
theorem quadTris_eq_table : quadTris = unflat Gen.CubeTable.quadIndices := by decide

/-- the box built from six quads is closed once its 24 vertices are merged into the 8 corners -/
theorem cubeQuads_closed_mod_merge : ClosedMod cubeQuadsPt cubeQuadsTris := by decide

end C18
end PolyVerif
