/-
  C18 — Solid primitives are closed, consistently oriented, outward-facing (and of the right volume).

  Property theorems about `PolyVerif.Model.Solids` (tied to /repo by the c18 correspondence stream:
  index lists compared exactly for every parameter choice, positions at Float, merge maps against the
  implementation's geometry) and `PolyVerif.Gen.CubeTable` (regenerated from cube.go / quad.go on
  every run).  Helper lemmas live in `PolyVerif.Lemmas.Solids`.

  `Closed ts`  : the directed edges of `ts` are pairwise distinct, closed under reversal, and none is a loop —
                 i.e. every undirected edge is shared by exactly two triangles that traverse it in opposite
                 directions (closed, consistently oriented surface).
  `ClosedMod pt ts` : the same after merging vertices by `pt`.
-/
import PolyVerif.Lemmas.Solids
import PolyVerif.Lemmas.SolidsGeom
import PolyVerif.Lemmas.SolidsMerge
import PolyVerif.Lemmas.SolidsCode
import PolyVerif.Lemmas.SolidsLoops
import PolyVerif.Lemmas.SolidsTopo
import PolyVerif.Lemmas.SolidsLoopsV
import PolyVerif.Lemmas.SolidsUmbrella
import PolyVerif.Lemmas.SolidsUmbrella2
import PolyVerif.Lemmas.SolidsAssembly
import PolyVerif.Lemmas.SolidsTopo2
import PolyVerif.Gen.CubeTable
import Mathlib.Tactic

namespace PolyVerif
namespace C18
open Solids

/-! ## The model's index lists ARE what the source's loops compute (regenerated on every run)

`Gen/PrimLoops.lean` is extracted from the Go source by `go/facts c18.loops` before every build: per constructor the loop
nest, the loop bounds, the integer assignments and the `append`s, as a program of `Model/LoopIR.lean`.  The theorems
below say that running that program gives exactly `Model/Solids.lean`'s index list and vertex count, for ALL parameter
values — so an edit of a bound or an index expression in sphere.go / hemisphere.go / circle.go / cylinder.go breaks a
named theorem at build time, before any sample is run. -/

open PolyVerif.LoopIR in
/-- `UVSphere` (sphere.go): index buffer and vertex count of the extracted loops = the model, ∀ rows, cols -/
theorem uvSphere_indices_from_source (rows cols : Nat) :
    Gen.PrimLoops.uvSphere.indices [rows, cols] = flat (uvSphereTris rows cols) ∧
    Gen.PrimLoops.uvSphere.nverts [rows, cols] = uvSphereNV rows cols :=
  uvSphere_run rows cols

open PolyVerif.LoopIR in
/-- `Hemisphere.UV` (hemisphere.go): extracted loops = the model, ∀ rows, cols -/
theorem hemisphere_indices_from_source (rows cols : Nat) :
    Gen.PrimLoops.hemisphere.indices [rows, cols] = flat (hemisphereTris rows cols) ∧
    Gen.PrimLoops.hemisphere.nverts [rows, cols] = uvSphereNV rows cols :=
  hemisphere_run rows cols

open PolyVerif.LoopIR in
/-- `Circle.ToMesh` (circle.go): extracted loop + final triangle = the model, ∀ sides -/
theorem circle_indices_from_source (sides : Nat) :
    Gen.PrimLoops.circle.indices [sides] = flat (circleTris sides) ∧
    Gen.PrimLoops.circle.nverts [sides] = circleNV sides :=
  circle_run sides

open PolyVerif.LoopIR in
/-- `Cylinder.ToMesh` (cylinder.go), the side strip before the caps are appended: extracted loop = the model, ∀ sides -/
theorem cylinderSide_indices_from_source (sides : Nat) :
    Gen.PrimLoops.cylinder.indices [sides] = flat (cylinderSideTris sides) ∧
    Gen.PrimLoops.cylinder.nverts [sides] = cylinderSideNV sides :=
  cylinderSide_run sides

open PolyVerif.LoopIR in
/-- `UVSphereUnwelded` (sphere.go): index buffer and vertex count of the extracted loops (which read the running
    `len(finalVerts)`) = the model, ∀ rows, cols -/
theorem uvSphereUnwelded_indices_from_source (rows cols : Nat) :
    Gen.PrimLoops.uvSphereUnwelded.indices [rows, cols] = flat (uvSphereUnweldedTris rows cols) ∧
    Gen.PrimLoops.uvSphereUnwelded.nverts [rows, cols] = uvUnweldedNV rows cols :=
  unwelded_run rows cols

open PolyVerif.LoopIR in
/-- **the unwelded sphere's copy map is what the source computes**: the extracted `finalVerts` slice holds, for every
    final vertex `v`, the index into `calculatedPositions` it was copied from, and that index is `uvUnweldedSrc v`
    (∀ rows, cols).  So `uvUnweldedPos v = uvSpherePos (uvUnweldedSrc v)` and the merge map of
    `uvSphereUnwelded_closed_mod_merge` / `_merge_exact` are derived from sphere.go, not assumed. -/
theorem uvSphereUnwelded_copy_map_from_source (rows cols : Nat) :
    Gen.PrimLoops.uvSphereUnwelded.run [rows, cols] Gen.PrimLoops.uvSphereUnwelded.verts =
      (List.range (uvUnweldedNV rows cols)).map (uvUnweldedSrc rows cols) :=
  unwelded_verts_run rows cols

/-! ### vertex positions and supplied normals from the source

The float/vector statements of the same constructors are extracted too (`FE`, `VE`, `fassign vassign vpush vset`) and
interpreted by `LoopIR.execV`, polymorphically over the scalar.  The equalities below are SYNTACTIC — they hold for every
`α` with `[Scalar α]`, no field axioms — hence at `ℝ`, where the geometric theorems are proved, and at `Float`, where the
driver evaluates the model against the implementation: running the model IS running the extracted program. -/

section FromSource
variable {α : Type} [Scalar α]
open PolyVerif.LoopIR

/-- `UVSphere`: the extracted positions (pole `(0, r, 0)`, `phi = π(i+1)/rows`, `theta = 2πj/cols`,
    `(sin φ cos θ, cos φ, sin φ sin θ)·r`, pole `(0, −r, 0)`) are `uvSpherePos`, for every vertex -/
theorem uvSphere_positions_from_source (radius : α) (rows cols : Nat) (hC : 0 < cols) {v : Nat}
    (hv : v < uvSphereNV rows cols) :
    Gen.PrimLoops.uvSphere.positions [rows, cols] [radius] v = uvSpherePos radius rows cols v :=
  sphere_pos radius rows cols v hC hv

/-- `UVSphere` supplies `vector3.Array(positions).Normalized()` as normals (extracted `nrm = some (positions, true)`) -/
theorem uvSphere_normals_from_source (radius : α) (rows cols : Nat) (hC : 0 < cols) {v : Nat}
    (hv : v < uvSphereNV rows cols) :
    (Gen.PrimLoops.uvSphere.normals [rows, cols] [radius]).map (· v) = some (uvSphereNormal radius rows cols v) := by
  have h : Gen.PrimLoops.uvSphere.vslice 0 [rows, cols] [radius] v = uvSpherePos radius rows cols v :=
    sphere_pos radius rows cols v hC hv
  have hn : Gen.PrimLoops.uvSphere.nrm = some (0, true) := rfl
  simp only [Prog.normals, hn, Option.map_some, if_true, uvSphereNormal, h]

/-- `Hemisphere.UV`: the extracted positions (cap centre at the origin, `ugh = (−π·i/rows)/2 + π/2`, pole `(0, r, 0)`)
    are `hemispherePos` -/
theorem hemisphere_positions_from_source (radius : α) (rows cols : Nat) (hC : 0 < cols) {v : Nat}
    (hv : v < uvSphereNV rows cols) :
    Gen.PrimLoops.hemisphere.positions [rows, cols] [radius] v = hemispherePos radius rows cols v :=
  hemisphere_pos radius rows cols v hC hv

/-- `Circle.ToMesh`: extracted positions = `circlePos`, extracted normals slice = `(0, 1, 0)` everywhere -/
theorem circle_positions_from_source (radius : α) (sides : Nat) {v : Nat} (hv : v < circleNV sides) :
    Gen.PrimLoops.circle.positions [sides] [radius] v = circlePos radius sides v ∧
    (Gen.PrimLoops.circle.normals [sides] [radius]).map (· v) = some circleNormal := by
  refine ⟨circle_pos radius sides v hv, ?_⟩
  have h := (circle_nrm radius sides v hv).2
  have hn : Gen.PrimLoops.circle.nrm = some (1, false) := rfl
  simp only [Prog.normals, hn, Option.map_some, Bool.false_eq_true, if_false, h, circleNormal]

/-- `Cylinder.ToMesh`, the side vertices before the caps are appended: extracted positions = `cylinderPos`
    (`(cos a·r, ±H/2, sin a·r)`, `a = (1/sides·2·π)·k`), extracted normals = `cylinderNormal`
    (`(cos a, ±0.1, sin a).Normalized()`) -/
theorem cylinderSide_positions_from_source (radius height : α) (sides : Nat) {v : Nat} (hv : v < cylinderSideNV sides) :
    Gen.PrimLoops.cylinder.positions [sides] [radius, height] v = cylinderPos radius height sides v ∧
    (Gen.PrimLoops.cylinder.normals [sides] [radius, height]).map (· v) = some (cylinderNormal sides v) := by
  refine ⟨cylinderSide_pos radius height sides v hv, ?_⟩
  have h := cylinderSide_nrm radius height sides v hv
  have hn : Gen.PrimLoops.cylinder.nrm = some (1, false) := rfl
  simp only [Prog.normals, hn, Option.map_some, Bool.false_eq_true, if_false, h]

/-- **the six-quad box is built as cube.go says**: `Gen/PrimAssembly.lean` (regenerated: the six `Quad{Width, Depth}` faces
    of `Cube.UnweldedQuads` in `Append` order, each with its `rotate(…, FromTheta(θ, axis))` and `Translate`, the structure
    of the helper `rotate`, and quad.go's four positions / normals) interpreted with the regenerated quaternion code gives
    exactly `cubeQuadsPosCode` / `cubeQuadsNormalCode` — the functions the corner table, merge-exactness, outwardness,
    normals and volume theorems of the six-quad box are about -/
theorem cubeQuads_construction_from_source (w h d : α) {v : Nat} (hv : v < cubeQuadsNV) :
    assembleQuads Gen.PrimAssembly.cubeFaces Gen.PrimAssembly.cubeLocals Gen.PrimAssembly.quadLocals
        Gen.PrimAssembly.quadPositions false w h d v = cubeQuadsPosCode w h d v ∧
    assembleQuads Gen.PrimAssembly.cubeFaces Gen.PrimAssembly.cubeLocals Gen.PrimAssembly.quadLocals
        Gen.PrimAssembly.quadNormals true w h d v = cubeQuadsNormalCode v :=
  ⟨quads_pos_from_source w h d hv, quads_nrm_from_source w h d hv⟩

/-- **the cylinder's caps are placed as cylinder.go says**: top cap = the circle translated by `(0, halfHeight, 0)`, bottom cap =
    the circle rotated (positions and normals) by `quaternion.FromTheta(math.Pi, (1,0,0))` and translated by
    `(0, −halfHeight, 0)` — the extracted `cylinderCaps`, with `halfHeight` read off the extracted cylinder program —
    is exactly `cylinderPosCode` / `cylinderNormalCode` -/
theorem cylinder_assembly_from_source (radius height : α) (sides v : Nat) :
    cylinderPosCode radius height sides v =
      (let fpar : Nat → α := fun k => [radius, height].getD k ((0 : Nat) : α)
       let fenv := Gen.PrimLoops.cylinder.finalFenv [sides] [radius, height]
       if v < 2 * sides + 2 then cylinderPos radius height sides v
       else if v < 3 * sides + 3 then
         capPos Gen.PrimAssembly.cylinderCaps 0 fpar fenv (circlePos radius sides (v - (2 * sides + 2)))
       else capPos Gen.PrimAssembly.cylinderCaps 1 fpar fenv (circlePos radius sides (v - (3 * sides + 3)))) ∧
    (cylinderNormalCode sides v : V3 α) =
      (let fpar : Nat → α := fun k => [radius, height].getD k ((0 : Nat) : α)
       let fenv := Gen.PrimLoops.cylinder.finalFenv [sides] [radius, height]
       if v < 2 * sides + 2 then cylinderNormal sides v
       else if v < 3 * sides + 3 then capNrm Gen.PrimAssembly.cylinderCaps 0 fpar fenv circleNormal
       else capNrm Gen.PrimAssembly.cylinderCaps 1 fpar fenv circleNormal) :=
  ⟨cyl_caps_pos_from_source radius height sides v, cyl_caps_nrm_from_source radius height sides v⟩

end FromSource

/-- the panics: the extracted guards of `UVSphere`, `Hemisphere.UV`, `Circle.ToMesh` are the model's admissibility -/
theorem guards_from_source (rows cols sides : Nat) :
    Gen.PrimLoops.uvSphere.admits [rows, cols] = uvAdmissible rows cols ∧
    Gen.PrimLoops.hemisphere.admits [rows, cols] = uvAdmissible rows cols ∧
    Gen.PrimLoops.circle.admits [sides] = decide (3 ≤ sides) ∧ Gen.PrimLoops.cylinder.guards = [] :=
  ⟨uvSphere_admits rows cols, hemisphere_admits rows cols, circle_admits sides, rfl⟩

/-- the cylinder's caps: cylinder.go appends the top circle unless `NoTop`, then the bottom circle unless `NoBottom`,
    both built with `Sides: c.Sides` (extracted); the model's `cylinderTris` / `cylinderAdmissible` have that shape:
    side strip, then each present cap's circle indices shifted by the vertex count so far (`Mesh.Append`'s shift
    itself is mesh.go's, corresponded), and a panic iff a circle is built with fewer than 3 sides -/
theorem cylinder_caps_from_source (sides : Nat) (noTop noBottom : Bool) :
    Gen.PrimLoops.cylinderAppends = [("NoTop", "top"), ("NoBottom", "bottom")] ∧
    cylinderTris sides noTop noBottom =
      cylinderSideTris sides ++ (if noTop then [] else shift (cylinderSideNV sides) (circleTris sides)) ++
        (if noBottom then [] else
          shift (if noTop then cylinderSideNV sides else cylinderSideNV sides + circleNV sides) (circleTris sides)) ∧
    cylinderAdmissible sides noTop noBottom = (Gen.PrimLoops.circle.admits [sides] || (noTop && noBottom)) :=
  ⟨rfl, rfl, by rw [circle_admits]; rfl⟩

/-! ## Closedness -/

/-- what `Closed` says, in counting form: every directed edge of the surface occurs exactly once, its reverse occurs
    exactly once, and no edge is a loop (⇔ every undirected edge is shared by exactly two triangles, with opposite
    directions) -/
theorem closed_iff_every_edge_once {β : Type} [DecidableEq β] (ts : List (β × β × β)) :
    Closed ts ↔ ∀ e ∈ edges ts, (edges ts).count e = 1 ∧ (edges ts).count (e.2, e.1) = 1 ∧ e.1 ≠ e.2 :=
  closed_iff_count ts

/-- **UV sphere, all sizes.** For every `rows ≥ 2`, `cols ≥ 3` (exactly the parameters `UVSphere` accepts) the
    index buffer of the welded sphere is a closed consistently oriented surface on its vertex ids. -/
theorem uvSphere_closed {rows cols : Nat} (hR : 2 ≤ rows) (hC : 3 ≤ cols) :
    Closed (uvSphereTris rows cols) := by
  rw [uvSphereTris_eq_map hR]
  exact (sphereL_closed hR hC).map_of_injOn (UvValid rows cols) (sphereL_valid hR hC) (uvEnc_injOn hR hC)

example : Closed (uvSphereTris 2 3) := uvSphere_closed (by decide) (by decide)
example : (uvSphereTris 5 7).length = 2 * 7 + 2 * (3 * 7) := by decide

/-- **Unwelded UV sphere, all sizes**: closed once every vertex is merged with the welded-sphere vertex it
    is a copy of (`uvUnweldedSrc`, validated against the implementation's positions on every run). -/
theorem uvSphereUnwelded_closed_mod_merge {rows cols : Nat} (hR : 2 ≤ rows) (hC : 3 ≤ cols) :
    ClosedMod (uvUnweldedSrc rows cols) (uvSphereUnweldedTris rows cols) := by
  rw [ClosedMod, uvUnwelded_map_src]
  exact uvSphere_closed hR hC

/-- **Hemisphere (cap fan + dome), all sizes**: `Hemisphere.UV` emits the sphere's pattern with every
    triangle reversed, which is closed as well. -/
theorem hemisphere_closed {rows cols : Nat} (hR : 2 ≤ rows) (hC : 3 ≤ cols) :
    Closed (hemisphereTris rows cols) := by
  rw [hemisphereTris_eq_flip]
  exact (uvSphere_closed hR hC).flip

example : Closed (hemisphereTris 4 5) := hemisphere_closed (by decide) (by decide)

/-- **Capped cylinder, all side counts `≥ 3`** (side strip + top circle + bottom circle rotated by π): closed once
    the seam column is merged with column 0 and each cap's rim with the side's rim (`cylinderPt`, validated
    against the implementation's positions on every run). -/
theorem cylinder_closed_mod_merge {sides : Nat} (hS : 3 ≤ sides) :
    ClosedMod (cylinderPt sides) (cylinderTris sides false false) := by
  rw [ClosedMod, cylinder_map_pt (by omega)]
  exact cylL_closed hS

example : ClosedMod (cylinderPt 3) (cylinderTris 3 false false) := cylinder_closed_mod_merge (by decide)

/-- the welded box's triangles: the regenerated `cubeVertIndices` table -/
def cubeWeldedTris : List Tri := unflat Gen.CubeTable.cubeVertIndices

/-- the welded box (cube.go `cubeVertIndices`) is a closed consistently oriented surface on its 8 vertices -/
theorem cubeWelded_closed : Closed cubeWeldedTris := by decide

/-- the model's quad index pattern is the one in quad.go -/
theorem quadTris_eq_table : quadTris = unflat Gen.CubeTable.quadIndices := by decide

/-- the box built from six quads is closed once its 24 vertices are merged into the 8 corners -/
theorem cubeQuads_closed_mod_merge : ClosedMod cubeQuadsPt cubeQuadsTris := by decide

/-! ## Vertex-manifoldness and connectedness

`Closed` is edge-manifoldness with consistent orientation; it does not exclude a surface pinched at a vertex (two
umbrellas sharing their apex) or made of several components.  `VertexManifold` (the link of every vertex is ONE directed
cycle) and `Connected` (`Model/SolidsTopo.lean`) do. -/

/-- the welded box: one umbrella per vertex, and connected (complete table, kernel `decide`) -/
theorem cubeWelded_vertexManifold_connected : VertexManifold cubeWeldedTris ∧ Connected cubeWeldedTris :=
  ⟨cubeWelded_vm, cubeWelded_conn⟩

/-- the six-quad box modulo its corner merge map: one umbrella per corner, and connected -/
theorem cubeQuads_vertexManifold_connected_mod_merge :
    VertexManifold (cubeQuadsTris.map (tmap cubeQuadsPt)) ∧ Connected (cubeQuadsTris.map (tmap cubeQuadsPt)) :=
  ⟨cubeQuads_vm, cubeQuads_conn⟩

/-- **the welded UV sphere is connected, all sizes**: every vertex id is reached from vertex 0 (the top pole) along
    directed edges of the mesh (which are symmetric by `uvSphere_closed`) -/
theorem uvSphere_connected {rows cols : Nat} (hR : 2 ≤ rows) (hC : 3 ≤ cols) {v : Nat} (hv : v < uvSphereNV rows cols) :
    Relation.ReflTransGen (fun a b => (a, b) ∈ edges (uvSphereTris rows cols)) 0 v :=
  uvSphere_reach hR hC hv

/-- the hemisphere is connected, all sizes -/
theorem hemisphere_connected {rows cols : Nat} (hR : 2 ≤ rows) (hC : 3 ≤ cols) {v : Nat} (hv : v < uvSphereNV rows cols) :
    Relation.ReflTransGen (fun a b => (a, b) ∈ edges (hemisphereTris rows cols)) 0 v :=
  hemisphere_reach hR hC hv

/-- the unwelded sphere modulo its copy map is connected, all sizes (merged, it is the welded sphere) -/
theorem uvSphereUnwelded_connected_mod_merge {rows cols : Nat} (hR : 2 ≤ rows) (hC : 3 ≤ cols) {v : Nat}
    (hv : v < uvSphereNV rows cols) :
    Relation.ReflTransGen (fun a b => (a, b) ∈
      edges ((uvSphereUnweldedTris rows cols).map (tmap (uvUnweldedSrc rows cols)))) 0 v := by
  rw [uvUnwelded_map_src]; exact uvSphere_reach hR hC hv

/-- **the capped cylinder modulo its merge map is connected, all side counts `≥ 3`**: every merged vertex is reached
    from the top cap's centre `(0,0)` along directed edges (symmetric by `cylinder_closed_mod_merge`) -/
theorem cylinder_connected_mod_merge {sides : Nat} (hS : 3 ≤ sides) {v : Nat} (hv : v < cylinderNV sides false false) :
    Relation.ReflTransGen (fun a b => (a, b) ∈ edges ((cylinderTris sides false false).map (tmap (cylinderPt sides))))
      (0, 0) (cylinderPt sides v) :=
  cylinder_reach_mod_merge hS hv

example : Relation.ReflTransGen (fun a b => (a, b) ∈ edges (uvSphereTris 4 5)) 0 16 :=
  uvSphere_connected (by decide) (by decide) (by decide)

/-- **one umbrella per vertex, welded UV sphere, ALL sizes**: for every vertex `v` the link edges of `v` (the edges
    `b → c` such that `(v, b, c)` is, up to rotation, a triangle of the mesh) are exactly the consecutive pairs of ONE
    duplicate-free cycle of length ≥ 3 — exhibited explicitly: the `cols` ring-1 vertices around a pole, the six (five next
    to a pole, four when `rows = 2`) grid neighbours around every other vertex -/
theorem uvSphere_oneUmbrella {rows cols : Nat} (hR : 2 ≤ rows) (hC : 3 ≤ cols) {v : Nat} (hv : v < uvSphereNV rows cols) :
    UmbrellaCycle (uvSphereTris rows cols) v :=
  uvSphere_umbrella hR hC hv

/-- one umbrella per vertex, hemisphere, all sizes (reversing every triangle reverses the cycle) -/
theorem hemisphere_oneUmbrella {rows cols : Nat} (hR : 2 ≤ rows) (hC : 3 ≤ cols) {v : Nat} (hv : v < uvSphereNV rows cols) :
    UmbrellaCycle (hemisphereTris rows cols) v :=
  hemisphere_umbrella hR hC hv

/-- one umbrella per merged vertex, unwelded sphere, all sizes (merged, it IS the welded sphere) -/
theorem uvSphereUnwelded_oneUmbrella_mod_merge {rows cols : Nat} (hR : 2 ≤ rows) (hC : 3 ≤ cols) {v : Nat}
    (hv : v < uvSphereNV rows cols) :
    UmbrellaCycle ((uvSphereUnweldedTris rows cols).map (tmap (uvUnweldedSrc rows cols))) v := by
  rw [uvUnwelded_map_src]; exact uvSphere_umbrella hR hC hv

example : UmbrellaCycle (uvSphereTris 5 7) 12 := uvSphere_oneUmbrella (by decide) (by decide) (by decide)

/-- one umbrella per merged vertex, capped cylinder, all side counts `≥ 3` (centres: the `sides` rim vertices; rim
    vertices: five neighbours) -/
theorem cylinder_oneUmbrella_mod_merge {sides : Nat} (hS : 3 ≤ sides) {v : Nat} (hv : v < cylinderNV sides false false) :
    UmbrellaCycle ((cylinderTris sides false false).map (tmap (cylinderPt sides))) (cylinderPt sides v) :=
  cylinder_umbrella_mod_merge hS hv

/-- the executable predicate `Umbrella` (what the oracle `c18.holds.manifold` and the box theorems evaluate) is SOUND for
    the exhibited-cycle notion: whenever the checker accepts, the link edges of `v` are exactly the consecutive pairs of
    one duplicate-free cycle (the walk it followed) -/
theorem umbrella_checker_sound {β : Type} [DecidableEq β] (ts : List (β × β × β)) (v : β) (h : Umbrella ts v) :
    UmbrellaCycle ts v :=
  umbrella_sound ts v h

/-- hence the boxes, in the same form as the round primitives -/
theorem cubeWelded_oneUmbrella : ∀ v ∈ cornersOf cubeWeldedTris, UmbrellaCycle cubeWeldedTris v :=
  vertexManifold_sound _ cubeWelded_vm

theorem cubeQuads_oneUmbrella_mod_merge : ∀ v ∈ cornersOf (cubeQuadsTris.map (tmap cubeQuadsPt)),
    UmbrellaCycle (cubeQuadsTris.map (tmap cubeQuadsPt)) v :=
  vertexManifold_sound _ cubeQuads_vm

/-! ## The rotated parts as the code builds them = the exact forms (over ℝ)

`Cube.UnweldedQuads` builds its six faces by rotating a flat quad with `quaternion.FromTheta(kπ/2, ±axis)` and
translating it; `Cylinder.ToMesh` rotates the bottom circle by `FromTheta(π, (1,0,0))`.  `Model/SolidsCode.lean` models
exactly that, on top of the quaternion code regenerated from /repo (`Gen.Transform`).  The hand-written corner table
`cubeQuadsCornerTable` (hence `cubeQuadsPt`, `cubeQuadsPos`) and the `(x, −y, −z)` form of the cylinder's bottom cap
are DERIVED from that construction here, not assumed. -/

/-- **the corner table is proved from the code's construction**: rotating and translating the six quads as
    `Cube.UnweldedQuads` does puts vertex `v` exactly at corner `cubeQuadsCornerTable[v]` of the box, ∀ w h d -/
theorem cubeQuads_positions_eq_table (w h d : ℝ) {v : Nat} (hv : v < cubeQuadsNV) :
    cubeQuadsPosCode w h d v = cornerPos w h d (cubeQuadsPt v) :=
  cubeQuadsPosCode_eq w h d hv

/-- the rotated `Up` normals of the six quads are the six axis directions +y, −y, −x, +x, +z, −z -/
theorem cubeQuads_normals_eq_table {v : Nat} (hv : v < cubeQuadsNV) :
    (cubeQuadsNormalCode v : V3 ℝ) = cubeQuadsNormal v :=
  cubeQuadsNormalCode_eq hv

/-- the cylinder as the code builds it (bottom cap = circle rotated by `FromTheta(π, (1,0,0))`, then translated)
    is the exact form `cylinderPos` (bottom cap `(x, −h/2, −z)`), for every vertex -/
theorem cylinder_positions_eq_exact_form (r H : ℝ) (sides : Nat) {v : Nat} (hv : v < cylinderNV sides false false) :
    cylinderPosCode r H sides v = cylinderPos r H sides v :=
  cylinderPosCode_eq r H sides hv

/-- … and its bottom-cap normals `(0,1,0)` rotated by the same quaternion are `(0,−1,0)` -/
theorem cylinder_normals_eq_exact_form (sides v : Nat) :
    (cylinderNormalCode sides v : V3 ℝ) = cylinderNormal sides v :=
  cylinderNormalCode_eq sides v

/-! ## The merge maps merge exactly the coincident positions (over ℝ)

"once coincident positions are merged": the symbolic merge maps used above identify two vertices if and only if
their real positions — as the constructors compute them — are equal: neither too much (which could fake closedness)
nor too little (which could hide a doubled edge).  For the six-quad box and the cylinder the positions are the
code-built ones (`cubeQuadsPosCode`, `cylinderPosCode`); the statement therefore has content for the hand-written
corner table (it goes through `cubeQuads_positions_eq_table`). -/

/-- the welded sphere has no two vertices at the same position (it needs no merging) -/
theorem uvSphere_positions_distinct {rows cols : Nat} {r : ℝ} (hr : 0 < r) (hR : 2 ≤ rows) (hC : 3 ≤ cols)
    {v w : Nat} (hv : v < uvSphereNV rows cols) (hw : w < uvSphereNV rows cols)
    (h : uvSpherePos r rows cols v = uvSpherePos r rows cols w) : v = w :=
  uvSphere_pos_inj_aux hr hR hC hv hw h

/-- the hemisphere has no two vertices at the same position (it needs no merging) -/
theorem hemisphere_positions_distinct {rows cols : Nat} {r : ℝ} (hr : 0 < r) (hR : 2 ≤ rows) (hC : 3 ≤ cols)
    {v w : Nat} (hv : v < uvSphereNV rows cols) (hw : w < uvSphereNV rows cols)
    (h : hemispherePos r rows cols v = hemispherePos r rows cols w) : v = w :=
  hemisphere_pos_inj_aux hr hR hC hv hw h

/-- unwelded sphere: two vertices are copies of the same welded vertex iff their positions coincide -/
theorem uvSphereUnwelded_merge_exact {rows cols : Nat} {r : ℝ} (hr : 0 < r) (hR : 2 ≤ rows) (hC : 3 ≤ cols)
    {v w : Nat} (hv : v < uvUnweldedNV rows cols) (hw : w < uvUnweldedNV rows cols) :
    uvUnweldedSrc rows cols v = uvUnweldedSrc rows cols w ↔
      uvUnweldedPos r rows cols v = uvUnweldedPos r rows cols w :=
  uvUnwelded_merge_exact_aux hr hR hC hv hw

/-- capped cylinder: `cylinderPt` identifies two vertices iff their positions coincide (seam column, cap rims) -/
theorem cylinder_merge_exact {sides : Nat} {r H : ℝ} (hr : 0 < r) (hH : 0 < H) (hS : 3 ≤ sides)
    {v w : Nat} (hv : v < cylinderNV sides false false) (hw : w < cylinderNV sides false false) :
    cylinderPt sides v = cylinderPt sides w ↔ cylinderPosCode r H sides v = cylinderPosCode r H sides w := by
  rw [cylinderPosCode_eq r H sides hv, cylinderPosCode_eq r H sides hw]
  exact cylinder_merge_exact_aux hr hH hS hv hw

/-- six-quad box: the corner table identifies two vertices iff the positions the code builds for them coincide -/
theorem cubeQuads_merge_exact {w h d : ℝ} (hw : 0 < w) (hh : 0 < h) (hd : 0 < d)
    {v v' : Nat} (hv : v < cubeQuadsNV) (hv' : v' < cubeQuadsNV) :
    cubeQuadsPt v = cubeQuadsPt v' ↔ cubeQuadsPosCode w h d v = cubeQuadsPosCode w h d v' := by
  rw [cubeQuadsPosCode_eq w h d hv, cubeQuadsPosCode_eq w h d hv']
  exact cubeQuads_merge_exact_aux hw hh hd hv hv'

/-- the welded box has no two vertices at the same position -/
theorem cubeWelded_positions_distinct {w h d : ℝ} (hw : 0 < w) (hh : 0 < h) (hd : 0 < d)
    {v v' : Nat} (hv : v < 8) (hv' : v' < 8) (e : cubeWeldedPos w h d v = cubeWeldedPos w h d v') : v = v' :=
  cornerPos_inj hw hh hd hv hv' e

example : cylinderPt 5 10 = cylinderPt 5 0 ∧ cylinderPt 5 12 = cylinderPt 5 0 ∧ cylinderPt 5 19 = cylinderPt 5 9 := by decide
example : uvUnweldedSrc 4 5 0 = uvUnweldedSrc 4 5 6 ∧ uvUnweldedSrc 4 5 2 ≠ uvUnweldedSrc 4 5 1 := by decide
example : cubeQuadsPt 0 = cubeQuadsPt 11 ∧ cubeQuadsPt 0 = cubeQuadsPt 21 := by decide

/-! ## Outwardness (positions over ℝ: the real-number meaning of the constructors' expressions)

`OutwardAt pos ctr ts`: every triangle of `ts`, with corners `pos`, has positive signed volume against `ctr`
(its front side faces away from `ctr`).  Together with closedness this makes the surface the positively
oriented boundary of a solid that is star-shaped about `ctr`. -/

/-- **UV sphere faces point outward, all sizes, every radius `> 0`**: each fan / strip triangle has signed volume
    `r³ · sin φ · sin(π/rows) · sin(2π/cols) / 6 > 0` against the centre. -/
theorem uvSphere_outward {rows cols : Nat} {r : ℝ} (hr : 0 < r) (hR : 2 ≤ rows) (hC : 3 ≤ cols) :
    OutwardAt (uvSpherePos r rows cols) O3 (uvSphereTris rows cols) :=
  uvSphere_outward_aux hr hR hC

example : OutwardAt (uvSpherePos (1 / 2 : ℝ) 2 3) O3 (uvSphereTris 2 3) :=
  uvSphere_outward (by norm_num) (by decide) (by decide)

/-- the unwelded sphere has the welded sphere's positions at the copied vertices, hence the same faces -/
theorem uvSphereUnwelded_outward {rows cols : Nat} {r : ℝ} (hr : 0 < r) (hR : 2 ≤ rows) (hC : 3 ≤ cols) :
    OutwardAt (uvUnweldedPos r rows cols) O3 (uvSphereUnweldedTris rows cols) := by
  have h := uvSphere_outward hr hR hC
  rw [← uvUnwelded_map_src, ← outwardAt_map] at h
  exact h

/-- **sphere normals** (`positions.Normalized()`) have positive dot product with the geometric normal of
    every incident face -/
theorem sphere_normals_outward {rows cols : Nat} {r : ℝ} (hr : 0 < r) (hR : 2 ≤ rows) (hC : 3 ≤ cols) :
    NormalsOutward (uvSpherePos r rows cols) (uvSphereNormal r rows cols) (uvSphereTris rows cols) :=
  normalsOutward_of_outward (uvSphere_outward hr hR hC)

/-- **welded box faces point outward** for all `w, h, d > 0` (each of the 12 triangles of the regenerated
    table has signed volume `w·h·d/12` against the centre) -/
theorem cube_outward {w h d : ℝ} (hw : 0 < w) (hh : 0 < h) (hd : 0 < d) :
    OutwardAt (cubeWeldedPos w h d) O3 cubeWeldedTris :=
  cube_outward_aux hw hh hd

/-- the welded box's positions are the regenerated sign table of cube.go times the half extents -/
theorem cubeWeldedPos_eq_table : Gen.CubeTable.cubeVertSigns = (List.range 8).map cornerSign := by decide

/-- **welded box normals** (`potentialVerts.Normalized()`, the corner directions) point to the outer side of every
    incident face -/
theorem cube_normals_outward {w h d : ℝ} (hw : 0 < w) (hh : 0 < h) (hd : 0 < d) :
    NormalsOutward (cubeWeldedPos w h d) (cubeWeldedNormal w h d) cubeWeldedTris :=
  normalsOutward_of_outward (cube_outward hw hh hd)

/-- **six-quad box faces point outward** (positions as the code builds them: rotated, translated quads) -/
theorem cubeQuads_outward {w h d : ℝ} (hw : 0 < w) (hh : 0 < h) (hd : 0 < d) :
    OutwardAt (cubeQuadsPosCode w h d) O3 cubeQuadsTris :=
  outwardAt_congr (cubeQuads_pos_agree w h d) (cubeQuads_outward_aux hw hh hd)

/-- **capped cylinder faces point outward**, all `sides ≥ 3`, every radius and height `> 0`: side triangles have
    signed volume `h·r²·sin(2π/sides)/6`, cap triangles `h·r²·sin(2π/sides)/12`, against the centre.
    (Positions as the code builds them: side and top cap as computed by cylinder.go / circle.go, bottom cap = circle
    rotated by the quaternion `FromTheta(π, (1,0,0))` and translated.) -/
theorem cylinder_outward {sides : Nat} {r H : ℝ} (hr : 0 < r) (hH : 0 < H) (hS : 3 ≤ sides) :
    OutwardAt (cylinderPosCode r H sides) O3 (cylinderTris sides false false) :=
  outwardAt_congr (cylinder_pos_agree r H (by omega)) (cylinder_outward_aux hr hH hS)

/-- **cylinder normals**: the side normals `(cos a, ±0.1, sin a).Normalized()` and the cap normals `(0, ±1, 0)` have
    positive dot product with the geometric normal of every incident face -/
theorem cylinder_normals_outward {sides : Nat} {r H : ℝ} (hr : 0 < r) (hH : 0 < H) (hS : 3 ≤ sides) :
    NormalsOutward (cylinderPosCode r H sides) (cylinderNormalCode sides) (cylinderTris sides false false) := by
  rw [cylinderNormalCode_funext]
  exact normalsOutward_congr (cylinder_pos_agree r H (by omega)) (fun _ _ => ⟨rfl, rfl, rfl⟩)
    (cylinder_normals_outward_aux hr hH hS)

example : OutwardAt (cylinderPosCode (1 : ℝ) 2 3) O3 (cylinderTris 3 false false) :=
  cylinder_outward (by norm_num) (by norm_num) (by decide)

/-- **six-quad box normals** (`Up` rotated with each face by the code's quaternions) point to the outer side of
    their face -/
theorem cubeQuads_normals_outward {w h d : ℝ} (hw : 0 < w) (hh : 0 < h) (hd : 0 < d) :
    NormalsOutward (cubeQuadsPosCode w h d) cubeQuadsNormalCode cubeQuadsTris :=
  normalsOutward_congr (cubeQuads_pos_agree w h d) cubeQuads_nrm_agree (cubeQuads_normals_outward_aux hw hh hd)

/-- the sphere mesh is an INSCRIBED polyhedron: every vertex used by a triangle lies on the sphere of radius `r`
    (so, being closed and outward, it bounds a polyhedron inside the ball) -/
theorem uvSphere_inscribed {rows cols : Nat} (r : ℝ) (hR : 2 ≤ rows) (hC : 3 ≤ cols) :
    ∀ t ∈ uvSphereTris rows cols, (uvSpherePos r rows cols t.1).LengthSquared = r ^ 2 ∧
      (uvSpherePos r rows cols t.2.1).LengthSquared = r ^ 2 ∧ (uvSpherePos r rows cols t.2.2).LengthSquared = r ^ 2 :=
  uvSphere_inscribed_aux r hR hC

/-- **hemisphere faces point outward**, all sizes, every radius `> 0`: every dome triangle and every cap triangle has
    positive signed volume against the point `(0, r/2, 0)` on the axis (dome: `r²·sin ψ·sin(2π/cols)·(r·sin δ −
    (r/2)(sin ψ₁ − sin ψ₂)) / 6`, cap: `r³·sin(2π/cols)/12`). -/
theorem hemisphere_outward {rows cols : Nat} {r : ℝ} (hr : 0 < r) (hR : 2 ≤ rows) (hC : 3 ≤ cols) :
    OutwardAt (hemispherePos r rows cols) (hemiCtr r) (hemisphereTris rows cols) :=
  hemisphere_outward_aux hr hR hC

example : OutwardAt (hemispherePos (2 : ℝ) 2 3) (hemiCtr 2) (hemisphereTris 2 3) :=
  hemisphere_outward (by norm_num) (by decide) (by decide)

/-! ## Volume

`volume6 pos ts` = Σ over triangles of `a · (b × c)` = six times the signed volume enclosed by the (closed,
outward) surface, i.e. the volume of the inscribed polyhedron the mesh describes. -/

/-- the welded box encloses exactly `w·h·d` -/
theorem cube_volume (w h d : ℝ) : volume6 (cubeWeldedPos w h d) cubeWeldedTris / 6 = w * h * d := by
  rw [show cubeWeldedTris = unflat Gen.CubeTable.cubeVertIndices from rfl, cube_volume_aux]; ring

/-- the six-quad box encloses exactly `w·h·d` -/
theorem cubeQuads_volume (w h d : ℝ) : volume6 (cubeQuadsPosCode w h d) cubeQuadsTris / 6 = w * h * d := by
  rw [volume6_congr (cubeQuads_pos_agree w h d), cubeQuads_volume_aux]; ring

/-- **capped cylinder**: the enclosed volume is that of the prism over the inscribed regular `sides`-gon,
    `(sides/2)·sin(2π/sides)·r²·H`, for all `sides ≥ 3` -/
theorem cylinder_volume {sides : Nat} (r H : ℝ) (hS : 3 ≤ sides) :
    volume6 (cylinderPosCode r H sides) (cylinderTris sides false false) / 6 =
      (sides : ℝ) / 2 * Real.sin (2 * Real.pi / sides) * r ^ 2 * H := by
  rw [volume6_congr (cylinder_pos_agree r H (by omega)), cylinder_volume_aux r H hS]; ring

/-- … which is at most the analytic volume `π r² H` and approaches it: relative deficit `≤ 2π²/(3·sides²)` -/
theorem cylinder_volume_bounds {sides : Nat} {r H : ℝ} (hr : 0 < r) (hH : 0 < H) (hS : 3 ≤ sides) :
    volume6 (cylinderPosCode r H sides) (cylinderTris sides false false) / 6 ≤ Real.pi * r ^ 2 * H ∧
    Real.pi * r ^ 2 * H * (1 - 2 * Real.pi ^ 2 / (3 * (sides : ℝ) ^ 2)) ≤
      volume6 (cylinderPosCode r H sides) (cylinderTris sides false false) / 6 := by
  rw [volume6_congr (cylinder_pos_agree r H (by omega))]; exact cylinder_volume_bounds_aux hr hH hS

/-- **UV sphere**: the enclosed volume in closed form, `(cols·r³/3)·sin(2π/cols)·(1 + cos(π/rows))`, for all
    `rows ≥ 2`, `cols ≥ 3` (the stack of regular-`cols`-gon frusta inscribed in the sphere) -/
theorem uvSphere_volume {rows cols : Nat} (r : ℝ) (hR : 2 ≤ rows) (hC : 3 ≤ cols) :
    volume6 (uvSpherePos r rows cols) (uvSphereTris rows cols) / 6 =
      (cols : ℝ) * r ^ 3 / 3 * Real.sin (2 * Real.pi / cols) * (1 + Real.cos (Real.pi / rows)) := by
  rw [uvSphere_volume_aux r hR hC]; ring

/-- … which is at most the analytic volume `4/3·π·r³` and approaches it as the resolution grows:
    relative deficit `≤ 2π²/(3·cols²) + π²/(4·rows²)` -/
theorem uvSphere_volume_bounds {rows cols : Nat} {r : ℝ} (hr : 0 < r) (hR : 2 ≤ rows) (hC : 3 ≤ cols) :
    volume6 (uvSpherePos r rows cols) (uvSphereTris rows cols) / 6 ≤ 4 / 3 * Real.pi * r ^ 3 ∧
    4 / 3 * Real.pi * r ^ 3 * (1 - 2 * Real.pi ^ 2 / (3 * (cols : ℝ) ^ 2) - Real.pi ^ 2 / (4 * (rows : ℝ) ^ 2)) ≤
      volume6 (uvSpherePos r rows cols) (uvSphereTris rows cols) / 6 :=
  uvSphere_volume_bounds_aux hr hR hC

/-- **hemisphere**: the enclosed volume in closed form,
    `(cols·r³/6)·sin(2π/cols)·(sin²(π/rows) + cos(π/rows)·(1 + cos(π/(2·rows))))`, for all `rows ≥ 2`, `cols ≥ 3`
    (the rings are `π/(2·rows)` apart, the last ring is `π/rows` from the pole) -/
theorem hemisphere_volume {rows cols : Nat} (r : ℝ) (hR : 2 ≤ rows) (hC : 3 ≤ cols) :
    volume6 (hemispherePos r rows cols) (hemisphereTris rows cols) / 6 =
      (cols : ℝ) * r ^ 3 / 6 * Real.sin (2 * Real.pi / cols) *
        (Real.sin (Real.pi / rows) ^ 2 + Real.cos (Real.pi / rows) * (1 + Real.cos (Real.pi / (2 * rows)))) := by
  rw [hemisphere_volume_aux r hR hC]; ring

/-- … which is at most the analytic volume `2/3·π·r³` and approaches it: relative deficit
    `≤ 2π²/(3·cols²) + 5π²/(16·rows²)` -/
theorem hemisphere_volume_bounds {rows cols : Nat} {r : ℝ} (hr : 0 < r) (hR : 2 ≤ rows) (hC : 3 ≤ cols) :
    volume6 (hemispherePos r rows cols) (hemisphereTris rows cols) / 6 ≤ 2 / 3 * Real.pi * r ^ 3 ∧
    2 / 3 * Real.pi * r ^ 3 *
        (1 - 2 * Real.pi ^ 2 / (3 * (cols : ℝ) ^ 2) - 5 * Real.pi ^ 2 / (16 * (rows : ℝ) ^ 2)) ≤
      volume6 (hemispherePos r rows cols) (hemisphereTris rows cols) / 6 :=
  hemisphere_volume_bounds_aux hr hR hC

/-- the unwelded sphere encloses the same volume as the welded one -/
theorem uvSphereUnwelded_volume {rows cols : Nat} (r : ℝ) (hR : 2 ≤ rows) (hC : 3 ≤ cols) :
    volume6 (uvUnweldedPos r rows cols) (uvSphereUnweldedTris rows cols) / 6 =
      (cols : ℝ) * r ^ 3 / 3 * Real.sin (2 * Real.pi / cols) * (1 + Real.cos (Real.pi / rows)) := by
  rw [show uvUnweldedPos r rows cols = fun v => uvSpherePos r rows cols (uvUnweldedSrc rows cols v) from rfl,
    volume6_map, uvUnwelded_map_src]
  exact uvSphere_volume r hR hC

/-! ## Non-vacuity: every hypothesis set above is satisfiable (concrete instances) -/

example := uvSphereUnwelded_closed_mod_merge (rows := 3) (cols := 4) (by decide) (by decide)
example := uvSphereUnwelded_outward (rows := 3) (cols := 4) (r := 2) (by norm_num) (by decide) (by decide)
example := sphere_normals_outward (rows := 6) (cols := 5) (r := 1 / 2) (by norm_num) (by decide) (by decide)
example := cube_outward (w := 1) (h := 2) (d := 3) (by norm_num) (by norm_num) (by norm_num)
example := cube_normals_outward (w := 1) (h := 2) (d := 3) (by norm_num) (by norm_num) (by norm_num)
example := cubeQuads_outward (w := 1) (h := 2) (d := 3) (by norm_num) (by norm_num) (by norm_num)
example := cubeQuads_normals_outward (w := 1) (h := 2) (d := 3) (by norm_num) (by norm_num) (by norm_num)
example := cylinder_normals_outward (sides := 7) (r := 1) (H := 2) (by norm_num) (by norm_num) (by decide)
example := uvSphere_inscribed (rows := 4) (cols := 6) 3 (by decide) (by decide)
example := cylinder_volume (sides := 12) 1 2 (by decide)
example := cylinder_volume_bounds (sides := 12) (r := 1) (H := 2) (by norm_num) (by norm_num) (by decide)
example := uvSphere_volume (rows := 10) (cols := 10) (1 / 2) (by decide) (by decide)
example := uvSphere_volume_bounds (rows := 10) (cols := 10) (r := 1 / 2) (by norm_num) (by decide) (by decide)
example := uvSphereUnwelded_volume (rows := 10) (cols := 10) (1 / 2) (by decide) (by decide)
example := hemisphere_volume (rows := 20) (cols := 20) (1 / 2) (by decide) (by decide)
example := hemisphere_volume_bounds (rows := 20) (cols := 20) (r := 1 / 2) (by norm_num) (by decide) (by decide)
example := uvSphere_positions_distinct (rows := 2) (cols := 3) (r := 1) (v := 0) (w := 4) (by norm_num) (by decide)
  (by decide) (by decide) (by decide)
example := hemisphere_positions_distinct (rows := 2) (cols := 3) (r := 1) (v := 0) (w := 4) (by norm_num) (by decide)
  (by decide) (by decide) (by decide)
example := uvSphereUnwelded_merge_exact (rows := 3) (cols := 3) (r := 1) (v := 0) (w := 6) (by norm_num) (by decide)
  (by decide) (by decide) (by decide)
example := cylinder_merge_exact (sides := 5) (r := 1) (H := 1) (v := 10) (w := 0) (by norm_num) (by norm_num)
  (by decide) (by decide) (by decide)
example := cubeQuads_merge_exact (w := 1) (h := 1) (d := 1) (v := 0) (v' := 11) (by norm_num) (by norm_num)
  (by norm_num) (by decide) (by decide)
example := cubeWelded_positions_distinct (w := 1) (h := 1) (d := 1) (v := 0) (v' := 7) (by norm_num) (by norm_num)
  (by norm_num) (by decide) (by decide)

end C18
end PolyVerif
