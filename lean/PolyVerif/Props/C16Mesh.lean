/-
  C16, round 2 — `rendering.Mesh.Hit` / `Mesh.Hit2` (octree of triangles, mesh.go) = the exhaustive triangle loop.

  Model: `meshHit` (TraverseIntersectingRay + callback), `meshHit2` (ElementsIntersectingRay + hit-list loop),
  `elemTriHit` (`rayIntersectsTri` on `ray.Ray()`) in `Model/RenderPrims.lean`; octree = `Model/Tree.lean`.
  Uses the triangle contract proved in `Props/C16Prims.lean` — no primitive hypothesis.
-/
import PolyVerif.Props.C16Prims

namespace PolyVerif
namespace C16
open PolyVerif.Tree PolyVerif.RPrims Gen.geometry Gen.rendering Scalar

section fold
variable {B E K σ : Type}

theorem traverse_elems_foldl (slabE : E → K → K → Bool) (f : σ → E → σ) (rng : K × K) :
    ∀ (es : List E) (s : σ),
      es.foldl (fun (st : (K × K) × σ) e =>
        if slabE e st.1.1 st.1.2 then (st.1, f st.2 e) else st) (rng, s) =
      (rng, (es.filter (fun e => slabE e rng.1 rng.2)).foldl f s) := by
  intro es
  induction es with
  | nil => intro s; rfl
  | cons e es ih =>
    intro s
    simp only [List.foldl_cons]
    by_cases h : slabE e rng.1 rng.2 = true
    · simp only [h, if_true, List.filter_cons, List.foldl_cons]
      rw [ih]
    · have h' : slabE e rng.1 rng.2 = false := by simpa using h
      simp only [h', Bool.false_eq_true, if_false, List.filter_cons]
      rw [ih]

/-- `TraverseIntersectingRay` with a callback that leaves the range alone and folds `f` over its own state
    = `f` folded over what `ElementsIntersectingRay` returns, in that order -/
theorem traverse_foldl_eq_pruned (slabB : B → K → K → Bool) (slabE : E → K → K → Bool) (f : σ → E → σ) (rng : K × K) :
    ∀ (t : Oct B E) (s : σ),
      t.traverse slabB slabE (fun e r (a : σ) => (r, f a e)) rng s =
      (t.pruned (fun b => !slabB b rng.1 rng.2) (fun e => slabE e rng.1 rng.2)).foldl f s := by
  intro t
  induction t using Oct.induct' with
  | h b es cs ih =>
    intro s
    simp only [Oct.traverse, Oct.pruned]
    by_cases hb : slabB b rng.1 rng.2 = true
    · simp only [hb, Bool.not_true, Bool.false_eq_true, if_false]
      rw [traverse_elems_foldl]
      simp only
      have : ∀ (l : List (Oct B E)), (∀ c ∈ l, c ∈ cs) → ∀ a : σ,
          l.foldl (fun s c => c.traverse slabB slabE (fun e r (a : σ) => (r, f a e)) rng s) a =
          (l.flatMap (fun c => c.pruned (fun b => !slabB b rng.1 rng.2) (fun e => slabE e rng.1 rng.2))).foldl f a := by
        intro l
        induction l with
        | nil => intro _ a; rfl
        | cons c l ihl =>
          intro hl a
          simp only [List.foldl_cons, List.flatMap_cons, List.foldl_append]
          rw [ih c (hl c (by simp)), ihl (fun c' hc' => hl c' (by simp [hc']))]
      rw [this cs (fun c hc => hc), List.foldl_append]
    · have hb' : slabB b rng.1 rng.2 = false := by simpa using hb
      simp [hb']

end fold

/-- `Mesh.Hit` (traverse + callback) and `Mesh.Hit2` (collect, then loop) compute the same flag and distance, on
    every tree, ray and range -/
theorem meshHit_eq_meshHit2 (t : Oct Box (Elem ℝ)) (ray : TemporalRay ℝ) (mn mx : ℝ) :
    meshHit t ray mn mx = meshHit2 t ray mn mx := by
  unfold meshHit meshHit2
  rw [traverse_foldl_eq_pruned (fun (b : Box) lo hi => intersectsRayInRange b ray.Ray.Origin ray.Ray.Direction lo hi)
    (fun (e : Elem ℝ) lo hi => intersectsRayInRange e.box ray.Ray.Origin ray.Ray.Direction lo hi)
    (meshStep ray mn) (mn, mx) t (none, mx)]
  rw [listHit_eq_foldl]
  congr 2

/-- two primitive functions that agree on the members of a list give the same `HitList.Hit` -/
theorem listHit_congr_on {H K : Type} (p q : H → K → K → Option K) (mn : K) :
    ∀ (l : List H), (∀ h ∈ l, ∀ hi, p h mn hi = q h mn hi) → ∀ hi, listHit p l mn hi = listHit q l mn hi := by
  intro l
  induction l using List.reverseRecOn with
  | nil => intro _ _; rfl
  | append_singleton l x ih =>
    intro h hi
    rw [listHit_append, listHit_append, listHit_single, listHit_single, ih (fun y hy => h y (by simp [hy]))]
    rw [h x (by simp)]

/-- an octree element of `rendering.Mesh`: a triangle with the box `NewAABBFromPoints(p1,p2,p3)` -/
def IsTriElem (e : Elem ℝ) : Prop := ∃ a b c, e.prim = .tri a b c ∧ e.box = triBox a b c

/-- **`Mesh.Hit2` (and `Mesh.Hit`) = the exhaustive loop**: on every `Covers` tree of triangle elements, for a
    unit-direction ray and `minDistance = 0`, the octree path returns the same flag and distance as the hit-list loop
    over ALL triangles of the tree. -/
theorem mesh_hit_eq_hitlist (t : Oct Box (Elem ℝ)) (ht : Covers t) (hel : ∀ e ∈ t.allElems, IsTriElem e)
    (ray : TemporalRay ℝ) (hu : ray.direction.LengthSquared = 1) (mx : ℝ) :
    meshHit t ray 0 mx = listHit (elemTriHit ray) t.allElems 0 mx ∧
    meshHit2 t ray 0 mx = listHit (elemTriHit ray) t.allElems 0 mx := by
  classical
  rw [meshHit_eq_meshHit2]
  refine ⟨?_, ?_⟩ <;>
  · unfold meshHit2
    -- guarded primitive: triangles at mn = 0 only
    let g : Elem ℝ → ℝ → ℝ → Option ℝ := fun e lo hi => if lo = 0 ∧ IsTriElem e then elemTriHit ray e lo hi else none
    let f : Elem ℝ → ℝ → Option ℝ := fun e lo =>
      if lo = 0 ∧ IsTriElem e then
        (match e.prim with | .tri a b c => RPrim.first ray 0 (.tri a b c) | _ => none) else none
    have hgeq : ∀ (l : List (Elem ℝ)), (∀ e ∈ l, IsTriElem e) → ∀ hi,
        listHit (elemTriHit ray) l 0 hi = listHit g l 0 hi := by
      intro l hl hi
      apply listHit_congr_on
      intro e he hi'
      simp only [g, hl e he, and_self, if_true]
    have hsub : ∀ e ∈ t.pruned (fun b => !intersectsRayInRange b ray.Ray.Origin ray.Ray.Direction 0 mx)
        (fun e => intersectsRayInRange e.box ray.Ray.Origin ray.Ray.Direction 0 mx), IsTriElem e := by
      intro e he
      rw [pruned_eq_scan (fun (b : Box) (e : Elem ℝ) => BoxSub e.box b) _ _ _ t ht] at he
      · exact hel e (List.mem_filter.mp he).1
      · intro b e hsub hacc
        simp [Tree.slab_mono hsub _ _ 0 mx hacc]
    rw [hgeq _ hsub, hgeq _ hel]
    apply octree_hit_eq_hitlist t ht ray.Ray.Origin ray.Ray.Direction f g
    · intro e mn mx' dist hp
      by_cases hk : mn = 0 ∧ IsTriElem e
      · obtain ⟨hmn, a, b, c, hprim, hbox⟩ := hk
        subst hmn
        have hk' : (0 : ℝ) = 0 ∧ IsTriElem e := ⟨rfl, a, b, c, hprim, hbox⟩
        simp only [g, hk', if_true, elemTriHit, hprim] at hp
        have hd : (RPrim.tri a b c).hitDist ray 0 mx' = some dist := hp
        have hs := prim_hit_slab ray hu (.tri a b c) 0 mx' dist rfl hd
        cases hh : triHit a b c ray 0 mx' with
        | none =>
          simp only [RPrim.hitDist, RPrim.hit, hh, Option.map_none] at hd
          cases hd
        | some h =>
          obtain ⟨_, hpos, hle, _⟩ := tri_hit_in_box a b c ray mx' h hu hh
          rw [hbox]
          exact hs.2 (lt_of_lt_of_le hpos hle)
      · simp [g, hk] at hp
    · intro e mn mx'
      by_cases hk : mn = 0 ∧ IsTriElem e
      · obtain ⟨hmn, a, b, c, hprim, hbox⟩ := hk
        subst hmn
        have hk' : (0 : ℝ) = 0 ∧ IsTriElem e := ⟨rfl, a, b, c, hprim, hbox⟩
        simp only [g, f, hk', if_true, elemTriHit, hprim]
        exact prim_first_hit ray hu (.tri a b c) 0 mx' rfl
      · simp [g, f, hk]

/-- **End to end for `rendering.Mesh`**: on the octree `NewOctreeWithDepth` builds (any depth, the automatic one
    included) from ANY list of triangles, `Mesh.Hit` and `Mesh.Hit2` return the flag and distance of the hit-list
    loop over the INPUT triangles in their original order (unit-direction ray, `minDistance = 0`, any `max`). -/
theorem mesh_built_hit_eq_hitlist (ps : List (Prim ℝ)) (hps : ∀ p ∈ ps, ∃ a b c, p = .tri a b c) (depth : Nat)
    (t : Oct Box (Elem ℝ)) (hb : newOctreeWithDepth ps depth = some t)
    (ray : TemporalRay ℝ) (hu : ray.direction.LengthSquared = 1) (mx : ℝ) :
    meshHit t ray 0 mx = listHit (elemTriHit ray) (mkElems ps) 0 mx ∧
    meshHit2 t ray 0 mx = listHit (elemTriHit ray) (mkElems ps) 0 mx := by
  classical
  have hwf : ∀ p ∈ ps, BoxSub p.boundingBox p.boundingBox := by
    intro p hp
    exact prim_box_wf p (by
      intro b hb'
      obtain ⟨a, b', c, e⟩ := hps p hp
      rw [e] at hb'; cases hb')
  have h := build_covers ps depth hwf
  rw [hb] at h
  obtain ⟨hc, hperm⟩ := h
  have helIn : ∀ e ∈ mkElems ps, IsTriElem e := by
    intro e he
    obtain ⟨h1, h2⟩ := mem_mkElems he
    obtain ⟨a, b, c, e3⟩ := hps _ h1
    exact ⟨a, b, c, e3, by rw [h2, e3]; rfl⟩
  have hel : ∀ e ∈ t.allElems, IsTriElem e := fun e he => helIn e (hperm.mem_iff.mp he)
  obtain ⟨m1, m2⟩ := mesh_hit_eq_hitlist t hc hel ray hu mx
  -- order independence of the hit list (first-hit contract of the triangle)
  let g : Elem ℝ → ℝ → ℝ → Option ℝ := fun e lo hi => if IsTriElem e then elemTriHit ray e lo hi else none
  let f : Elem ℝ → Option ℝ := fun e =>
    if IsTriElem e then (match e.prim with | .tri a b c => RPrim.first ray 0 (.tri a b c) | _ => none) else none
  have hg : ∀ (l : List (Elem ℝ)), (∀ e ∈ l, IsTriElem e) → listHit (elemTriHit ray) l 0 mx = listHit g l 0 mx := by
    intro l hl
    apply listHit_congr_on
    intro e he hi
    simp only [g, hl e he, if_true]
  have key : listHit (elemTriHit ray) t.allElems 0 mx = listHit (elemTriHit ray) (mkElems ps) 0 mx := by
    rw [hg _ hel, hg _ helIn]
    apply listHit_congr_mem f g 0 _ _ _ (fun e => hperm.mem_iff) mx
    intro e hi
    by_cases hk : IsTriElem e
    · obtain ⟨a, b, c, hprim, hbox⟩ := hk
      have hk' : IsTriElem e := ⟨a, b, c, hprim, hbox⟩
      simp only [g, f, hk', if_true, elemTriHit, hprim]
      exact prim_first_hit ray hu (.tri a b c) 0 hi rfl
    · simp [g, f, hk]
  exact ⟨m1.trans key, m2.trans key⟩

end C16
end PolyVerif
