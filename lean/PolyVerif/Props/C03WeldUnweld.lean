/-
  C03 — weld after unweld.  Derived from `weld_spec`, `unweld_spec` / `unweld_wf`:
  the per-corner KEYS of a welded mesh depend only on the per-corner content of the input (not on its vertex
  numbering), so `weld key (unweld m)` and `weld key m` have the same surviving triangles, in the same order, with the
  same key at every corner.
-/
import PolyVerif.Props.C03

namespace PolyVerif.C03
open PolyVerif.Mesh PolyVerif.Mesh.MeshVal

variable {α K : Type} [DecidableEq K]

/-- "three pairwise distinct keys" on a triple of corner values (a corner without a value never survives) -/
def distinctCorner (key : α → K) (t : Option α × Option α × Option α) : Bool :=
  match t.1, t.2.1, t.2.2 with
  | some x, some y, some z => decide (key x ≠ key y ∧ key x ≠ key z ∧ key y ≠ key z)
  | _, _, _ => false

/-- the corners that survive welding, read off the input's corner list `c` of the welded attribute alone:
    the corners of the triangles whose three corner keys are pairwise distinct, in order -/
def survivingCorners (key : α → K) (c : List (Option α)) : List (Option α) :=
  untriples ((triples c).filter (distinctCorner key))

theorem distinctKeys_eq (key : α → K) (d : List α) (t : Nat × Nat × Nat) :
    distinctKeys key d t = distinctCorner key (d[t.1]?, d[t.2.1]?, d[t.2.2]?) := by
  unfold distinctKeys distinctCorner
  cases d[t.1]? <;> cases d[t.2.1]? <;> cases d[t.2.2]? <;> rfl

/-- survivors commute with reading the attribute through the indices -/
theorem survivors_map (key : α → K) (d : List α) (idx : List Nat) :
    (untriples ((triples idx).filter (distinctKeys key d))).map (fun i => d[i]?) =
      survivingCorners key (idx.map fun i => d[i]?) := by
  unfold survivingCorners
  rw [triples_map, List.filter_map, ← untriples_map (fun i => d[i]?)]
  have : ((triples idx).filter (distinctKeys key d)) =
      (triples idx).filter (distinctCorner key ∘ fun t => (d[t.1]?, d[t.2.1]?, d[t.2.2]?)) := by
    apply List.filter_congr
    intro t _
    simp [Function.comp, distinctKeys_eq]
  rw [this]

/-- the representative of a key class carries the same key -/
theorem firstOfClass_key (key : α → K) (d : List α) : ∀ (S : List Nat), (∀ i ∈ S, i < d.length) →
    (S.filterMap (firstOfClass key d)).map (fun r => (d[r]?).map key) = S.map (fun i => (d[i]?).map key)
  | [], _ => rfl
  | i :: S, h => by
    have hi : i < d.length := h i (by simp)
    have ih := firstOfClass_key key d S (fun j hj => h j (by simp [hj]))
    have hsome : ∃ r, firstOfClass key d i = some r ∧ (d[r]?).map key = (d[i]?).map key := by
      unfold firstOfClass
      rw [List.getElem?_eq_getElem hi]
      simp only []
      have hex : (d.findIdx? fun y => decide (key y = key d[i])).isSome := by
        rw [List.findIdx?_isSome]
        exact List.any_eq_true.mpr ⟨d[i], List.getElem_mem hi, by simp⟩
      obtain ⟨r, hr⟩ := Option.isSome_iff_exists.mp hex
      refine ⟨r, hr, ?_⟩
      obtain ⟨hrl, hp, _⟩ := List.findIdx?_eq_some_iff_getElem.mp hr
      simp only [List.getElem?_eq_getElem hrl, List.getElem?_eq_getElem hi, Option.map_some, Option.some.injEq]
      simpa using hp
    obtain ⟨r, hr, hk⟩ := hsome
    simp only [List.filterMap_cons, hr, List.map_cons, hk, ih]

/-- `cornersOf` is determined by `corners` -/
theorem cornersOf_eq_find (x : MeshVal α) (k : AttrKey) :
    x.cornersOf k = ((x.corners).find? (fun kc => kc.1 == k)).map (·.2) := by
  unfold cornersOf corners attr? Attrs.find?
  induction x.attrs with
  | nil => rfl
  | cons a t ih =>
    simp only [List.map_cons, List.find?_cons]
    cases (a.1 == k)
    · exact ih
    · rfl

theorem cornersOf_congr {x y : MeshVal α} (h : x.corners = y.corners) (k : AttrKey) : x.cornersOf k = y.cornersOf k := by
  rw [cornersOf_eq_find, cornersOf_eq_find, h]

/-- **the keys of the welded corners**: for a well-formed mesh whose attribute `k` reads `c` per corner, the welded
    mesh's attribute `k` has, per corner and in order, exactly the keys of `survivingCorners key c` — a function of
    the input's per-corner content only (vertex numbering, sharing, unreferenced vertices do not matter). -/
theorem weld_keyCorners [DecidableEq α] {m W : MeshVal α} (h : WF m) {k : AttrKey} {key : α → K}
    (hw : m.weld k key = some W) {c : List (Option α)} (hc : m.cornersOf k = some c) :
    (W.cornersOf k).map (List.map (Option.map key)) = some ((survivingCorners key c).map (Option.map key)) := by
  obtain ⟨_, _, _, hcor⟩ := weld_spec h hw
  cases hd : m.attr? k with
  | none => simp [cornersOf, hd] at hc
  | some d =>
    rw [hd] at hcor
    have hc' : c = m.indices.map fun i => d[i]? := by
      simp only [cornersOf, hd, Option.map_some, Option.some.injEq] at hc; exact hc.symm
    have hdl : d.length = m.attrLen := h.1 _ (Attrs.find?_mem hd)
    rw [cornersOf_congr hcor k]
    have hattr : (m.setIndices (weldReindex key d m.indices)).attr? k = some d := hd
    simp only [cornersOf, hattr, Option.map_some, Option.some.injEq]
    show List.map (Option.map key) (List.map (fun i => d[i]?) (weldReindex key d m.indices)) = _
    rw [List.map_map]
    have hS : ∀ i ∈ untriples ((triples m.indices).filter (distinctKeys key d)), i < d.length := by
      intro i hi
      rw [hdl]; exact h.2.1 i (mem_untriples_filter hi)
    have := firstOfClass_key key d _ hS
    simp only [weldReindex]
    show List.map (fun r => Option.map key d[r]?) _ = _
    rw [this, hc', ← survivors_map, List.map_map]
    rfl

/-- **weld_unweld**: welding the unwelded mesh gives the same surviving triangles, in the same order, with the same
    key at every corner, as welding the mesh itself. (The other attributes of a corner are those of the first VERTEX
    of its key class in `weld m`, and of the first CORNER of its key class in `weld (unweld m)`: equal "up to the key".) -/
theorem weld_unweld [DecidableEq α] {m W W' : MeshVal α} (h : WF m) {k : AttrKey} {key : α → K}
    (hw : m.weld k key = some W) (hw' : m.unweld.weld k key = some W') :
    (W'.cornersOf k).map (List.map (Option.map key)) = (W.cornersOf k).map (List.map (Option.map key)) ∧
    (W'.cornersOf k).map List.length = (W.cornersOf k).map List.length := by
  have hcu : m.unweld.cornersOf k = m.cornersOf k := cornersOf_congr (unweld_corners h) k
  cases hc : m.cornersOf k with
  | none =>
    -- impossible: weld succeeded, so the attribute exists
    obtain ⟨_, _, _, hcor⟩ := weld_spec h hw
    cases hd : m.attr? k with
    | none => rw [hd] at hcor; exact absurd hcor id
    | some d => simp [cornersOf, hd] at hc
  | some c =>
    have h1 := weld_keyCorners h hw hc
    have h2 := weld_keyCorners (unweld_wf h) hw' (hcu.trans hc)
    have heq := h2.trans h1.symm
    refine ⟨heq, ?_⟩
    cases hW : W.cornersOf k with
    | none => rw [hW] at h1; simp at h1
    | some l =>
      cases hW' : W'.cornersOf k with
      | none => rw [hW'] at h2; simp at h2
      | some l' =>
        rw [hW, hW'] at heq
        simp only [Option.map_some, Option.some.injEq] at heq ⊢
        have := congrArg List.length heq
        simpa using this

example : ∃ W W', sample.weld ⟨3, "Position"⟩ (· % 3) = some W ∧ sample.unweld.weld ⟨3, "Position"⟩ (· % 3) = some W' ∧
    (W.cornersOf ⟨3, "Position"⟩).map (List.map (Option.map (· % 3))) = some [some 1, some 0, some 2] ∧
    (W'.cornersOf ⟨3, "Position"⟩).map (List.map (Option.map (· % 3))) = some [some 1, some 0, some 2] :=
  ⟨_, _, rfl, rfl, by decide, by decide⟩

end PolyVerif.C03
