/-
  C08 (round 2) — the CLAIM STAGE for spec headers: `Located` hypotheses of `ply_reads_spec_pointcloud_bytes` /
  `ply_reads_spec_mesh_bytes` discharged from a DECIDABLE header-level guard, reusing C04's characterisation of
  `buildAll` (`Props/C04Claim.lean`: `claimGuard`, `claimSpec`, `ply_claim_stage`, `ply_claim_stage_exact`).

  Family covered (`specClaimGuard f ws`, decidable, header only — no data): the vertex properties of `f`, in file order,
  are the concatenation of the name groups `ws` (each group = the names one tool writes together with ONE scalar type:
  `x y z`, `nx ny nz`, `red green blue [alpha]`, `s t`, `u v`, splat groups, single scalars), the names are distinct, and
  C04's `claimGuard ws` holds.  Inside it the readers `MeshReader.Read` builds are EXACTLY `claimSpec ws`, every one
  located at its names, and their (arity, attribute) keys are those `meaning` installs (`meaningKeys`, the header-only
  part of `PlySpec.meaning`; the equality of the two key lists is the last, decidable, conjunct of the guard).
  NOT covered (kept as `ply_spec_claim_full : Prop`): a group whose names are INTERLEAVED with other properties or stand
  in another order than the reader lists them (`z q x y`): for those `ply_group_reader_located` gives the per-reader fact.
-/
import PolyVerif.Props.C04Claim
import PolyVerif.Props.C08Mesh
import PolyVerif.Model.PlySpecKeys

namespace PolyVerif
namespace C08
open Ply PlySpec PlyLemmas PlyCompose PlyHeader PlyFaces PlyClaim

variable {α : Type}

/-- the readers `MeshReader.Read` builds on the spec header, each with the header positions of its names -/
def specClaimed (f : SpecFile α) : List (Built × List Nat) :=
  (buildAll true (specProps f) defaultReaders true).map (fun b => (b, b.names.map (posOf (specProps f))))

/-- THE DECIDABLE HEADER-LEVEL GUARD -/
def specClaimGuard (f : SpecFile α) (ws : List WProp) : Bool :=
  specProps f == wsProps ws && decide (wsNames ws).Nodup && claimGuard ws &&
  (claimSpec ws).map (fun x => (x.2.1.length, x.1)) == meaningKeys f

theorem specClaimGuard_parts (f : SpecFile α) (ws : List WProp) (h : specClaimGuard f ws = true) :
    specProps f = wsProps ws ∧ (wsNames ws).Nodup ∧ claimGuard ws = true ∧
      (claimSpec ws).map (fun x => (x.2.1.length, x.1)) = meaningKeys f := by
  simp only [specClaimGuard, Bool.and_eq_true, beq_iff_eq, decide_eq_true_eq] at h
  exact ⟨h.1.1.1, h.1.1.2, h.1.2, h.2⟩

/-- INSIDE THE GUARD every reader built on the spec header is located at its names (one type, byte offsets = Σ sizes of
the properties before, in FILE order) -/
theorem ply_spec_claim_located (f : SpecFile α) (ws : List WProp) (hg : specClaimGuard f ws = true) :
    ∀ p ∈ specClaimed f, Located (f.vprops.map (·.ty)) p.1 p.2 := by
  obtain ⟨hp, hnd, hcg, _⟩ := specClaimGuard_parts f ws hg
  intro p hpm
  simp only [specClaimed, List.mem_map] at hpm
  obtain ⟨b, hb, rfl⟩ := hpm
  have hty : f.vprops.map (·.ty) = (specProps f).map (·.2) := by simp [specProps, Function.comp_def]
  rw [hty, hp, wsProps_eq] at *
  exact ((C04.ply_claim_stage ws hnd hcg).1 b hb).loc

/-- … the built readers are EXACTLY the predicted ones (attribute, names, decoding type) … -/
theorem ply_spec_claim_exact (f : SpecFile α) (ws : List WProp) (hg : specClaimGuard f ws = true) :
    (specClaimed f).map (fun p => (p.1.attr, p.1.names, p.1.ty)) = (claimSpec ws).map (fun x => (x.1, x.2.1, some x.2.2)) := by
  obtain ⟨hp, hnd, hcg, _⟩ := specClaimGuard_parts f ws hg
  simp only [specClaimed, List.map_map, Function.comp_def]
  rw [hp]
  exact C04.ply_claim_stage_exact ws hnd hcg

/-- … and their attribute NAMES AND ARITIES are exactly those of `meaning`, in `meaning`'s order -/
theorem ply_spec_attribute_keys_are_meaning (f : SpecFile α) (ws : List WProp) (hg : specClaimGuard f ws = true) :
    (specClaimed f).map (fun p => (p.1.names.length, p.1.attr)) = meaningKeys f := by
  have h := ply_spec_claim_exact f ws hg
  rw [← (specClaimGuard_parts f ws hg).2.2.2]
  have := congrArg (List.map (fun (x : Bytes × List Bytes × Option SType) => (x.2.1.length, x.1))) h
  simpa [List.map_map, Function.comp_def] using this

/-- the predicate of the driver oracle `c08.holds.claim_keys` (`builtKeys f == meaningKeys f`, evaluated on every generated
SpecFile) holds inside the guard -/
theorem ply_spec_claim_keys_oracle (f : SpecFile α) (ws : List WProp) (hf : f.format ≠ .ascii)
    (hg : specClaimGuard f ws = true) : builtKeys f = meaningKeys f := by
  rw [← ply_spec_attribute_keys_are_meaning f ws hg]
  have hb : (f.format != Format.ascii) = true := by cases h : f.format <;> simp_all
  simp [builtKeys, specClaimed, specProps, hb, List.map_map, Function.comp_def]

/-- POINT-CLOUD FILES FROM FILE BYTES, CLOSED: no `Located` hypothesis, no reader list to supply -/
theorem ply_reads_spec_pointcloud_bytes_closed (c : Coding α) (f : SpecFile α) (ws : List WProp) (hok : SpecHeaderOK f)
    (hf : f.format ≠ .ascii) (hface : f.face = none)
    (htyped : ∀ r ∈ f.verts, r.map Datum.ty = f.vprops.map (·.ty)) (hg : specClaimGuard f ws = true) :
    readMesh c defaultReader (refEncode c f)
      = .ok (applyColumns ⟨.point, (List.range f.verts.length).map Int.ofNat, [], none⟩ ((specClaimed f).map (·.1))
          (f.verts.map (rowOf c (specClaimed f)))) :=
  ply_reads_spec_pointcloud_bytes c f hok hf hface htyped (specClaimed f)
    (by simp [specClaimed, List.map_map, Function.comp_def]) (ply_spec_claim_located f ws hg)

/-- MESH FILES FROM FILE BYTES, CLOSED -/
theorem ply_reads_spec_mesh_bytes_closed (c : Coding α) (f : SpecFile α) (fe : SpecFaceElem α) (ws : List WProp)
    (hok : SpecHeaderOK f) (hf : f.format ≠ .ascii) (hm : SpecMeshOK f fe) (hsize : ∀ fc ∈ fe.faces, TriOrQuad fc)
    (htyped : ∀ r ∈ f.verts, r.map Datum.ty = f.vprops.map (·.ty)) (hg : specClaimGuard f ws = true) :
    readMesh c defaultReader (refEncode c f)
      = .ok (applyColumns ⟨.triangle, fanIdx fe.faces, [], none⟩ ((specClaimed f).map (·.1))
          (f.verts.map (rowOf c (specClaimed f)))) :=
  ply_reads_spec_mesh_bytes c f fe hok hf hm hsize htyped (specClaimed f)
    (by simp [specClaimed, List.map_map, Function.comp_def]) (ply_spec_claim_located f ws hg)

/-- the general statement (ANY order / interleaving of the group members, uniform type within a group): every reader built
on a spec header is located at its names and the keys are `meaning`'s.  NOT proved (C04's characterisation speaks about
groups written together in the reader's order). -/
def ply_spec_claim_full : Prop :=
  ∀ (f : SpecFile Nat), ((f.vprops.map (·.name)).Nodup) →
    (∀ g ∈ groups, ∀ p ∈ f.vprops, ∀ q ∈ f.vprops, p.name ∈ g.2.1 → q.name ∈ g.2.1 → p.ty = q.ty) →
    (∀ p ∈ specClaimed f, Located (f.vprops.map (·.ty)) p.1 p.2) ∧
      (specClaimed f).map (fun p => (p.1.names.length, p.1.attr)) = meaningKeys f

/-! ### non-vacuity: `x y z` float, `red green blue` uchar, `quality` float32, `q` double; one triangle + one quad -/

def exClaim : SpecFile Nat :=
  { format := .le, crlf := true, pre := [], mid := [], post := [],
    vprops := [⟨nm "x", .float, false⟩, ⟨nm "y", .float, true⟩, ⟨nm "z", .float, false⟩, ⟨nm "red", .uchar, false⟩,
      ⟨nm "green", .uchar, true⟩, ⟨nm "blue", .uchar, false⟩, ⟨nm "quality", .float, true⟩, ⟨nm "q", .double, false⟩],
    verts := [[.f32 1, .f32 2, .f32 3, .u8 255, .u8 0, .u8 51, .f32 7, .f64 9],
      [.f32 4, .f32 5, .f32 6, .u8 1, .u8 2, .u8 3, .f32 8, .f64 10],
      [.f32 7, .f32 8, .f32 9, .u8 4, .u8 5, .u8 6, .f32 9, .f64 11],
      [.f32 10, .f32 11, .f32 12, .u8 7, .u8 8, .u8 9, .f32 10, .f64 12]],
    face := some exMesh.exFaces }

def exClaimWs : List WProp :=
  [⟨positionAttr, [nm "x", nm "y", nm "z"], .float⟩, ⟨colorAttr, [nm "red", nm "green", nm "blue"], .uchar⟩,
   ⟨nm "quality", [nm "quality"], .float⟩, ⟨nm "q", [nm "q"], .double⟩]

example : specClaimGuard exClaim exClaimWs = true := by decide

example : meaningKeys exClaim = [(3, positionAttr), (3, colorAttr), (1, nm "quality"), (1, nm "q")] := by decide

example : ∃ m, readMesh toyCoding defaultReader (refEncode toyCoding exClaim) = .ok m :=
  ⟨_, ply_reads_spec_mesh_bytes_closed toyCoding exClaim exMesh.exFaces exClaimWs
    ⟨by decide, by intro i hi; simp [exClaim] at hi, by decide, by intro fe h; simp only [exClaim, Option.some.injEq] at h; subst h; decide⟩
    (by decide) ⟨rfl, rfl, by decide, by decide, exMesh_ok.enc⟩
    (by
      intro fc hfc
      simp only [exMesh.exFaces, List.mem_cons, List.not_mem_nil, or_false] at hfc
      rcases hfc with rfl | rfl
      · exact Or.inl rfl
      · exact Or.inr rfl)
    (by decide) (by decide)⟩

/-! ### any order / interleaving: the claim stage CHECKED on the header (certificate)

The header-level characterisation for interleaved or reordered group members (`ply_spec_claim_full`) is NOT proved.  What IS
proved for every order: a decidable check on the header alone (no data) that RUNS the claim function — every built reader is
located at the header positions of its names with one type, and the built keys are `meaningKeys f` — discharges the
`Located` hypotheses; so for any concrete header (`z q x y`, `red x green y blue z`, …) the closed theorems follow by
`decide`. -/

/-- decidable, header only; runs `buildAll` -/
def specClaimCheck (f : SpecFile α) : Bool :=
  (specClaimed f).all (fun p => locatedNamedB (specProps f) p.1 p.2) &&
  (specClaimed f).map (fun p => (p.1.names.length, p.1.attr)) == meaningKeys f

theorem ply_spec_claim_located_checked (f : SpecFile α) (hc : specClaimCheck f = true) :
    (∀ p ∈ specClaimed f, Located (f.vprops.map (·.ty)) p.1 p.2) ∧
      (specClaimed f).map (fun p => (p.1.names.length, p.1.attr)) = meaningKeys f := by
  simp only [specClaimCheck, Bool.and_eq_true, List.all_eq_true, beq_iff_eq] at hc
  refine ⟨?_, hc.2⟩
  intro p hp
  have hty : f.vprops.map (·.ty) = (specProps f).map (·.2) := by simp [specProps, Function.comp_def]
  rw [hty]
  exact (locatedNamedB_sound (specProps f) p.1 p.2 (hc.1 p hp)).loc

/-- POINT-CLOUD FILES FROM FILE BYTES, any property order / interleaving, closed by the header check -/
theorem ply_reads_spec_pointcloud_bytes_checked (c : Coding α) (f : SpecFile α) (hok : SpecHeaderOK f)
    (hf : f.format ≠ .ascii) (hface : f.face = none)
    (htyped : ∀ r ∈ f.verts, r.map Datum.ty = f.vprops.map (·.ty)) (hc : specClaimCheck f = true) :
    readMesh c defaultReader (refEncode c f)
      = .ok (applyColumns ⟨.point, (List.range f.verts.length).map Int.ofNat, [], none⟩ ((specClaimed f).map (·.1))
          (f.verts.map (rowOf c (specClaimed f)))) :=
  ply_reads_spec_pointcloud_bytes c f hok hf hface htyped (specClaimed f)
    (by simp [specClaimed, List.map_map, Function.comp_def]) (ply_spec_claim_located_checked f hc).1

/-- MESH FILES FROM FILE BYTES, any property order / interleaving, closed by the header check -/
theorem ply_reads_spec_mesh_bytes_checked (c : Coding α) (f : SpecFile α) (fe : SpecFaceElem α)
    (hok : SpecHeaderOK f) (hf : f.format ≠ .ascii) (hm : SpecMeshOK f fe) (hsize : ∀ fc ∈ fe.faces, TriOrQuad fc)
    (htyped : ∀ r ∈ f.verts, r.map Datum.ty = f.vprops.map (·.ty)) (hc : specClaimCheck f = true) :
    readMesh c defaultReader (refEncode c f)
      = .ok (applyColumns ⟨.triangle, fanIdx fe.faces, [], none⟩ ((specClaimed f).map (·.1))
          (f.verts.map (rowOf c (specClaimed f)))) :=
  ply_reads_spec_mesh_bytes c f fe hok hf hm hsize htyped (specClaimed f)
    (by simp [specClaimed, List.map_map, Function.comp_def]) (ply_spec_claim_located_checked f hc).1

/-- `z q x y` (reordered + interleaved, `exMesh`) and `red x green y blue z` pass the check -/
example : specClaimCheck exMesh = true := by decide

def exInterleaved : SpecFile Nat :=
  { exClaim with
    vprops := [⟨nm "red", .uchar, false⟩, ⟨nm "x", .float, false⟩, ⟨nm "green", .uchar, true⟩, ⟨nm "y", .float, true⟩,
      ⟨nm "blue", .uchar, false⟩, ⟨nm "z", .float, false⟩],
    verts := [[.u8 255, .f32 1, .u8 0, .f32 2, .u8 51, .f32 3], [.u8 1, .f32 4, .u8 2, .f32 5, .u8 3, .f32 6],
      [.u8 4, .f32 7, .u8 5, .f32 8, .u8 6, .f32 9], [.u8 7, .f32 10, .u8 8, .f32 11, .u8 9, .f32 12]] }

example : specClaimCheck exInterleaved = true := by decide

example : meaningKeys exInterleaved = [(3, positionAttr), (3, colorAttr)] := by decide

example : ∃ m, readMesh toyCoding defaultReader (refEncode toyCoding exInterleaved) = .ok m :=
  ⟨_, ply_reads_spec_mesh_bytes_checked toyCoding exInterleaved exMesh.exFaces
    ⟨by decide, by intro i hi; simp [exInterleaved, exClaim] at hi, by decide,
      by intro fe h; simp only [exInterleaved, exClaim, Option.some.injEq] at h; subst h; decide⟩
    (by decide) ⟨rfl, rfl, by decide, by decide, exMesh_ok.enc⟩
    (by
      intro fc hfc
      simp only [exMesh.exFaces, List.mem_cons, List.not_mem_nil, or_false] at hfc
      rcases hfc with rfl | rfl
      · exact Or.inl rfl
      · exact Or.inr rfl)
    (by decide) (by decide)⟩

/-- … while the mixed-type group of the known finding does NOT: the check cannot be dropped -/
example : specClaimCheck ({ exInterleaved with
    vprops := [⟨nm "x", .float, false⟩, ⟨nm "y", .float, false⟩, ⟨nm "z", .double, false⟩] } : SpecFile Nat) = false := by decide

end C08
end PolyVerif
