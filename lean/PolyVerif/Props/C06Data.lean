/-
  C06 — scene level, data: the primitives `AddScene` writes read back exactly the meshes of the scene
  (per-primitive consistency, decode image through the tracker maps).
-/
import PolyVerif.Props.C06Scene

namespace PolyVerif
namespace C06
open Gltf

/-! ### append-only extension of buffer / views / accessors -/

/-- `w'` extends `w`: buffer, views and accessors are only appended to -/
def Ext (w w' : W) : Prop :=
  ∃ b vs as, w'.buf = w.buf ++ b ∧ w'.views = w.views ++ vs ∧ w'.accessors = w.accessors ++ as

theorem Ext.refl' (w : W) : Ext w w := ⟨[], [], [], by simp⟩

theorem Ext.trans' {a b c : W} (h1 : Ext a b) (h2 : Ext b c) : Ext a c := by
  obtain ⟨x1, y1, z1, e1, f1, g1⟩ := h1
  obtain ⟨x2, y2, z2, e2, f2, g2⟩ := h2
  exact ⟨x1 ++ x2, y1 ++ y2, z1 ++ z2, by rw [e2, e1, List.append_assoc], by rw [f2, f1, List.append_assoc],
    by rw [g2, g1, List.append_assoc]⟩

theorem ext_of_lowEq {w w' : W} (h : LowEq w' w) : Ext w w' :=
  ⟨[], [], [], by simp [h.2.1], by simp [h.2.2.2], by simp [h.2.2.1]⟩

theorem ext_writeVec (w : W) (c : Comp) (d : Nat) (v : List (List Nat)) : Ext w (writeVec w c d v) :=
  ⟨_, _, _, rfl, rfl, rfl⟩

theorem ext_writeIndices (w : W) (i : List Nat) (n : Nat) : Ext w (writeIndices w i n) := ⟨_, _, _, rfl, rfl, rfl⟩

/-- accessor `i` exists, has the given component type / dimension / count, and decodes to `data` -/
def AccIs (w : W) (i : Nat) (comp : Comp) (dim count : Nat) (data : List Nat) : Prop :=
  ∃ x, w.accessors[i]? = some x ∧ x.comp = comp ∧ x.dim = dim ∧ x.count = count
    ∧ decodeAcc w.buf w.views x = some data

theorem accIs_mono {w w' : W} {i : Nat} {comp : Comp} {dim count : Nat} {data : List Nat}
    (h : AccIs w i comp dim count data) (e : Ext w w') : AccIs w' i comp dim count data := by
  obtain ⟨x, h1, h2, h3, h4, h5⟩ := h
  obtain ⟨b, vs, as, e1, e2, e3⟩ := e
  refine ⟨x, ?_, h2, h3, h4, ?_⟩
  · have hlt : i < w.accessors.length := by
      rcases Nat.lt_or_ge i w.accessors.length with h | h
      · exact h
      · rw [List.getElem?_eq_none h] at h1; cases h1
    rw [e3, List.getElem?_append_left hlt, h1]
  · rw [e1, e2]; exact decodeAcc_append _ _ _ _ _ _ h5

theorem accIs_writeVec (w : W) (hw : Inv w) (c : Comp) (d : Nat) (v : List (List Nat)) (hc : c = .f32 ∨ c = .u8)
    (hv : VecsOK c d v) : AccIs (writeVec w c d v) w.accessors.length c d v.length v.flatten := by
  obtain ⟨h1, h2⟩ := gltf_decode_image w hw c d v ⟨hc, hv⟩ []
  exact ⟨_, h1, rfl, rfl, rfl, h2⟩

theorem accIs_writeIndices (w : W) (hw : Inv w) (idx : List Nat) (n : Nat) (h : (∀ i ∈ idx, i < n) ∧ n ≤ 2 ^ 32) :
    AccIs (writeIndices w idx n) w.accessors.length (indexComp n) 1 idx.length idx := by
  obtain ⟨h1, h2⟩ := gltf_decode_indices w hw idx n h []
  exact ⟨_, h1, rfl, rfl, rfl, h2⟩

/-! ### the attribute map and the index accessor of a written mesh -/

/-- every entry of the attribute map is the accessor of one written attribute of `m`, under that attribute's glTF name,
    with its component type / dimension / vertex count, decoding to exactly its stored values -/
def AttrsData (w : W) (m : PMesh) (attrs : List (String × Nat)) : Prop :=
  ∀ ka ∈ attrs, ∃ a ∈ m.written, ka.1 = gltfAttrName a.name
    ∧ AccIs w ka.2 (attrComp a.name) a.dim a.vals.length a.vals.flatten

/-- the written attributes of `m` have pairwise different glTF names (no two attributes compete for one key of the
    `primitive.attributes` object) -/
def KeysOK (m : PMesh) : Prop := List.Pairwise (fun a b : Attr => gltfAttrName a.name ≠ gltfAttrName b.name) m.written

/-- every written attribute has an entry under its glTF name -/
def Complete (m : PMesh) (attrs : List (String × Nat)) : Prop :=
  KeysOK m → (∀ a ∈ m.written, ∃ i, (gltfAttrName a.name, i) ∈ attrs) ∧ attrs.length = m.written.length

def MeshData (w : W) (m : PMesh) (attrs : List (String × Nat)) (idx : Nat) : Prop :=
  AttrsData w m attrs ∧ ((m.written ≠ [] → attrs ≠ []) ∧ Complete m attrs)
  ∧ AccIs w idx (indexComp m.attrLen) 1 m.indices.length m.indices

theorem attrsData_mono {w w' : W} {m : PMesh} {attrs : List (String × Nat)} (h : AttrsData w m attrs) (e : Ext w w') :
    AttrsData w' m attrs := by
  intro ka hka
  obtain ⟨a, ha, hk, hacc⟩ := h ka hka
  exact ⟨a, ha, hk, accIs_mono hacc e⟩

theorem meshData_mono {w w' : W} {m : PMesh} {attrs : List (String × Nat)} {idx : Nat} (h : MeshData w m attrs idx)
    (e : Ext w w') : MeshData w' m attrs idx := ⟨attrsData_mono h.1 e, h.2.1, accIs_mono h.2.2 e⟩

theorem mapInsert_ne_nil {α β} [DecidableEq α] (m : List (α × β)) (k : α) (v : β) : mapInsert m k v ≠ [] := by
  unfold mapInsert; simp

theorem writeAttrs_data (m : PMesh) (w : W) (acc : List (String × Nat)) (l : List Attr) (hw : Inv w)
    (hl : ∀ a ∈ l, a ∈ m.written ∧ VecsOK (attrComp a.name) a.dim a.vals) (hacc : AttrsData w m acc) :
    AttrsData (writeAttrs w acc l).1 m (writeAttrs w acc l).2 ∧ Ext w (writeAttrs w acc l).1
    ∧ ((l ≠ [] ∨ acc ≠ []) → (writeAttrs w acc l).2 ≠ []) := by
  induction l generalizing w acc with
  | nil => exact ⟨hacc, Ext.refl' w, fun h => by rcases h with h | h; exact absurd rfl h; exact h⟩
  | cons a r ih =>
    simp only [writeAttrs]
    have hv := (hl a (by simp)).2
    have hw1 := inv_writeVec w hw _ _ _ (attrComp_cases a.name) hv
    have hacc1 : AttrsData (writeVec w (attrComp a.name) a.dim a.vals) m (mapInsert acc (gltfAttrName a.name) w.accessors.length) := by
      intro ka hka
      rcases mem_mapInsert _ _ _ _ hka with h | h
      · obtain ⟨a', ha', hk, hacc'⟩ := hacc ka h
        exact ⟨a', ha', hk, accIs_mono hacc' (ext_writeVec _ _ _ _)⟩
      · subst h
        exact ⟨a, (hl a (by simp)).1, rfl, accIs_writeVec w hw _ _ _ (attrComp_cases a.name) hv⟩
    obtain ⟨h1, h2, h3⟩ := ih _ _ hw1 (fun x hx => hl x (by simp [hx])) hacc1
    exact ⟨h1, (ext_writeVec _ _ _ _).trans' h2, fun _ => h3 (Or.inr (mapInsert_ne_nil _ _ _))⟩

theorem writeAttrs_complete (w : W) (acc : List (String × Nat)) (l : List Attr)
    (hl : List.Pairwise (fun a b : Attr => gltfAttrName a.name ≠ gltfAttrName b.name) l) :
    (∀ ka ∈ acc, (∀ a ∈ l, gltfAttrName a.name ≠ ka.1) → ka ∈ (writeAttrs w acc l).2)
    ∧ ∀ a ∈ l, ∃ i, (gltfAttrName a.name, i) ∈ (writeAttrs w acc l).2 := by
  induction l generalizing w acc with
  | nil => exact ⟨fun ka hka _ => hka, by simp⟩
  | cons a r ih =>
    simp only [writeAttrs]
    rw [List.pairwise_cons] at hl
    obtain ⟨h1, h2⟩ := ih (writeVec w (attrComp a.name) a.dim a.vals) (mapInsert acc (gltfAttrName a.name) w.accessors.length) hl.2
    refine ⟨?_, ?_⟩
    · intro ka hka hne
      apply h1 ka
      · unfold mapInsert
        simp only [List.mem_append, List.mem_filter, List.mem_singleton]
        exact Or.inl ⟨hka, by simpa using fun h => hne a (by simp) h.symm⟩
      · intro x hx; exact hne x (by simp [hx])
    · intro x hx
      simp only [List.mem_cons] at hx
      rcases hx with rfl | hx
      · refine ⟨w.accessors.length, h1 _ ?_ ?_⟩
        · unfold mapInsert; simp
        · intro y hy; exact fun h => hl.1 y hy h.symm
      · exact h2 x hx

theorem writeAttrs_length (w : W) (acc : List (String × Nat)) (l : List Attr)
    (hl : List.Pairwise (fun a b : Attr => gltfAttrName a.name ≠ gltfAttrName b.name) l)
    (hacc : ∀ ka ∈ acc, ∀ a ∈ l, gltfAttrName a.name ≠ ka.1) : (writeAttrs w acc l).2.length = acc.length + l.length := by
  induction l generalizing w acc with
  | nil => simp [writeAttrs]
  | cons a r ih =>
    simp only [writeAttrs]
    rw [List.pairwise_cons] at hl
    have hfresh : mapInsert acc (gltfAttrName a.name) w.accessors.length = acc ++ [(gltfAttrName a.name, w.accessors.length)] := by
      unfold mapInsert
      rw [List.filter_eq_self.mpr (fun e he => by simpa using fun h => hacc e he a (by simp) h.symm)]
    rw [ih _ _ hl.2 ?_, hfresh]
    · simp only [List.length_append, List.length_cons, List.length_nil]; omega
    · intro ka hka x hx
      rw [hfresh] at hka
      simp only [List.mem_append, List.mem_singleton] at hka
      rcases hka with hka | rfl
      · exact hacc ka hka x (by simp [hx])
      · exact fun h => hl.1 x hx h.symm

theorem writeMeshData_data (w : W) (id : Nat) (m : PMesh) (hw : Inv w) (hm : MeshWF m) :
    MeshData (writeMeshData w id m).1 m (writeMeshData w id m).2.1 (writeMeshData w id m).2.2
    ∧ Ext w (writeMeshData w id m).1 := by
  obtain ⟨h1, h2, h3⟩ := writeAttrs_data m w [] m.written hw (fun a ha => ⟨ha, (hm.1 a ha).1⟩) (by intro ka hka; cases hka)
  have hw1 := inv_writeAttrs w [] m.written hw (fun a ha => (hm.1 a ha).1)
  have hidx := accIs_writeIndices _ hw1 m.indices m.attrLen hm.2
  have e2 : Ext (writeAttrs w [] m.written).1 (writeMeshData w id m).1 := ⟨_, _, _, rfl, rfl, rfl⟩
  have e3 : Ext (writeIndices (writeAttrs w [] m.written).1 m.indices m.attrLen) (writeMeshData w id m).1 := ⟨[], [], [], by simp [writeMeshData], by simp [writeMeshData], by simp [writeMeshData]⟩
  refine ⟨⟨attrsData_mono h1 e2, ⟨fun hne => h3 (Or.inl hne), fun hk => ⟨(writeAttrs_complete w [] m.written hk).2, by
      have := writeAttrs_length w [] m.written hk (by intro ka hka; cases hka)
      show (writeAttrs w [] m.written).2.length = m.written.length
      simpa using this⟩⟩, accIs_mono hidx e3⟩, h2.trans' e2⟩

theorem dupFree_pairwise {α} (f : α → String) : ∀ l : List α, dupFree (l.map f) = true →
    List.Pairwise (fun a b => f a ≠ f b) l
  | [], _ => List.Pairwise.nil
  | a :: l, h => by
    simp only [List.map_cons, dupFree, Bool.and_eq_true, Bool.not_eq_true'] at h
    rw [List.pairwise_cons]
    refine ⟨?_, dupFree_pairwise f l h.2⟩
    intro b hb hab
    have : (l.map f).contains (f a) = true := by
      simp only [List.contains_eq_mem, List.mem_map, decide_eq_true_eq]
      exact ⟨b, hb, hab.symm⟩
    rw [this] at h; cases h.1

/-! ### the data invariant of `AddScene` -/

/-- glTF mesh `gm` is the one written for heap mesh `id` with material index `mat`: one primitive whose attribute map
    and index accessor read back mesh `id`, whose mode encodes the topology -/
def MeshFor (s : Scene) (w : W) (gm : GMesh) (id : Nat) (mat : Option Nat) : Prop :=
  ∃ m p idx, s.meshHeap[id]? = some m ∧ gm.prims = [p] ∧ p.material = mat ∧ p.indices = some idx
    ∧ p.mode = modeOfTopo m.topo ∧ MeshData w m p.attrs idx
    ∧ m.written ≠ [] ∧ KeysOK m      -- both follow from acceptance (fd26630: skipped / rejected otherwise)

theorem meshFor_mono {s : Scene} {w w' : W} {gm : GMesh} {id : Nat} {mat : Option Nat} (h : MeshFor s w gm id mat)
    (e : Ext w w') : MeshFor s w' gm id mat := by
  obtain ⟨m, p, idx, h1, h2, h3, h4, h5, h6, h7⟩ := h
  exact ⟨m, p, idx, h1, h2, h3, h4, h5, meshData_mono h6 e, h7⟩

structure DInv (s : Scene) (w : W) : Prop where
  inv : Inv w
  /-- accessor reuse by mesh pointer returns the accessors written for THAT mesh -/
  written : ∀ e ∈ w.written, ∃ m, s.meshHeap[e.1]? = some m ∧ MeshData w m e.2.1 e.2.2
  meshes : ∀ gm ∈ w.meshes, ∃ id mat, MeshFor s w gm id mat
  /-- the mesh table points at the mesh written for its key -/
  meshIdx : ∀ e ∈ w.meshIdx, ∃ gm, w.meshes[e.2]? = some gm ∧ MeshFor s w gm e.1.1 e.1.2

/-- what a step needs to show to carry `DInv` along when it touches neither tracker nor mesh list -/
theorem dinv_keep {s : Scene} {w w' : W} (h : DInv s w) (hi : Inv w') (e : Ext w w') (e1 : w'.written = w.written)
    (e2 : w'.meshes = w.meshes) (e3 : w'.meshIdx = w.meshIdx) : DInv s w' := by
  refine ⟨hi, ?_, ?_, ?_⟩
  · intro x hx; rw [e1] at hx
    obtain ⟨m, h1, h2⟩ := h.written x hx
    exact ⟨m, h1, meshData_mono h2 e⟩
  · intro gm hgm; rw [e2] at hgm
    obtain ⟨id, mat, h1⟩ := h.meshes gm hgm
    exact ⟨id, mat, meshFor_mono h1 e⟩
  · intro x hx; rw [e3] at hx
    obtain ⟨gm, h1, h2⟩ := h.meshIdx x hx
    exact ⟨gm, by rw [e2]; exact h1, meshFor_mono h2 e⟩

theorem writeMeshData_keepA (w : W) (id : Nat) (m : PMesh) :
    (writeMeshData w id m).1.matIdx = w.matIdx ∧ (writeMeshData w id m).1.meshes = w.meshes
    ∧ (writeMeshData w id m).1.written = mapInsert w.written id ((writeMeshData w id m).2.1, (writeMeshData w id m).2.2)
    ∧ (writeMeshData w id m).1.meshIdx = w.meshIdx ∧ (writeMeshData w id m).1.nodes = w.nodes
    ∧ (writeMeshData w id m).1.scene = w.scene ∧ (writeMeshData w id m).1.materials = w.materials := by
  obtain ⟨k, _⟩ := writeAttrs_refs w [] m.written (by simp)
  have k2 := (keepA_writeIndices (writeAttrs w [] m.written).1 m.indices m.attrLen).trans' k
  refine ⟨k2.1, k2.2.1, ?_, k2.2.2.2.1, k2.2.2.2.2.1, k2.2.2.2.2.2.1, k2.2.2.2.2.2.2.1⟩
  show mapInsert (writeIndices (writeAttrs w [] m.written).1 m.indices m.attrLen).written id _ = _
  rw [k2.2.2.1]; rfl

/-- appending the mesh built from data that reads back mesh `id` -/
theorem dinv_appendMesh (s : Scene) (w w1 : W) (name : String) (id : Nat) (m : PMesh) (mat : Option Nat)
    (attrs : List (String × Nat)) (idx : Nat) (hw : DInv s w) (hheap : s.meshHeap[id]? = some m)
    (hne : m.written ≠ []) (hkeys : KeysOK m) (hi : Inv w1) (he : Ext w w1) (hd : MeshData w1 m attrs idx) (hme : w1.meshes = w.meshes)
    (hmi : w1.meshIdx = mapInsert w.meshIdx (id, mat) w.meshes.length)
    (hwr : ∀ e ∈ w1.written, ∃ m', s.meshHeap[e.1]? = some m' ∧ MeshData w1 m' e.2.1 e.2.2) :
    DInv s { w1 with meshes := w1.meshes ++ [mkMesh name attrs idx mat m] }
    ∧ ∃ gm, ({ w1 with meshes := w1.meshes ++ [mkMesh name attrs idx mat m] } : W).meshes[w.meshes.length]? = some gm
        ∧ MeshFor s { w1 with meshes := w1.meshes ++ [mkMesh name attrs idx mat m] } gm id mat := by
  have hnew : MeshFor s { w1 with meshes := w1.meshes ++ [mkMesh name attrs idx mat m] } (mkMesh name attrs idx mat m) id mat :=
    ⟨m, _, idx, hheap, rfl, rfl, rfl, rfl, hd, hne, hkeys⟩
  refine ⟨⟨inv_congr hi ⟨rfl, rfl, rfl, rfl⟩, hwr, ?_, ?_⟩, ⟨_, by simp [hme], hnew⟩⟩
  · intro gm hgm
    simp only [List.mem_append, List.mem_singleton] at hgm
    rcases hgm with hgm | rfl
    · rw [hme] at hgm
      obtain ⟨id', mat', h1⟩ := hw.meshes gm hgm
      exact ⟨id', mat', meshFor_mono h1 he⟩
    · exact ⟨id, mat, hnew⟩
  · intro e he'
    simp only [hmi] at he'
    rcases mem_mapInsert _ _ _ _ he' with h | h
    · obtain ⟨gm, h1, h2⟩ := hw.meshIdx e h
      have hlt : e.2 < w.meshes.length := by
        rcases Nat.lt_or_ge e.2 w.meshes.length with h | h
        · exact h
        · rw [List.getElem?_eq_none h] at h1; cases h1
      exact ⟨gm, by simp only [hme]; rw [List.getElem?_append_left hlt]; exact h1, meshFor_mono h2 he⟩
    · subst h
      exact ⟨_, by simp [hme], hnew⟩

theorem dinv_addMesh (s : Scene) (w : W) (name : String) (id : Nat) (m : PMesh) (mat : Option Nat) (hw : DInv s w)
    (hheap : s.meshHeap[id]? = some m) (hm : MeshWF m) (hne : m.written ≠ []) (hkeys : KeysOK m) :
    DInv s (addMesh w name id m mat).1 ∧ Ext w (addMesh w name id m mat).1
    ∧ ∀ mi, (addMesh w name id m mat).2 = some mi →
        ∃ gm, (addMesh w name id m mat).1.meshes[mi]? = some gm ∧ MeshFor s (addMesh w name id m mat).1 gm id mat := by
  unfold addMesh
  split
  · exact ⟨hw, Ext.refl' w, by simp⟩
  · split
    · rename_i i hi
      refine ⟨hw, Ext.refl' w, fun mi h => ?_⟩
      injection h with h; subst h
      exact hw.meshIdx _ (lookup_mem _ _ _ hi)
    · have hi0 : Inv { w with meshIdx := mapInsert w.meshIdx (id, mat) w.meshes.length } := inv_congr hw.inv ⟨rfl, rfl, rfl, rfl⟩
      simp only [meshDataFor]
      split
      · rename_i attrs idx hl
        obtain ⟨m', h1, h2⟩ := hw.written _ (lookup_mem _ _ _ hl)
        have hmm : m' = m := by rw [hheap] at h1; injection h1 with h1; exact h1.symm
        subst hmm
        obtain ⟨k1, k2⟩ := dinv_appendMesh s w { w with meshIdx := mapInsert w.meshIdx (id, mat) w.meshes.length } name id m' mat
          attrs idx hw hheap hne hkeys hi0 (Ext.refl' w) h2 rfl rfl hw.written
        exact ⟨k1, Ext.refl' w, fun mi h => by injection h with h; subst h; exact k2⟩
      · obtain ⟨hd, he⟩ := writeMeshData_data { w with meshIdx := mapInsert w.meshIdx (id, mat) w.meshes.length } id m hi0 hm
        have he' : Ext w (writeMeshData { w with meshIdx := mapInsert w.meshIdx (id, mat) w.meshes.length } id m).1 := he
        have hi1 := inv_writeMeshData _ id m hi0 hm
        obtain ⟨k1, k2⟩ := dinv_appendMesh s w _ name id m mat _ _ hw hheap hne hkeys hi1 he' hd
          (writeMeshData_keepA _ id m).2.1 (writeMeshData_keepA _ id m).2.2.2.1 (by
          intro e hee
          rw [(writeMeshData_keepA _ id m).2.2.1] at hee
          rcases mem_mapInsert _ _ _ _ hee with h | h
          · obtain ⟨m', h1, h2⟩ := hw.written e h
            exact ⟨m', h1, meshData_mono h2 he'⟩
          · subst h; exact ⟨m, hheap, hd⟩)
        exact ⟨k1, he', fun mi h => by injection h with h; subst h; exact k2⟩

/-! ### lifting the data invariant through the model loop -/

theorem addMaterial_keepW (th : Nat → Option PTexture) (w : W) (m : PMaterial) (r : W × Nat)
    (h : addMaterial th w m = .ok r) :
    r.1.meshes = w.meshes ∧ r.1.written = w.written ∧ r.1.meshIdx = w.meshIdx ∧ r.1.nodes = w.nodes ∧ r.1.scene = w.scene
    ∧ r.1.accessors = w.accessors ∧ r.1.lights = w.lights := by
  unfold addMaterial at h
  split at h
  · split at h
    · injection h with h; subst h; exact ⟨rfl, rfl, rfl, rfl, rfl, rfl, rfl⟩
    · cases h
  · split at h
    · cases h
    · rename_i r1 h1
      split at h
      · cases h
      · rename_i r2 h2
        split at h
        · cases h
        · rename_i r3 h3
          split at h
          · cases h
          · split at h
            · cases h
            · rename_i r4 h4
              split at h
              · cases h
              · rename_i r5 h5
                injection h with h; subst h
                have k : KeepM r5.1 w := (keepM_addTexOpt _ _ _ _ h5).trans' ((keepM_addTexOpt _ _ _ _ h4).trans'
                  ((keepM_addMatExts _ _ _ _ h3).trans' ((keepM_addTexOpt _ _ _ _ h2).trans' (keepM_addTexOpt _ _ _ _ h1))))
                exact ⟨k.2.2.1, k.2.2.2.1, k.2.2.2.2.1, k.2.2.2.2.2.1, k.2.2.2.2.2.2.1, k.2.2.2.2.2.2.2.1, k.2.2.2.2.2.2.2.2⟩

theorem addModelMaterial_keepW (s : Scene) (w : W) (md : Model) (r : W × Option Nat)
    (h : addModelMaterial s w md = .ok r) :
    r.1.meshes = w.meshes ∧ r.1.written = w.written ∧ r.1.meshIdx = w.meshIdx ∧ r.1.nodes = w.nodes ∧ r.1.scene = w.scene
    ∧ r.1.accessors = w.accessors ∧ r.1.lights = w.lights := by
  unfold addModelMaterial at h
  split at h
  · injection h with h; subst h; exact ⟨rfl, rfl, rfl, rfl, rfl, rfl, rfl⟩
  · split at h
    · cases h
    · split at h
      · cases h
      · rename_i r' h'
        injection h with h; subst h
        exact addMaterial_keepW _ _ _ _ h'

theorem ext_addInstances (w : W) (inst : List (List Nat)) : Ext w (addInstances w inst).1 := by
  unfold addInstances
  split
  · exact Ext.refl' w
  · simp only
    exact (Ext.trans' (⟨[], [], [], by simp, by simp, by simp⟩ : Ext w { w with extUsed := setInsert w.extUsed "EXT_mesh_gpu_instancing" })
      (ext_writeVec _ _ _ _)).trans' ((ext_writeVec _ _ _ _).trans' (ext_writeVec _ _ _ _))

theorem dinv_addModel (s : Scene) (w w' : W) (md : Model) (hs : SceneOK s) (hmd : md ∈ s.models) (hw : DInv s w)
    (h : addModel s w md = .ok w') : DInv s w' ∧ Ext w w' := by
  unfold addModel at h
  split at h
  · cases h
  · split at h
    · cases h
    · rename_i _ id _ _ m hm
      have hwf : MeshWF m := hs.1 m (List.mem_of_getElem? hm)
      split at h
      · injection h with h; subst h; exact ⟨hw, Ext.refl' w⟩
      · split at h
        · cases h
        · rename_i r hr
          have hgate := gate_ok s w md _ r hr
          have hr := hgate.2
          have hl := lowEq_addModelMaterial s w md r hr
          have hk := addModelMaterial_keepW s w md r hr
          have h1 : DInv s r.1 := dinv_keep hw (inv_congr hw.inv hl) (ext_of_lowEq hl) hk.2.1 hk.1 hk.2.2.1
          obtain ⟨h2, e2, _⟩ := dinv_addMesh s r.1 md.name id m r.2 h1 hm hwf (skipped_false ‹_›).2 (dupFree_pairwise _ _ hgate.1)
          have e12 : Ext w (addMesh r.1 md.name id m r.2).1 := (ext_of_lowEq hl).trans' e2
          simp only at h
          split at h
          · injection h with h; subst h; exact ⟨h2, e12⟩
          · injection h with h; subst h
            obtain ⟨k, _⟩ := addInstances_refs (addMesh r.1 md.name id m r.2).1 md.instances
            have e3 := ext_addInstances (addMesh r.1 md.name id m r.2).1 md.instances
            have h3 : DInv s (addInstances (addMesh r.1 md.name id m r.2).1 md.instances).1 :=
              dinv_keep h2 (inv_addInstances _ md.instances h2.inv (hs.2 md hmd)) e3 k.2.2.1 k.2.1 k.2.2.2.1
            exact ⟨dinv_keep h3 (inv_congr h3.inv ⟨rfl, rfl, rfl, rfl⟩) ⟨[], [], [], by simp, by simp, by simp⟩ rfl rfl rfl,
              e12.trans' e3 |>.trans' ⟨[], [], [], by simp, by simp, by simp⟩⟩

theorem dinv_addModels (s : Scene) (w w' : W) (l : List Model) (hs : SceneOK s) (hl : ∀ md ∈ l, md ∈ s.models)
    (hw : DInv s w) (h : addModels s w l = .ok w') : DInv s w' := by
  induction l generalizing w with
  | nil => simp [addModels] at h; subst h; exact hw
  | cons md r ih =>
    simp only [addModels] at h
    split at h
    · cases h
    · rename_i w1 h1
      exact ih w1 (fun x hx => hl x (by simp [hx])) (dinv_addModel s w w1 md hs (hl md (by simp)) hw h1).1 h

theorem dinv_addLights (s : Scene) (w : W) (l : List (List Nat)) (hw : DInv s w) : DInv s (l.foldl addLight w) := by
  induction l generalizing w with
  | nil => exact hw
  | cons p r ih =>
    exact ih _ (dinv_keep hw (inv_congr hw.inv ⟨rfl, rfl, rfl, rfl⟩) ⟨[], [], [], by simp [addLight], by simp [addLight], by simp [addLight]⟩ rfl rfl rfl)

theorem scene_dinv (s : Scene) (w : W) (hs : SceneOK s) (h : writeScene s = .ok w) : DInv s w := by
  unfold writeScene at h
  split at h
  · cases h
  · rename_i w1 h1
    split at h
    · injection h with h; subst h
      unfold addScene at h1
      split at h1
      · cases h1
      · rename_i w0 h0
        injection h1 with h1; subst h1
        exact dinv_addLights s _ _ (dinv_addModels s {} w0 s.models hs (fun _ h => h)
          ⟨inv_empty, by simp, by simp, by simp⟩ h0)
    · cases h

/-! ### (1) per-primitive consistency for every well-formed scene -/

theorem mem_attrsOfDim {m : PMesh} {d : Nat} {a : Attr} (h : a ∈ attrsOfDim m d) : a ∈ m.attrs ∧ a.dim = d := by
  unfold attrsOfDim sortByName at h
  rw [List.mem_mergeSort, List.mem_filter] at h
  exact ⟨h.1, by simpa using h.2⟩

theorem written_dim {m : PMesh} {a : Attr} (h : a ∈ m.written) : 2 ≤ a.dim := by
  unfold PMesh.written at h
  simp only [List.mem_append] at h
  rcases h with (h | h) | h <;> have := (mem_attrsOfDim h).2 <;> omega

/-- PER-PRIMITIVE CONSISTENCY.  For every well-formed scene the writer accepts, every glTF mesh is the mesh written for
    some heap mesh `m` of the scene: it has one primitive; ALL its attribute accessors exist, are vectors, and have
    count = `m`'s vertex count; its index accessor exists, is a SCALAR with count = `m`'s index count, and decoding it
    from the buffer returns exactly `m`'s indices — each of which is < the vertex count.
    (The last inequality and `count = attrLen` restate the `MeshWF` hypothesis; the CONTENT is accessor existence, dimension /
    component type / count of what was written, and `decodeAcc … = some m.indices`, i.e. nothing is truncated or misplaced.) -/
theorem gltf_prims_consistent (s : Scene) (w : W) (hs : SceneOK s) (h : writeScene s = .ok w) :
    ∀ gm ∈ w.meshes, ∃ (id : Nat) (m : PMesh) (p : Prim) (idx : Nat), s.meshHeap[id]? = some m ∧ gm.prims = [p] ∧ p.indices = some idx
      ∧ (∀ ka ∈ p.attrs, ∃ x, w.accessors[ka.2]? = some x ∧ x.count = m.attrLen ∧ 2 ≤ x.dim)
      ∧ ∃ ia, w.accessors[idx]? = some ia ∧ ia.dim = 1 ∧ (ia.comp = .u16 ∨ ia.comp = .u32) ∧ ia.count = m.indices.length
          ∧ decodeAcc w.buf w.views ia = some m.indices ∧ ∀ v ∈ m.indices, v < m.attrLen := by
  intro gm hgm
  obtain ⟨id, mat, m, p, idx, h1, h2, _, h4, _, hd, _, _⟩ := (scene_dinv s w hs h).meshes gm hgm
  have hwf : MeshWF m := hs.1 m (List.mem_of_getElem? h1)
  refine ⟨id, m, p, idx, h1, h2, h4, ?_, ?_⟩
  · intro ka hka
    obtain ⟨a, ha, _, x, hx, _, hdim, hcount, _⟩ := hd.1 ka hka
    exact ⟨x, hx, by rw [hcount]; exact (hwf.1 a ha).2, by rw [hdim]; exact written_dim ha⟩
  · obtain ⟨ia, hx, hcomp, hdim, hcount, hdec⟩ := hd.2.2
    refine ⟨ia, hx, hdim, ?_, hcount, hdec, hwf.2.1⟩
    rw [hcomp]; unfold indexComp; split <;> simp


/-- the same as a Bool on the document: the `primOK` conjunct of `valid` -/
theorem scene_prims_ok (s : Scene) (w : W) (hs : SceneOK s) (h : writeScene s = .ok w) :
    w.meshes.all (fun m => m.prims.all (primOK w.buf w.views w.accessors w.materials.length)) = true := by
  simp only [List.all_eq_true]
  intro gm hgm p hp
  have hrefs := (gltf_refs_in_range_partial s w h).meshes gm hgm p hp
  obtain ⟨id, mat, m, p', idx, h1, h2, _, h4, _, hd, hne', _⟩ := (scene_dinv s w hs h).meshes gm hgm
  have hwf : MeshWF m := hs.1 m (List.mem_of_getElem? h1)
  rw [h2] at hp; simp only [List.mem_singleton] at hp; subst hp
  have hcount : ∀ ka ∈ p.attrs, ∃ x, w.accessors[ka.2]? = some x ∧ x.count = m.attrLen ∧ 2 ≤ x.dim := by
    intro ka hka
    obtain ⟨a, ha, _, x, hx, _, hdim, hcount, _⟩ := hd.1 ka hka
    exact ⟨x, hx, by rw [hcount]; exact (hwf.1 a ha).2, by rw [hdim]; exact written_dim ha⟩
  obtain ⟨ia, hx, hcomp, hdim, hcnt, hdec⟩ := hd.2.2
  unfold primOK
  simp only [Bool.and_eq_true, List.all_eq_true]
  refine ⟨⟨?_, ?_⟩, ?_⟩
  · intro ka hka
    obtain ⟨x, hx, hc, hdm⟩ := hcount ka hka
    rw [hx]
    have hn : vertexCount w.accessors p = m.attrLen := by
      unfold vertexCount
      cases hpa : p.attrs with
      | nil => rw [hpa] at hka; cases hka
      | cons q r =>
        obtain ⟨y, hy, hyc, _⟩ := hcount q (by rw [hpa]; simp)
        simp only [hy, hyc]
    simp [hn, hc, hdm]
  · rw [h4]
    simp only [hx, hdec]
    have hn : ∀ v ∈ m.indices, v < vertexCount w.accessors p := by
      intro v hv
      unfold vertexCount
      cases hpa : p.attrs with
      | nil =>
        exact absurd hpa (hd.2.1.1 hne')
      | cons q r =>
        obtain ⟨y, hy, hyc, _⟩ := hcount q (by rw [hpa]; simp)
        simp only [hy, hyc]
        exact hwf.2.1 v hv
    have hc2 : (ia.comp == .u16 || ia.comp == .u32 || ia.comp == .u8) = true := by
      rw [hcomp]; unfold indexComp; split <;> simp
    simp only [hdim, hc2, beq_self_eq_true, Bool.true_and, List.all_eq_true, decide_eq_true_eq]
    exact hn
  · cases hm : p.material with
    | none => rfl
    | some k => simpa using hrefs.2.2 k hm

end C06
end PolyVerif
