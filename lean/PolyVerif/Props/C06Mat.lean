/-
  C06 — scene level: the texture / image / sampler tables hold no duplicates and show the scene's textures; the material a
  model references shows that model's material (`matCarried`).
-/
import PolyVerif.Props.C06Dedup
import PolyVerif.Props.C06Equal
import PolyVerif.Props.C06Tables
import PolyVerif.Props.C06Zip

namespace PolyVerif
namespace C06
open Gltf

/-! ### (2) no duplicates; table contents -/

theorem nodupB_snoc {α} [BEq α] [LawfulBEq α] (l : List α) (a : α) (h : nodupB l = true) (ha : ∀ x ∈ l, x ≠ a) :
    nodupB (l ++ [a]) = true := by
  induction l with
  | nil => simp [nodupB]
  | cons x r ih =>
    simp only [nodupB, Bool.and_eq_true, Bool.not_eq_true', List.cons_append] at h ⊢
    refine ⟨?_, ih h.2 (fun y hy => ha y (by simp [hy]))⟩
    have hx : x ≠ a := ha x (by simp)
    have hc : r.contains x = false := h.1
    simp only [List.contains_eq_mem, List.mem_append, List.mem_singleton, decide_eq_false_iff_not, not_or] at hc ⊢
    exact ⟨by simpa using hc, hx⟩

/-- texture `k` of the tables shows `t` (image URI and sampler; the transform lives on the texture-info) -/
def TexBase (w : W) (t : PTexture) (k : Nat) : Prop :=
  ∃ gt, w.textures[k]? = some gt ∧ (∃ i, gt.source = some i ∧ w.images[i]? = some t.uri)
    ∧ (match t.sampler, gt.sampler with
       | none, none => True
       | some s, some i => w.samplers[i]? = some s
       | _, _ => False)

theorem texCarried_of_base (w : W) (t : PTexture) (k : Nat) (h : TexBase w t k) :
    texCarried w.doc t { index := k, xform := t.xform } = true := by
  obtain ⟨gt, h1, ⟨i, h2, h3⟩, h4⟩ := h
  unfold texCarried
  have h1' : w.doc.textures[k]? = some gt := h1
  have h3' : w.doc.images[i]? = some t.uri := h3
  simp only [beq_self_eq_true, Bool.true_and, h1', h2, h3']
  cases hs : t.sampler <;> cases hg : gt.sampler <;> simp_all [W.doc]

/-- the three tables are only appended to -/
def TGrow (w w' : W) : Prop :=
  ∃ a b c, w'.textures = w.textures ++ a ∧ w'.images = w.images ++ b ∧ w'.samplers = w.samplers ++ c

theorem TGrow.rfl' (w : W) : TGrow w w := ⟨[], [], [], by simp⟩

theorem TGrow.trans' {a b c : W} (h1 : TGrow a b) (h2 : TGrow b c) : TGrow a c := by
  obtain ⟨x1, y1, z1, e1, f1, g1⟩ := h1
  obtain ⟨x2, y2, z2, e2, f2, g2⟩ := h2
  exact ⟨x1 ++ x2, y1 ++ y2, z1 ++ z2, by rw [e2, e1, List.append_assoc], by rw [f2, f1, List.append_assoc],
    by rw [g2, g1, List.append_assoc]⟩

theorem getElem?_grow {α} {l : List α} {k : Nat} {x : α} (ext : List α) (h : l[k]? = some x) : (l ++ ext)[k]? = some x := by
  have hlt : k < l.length := by
    rcases Nat.lt_or_ge k l.length with h' | h'
    · exact h'
    · rw [List.getElem?_eq_none h'] at h; cases h
  rw [List.getElem?_append_left hlt]; exact h

theorem texBase_mono {w w' : W} {t : PTexture} {k : Nat} (h : TexBase w t k) (g : TGrow w w') : TexBase w' t k := by
  obtain ⟨gt, h1, ⟨i, h2, h3⟩, h4⟩ := h
  obtain ⟨a, b, c, e1, e2, e3⟩ := g
  refine ⟨gt, by rw [e1]; exact getElem?_grow a h1, ⟨i, h2, by rw [e2]; exact getElem?_grow b h3⟩, ?_⟩
  cases hs : t.sampler <;> cases hg : gt.sampler <;> simp only [hs, hg] at h4 ⊢
  rw [e3]; exact getElem?_grow c h4

structure TData (th : Nat → Option PTexture) (w : W) : Prop where
  imgNodup : nodupB w.images = true
  smpNodup : nodupB w.samplers = true
  texNodup : nodupB w.textures = true
  texIdx : ∀ e ∈ w.texIdx, ∀ t, th e.1 = some t → TexBase w t e.2

def withTex (w : W) (id : Nat) (gt : GTexture) : W :=
  { w with texIdx := mapInsert w.texIdx id w.textures.length, textures := w.textures ++ [gt] }

theorem tdata_of_texPart {th : Nat → Option PTexture} {w w' : W} (h : TData th w) (e : texPart w' = texPart w) : TData th w' := by
  simp only [texPart, Prod.mk.injEq] at e
  obtain ⟨e1, e2, e3, e4, _⟩ := e
  refine ⟨by rw [e2]; exact h.imgNodup, by rw [e3]; exact h.smpNodup, by rw [e1]; exact h.texNodup, ?_⟩
  intro x hx t ht
  rw [e4] at hx
  exact texBase_mono (h.texIdx x hx t ht) ⟨[], [], [], by simp [e1], by simp [e2], by simp [e3]⟩

/-- `AddTexture` on heap texture `id`: the tables keep having no duplicates and showing what they index, only grow, and
    the returned texture-info SHOWS the texture: its transform, and through `textures` → `images` / `samplers` its URI and
    its sampler -/
theorem addTexture_data (th : Nat → Option PTexture) (w : W) (id : Nat) (t : PTexture) (hw : TData th w) (hid : th id = some t) :
    TData th (addTexture w id t).1 ∧ TGrow w (addTexture w id t).1
    ∧ texCarried (addTexture w id t).1.doc t (addTexture w id t).2 = true := by
  have e0 := texPart_texPrepare w t
  have h0 : TData th (texPrepare w t) := tdata_of_texPart hw e0
  simp only [texPart, Prod.mk.injEq] at e0
  obtain ⟨e1, e2, e3, e4, _⟩ := e0
  have g0 : TGrow w (texPrepare w t) := ⟨[], [], [], by simp [e1], by simp [e2], by simp [e3]⟩
  unfold addTexture
  split
  · rename_i i hi
    exact ⟨h0, g0, texCarried_of_base _ t i (h0.texIdx _ (lookup_mem _ _ _ hi) t hid)⟩
  · -- image
    have hA : TData th (texImage (texPrepare w t) t.uri).1 ∧ TGrow (texPrepare w t) (texImage (texPrepare w t) t.uri).1
        ∧ (texImage (texPrepare w t) t.uri).1.images[(texImage (texPrepare w t) t.uri).2]? = some t.uri := by
      unfold texImage
      split
      · rename_i i hi
        obtain ⟨a, h1, h2, _, _⟩ := findIdx_some _ _ _ _ hi
        simp only [Nat.sub_zero] at h1
        have : a = t.uri := by simpa using h2
        subst this
        exact ⟨h0, TGrow.rfl' _, h1⟩
      · rename_i hn
        have hall := findIdx_none _ _ _ hn
        have g : TGrow (texPrepare w t) { texPrepare w t with images := (texPrepare w t).images ++ [t.uri] } := ⟨[], [t.uri], [], by simp, rfl, by simp⟩
        refine ⟨⟨?_, h0.smpNodup, h0.texNodup, fun x hx t' ht' => texBase_mono (h0.texIdx x hx t' ht') g⟩, g, by simp⟩
        exact nodupB_snoc _ _ h0.imgNodup (fun x hx => by simpa using hall x hx)
    obtain ⟨hA1, hA2, hA3⟩ := hA
    generalize texImage (texPrepare w t) t.uri = A at hA1 hA2 hA3 ⊢
    -- sampler
    have hB : TData th (texSampler A.1 t.sampler).1 ∧ TGrow A.1 (texSampler A.1 t.sampler).1
        ∧ (match t.sampler, (texSampler A.1 t.sampler).2 with
           | none, none => True
           | some s, some i => (texSampler A.1 t.sampler).1.samplers[i]? = some s
           | _, _ => False) := by
      unfold texSampler
      split
      · rename_i hs; rw [hs]; exact ⟨hA1, TGrow.rfl' _, trivial⟩
      · rename_i s hs
        rw [hs]
        split
        · rename_i i hi
          obtain ⟨a, h1, h2, _, _⟩ := findIdx_some _ _ _ _ hi
          simp only [Nat.sub_zero] at h1
          have : s = a := by simpa [Sampler.equal] using h2
          subst this
          exact ⟨hA1, TGrow.rfl' _, h1⟩
        · rename_i hn
          have hall := findIdx_none _ _ _ hn
          have g : TGrow A.1 { A.1 with samplers := A.1.samplers ++ [s] } := ⟨[], [], [s], by simp, by simp, rfl⟩
          refine ⟨⟨hA1.imgNodup, ?_, hA1.texNodup, fun x hx t' ht' => texBase_mono (hA1.texIdx x hx t' ht') g⟩, g, by simp⟩
          exact nodupB_snoc _ _ hA1.smpNodup (fun x hx => by
            have := hall x hx
            simp only [Sampler.equal, beq_eq_false_iff_ne, ne_eq] at this
            exact fun h => this h.symm)
    obtain ⟨hB1, hB2, hB3⟩ := hB
    generalize texSampler A.1 t.sampler = B at hB1 hB2 hB3 ⊢
    have himg : B.1.images[A.2]? = some t.uri := by
      obtain ⟨_, b, _, _, eb, _⟩ := hB2
      rw [eb]; exact getElem?_grow b hA3
    have gAB : TGrow w B.1 := g0.trans' (hA2.trans' hB2)
    -- texture
    have base_of : ∀ (w' : W) (k : Nat), w'.textures[k]? = some ({ sampler := B.2, source := some A.2 } : GTexture) →
        w'.images = B.1.images → w'.samplers = B.1.samplers → TexBase w' t k := by
      intro w' k hk hi hs
      refine ⟨_, hk, ⟨A.2, rfl, by rw [hi]; exact himg⟩, ?_⟩
      cases hts : t.sampler <;> cases hb2 : B.2 <;> simp only [hts, hb2] at hB3 ⊢
      rw [hs]; exact hB3
    unfold texFinish
    split
    · rename_i i hi
      obtain ⟨a, h1, h2, _, _⟩ := findIdx_some _ _ _ _ hi
      simp only [Nat.sub_zero] at h1
      have : a = ({ sampler := B.2, source := some A.2 } : GTexture) := by simpa using h2
      subst this
      exact ⟨hB1, gAB, texCarried_of_base _ t i (base_of B.1 i h1 rfl rfl)⟩
    · rename_i hn
      have hall := findIdx_none _ _ _ hn
      have g : TGrow B.1 (withTex B.1 id { sampler := B.2, source := some A.2 }) := ⟨[_], [], [], rfl, by simp [withTex], by simp [withTex]⟩
      have hnew : TexBase (withTex B.1 id { sampler := B.2, source := some A.2 }) t B.1.textures.length :=
        base_of _ _ (by simp [withTex]) rfl rfl
      show TData th (withTex B.1 id { sampler := B.2, source := some A.2 }) ∧ TGrow w (withTex B.1 id { sampler := B.2, source := some A.2 })
        ∧ texCarried (withTex B.1 id { sampler := B.2, source := some A.2 }).doc t { index := B.1.textures.length, xform := t.xform } = true
      refine ⟨⟨hB1.imgNodup, hB1.smpNodup, ?_, ?_⟩, gAB.trans' g, texCarried_of_base _ t _ hnew⟩
      · exact nodupB_snoc _ _ hB1.texNodup (fun x hx => by simpa using hall x hx)
      · intro x hx t' ht'
        have hx' : x ∈ mapInsert B.1.texIdx id B.1.textures.length := hx
        rcases mem_mapInsert _ _ _ _ hx' with h | h
        · exact texBase_mono (hB1.texIdx x h t' ht') g
        · subst h
          simp only at ht'
          rw [hid] at ht'; injection ht' with ht'; subst ht'
          exact hnew

/-! ### (3) what a written material shows -/

theorem texCarried_iff (w : W) (t : PTexture) (ti : TexInfo) :
    texCarried w.doc t ti = true ↔ ti.xform = t.xform ∧ TexBase w t ti.index := by
  constructor
  · intro h
    unfold texCarried at h
    simp only [Bool.and_eq_true, beq_iff_eq] at h
    obtain ⟨hx, h⟩ := h
    refine ⟨hx, ?_⟩
    split at h
    · cases h
    · rename_i gt hgt
      simp only [Bool.and_eq_true] at h
      obtain ⟨h1, h2⟩ := h
      refine ⟨gt, hgt, ?_, ?_⟩
      · split at h1
        · rename_i i hi; exact ⟨i, hi, by simpa [W.doc] using h1⟩
        · cases h1
      · cases hs : t.sampler <;> cases hg : gt.sampler <;> simp_all [W.doc]
  · rintro ⟨hx, hb⟩
    have := texCarried_of_base w t ti.index hb
    rw [← hx] at this
    exact this

def OptShown (s : Scene) (w : W) : Option Nat → Option TexInfo → Prop
  | none, none => True
  | some id, some ti => ∃ t, s.texHeap[id]? = some t ∧ ti.xform = t.xform ∧ TexBase w t ti.index
  | _, _ => False

theorem optCarried_iff (s : Scene) (w : W) (o : Option Nat) (r : Option TexInfo) :
    optCarried s w.doc o r = true ↔ OptShown s w o r := by
  cases o <;> cases r <;> simp only [optCarried, OptShown]
  · simp
  · simp
  · rename_i id ti
    cases ht : s.texHeap[id]? with
    | none => simp
    | some t => simp [texCarried_iff]

theorem optShown_mono {s : Scene} {w w' : W} {o : Option Nat} {r : Option TexInfo} (h : OptShown s w o r) (g : TGrow w w') :
    OptShown s w' o r := by
  cases o <;> cases r <;> simp only [OptShown] at h ⊢
  obtain ⟨t, h1, h2, h3⟩ := h
  exact ⟨t, h1, h2, texBase_mono h3 g⟩

def ScaledShown (s : Scene) (w : W) : Option (Nat × Option Nat) → Option (TexInfo × Option Nat) → Prop
  | none, none => True
  | some x, some y => x.2 = y.2 ∧ OptShown s w (some x.1) (some y.1)
  | _, _ => False

theorem scaledCarried_iff (s : Scene) (w : W) (o : Option (Nat × Option Nat)) (r : Option (TexInfo × Option Nat)) :
    scaledCarried s w.doc o r = true ↔ ScaledShown s w o r := by
  cases o <;> cases r <;> simp only [scaledCarried, ScaledShown]
  · simp
  · simp
  · rename_i x y
    obtain ⟨id, sc⟩ := x
    obtain ⟨ti, gsc⟩ := y
    simp [optCarried_iff]

def KtShown (s : Scene) (w : W) (kt : String × Nat) (gkt : String × TexInfo) : Prop :=
  kt.1 = gkt.1 ∧ OptShown s w (some kt.2) (some gkt.2)

def ExtShown (s : Scene) (w : W) (e : PMatExt) (ge : GMatExt) : Prop :=
  ge.id = e.id ∧ ge.payload = e.payload ∧ Zip (KtShown s w) e.texs ge.texs

/-- glTF material `g` shows scene material `m`: every scalar field as written by `AddMaterial`, every texture reference
    resolving to the referenced heap texture -/
structure MatShown (s : Scene) (w : W) (m : PMaterial) (g : GMaterial) : Prop where
  name : g.name = m.name
  alphaMode : g.alphaMode = m.alphaMode
  alphaCutoff : g.alphaCutoff = m.alphaCutoff
  bcf : g.baseColorFactor = (match (if m.hasPbr then m.baseColor else none) with
                             | some c => c.map colorFactor
                             | none => [one64, one64, one64, one64])
  metallic : g.metallic = (if m.hasPbr then m.metallic else none)
  roughness : g.roughness = (if m.hasPbr then m.roughness else none)
  bct : OptShown s w (if m.hasPbr then m.baseColorTex else none) g.baseColorTex
  mrt : OptShown s w (if m.hasPbr then m.metalRoughTex else none) g.metalRoughTex
  emissive : g.emissive = m.emissive.map (fun c => (c.take 3).map colorFactor)
  normal : ScaledShown s w m.normalTex g.normalTex
  occl : ScaledShown s w m.occlusionTex g.occlusionTex
  exts : Zip (ExtShown s w) m.exts g.exts

theorem matShown_mono {s : Scene} {w w' : W} {m : PMaterial} {g : GMaterial} (h : MatShown s w m g) (gr : TGrow w w') :
    MatShown s w' m g := by
  refine ⟨h.name, h.alphaMode, h.alphaCutoff, h.bcf, h.metallic, h.roughness, optShown_mono h.bct gr, optShown_mono h.mrt gr,
    h.emissive, ?_, ?_, ?_⟩
  · have := h.normal
    cases hn : m.normalTex <;> cases hg : g.normalTex <;> simp only [hn, hg, ScaledShown] at this ⊢
    exact ⟨this.1, optShown_mono this.2 gr⟩
  · have := h.occl
    cases hn : m.occlusionTex <;> cases hg : g.occlusionTex <;> simp only [hn, hg, ScaledShown] at this ⊢
    exact ⟨this.1, optShown_mono this.2 gr⟩
  · exact zip_imp (fun e ge he => ⟨he.1, he.2.1, zip_imp (fun kt gkt hk => ⟨hk.1, optShown_mono hk.2 gr⟩) he.2.2⟩) h.exts

theorem matCarried_of_shown (s : Scene) (w : W) (m : PMaterial) (g : GMaterial) (h : MatShown s w m g) :
    matCarried s w.doc m g = true := by
  unfold matCarried
  simp only [Bool.and_eq_true, beq_iff_eq, optCarried_iff, scaledCarried_iff]
  refine ⟨⟨⟨⟨⟨⟨⟨⟨⟨⟨⟨h.name, h.alphaMode⟩, h.alphaCutoff⟩, h.bcf⟩, h.metallic⟩, h.roughness⟩, h.bct⟩, h.mrt⟩, h.emissive⟩, h.normal⟩, h.occl⟩, ?_⟩
  have hz := zip_mergeSort (R := ExtShown s w) (fun e => e.id) (fun ge => ge.id) (fun e ge he => he.1.symm) h.exts
  refine allZip_of_zip ?_ hz
  intro e ge he
  simp only [Bool.and_eq_true, beq_iff_eq]
  refine ⟨⟨he.1, he.2.1⟩, ?_⟩
  have hz2 := zip_mergeSort (R := KtShown s w) (fun kt => kt.1) (fun gkt => gkt.1) (fun kt gkt hk => hk.1) he.2.2
  refine allZip_of_zip ?_ hz2
  intro kt gkt hk
  simp only [Bool.and_eq_true, beq_iff_eq, optCarried_iff]
  exact ⟨hk.1, hk.2⟩

abbrev thOf (s : Scene) : Nat → Option PTexture := fun i => s.texHeap[i]?

theorem addTexOpt_data (s : Scene) (w : W) (o : Option Nat) (r : W × Option TexInfo)
    (h : addTexOpt (thOf s) w o = .ok r) (hw : TData (thOf s) w) :
    TData (thOf s) r.1 ∧ TGrow w r.1 ∧ OptShown s r.1 o r.2 := by
  unfold addTexOpt at h
  split at h
  · injection h with h; subst h; exact ⟨hw, TGrow.rfl' w, trivial⟩
  · rename_i id
    split at h
    · cases h
    · rename_i t ht
      injection h with h; subst h
      obtain ⟨h1, h2, h3⟩ := addTexture_data (thOf s) w id t hw ht
      exact ⟨h1, h2, t, ht, (texCarried_iff _ _ _).mp h3⟩

theorem addTexList_data (s : Scene) (w : W) (l : List (String × Nat)) (r : W × List (String × TexInfo))
    (h : addTexList (thOf s) w l = .ok r) (hw : TData (thOf s) w) :
    TData (thOf s) r.1 ∧ TGrow w r.1 ∧ Zip (KtShown s r.1) l r.2 := by
  induction l generalizing w r with
  | nil => simp [addTexList] at h; subst h; exact ⟨hw, TGrow.rfl' w, trivial⟩
  | cons kt l ih =>
    obtain ⟨k, id⟩ := kt
    simp only [addTexList] at h
    split at h
    · cases h
    · rename_i t ht
      split at h
      · cases h
      · rename_i w2 l2 h2
        injection h with h; subst h
        obtain ⟨a1, a2, a3⟩ := addTexture_data (thOf s) w id t hw ht
        obtain ⟨b1, b2, b3⟩ := ih _ _ h2 a1
        refine ⟨b1, a2.trans' b2, ⟨rfl, ?_⟩, b3⟩
        exact ⟨t, ht, ((texCarried_iff _ _ _).mp a3).1, texBase_mono ((texCarried_iff _ _ _).mp a3).2 b2⟩

theorem addMatExts_data (s : Scene) (w : W) (l : List PMatExt) (r : W × List GMatExt)
    (h : addMatExts (thOf s) w l = .ok r) (hw : TData (thOf s) w) :
    TData (thOf s) r.1 ∧ TGrow w r.1 ∧ Zip (ExtShown s r.1) l r.2 := by
  induction l generalizing w r with
  | nil => simp [addMatExts] at h; subst h; exact ⟨hw, TGrow.rfl' w, trivial⟩
  | cons e l ih =>
    simp only [addMatExts] at h
    split at h
    · cases h
    · rename_i w1 tis h1
      split at h
      · cases h
      · rename_i w2 l2 h2
        injection h with h; subst h
        obtain ⟨a1, a2, a3⟩ := addTexList_data s w e.texs _ h1 hw
        have a1' : TData (thOf s) { w1 with extUsed := setInsert w1.extUsed e.id } := tdata_of_texPart a1 rfl
        obtain ⟨b1, b2, b3⟩ := ih _ _ h2 a1'
        have g11 : TGrow w1 { w1 with extUsed := setInsert w1.extUsed e.id } := ⟨[], [], [], by simp, by simp, by simp⟩
        have g12 : TGrow w1 w2 := TGrow.trans' g11 b2
        exact ⟨b1, a2.trans' g12, ⟨rfl, rfl, zip_imp (fun kt gkt hk => ⟨hk.1, optShown_mono hk.2 g12⟩) a3⟩, b3⟩

/-- the tracker shows what it tracks: entry `(m, k)` comes from the scene's material heap and material `k` shows `m` -/
structure MInv (s : Scene) (w : W) : Prop where
  tdata : TData (thOf s) w
  shown : ∀ e ∈ w.matIdx, ∃ g, w.materials[e.2]? = some g ∧ MatShown s w e.1 g
  heap : ∀ e ∈ w.matIdx, e.1 ∈ s.matHeap

theorem buildMaterial_shown (s : Scene) (w : W) (m : PMaterial) (bct mrt : Option TexInfo) (exts : List GMatExt)
    (nt ot : Option TexInfo)
    (h1 : OptShown s w (if m.hasPbr then m.baseColorTex else none) bct)
    (h2 : OptShown s w (if m.hasPbr then m.metalRoughTex else none) mrt)
    (h3 : Zip (ExtShown s w) m.exts exts)
    (h4 : OptShown s w (m.normalTex.map (·.1)) nt) (h5 : OptShown s w (m.occlusionTex.map (·.1)) ot) :
    MatShown s w m (buildMaterial m bct mrt exts nt ot) := by
  refine ⟨rfl, rfl, rfl, ?_, rfl, rfl, h1, h2, rfl, ?_, ?_, h3⟩
  · simp only [buildMaterial]
    cases m.hasPbr <;> simp <;> cases m.baseColor <;> rfl
  · simp only [buildMaterial]
    cases hn : m.normalTex with
    | none => cases nt <;> simp_all [ScaledShown, OptShown]
    | some x => cases nt with
      | none => simp [hn, OptShown] at h4
      | some ti => obtain ⟨id, sc⟩ := x; simp only [hn, Option.map_some] at h4; exact ⟨rfl, h4⟩
  · simp only [buildMaterial]
    cases hn : m.occlusionTex with
    | none => cases ot <;> simp_all [ScaledShown, OptShown]
    | some x => cases ot with
      | none => simp [hn, OptShown] at h5
      | some ti => obtain ⟨id, sc⟩ := x; simp only [hn, Option.map_some] at h5; exact ⟨rfl, h5⟩

/-! ### `equal` materials are shown by the same written material -/

/-- textures that `PolyformTexture.equal` identifies have the same sampler, name / extras included (true of the current
    equality, which compares the samplers with `Sampler.equal`: `samplerCongr`) -/
def SamplerCongr (s : Scene) : Prop :=
  ∀ (i j : Nat) (x y : PTexture), s.texHeap[i]? = some x → s.texHeap[j]? = some y → texKey x = texKey y → x.sampler = y.sampler

theorem samplerCongr (s : Scene) : SamplerCongr s := by
  intro i j x y _ _ hk
  simp only [texKey, Prod.mk.injEq] at hk
  exact hk.2.2.2

/-- meaning of `eqKey`: extension values of the scene's materials that compare `==` in Go (same id, same key) are the same
    value (same payload, same texture pointers) -/
def ExtCongr (s : Scene) : Prop :=
  ∀ a ∈ s.matHeap, ∀ b ∈ s.matHeap, ∀ e ∈ a.exts, ∀ e' ∈ b.exts, extKey e = extKey e' → e = e'

theorem list_eq_of_keys (l1 l2 : List PMatExt) (h : l1.map extKey = l2.map extKey)
    (hc : ∀ e ∈ l1, ∀ e' ∈ l2, extKey e = extKey e' → e = e') : l1 = l2 := by
  induction l1 generalizing l2 with
  | nil => cases l2 with
    | nil => rfl
    | cons _ _ => simp at h
  | cons a r ih =>
    cases l2 with
    | nil => simp at h
    | cons b r2 =>
      simp only [List.map_cons, List.cons.injEq] at h
      rw [hc a (by simp) b (by simp) h.1, ih r2 h.2 (fun e he e' he' => hc e (by simp [he]) e' (by simp [he']))]

theorem optShown_congr {s : Scene} {w : W} (hs : SamplerCongr s) {x y : Option Nat} {ti : Option TexInfo}
    (hr : OptRel (TexRel (thOf s)) x y) (h : OptShown s w x ti) : OptShown s w y ti := by
  cases x <;> cases y <;> simp only [OptRel] at hr
  · exact h
  · rename_i a b
    cases ti with
    | none => exact h
    | some ti =>
      rcases hr with rfl | ⟨tx, ty, hx, hy, hk⟩
      · exact h
      · obtain ⟨t, h1, h2, gt, g1, ⟨i, g2, g3⟩, g4⟩ := h
        have : t = tx := by simp only [thOf] at hx; rw [hx] at h1; injection h1 with h1; exact h1.symm
        subst this
        have hsamp : t.sampler = ty.sampler := hs a b t ty hx hy hk
        simp only [texKey, Prod.mk.injEq] at hk
        refine ⟨ty, hy, by rw [h2]; exact hk.2.1, gt, g1, ⟨i, g2, by rw [← hk.1]; exact g3⟩, ?_⟩
        rw [← hsamp]; exact g4

theorem scaledShown_congr {s : Scene} {w : W} (hs : SamplerCongr s) {x y : Option (Nat × Option Nat)}
    {g : Option (TexInfo × Option Nat)} (hr : OptRel (ScaledRel (thOf s)) x y) (h : ScaledShown s w x g) : ScaledShown s w y g := by
  cases x <;> cases y <;> simp only [OptRel] at hr
  · exact h
  · cases g with
    | none => exact h
    | some gg =>
      simp only [ScaledShown] at h ⊢
      exact ⟨hr.2.symm.trans h.1, optShown_congr hs (x := some _) (y := some _) hr.1 h.2⟩

theorem matShown_congr {s : Scene} {w : W} {a b : PMaterial} {g : GMaterial} (hs : SamplerCongr s) (he : a.exts = b.exts)
    (h : MEq (thOf s) a b) (hm : MatShown s w a g) : MatShown s w b g := by
  have hp := h.hasPbr
  refine ⟨hm.name.trans h.name, hm.alphaMode.trans h.alphaMode, hm.alphaCutoff.trans h.alphaCutoff, ?_, ?_, ?_, ?_, ?_,
    by rw [← h.emissive]; exact hm.emissive, scaledShown_congr hs h.normal hm.normal, scaledShown_congr hs h.occlusion hm.occl,
    by rw [← he]; exact hm.exts⟩
  · rw [hm.bcf, ← hp]
    cases hpa : a.hasPbr with
    | false => rfl
    | true => rw [(h.pbr hpa).2.2.1]
  · rw [hm.metallic, ← hp]
    cases hpa : a.hasPbr with
    | false => rfl
    | true => simp [(h.pbr hpa).1]
  · rw [hm.roughness, ← hp]
    cases hpa : a.hasPbr with
    | false => rfl
    | true => simp [(h.pbr hpa).2.1]
  · have := hm.bct
    rw [← hp]
    cases hpa : a.hasPbr with
    | false => simpa [hpa] using this
    | true =>
      simp only [hpa, if_true] at this ⊢
      exact optShown_congr hs (h.pbr hpa).2.2.2.1 this
  · have := hm.mrt
    rw [← hp]
    cases hpa : a.hasPbr with
    | false => simpa [hpa] using this
    | true =>
      simp only [hpa, if_true] at this ⊢
      exact optShown_congr hs (h.pbr hpa).2.2.2.2 this

/-- `AddMaterial` on a material of the scene: the tracker keeps showing what it tracks, the tables only grow, and the
    returned index points at a written material that SHOWS the argument — also when an `equal` tracked material was reused -/
theorem addMaterial_shown (s : Scene) (w : W) (m : PMaterial) (r : W × Nat) (h : addMaterial (thOf s) w m = .ok r)
    (hw : MInv s w) (hec : ExtCongr s) (hm : m ∈ s.matHeap) :
    MInv s r.1 ∧ TGrow w r.1 ∧ (∃ ms, r.1.materials = w.materials ++ ms)
    ∧ ∃ g, r.1.materials[r.2]? = some g ∧ MatShown s r.1 m g := by
  unfold addMaterial at h
  split at h
  · rename_i k hk
    obtain ⟨e, h1, h2, _, _⟩ := findIdx_some _ _ _ _ hk
    simp only [Nat.sub_zero] at h1
    rw [h1] at h
    simp only at h
    injection h with h; subst h
    have hmem := List.mem_of_getElem? h1
    obtain ⟨g, hg, hshown⟩ := hw.shown e hmem
    have heq := (pmaterial_equal_iff (thOf s) e.1 m).mp h2
    have hexts : e.1.exts = m.exts := list_eq_of_keys _ _ heq.exts (hec e.1 (hw.heap e hmem) m hm)
    exact ⟨hw, TGrow.rfl' w, ⟨[], by simp⟩, g, hg, matShown_congr (samplerCongr s) hexts heq hshown⟩
  · split at h
    · cases h
    · rename_i r1 h1
      split at h
      · cases h
      · rename_i r2 h2
        split at h
        · cases h
        · rename_i r3 h3
          split at h
          · cases h
          · split at h
            · cases h
            · rename_i r4 h4
              split at h
              · cases h
              · rename_i r5 h5
                injection h with h; subst h
                obtain ⟨a1, a2, a3⟩ := addTexOpt_data s _ _ _ h1 hw.tdata
                obtain ⟨b1, b2, b3⟩ := addTexOpt_data s _ _ _ h2 a1
                obtain ⟨c1, c2, c3⟩ := addMatExts_data s _ _ _ h3 b1
                obtain ⟨d1, d2, d3⟩ := addTexOpt_data s _ _ _ h4 c1
                obtain ⟨e1, e2, e3⟩ := addTexOpt_data s _ _ _ h5 d1
                have k : KeepM r5.1 w := (keepM_addTexOpt _ _ _ _ h5).trans' ((keepM_addTexOpt _ _ _ _ h4).trans'
                  ((keepM_addMatExts _ _ _ _ h3).trans' ((keepM_addTexOpt _ _ _ _ h2).trans' (keepM_addTexOpt _ _ _ _ h1))))
                have km : r5.1.matIdx = w.matIdx := k.1
                have kmat : r5.1.materials = w.materials := k.2.1
                have g15 : TGrow w r5.1 := a2.trans' (b2.trans' (c2.trans' (d2.trans' e2)))
                have hbuilt : MatShown s r5.1 m (buildMaterial m r1.2 r2.2 r3.2 r4.2 r5.2) :=
                  buildMaterial_shown s r5.1 m _ _ _ _ _ (optShown_mono a3 (b2.trans' (c2.trans' (d2.trans' e2))))
                    (optShown_mono b3 (c2.trans' (d2.trans' e2)))
                    (zip_imp (fun e ge he => ⟨he.1, he.2.1, zip_imp (fun kt gkt hk => ⟨hk.1, optShown_mono hk.2 (d2.trans' e2)⟩) he.2.2⟩) c3)
                    (optShown_mono d3 e2) e3
                have gfin : TGrow r5.1 { r5.1 with materials := r5.1.materials ++ [buildMaterial m r1.2 r2.2 r3.2 r4.2 r5.2],
                                                   matIdx := r5.1.matIdx ++ [(m, r5.1.materials.length)] } :=
                  ⟨[], [], [], by simp, by simp, by simp⟩
                refine ⟨⟨⟨e1.imgNodup, e1.smpNodup, e1.texNodup, fun x hx t ht => texBase_mono (e1.texIdx x hx t ht) gfin⟩, ?_, ?_⟩, g15.trans' gfin,
                  ⟨[buildMaterial m r1.2 r2.2 r3.2 r4.2 r5.2], by simp only [kmat]⟩, _, by simp, matShown_mono hbuilt gfin⟩
                · intro e he
                  simp only [km, List.mem_append, List.mem_singleton] at he
                  rcases he with he | rfl
                  · obtain ⟨g, hg, hs'⟩ := hw.shown e he
                    refine ⟨g, ?_, matShown_mono hs' (g15.trans' gfin)⟩
                    simp only [kmat]; exact getElem?_grow _ hg
                  · exact ⟨_, by simp, matShown_mono hbuilt gfin⟩
                · intro e he
                  simp only [km, List.mem_append, List.mem_singleton] at he
                  rcases he with he | rfl
                  · exact hw.heap e he
                  · exact hm

end C06
end PolyVerif
