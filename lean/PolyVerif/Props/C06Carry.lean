/-
  C06 — scene level: the document carries exactly the scene (`carriesScene`).
-/
import PolyVerif.Props.C06Data
import PolyVerif.Props.C06Zip

namespace PolyVerif
namespace C06
open Gltf

/-! ### what it means for a node to carry a model -/

def InstCarried (w : W) (inst : List (List Nat)) (ni : Option (List (String × Nat))) : Prop :=
  (inst = [] ∧ ni = none) ∨
  (inst ≠ [] ∧ ∃ a0 a1 a2, ni = some [("TRANSLATION", a0), ("SCALE", a1), ("ROTATION", a2)]
     ∧ AccIs w a0 .f32 3 inst.length (inst.map (fun t => t.take 3)).flatten
     ∧ AccIs w a1 .f32 3 inst.length (inst.map (fun t => (t.drop 3).take 3)).flatten
     ∧ AccIs w a2 .f32 4 inst.length (inst.map (fun t => (t.drop 6).take 4)).flatten)

/-- node `n` carries model `md`: name and TRS verbatim; its mesh is the glTF mesh written for the model's heap mesh
    (reading back that mesh's attributes and indices) with a material iff the model has one; its instancing accessors
    read back the instance transforms -/
def Carries (s : Scene) (w : W) (md : Model) (n : GNode) : Prop :=
  n.name = md.name ∧ n.translation = md.translation ∧ n.rotation = md.rotation ∧ n.scale = md.scale
  ∧ (∃ id mi gm mat, md.mesh = some id ∧ n.mesh = some mi ∧ w.meshes[mi]? = some gm ∧ MeshFor s w gm id mat
       ∧ md.material.isSome = mat.isSome)
  ∧ InstCarried w md.instances n.inst

def Grow (w w' : W) : Prop := Ext w w' ∧ ∃ ms, w'.meshes = w.meshes ++ ms

theorem Grow.refl' (w : W) : Grow w w := ⟨Ext.refl' w, [], by simp⟩

theorem Grow.trans' {a b c : W} (h1 : Grow a b) (h2 : Grow b c) : Grow a c := by
  obtain ⟨e1, m1, g1⟩ := h1
  obtain ⟨e2, m2, g2⟩ := h2
  exact ⟨e1.trans' e2, m1 ++ m2, by rw [g2, g1, List.append_assoc]⟩

theorem carries_mono {s : Scene} {w w' : W} {md : Model} {n : GNode} (h : Carries s w md n) (g : Grow w w') :
    Carries s w' md n := by
  obtain ⟨h1, h2, h3, h4, ⟨id, mi, gm, mat, a1, a2, a3, a4, a5⟩, h6⟩ := h
  obtain ⟨e, ms, hms⟩ := g
  refine ⟨h1, h2, h3, h4, ⟨id, mi, gm, mat, a1, a2, ?_, meshFor_mono a4 e, a5⟩, ?_⟩
  · have hlt : mi < w.meshes.length := by
      rcases Nat.lt_or_ge mi w.meshes.length with h | h
      · exact h
      · rw [List.getElem?_eq_none h] at a3; cases a3
    rw [hms, List.getElem?_append_left hlt]; exact a3
  · rcases h6 with h6 | ⟨hne, a0, a1', a2', b1, b2, b3, b4⟩
    · exact Or.inl h6
    · exact Or.inr ⟨hne, a0, a1', a2', b1, accIs_mono b2 e, accIs_mono b3 e, accIs_mono b4 e⟩

theorem instMap_eq (a0 a1 a2 : Nat) :
    mapInsert (mapInsert (mapInsert ([] : List (String × Nat)) "TRANSLATION" a0) "SCALE" a1) "ROTATION" a2
      = [("TRANSLATION", a0), ("SCALE", a1), ("ROTATION", a2)] := by
  simp [mapInsert]

theorem addInstances_carried (w : W) (inst : List (List Nat)) (hw : Inv w) (hi : InstWF inst) :
    InstCarried (addInstances w inst).1 inst (addInstances w inst).2 := by
  unfold addInstances
  split
  · rename_i h0
    exact Or.inl ⟨List.eq_nil_of_length_eq_zero h0, rfl⟩
  · rename_i h0
    simp only
    have hv0 := vecsOK_inst inst hi (fun t => t.take 3) 3 (fun t ht => ⟨by simp [ht], fun x hx => List.mem_of_mem_take hx⟩) (fun h => by cases h)
    have hv1 := vecsOK_inst inst hi (fun t => (t.drop 3).take 3) 3
      (fun t ht => ⟨by simp [ht], fun x hx => List.mem_of_mem_drop (List.mem_of_mem_take hx)⟩) (fun h => by cases h)
    have hv2 := vecsOK_inst inst hi (fun t => (t.drop 6).take 4) 4
      (fun t ht => ⟨by simp [ht], fun x hx => List.mem_of_mem_drop (List.mem_of_mem_take hx)⟩) (fun _ t x hx => List.mem_of_mem_take hx)
    have i0 : Inv { w with extUsed := setInsert w.extUsed "EXT_mesh_gpu_instancing" } := inv_congr hw ⟨rfl, rfl, rfl, rfl⟩
    have i1 := inv_writeVec _ i0 .f32 3 _ (Or.inl rfl) hv0
    have i2 := inv_writeVec _ i1 .f32 3 _ (Or.inl rfl) hv1
    have c0 := accIs_writeVec _ i0 .f32 3 _ (Or.inl rfl) hv0
    have c1 := accIs_writeVec _ i1 .f32 3 _ (Or.inl rfl) hv1
    have c2 := accIs_writeVec _ i2 .f32 4 _ (Or.inl rfl) hv2
    rw [List.length_map] at c0 c1 c2
    refine Or.inr ⟨fun h => h0 (by rw [h]; rfl), _, _, _, by rw [instMap_eq], ?_, ?_, c2⟩
    · exact accIs_mono c0 ((ext_writeVec _ _ _ _).trans' (ext_writeVec _ _ _ _))
    · exact accIs_mono c1 (ext_writeVec _ _ _ _)

/-! ### fields the model loop leaves alone -/

/-- the light payload list is untouched -/
def LD (w' w : W) : Prop := w'.lightData = w.lightData

theorem LD.rfl' (w : W) : LD w w := rfl
theorem LD.trans' {a b c : W} (h1 : LD a b) (h2 : LD b c) : LD a c := Eq.trans h1 h2

theorem ld_texPrepare (w : W) (t : PTexture) : LD (texPrepare w t) w := by
  unfold texPrepare; split <;> exact (rfl : _ = _)

theorem ld_texImage (w : W) (u : String) : LD (texImage w u).1 w := by
  unfold texImage; split <;> exact (rfl : _ = _)

theorem ld_texSampler (w : W) (s : Option Sampler) : LD (texSampler w s).1 w := by
  unfold texSampler; split
  · exact (rfl : _ = _)
  · split <;> exact (rfl : _ = _)

theorem ld_texFinish (w : W) (id : Nat) (t : PTexture) (i : Nat) (s : Option Nat) : LD (texFinish w id t i s).1 w := by
  unfold texFinish; split <;> exact (rfl : _ = _)

theorem ld_addTexture (w : W) (id : Nat) (t : PTexture) : LD (addTexture w id t).1 w := by
  unfold addTexture
  split
  · exact ld_texPrepare w t
  · exact (ld_texFinish _ _ _ _ _).trans' ((ld_texSampler _ _).trans' ((ld_texImage _ _).trans' (ld_texPrepare w t)))

theorem ld_addTexOpt (th : Nat → Option PTexture) (w : W) (o : Option Nat) (r : W × Option TexInfo)
    (h : addTexOpt th w o = .ok r) : LD r.1 w := by
  unfold addTexOpt at h
  split at h
  · injection h with h; subst h; exact LD.rfl' w
  · split at h
    · cases h
    · injection h with h; subst h; exact ld_addTexture _ _ _

theorem ld_addTexList (th : Nat → Option PTexture) (w : W) (l : List (String × Nat)) (r : W × List (String × TexInfo))
    (h : addTexList th w l = .ok r) : LD r.1 w := by
  induction l generalizing w r with
  | nil => simp [addTexList] at h; subst h; exact LD.rfl' w
  | cons kt l ih =>
    obtain ⟨k, id⟩ := kt
    simp only [addTexList] at h
    split at h
    · cases h
    · split at h
      · cases h
      · rename_i t _ w2 l2 h2
        injection h with h; subst h
        exact (ih _ _ h2).trans' (ld_addTexture _ _ _)

theorem ld_addMatExts (th : Nat → Option PTexture) (w : W) (l : List PMatExt) (r : W × List GMatExt)
    (h : addMatExts th w l = .ok r) : LD r.1 w := by
  induction l generalizing w r with
  | nil => simp [addMatExts] at h; subst h; exact LD.rfl' w
  | cons e l ih =>
    simp only [addMatExts] at h
    split at h
    · cases h
    · rename_i w1 tis h1
      split at h
      · cases h
      · rename_i w2 l2 h2
        injection h with h; subst h
        have := ih _ _ h2
        exact this.trans' (LD.trans' (rfl : _ = _) (ld_addTexList _ _ _ _ h1))

theorem ld_addMaterial (th : Nat → Option PTexture) (w : W) (m : PMaterial) (r : W × Nat)
    (h : addMaterial th w m = .ok r) : LD r.1 w := by
  unfold addMaterial at h
  split at h
  · split at h
    · injection h with h; subst h; exact LD.rfl' w
    · cases h
  · split at h
    · cases h
    · rename_i r1 h1
      split at h
      · cases h
      · rename_i r2 h2
        split at h
        · cases h
        · rename_i r3 h3
          split at h
          · cases h
          · split at h
            · cases h
            · rename_i r4 h4
              split at h
              · cases h
              · rename_i r5 h5
                injection h with h; subst h
                have e1 := ld_addTexOpt _ _ _ _ h1
                have e2 := ld_addTexOpt _ _ _ _ h2
                have e3 := ld_addMatExts _ _ _ _ h3
                have e4 := ld_addTexOpt _ _ _ _ h4
                have e5 := ld_addTexOpt _ _ _ _ h5
                exact LD.trans' (rfl : _ = _) (e5.trans' (e4.trans' (e3.trans' (e2.trans' e1))))


theorem ld_addModelMaterial' (s : Scene) (w : W) (md : Model) (r : W × Option Nat)
    (h : addModelMaterial s w md = .ok r) : r.1.lightData = w.lightData ∧ r.2.isSome = md.material.isSome := by
  unfold addModelMaterial at h
  split at h
  · rename_i hm; injection h with h; subst h; exact ⟨rfl, by simp [hm]⟩
  · rename_i k hm
    split at h
    · cases h
    · split at h
      · cases h
      · rename_i r' h'
        injection h with h; subst h
        exact ⟨ld_addMaterial _ _ _ _ h', by simp [hm]⟩

def nodePart (w : W) := (w.nodes, w.scene, w.lights, w.lightData)

theorem nodePart_writeAttrs (w : W) (acc : List (String × Nat)) (l : List Attr) :
    nodePart (writeAttrs w acc l).1 = nodePart w := by
  induction l generalizing w acc with
  | nil => rfl
  | cons a r ih => simp only [writeAttrs]; rw [ih]; rfl

theorem nodePart_addMesh (w : W) (name : String) (id : Nat) (m : PMesh) (mat : Option Nat) :
    nodePart (addMesh w name id m mat).1 = nodePart w ∧ ∃ ms, (addMesh w name id m mat).1.meshes = w.meshes ++ ms := by
  unfold addMesh
  split
  · exact ⟨rfl, [], by simp⟩
  · split
    · exact ⟨rfl, [], by simp⟩
    · simp only [meshDataFor]
      split
      · exact ⟨rfl, _, rfl⟩
      · refine ⟨?_, _, by simp only [(writeMeshData_keepA _ id m).2.1]; rfl⟩
        have := nodePart_writeAttrs { w with meshIdx := mapInsert w.meshIdx (id, mat) w.meshes.length } [] m.written
        simp only [nodePart, Prod.mk.injEq] at this ⊢
        exact this

theorem nodePart_addInstances (w : W) (inst : List (List Nat)) :
    nodePart (addInstances w inst).1 = nodePart w ∧ (addInstances w inst).1.meshes = w.meshes := by
  unfold addInstances
  split <;> exact ⟨rfl, rfl⟩

theorem addMesh_some (w : W) (name : String) (id : Nat) (m : PMesh) (mat : Option Nat) (h : m.primitiveCount ≠ 0) :
    (addMesh w name id m mat).2 ≠ none := by
  unfold addMesh
  rw [if_neg h]
  split <;> simp

/-- visibility of a model, as in `Scene.visible` -/
def Vis (s : Scene) (md : Model) : Bool :=
  match s.meshOf md with
  | some m => !meshSkipped m
  | none => false

theorem visible_eq (s : Scene) : s.visible = s.models.filter (Vis s) := rfl

/-- one iteration of the model loop: an invisible model changes nothing that matters; a visible one appends exactly one
    node, listed in the scene, that carries the model -/
theorem addModel_carries (s : Scene) (w w' : W) (md : Model) (hs : SceneOK s) (hmd : md ∈ s.models) (hw : DInv s w)
    (h : addModel s w md = .ok w') :
    Grow w w' ∧ w'.lights = w.lights ∧ w'.lightData = w.lightData
    ∧ ((Vis s md = false ∧ w'.nodes = w.nodes ∧ w'.scene = w.scene)
       ∨ (Vis s md = true ∧ ∃ n, w'.nodes = w.nodes ++ [n] ∧ w'.scene = w.scene ++ [w.nodes.length] ∧ Carries s w' md n)) := by
  unfold addModel at h
  split at h
  · cases h
  · rename_i id hid
    split at h
    · cases h
    · rename_i m hm
      have hwf : MeshWF m := hs.1 m (List.mem_of_getElem? hm)
      have hmo : s.meshOf md = some m := by unfold Scene.meshOf; rw [hid]; exact hm
      split at h
      · rename_i hpc
        injection h with h; subst h
        exact ⟨Grow.refl' w, rfl, rfl, Or.inl ⟨by unfold Vis; rw [hmo]; simp [hpc], rfl, rfl⟩⟩
      · rename_i hpc
        have hvis : Vis s md = true := by unfold Vis; rw [hmo]; simpa using hpc
        split at h
        · cases h
        · rename_i r hr
          have hgate := gate_ok s w md _ r hr
          have hr := hgate.2
          have hl := lowEq_addModelMaterial s w md r hr
          have hk := addModelMaterial_keepW s w md r hr
          obtain ⟨hld, hsome⟩ := ld_addModelMaterial' s w md r hr
          have h1 : DInv s r.1 := dinv_keep hw (inv_congr hw.inv hl) (ext_of_lowEq hl) hk.2.1 hk.1 hk.2.2.1
          have g1 : Grow w r.1 := ⟨ext_of_lowEq hl, [], by simp [hk.1]⟩
          obtain ⟨h2, e2, hmf⟩ := dinv_addMesh s r.1 md.name id m r.2 h1 hm hwf (skipped_false hpc).2 (dupFree_pairwise _ _ hgate.1)
          obtain ⟨np2, ms, hms⟩ := nodePart_addMesh r.1 md.name id m r.2
          have g2 : Grow r.1 (addMesh r.1 md.name id m r.2).1 := ⟨e2, ms, hms⟩
          have hne := addMesh_some r.1 md.name id m r.2 (skipped_false hpc).1
          simp only at h
          split at h
          · rename_i hnone; exact absurd hnone hne
          · rename_i meshIndex hidx
            injection h with h; subst h
            obtain ⟨gm, hgm, hfor⟩ := hmf meshIndex hidx
            obtain ⟨np3, hme3⟩ := nodePart_addInstances (addMesh r.1 md.name id m r.2).1 md.instances
            have e3 := ext_addInstances (addMesh r.1 md.name id m r.2).1 md.instances
            have g3 : Grow (addMesh r.1 md.name id m r.2).1 (addInstances (addMesh r.1 md.name id m r.2).1 md.instances).1 :=
              ⟨e3, [], by simp [hme3]⟩
            have hic := addInstances_carried (addMesh r.1 md.name id m r.2).1 md.instances h2.inv (hs.2 md hmd)
            simp only [nodePart, Prod.mk.injEq] at np2 np3
            have hnodes : (addInstances (addMesh r.1 md.name id m r.2).1 md.instances).1.nodes = w.nodes := by
              rw [np3.1, np2.1, hk.2.2.2.1]
            have hscene : (addInstances (addMesh r.1 md.name id m r.2).1 md.instances).1.scene = w.scene := by
              rw [np3.2.1, np2.2.1, hk.2.2.2.2.1]
            have hlights : (addInstances (addMesh r.1 md.name id m r.2).1 md.instances).1.lights = w.lights := by
              rw [np3.2.2.1, np2.2.2.1, hk.2.2.2.2.2.2]
            have hldata : (addInstances (addMesh r.1 md.name id m r.2).1 md.instances).1.lightData = w.lightData := by
              rw [np3.2.2.2, np2.2.2.2, hld]
            have gfin : Grow (addInstances (addMesh r.1 md.name id m r.2).1 md.instances).1
                { (addInstances (addMesh r.1 md.name id m r.2).1 md.instances).1 with
                  nodes := (addInstances (addMesh r.1 md.name id m r.2).1 md.instances).1.nodes ++
                    [modelNode md meshIndex (addInstances (addMesh r.1 md.name id m r.2).1 md.instances).2],
                  scene := (addInstances (addMesh r.1 md.name id m r.2).1 md.instances).1.scene ++ [(addMesh r.1 md.name id m r.2).1.nodes.length] } :=
              ⟨⟨[], [], [], by simp, by simp, by simp⟩, [], by simp⟩
            refine ⟨g1.trans' (g2.trans' (g3.trans' gfin)), hlights, hldata, Or.inr ⟨hvis, modelNode md meshIndex (addInstances (addMesh r.1 md.name id m r.2).1 md.instances).2, by simp only [hnodes], ?_, ?_⟩⟩
            · simp only [hscene, np2.1, hk.2.2.2.1]
            · refine carries_mono ?_ gfin
              refine ⟨rfl, rfl, rfl, rfl, ⟨id, meshIndex, gm, r.2, hid, rfl, ?_, meshFor_mono hfor e3, by rw [hsome]⟩, hic⟩
              rw [hme3]; exact hgm

/-! ### the model loop and the light loop -/

structure NInv (s : Scene) (w : W) (vis : List Model) : Prop where
  zip : Zip (Carries s w) vis w.nodes
  scene : w.scene = List.range w.nodes.length
  lights : w.lights = 0
  lightData : w.lightData = []

theorem addModels_carries (s : Scene) (hs : SceneOK s) (l : List Model) :
    ∀ (w w' : W) (done : List Model), DInv s w → NInv s w (done.filter (Vis s)) → (∀ md ∈ l, md ∈ s.models) →
      addModels s w l = .ok w' → NInv s w' ((done ++ l).filter (Vis s)) ∧ DInv s w' := by
  induction l with
  | nil => intro w w' done hd hn _ h; simp [addModels] at h; subst h; simpa using ⟨hn, hd⟩
  | cons md r ih =>
    intro w w' done hd hn hl h
    simp only [addModels] at h
    split at h
    · cases h
    · rename_i w1 h1
      obtain ⟨g, hli, hld, hcase⟩ := addModel_carries s w w1 md hs (hl md (by simp)) hd h1
      have hd1 := (dinv_addModel s w w1 md hs (hl md (by simp)) hd h1).1
      have hn1 : NInv s w1 ((done ++ [md]).filter (Vis s)) := by
        rcases hcase with ⟨hv, hno, hsc⟩ | ⟨hv, n, hno, hsc, hc⟩
        · refine ⟨?_, by rw [hsc, hno]; exact hn.scene, by rw [hli]; exact hn.lights, by rw [hld]; exact hn.lightData⟩
          rw [List.filter_append, hno]
          simp only [List.filter_cons, hv, List.filter_nil, Bool.false_eq_true, if_false, List.append_nil]
          exact zip_imp (fun a b hab => carries_mono hab g) hn.zip
        · refine ⟨?_, ?_, by rw [hli]; exact hn.lights, by rw [hld]; exact hn.lightData⟩
          · rw [List.filter_append, hno]
            simp only [List.filter_cons, hv, List.filter_nil, if_true]
            exact zip_snoc (zip_imp (fun a b hab => carries_mono hab g) hn.zip) hc
          · rw [hsc, hno, hn.scene]
            simp [List.range_succ]
      have := ih w1 w' (done ++ [md]) hd1 hn1 (fun x hx => hl x (by simp [hx])) h
      simpa [List.append_assoc] using this

/-- a light node: translation = the light's position, no mesh -/
def LightNode (l : List Nat) (n : GNode) : Prop := n.translation = some (l.take 3) ∧ n.mesh = none ∧ n.inst = none

theorem addLights_carries (ls : List (List Nat)) :
    ∀ (w : W), w.scene = List.range w.nodes.length →
      ∃ ln, (ls.foldl addLight w).nodes = w.nodes ++ ln ∧ Zip LightNode ls ln
        ∧ (ls.foldl addLight w).scene = List.range (ls.foldl addLight w).nodes.length
        ∧ (ls.foldl addLight w).lights = w.lights + ls.length
        ∧ (ls.foldl addLight w).lightData = w.lightData ++ ls.map (fun l => lightOut (l.drop 3))
        ∧ LowEq (ls.foldl addLight w) w ∧ (ls.foldl addLight w).meshes = w.meshes := by
  induction ls with
  | nil => intro w hw; exact ⟨[], by simp, trivial, hw, by simp, by simp, LowEq.rfl' w, rfl⟩
  | cons l r ih =>
    intro w hw
    obtain ⟨ln, h1, h2, h3, h4, h5, h6, h7⟩ := ih (addLight w l) (by simp [addLight, hw, List.range_succ])
    refine ⟨{ translation := some (l.take 3), light := some w.lights } :: ln, ?_, ⟨⟨rfl, rfl, rfl⟩, h2⟩, h3, ?_, ?_,
      h6.trans' ⟨rfl, rfl, rfl, rfl⟩, h7⟩
    · simp only [List.foldl_cons]; rw [h1]; simp [addLight]
    · simp only [List.foldl_cons]; rw [h4]; simp [addLight]; omega
    · simp only [List.foldl_cons]; rw [h5]; simp [addLight]

/-! ### from the invariant to the oracle predicate -/

theorem lookup_of_mem {α β} [DecidableEq α] (k : α) (v : β) (l : List (α × β)) (h : (k, v) ∈ l) : ∃ v', lookup k l = some v' := by
  induction l with
  | nil => cases h
  | cons p r ih =>
    obtain ⟨a, b⟩ := p
    simp only [lookup]
    split
    · exact ⟨b, rfl⟩
    · rename_i hne
      simp only [List.mem_cons, Prod.mk.injEq] at h
      rcases h with ⟨h1, _⟩ | h
      · exact absurd h1.symm hne
      · exact ih h

theorem pairwise_inj {α β} (f : α → β) : ∀ (l : List α), List.Pairwise (fun a b => f a ≠ f b) l →
    ∀ a ∈ l, ∀ b ∈ l, f a = f b → a = b
  | [], _, a, ha, _, _, _ => by cases ha
  | x :: r, hp, a, ha, b, hb, hab => by
    rw [List.pairwise_cons] at hp
    simp only [List.mem_cons] at ha hb
    rcases ha with rfl | ha <;> rcases hb with rfl | hb
    · rfl
    · exact absurd hab (hp.1 b hb)
    · exact absurd hab.symm (hp.1 a ha)
    · exact pairwise_inj f r hp.2 a ha b hb hab

theorem decodeAt_of_accIs {w : W} {i : Nat} {c : Comp} {d n : Nat} {data : List Nat} (h : AccIs w i c d n data) :
    decodeAt w.doc w.buf i = some data := by
  obtain ⟨x, h1, _, _, _, h5⟩ := h
  unfold decodeAt
  simp only [W.doc, h1]; exact h5

theorem carries_of_Carries (s : Scene) (w : W) (md : Model) (n : GNode) (h : Carries s w md n) :
    carries s w.doc w.buf md n = true := by
  obtain ⟨h1, h2, h3, h4, ⟨id, mi, gm, mat, a1, a2, a3, ⟨m, p, idx, b1, b2, b3, b4, b5, b6, _, hkeys⟩, a5⟩, h6⟩ := h
  have hmo : s.meshOf md = some m := by unfold Scene.meshOf; rw [a1]; exact b1
  have hmeshes : w.doc.meshes[mi]? = some gm := a3
  unfold carries
  simp only [h1, h2, h3, h4, beq_self_eq_true, Bool.true_and, hmo, a2, hmeshes, b2, b4, b5, Bool.and_eq_true]
  refine ⟨⟨⟨⟨⟨⟨?_, ?_⟩, ?_⟩, ?_⟩, ?_⟩, ?_⟩, ?_⟩
  · simp only [List.all_eq_true]
    intro a ha
    obtain ⟨i, hi⟩ := (b6.2.1.2 hkeys).1 a ha
    obtain ⟨i', hi'⟩ := lookup_of_mem _ _ _ hi
    rw [hi']
    obtain ⟨a', ha', hkey, hacc⟩ := b6.1 _ (lookup_mem _ _ _ hi')
    have : a' = a := pairwise_inj (fun x : Attr => gltfAttrName x.name) m.written hkeys a' ha' a ha hkey.symm
    subst this
    have hdec : decodeAt w.doc w.buf i' = some a'.vals.flatten := decodeAt_of_accIs hacc
    obtain ⟨x, hx, hc, hd, hn, _⟩ := hacc
    have hx' : w.doc.accessors[i']? = some x := hx
    simp [hdec, hx', hc, hd, hn]
  · simp only [List.all_eq_true, List.any_eq_true, beq_iff_eq]
    intro ka hka
    obtain ⟨a', ha', hkey, _⟩ := b6.1 ka hka
    exact ⟨a', ha', hkey.symm⟩
  · rw [(b6.2.1.2 hkeys).2]; exact beq_self_eq_true _
  · rw [decodeAt_of_accIs b6.2.2]; simp
  · simp
  · rw [b3]; simp [a5]
  · rcases h6 with ⟨hnil, hnone⟩ | ⟨hne, a0, a1', a2', hn, c0, c1, c2⟩
    · simp [hnil, hnone]
    · have : md.instances.isEmpty = false := by cases hmi : md.instances with
        | nil => exact absurd hmi hne
        | cons _ _ => rfl
      simp only [this, Bool.false_eq_true, if_false, hn]
      have l0 : lookup "TRANSLATION" [("TRANSLATION", a0), ("SCALE", a1'), ("ROTATION", a2')] = some a0 := by simp [lookup]
      have l1 : lookup "SCALE" [("TRANSLATION", a0), ("SCALE", a1'), ("ROTATION", a2')] = some a1' := by simp [lookup]
      have l2 : lookup "ROTATION" [("TRANSLATION", a0), ("SCALE", a1'), ("ROTATION", a2')] = some a2' := by simp [lookup]
      simp [l0, l1, l2, decodeAt_of_accIs c0, decodeAt_of_accIs c1, decodeAt_of_accIs c2]

/-- only the two topologies the property speaks about: triangle (0) and point (1).  (Line, line-strip, line-loop and
    quad meshes are written WITHOUT a mode, i.e. as TRIANGLES — see notes; `carries` only knows `mode = 0 ⇔ point`.) -/
def TopoOK (s : Scene) : Prop := ∀ m ∈ s.meshHeap, m.topo = 0 ∨ m.topo = 1

/-- scene hypotheses of `gltf_carries_scene`: well-formed meshes and instances, triangle / point topologies.  (Pairwise
    different glTF attribute names and "a written attribute whenever there are indices" are no longer hypotheses: since
    fd26630 the writer rejects / skips such meshes, so they follow from acceptance.) -/
def SceneOK3 (s : Scene) : Prop := SceneOK s ∧ TopoOK s

/-- every node of the final document is the node of a visible model (carrying it) or a light node -/
theorem scene_nodes_structure (s : Scene) (w : W) (hs : SceneOK s) (h : writeScene s = .ok w) :
    ∀ n ∈ w.nodes, (∃ md, Carries s w md n) ∨ (∃ l, LightNode l n) := by
  unfold writeScene at h
  split at h
  · cases h
  · rename_i w1 h1
    split at h
    · injection h with h; subst h
      unfold addScene at h1
      split at h1
      · cases h1
      · rename_i w0 h0
        injection h1 with h1; subst h1
        obtain ⟨hn, hd⟩ := addModels_carries s hs s.models {} w0 [] ⟨inv_empty, by simp, by simp, by simp⟩
          ⟨trivial, rfl, rfl, rfl⟩ (fun _ h => h) h0
        obtain ⟨ln, e1, e2, e3, e4, e5, e6, e7⟩ := addLights_carries s.lights w0 hn.scene
        have hg : Grow w0 (s.lights.foldl addLight w0) := ⟨ext_of_lowEq e6, [], by simp [e7]⟩
        intro n hnn
        rw [e1, List.mem_append] at hnn
        rcases hnn with hnn | hnn
        · obtain ⟨md, hc⟩ := zip_mem_right hn.zip n hnn
          exact Or.inl ⟨md, carries_mono hc hg⟩
        · obtain ⟨l, hl⟩ := zip_mem_right e2 n hnn
          exact Or.inr ⟨l, hl⟩
    · cases h

/-- CARRIES THE SCENE.  For every well-formed scene the writer accepts: the document has exactly one node per visible
    model, in model order, then one node per light; the node of model k has the model's name and TRS verbatim, and its
    mesh's single primitive decodes — attribute by attribute under the glTF names, and the indices — to exactly the
    stored image of model k's mesh (also when the accessors were reused through the mesh-pointer table), has the right
    mode and a material iff the model has one; instancing accessors decode to the instance transforms; the scene lists
    every node once; light count and light payloads are the scene's -/
theorem gltf_carries_scene (s : Scene) (w : W) (hs : SceneOK3 s) (h : writeScene s = .ok w) :
    carriesScene s w.doc w.buf = true := by
  unfold writeScene at h
  split at h
  · cases h
  · rename_i w1 h1
    split at h
    · injection h with h; subst h
      unfold addScene at h1
      split at h1
      · cases h1
      · rename_i w0 h0
        injection h1 with h1; subst h1
        obtain ⟨hn, hd⟩ := addModels_carries s hs.1 s.models {} w0 [] ⟨inv_empty, by simp, by simp, by simp⟩
          ⟨trivial, rfl, rfl, rfl⟩ (fun _ h => h) h0
        simp only [List.nil_append] at hn
        obtain ⟨ln, e1, e2, e3, e4, e5, e6, e7⟩ := addLights_carries s.lights w0 hn.scene
        have hg : Grow w0 (s.lights.foldl addLight w0) := ⟨ext_of_lowEq e6, [], by simp [e7]⟩
        have hz := zip_imp (fun a b hab => carries_of_Carries s _ a b (carries_mono hab hg)) hn.zip
        have hlen : s.visible.length = w0.nodes.length := by rw [visible_eq]; exact zip_length hn.zip
        unfold carriesScene
        simp only [Bool.and_eq_true]
        refine ⟨⟨⟨⟨?_, ?_⟩, ?_⟩, ?_⟩, ?_⟩
        · have : (s.lights.foldl addLight w0).doc.nodes.take s.visible.length = w0.nodes := by
            show (s.lights.foldl addLight w0).nodes.take _ = _
            rw [e1, hlen, List.take_left' rfl]
          rw [this, visible_eq]
          exact allZip_of_zip (fun a b hab => hab) hz
        · have : (s.lights.foldl addLight w0).doc.nodes.drop s.visible.length = ln := by
            show (s.lights.foldl addLight w0).nodes.drop _ = _
            rw [e1, hlen, List.drop_left' rfl]
          rw [this]
          exact allZip_of_zip (fun l n hln => by obtain ⟨x, y, _⟩ := hln; simp [x, y]) e2
        · show ((s.lights.foldl addLight w0).scene == List.range (s.lights.foldl addLight w0).nodes.length) = true
          rw [e3]; simp
        · show ((s.lights.foldl addLight w0).lights == s.lights.length) = true
          rw [e4, hn.lights]; simp
        · show ((s.lights.foldl addLight w0).lightData == s.lights.map (fun l => lightOut (l.drop 3))) = true
          rw [e5, hn.lightData]; simp
    · cases h

end C06

end PolyVerif
