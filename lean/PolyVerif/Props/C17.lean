/-
  C17 — Transform types obey their algebra.

  Every theorem here is about the definitions in `PolyVerif.Gen.Transform`,
  which engine T regenerates from /repo/math/{mat,quaternion,trs,geometry} on
  every run; the scalar is ℝ (the real-number meaning of the source's own
  expressions).  Property theorems only; helper lemmas are marked `private` or
  named `*_aux`.
-/
import PolyVerif.Gen.Transform
import PolyVerif.Model.AabbFromPoints
import PolyVerif.Lemmas.RealScalar
import Mathlib.Data.Matrix.Basic
import Mathlib.LinearAlgebra.Matrix.Determinant.Basic
import Mathlib.Tactic

namespace PolyVerif
namespace C17
open Gen Gen.mat Gen.quaternion Gen.geometry

abbrev M4 := Matrix4x4 ℝ
abbrev Q := Quaternion ℝ
abbrev P3 := V3 ℝ

@[ext] theorem V3.ext' {a b : V3 ℝ} (hx : a.x = b.x) (hy : a.y = b.y) (hz : a.z = b.z) : a = b := by
  cases a; cases b; simp_all



def toMatrix (a : M4) : Matrix (Fin 4) (Fin 4) ℝ :=
  !![a.X00, a.X01, a.X02, a.X03; a.X10, a.X11, a.X12, a.X13; a.X20, a.X21, a.X22, a.X23; a.X30, a.X31, a.X32, a.X33]

theorem mat_ext (a b : M4) (h : toMatrix a = toMatrix b) : a = b := by
  cases a; cases b
  have := fun i j => congrFun (congrFun h i) j
  simp only [toMatrix] at this
  have h00 := this 0 0; have h01 := this 0 1; have h02 := this 0 2; have h03 := this 0 3
  have h10 := this 1 0; have h11 := this 1 1; have h12 := this 1 2; have h13 := this 1 3
  have h20 := this 2 0; have h21 := this 2 1; have h22 := this 2 2; have h23 := this 2 3
  have h30 := this 3 0; have h31 := this 3 1; have h32 := this 3 2; have h33 := this 3 3
  simp at h00 h01 h02 h03 h10 h11 h12 h13 h20 h21 h22 h23 h30 h31 h32 h33
  simp [*]

theorem mat_mul_row_col (a b : M4) : toMatrix (a.Multiply b) = toMatrix a * toMatrix b := by
  ext i j
  fin_cases i <;> fin_cases j <;>
    simp [toMatrix, Matrix4x4.Multiply, Matrix.mul_apply, Fin.sum_univ_four]

theorem mat_identity : toMatrix (mat.Identity : M4) = 1 := by
  ext i j
  fin_cases i <;> fin_cases j <;> simp [toMatrix, mat.Identity]

theorem mat_det_eq (a : M4) : a.Determinant = (toMatrix a).det := by
  simp [toMatrix, Matrix4x4.Determinant, Matrix.det_succ_row_zero, Fin.sum_univ_succ, Matrix.det_fin_three, Matrix.submatrix, Fin.succAbove]
  ring


/-! ### 4×4 matrices -/

theorem mat_add_entrywise (a b : M4) :
    toMatrix (a.Add b) = toMatrix a + toMatrix b := by
  ext i j
  fin_cases i <;> fin_cases j <;> simp [toMatrix, Matrix4x4.Add]

theorem mat_mul_one (a : M4) : a.Multiply mat.Identity = a := by
  apply mat_ext; rw [mat_mul_row_col, mat_identity, mul_one]

theorem mat_one_mul (a : M4) : (mat.Identity : M4).Multiply a = a := by
  apply mat_ext; rw [mat_mul_row_col, mat_identity, one_mul]

theorem mat_mul_assoc (a b c : M4) : (a.Multiply b).Multiply c = a.Multiply (b.Multiply c) := by
  apply mat_ext; simp only [mat_mul_row_col, mul_assoc]

/-- `MulPosition` is the affine action of the upper 3×4 block. -/
theorem mat_mulPosition (a : M4) (p : P3) :
    a.MulPosition p = ⟨a.X00 * p.x + a.X01 * p.y + a.X02 * p.z + a.X03,
                       a.X10 * p.x + a.X11 * p.y + a.X12 * p.z + a.X13,
                       a.X20 * p.x + a.X21 * p.y + a.X22 * p.z + a.X23⟩ := by
  simp [Matrix4x4.MulPosition, V3.New, V3.X, V3.Y, V3.Z]

/-- composition of affine actions is the action of the product, for affine `b` (last row 0 0 0 1) -/
theorem mat_mulPosition_mul (a b : M4) (p : P3)
    (h0 : b.X30 = 0) (h1 : b.X31 = 0) (h2 : b.X32 = 0) (h3 : b.X33 = 1) :
    (a.Multiply b).MulPosition p = a.MulPosition (b.MulPosition p) := by
  ext <;> simp [Matrix4x4.MulPosition, Matrix4x4.Multiply, V3.New, V3.X, V3.Y, V3.Z, h0, h1, h2, h3] <;> ring



theorem ext16 {a b : M4}
    (h00 : a.X00 = b.X00) (h01 : a.X01 = b.X01) (h02 : a.X02 = b.X02) (h03 : a.X03 = b.X03)
    (h10 : a.X10 = b.X10) (h11 : a.X11 = b.X11) (h12 : a.X12 = b.X12) (h13 : a.X13 = b.X13)
    (h20 : a.X20 = b.X20) (h21 : a.X21 = b.X21) (h22 : a.X22 = b.X22) (h23 : a.X23 = b.X23)
    (h30 : a.X30 = b.X30) (h31 : a.X31 = b.X31) (h32 : a.X32 = b.X32) (h33 : a.X33 = b.X33) : a = b := by
  cases a; cases b; simp_all

theorem mat_mul_inv (a : M4) (h : a.Determinant ≠ 0) : a.Multiply a.Inverse = mat.Identity := by
  have hr : a.Determinant * (((1 : ℕ) : ℝ) / a.Determinant) = 1 := by push_cast; field_simp
  simp only [Matrix4x4.Inverse]
  generalize ((1 : ℕ) : ℝ) / a.Determinant = r at hr
  simp only [Matrix4x4.Determinant] at hr
  apply ext16 <;> simp only [Matrix4x4.Multiply, mat.Identity] <;> push_cast <;>
    first | linear_combination hr | ring

theorem mat_inv_mul (a : M4) (h : a.Determinant ≠ 0) : a.Inverse.Multiply a = mat.Identity := by
  have hr : a.Determinant * (((1 : ℕ) : ℝ) / a.Determinant) = 1 := by push_cast; field_simp
  simp only [Matrix4x4.Inverse]
  generalize ((1 : ℕ) : ℝ) / a.Determinant = r at hr
  simp only [Matrix4x4.Determinant] at hr
  apply ext16 <;> simp only [Matrix4x4.Multiply, mat.Identity] <;> push_cast <;>
    first | linear_combination hr | ring


/-! ### quaternions -/




theorem quat_rotate_mul (q₁ q₂ : Q) (v : P3) :
    (q₁.Multiply q₂).Rotate v = q₁.Rotate (q₂.Rotate v) := by
  ext <;> simp [Quaternion.Multiply, Quaternion.Rotate, V3.Scale, V3.Dot, V3.Add, V3.Cross, V3.New, V3.X, V3.Y, V3.Z] <;> ring

noncomputable def normSq (q : Q) : ℝ := q.v.Dot q.v + q.w * q.w

theorem quat_rotate_norm_general (q : Q) (v : P3) :
    (q.Rotate v).Dot (q.Rotate v) = (normSq q)^2 * v.Dot v := by
  simp [normSq, Quaternion.Rotate, V3.Scale, V3.Dot, V3.Add, V3.Cross]; ring

theorem quat_rotate_norm (q : Q) (hq : normSq q = 1) (v : P3) :
    (q.Rotate v).Length = v.Length := by
  have := quat_rotate_norm_general q v
  simp only [V3.Length, V3.LengthSquared, RS.sqrt_eq] at *
  simp only [V3.Dot, hq] at this
  rw [this]; simp

theorem quat_rotate_add (q : Q) (u v : P3) : q.Rotate (u.Add v) = (q.Rotate u).Add (q.Rotate v) := by
  ext <;> simp [Quaternion.Rotate, V3.Scale, V3.Dot, V3.Add, V3.Cross] <;> ring

theorem quat_rotate_smul (q : Q) (c : ℝ) (v : P3) : q.Rotate (v.Scale c) = (q.Rotate v).Scale c := by
  ext <;> simp [Quaternion.Rotate, V3.Scale, V3.Dot, V3.Add, V3.Cross] <;> ring

theorem quat_identity_rotate (v : P3) : (quaternion.Identity : Q).Rotate v = v := by
  ext <;> simp [quaternion.Identity, Quaternion.Rotate, V3.Scale, V3.Dot, V3.Add, V3.Cross, V3.Zero]






theorem quat_fromTheta_unit (θ : ℝ) (v : P3) (hv : v.Dot v ≠ 0) : normSq (FromTheta θ v) = 1 := by
  have hpos : 0 < v.Dot v := by
    have : 0 ≤ v.Dot v := by simp [V3.Dot]; nlinarith [sq_nonneg v.x, sq_nonneg v.y, sq_nonneg v.z]
    exact lt_of_le_of_ne this (Ne.symm hv)
  simp only [V3.Dot] at hpos hv
  have hs : Real.sqrt (v.x * v.x + v.y * v.y + v.z * v.z) * Real.sqrt (v.x * v.x + v.y * v.y + v.z * v.z)
      = v.x * v.x + v.y * v.y + v.z * v.z := Real.mul_self_sqrt hpos.le
  have h1 := Real.sin_sq_add_cos_sq (θ / 2)
  simp only [normSq, FromTheta, V3.Normalized, V3.DivByConstant, V3.Length, V3.LengthSquared, V3.Scale, V3.Dot, RS.sqrt_eq, RS.sin_eq, RS.cos_eq]
  generalize Real.sqrt (v.x * v.x + v.y * v.y + v.z * v.z) = r at *
  have hr : r ≠ 0 := by intro h; rw [h] at hs; linarith
  have hinv : (v.x * v.x + v.y * v.y + v.z * v.z) * r⁻¹ * r⁻¹ = 1 := by
    rw [← hs]; field_simp
  push_cast
  linear_combination (Real.sin (θ / 2))^2 * hinv + h1

theorem trs_transform (t : trs.TRS ℝ) (v : P3) :
    t.Transform v = (t.rotation.Rotate (t.scale.MultByVector v)).Add t.position := rfl

-- AABB
theorem aabb_setMinMax_min (b : AABB ℝ) (mn mx : P3) : (b.SetMinMax mn mx).Min = mn := by
  ext <;> simp [AABB.SetMinMax, AABB.Min, V3.Sub, V3.Add, V3.Scale]
theorem aabb_setMinMax_max (b : AABB ℝ) (mn mx : P3) : (b.SetMinMax mn mx).Max = mx := by
  ext <;> simp [AABB.SetMinMax, AABB.Max, V3.Sub, V3.Add, V3.Scale] <;> ring

theorem aabb_contains_iff (b : AABB ℝ) (p : P3) :
    b.Contains p = true ↔ (b.Min.x ≤ p.x ∧ b.Min.y ≤ p.y ∧ b.Min.z ≤ p.z ∧ p.x ≤ b.Max.x ∧ p.y ≤ b.Max.y ∧ p.z ≤ b.Max.z) := by
  simp only [AABB.Contains, V3.X, V3.Y, V3.Z, decide_eq_true_eq]
  by_cases h1 : p.x < b.Min.x <;> by_cases h2 : p.y < b.Min.y <;> by_cases h3 : p.z < b.Min.z <;>
  by_cases h4 : b.Max.x < p.x <;> by_cases h5 : b.Max.y < p.y <;> by_cases h6 : b.Max.z < p.z <;>
  simp [h1, h2, h3, h4, h5, h6] <;> (try (intros; linarith)) <;>
  (try (refine ⟨?_,?_,?_,?_,?_,?_⟩ <;> linarith))

theorem aabb_encapsulatePoint_contains (b : AABB ℝ) (p : P3) :
    (b.EncapsulatePoint p).Contains p = true := by
  rw [aabb_contains_iff]
  simp only [AABB.EncapsulatePoint, aabb_setMinMax_min, aabb_setMinMax_max, minVector, maxVector, V3.New, V3.X, V3.Y, V3.Z]
  simp

theorem aabb_encapsulatePoint_mono (b : AABB ℝ) (p q : P3) (h : b.Contains q = true) :
    (b.EncapsulatePoint p).Contains q = true := by
  rw [aabb_contains_iff] at *
  simp only [AABB.EncapsulatePoint, aabb_setMinMax_min, aabb_setMinMax_max, minVector, maxVector, V3.New, V3.X, V3.Y, V3.Z]
  obtain ⟨h1, h2, h3, h4, h5, h6⟩ := h
  refine ⟨?_, ?_, ?_, ?_, ?_, ?_⟩ <;> simp [*]

/-- growing a box to encapsulate another box: everything the other box contained is contained -/
theorem aabb_encapsulateBounds_contains (b c : AABB ℝ) (q : P3) (h : c.Contains q = true) :
    (b.EncapsulateBounds c).Contains q = true := by
  rw [aabb_contains_iff] at *
  simp only [AABB.EncapsulateBounds, AABB.EncapsulatePoint, aabb_setMinMax_min, aabb_setMinMax_max, minVector, maxVector,
    V3.New, V3.X, V3.Y, V3.Z]
  simp only [AABB.Min, AABB.Max, V3.Sub, V3.Add] at h ⊢
  obtain ⟨h1, h2, h3, h4, h5, h6⟩ := h
  refine ⟨?_, ?_, ?_, ?_, ?_, ?_⟩ <;> simp only [min_le_iff, le_max_iff] <;> first | (left; right; linarith) | (right; linarith)

/-- … and everything the box itself contained stays contained -/
theorem aabb_encapsulateBounds_mono (b c : AABB ℝ) (q : P3) (h : b.Contains q = true) :
    (b.EncapsulateBounds c).Contains q = true := by
  unfold AABB.EncapsulateBounds
  exact aabb_encapsulatePoint_mono _ _ _ (aabb_encapsulatePoint_mono _ _ _ h)

theorem aabb_closestPoint_in_box (b : AABB ℝ) (v : P3)
    (hx : 0 ≤ b.extents.x) (hy : 0 ≤ b.extents.y) (hz : 0 ≤ b.extents.z) :
    b.Contains (b.ClosestPoint v) = true := by
  rw [aabb_contains_iff]
  simp only [AABB.ClosestPoint, geometry.clamp, V3.SetX, V3.SetY, V3.SetZ, V3.X, V3.Y, V3.Z, AABB.Min, AABB.Max, V3.Sub, V3.Add]
  refine ⟨?_, ?_, ?_, ?_, ?_, ?_⟩ <;> simp <;> linarith

theorem aabb_closestPoint_id_inside (b : AABB ℝ) (v : P3) (h : b.Contains v = true) :
    b.ClosestPoint v = v := by
  rw [aabb_contains_iff] at h
  obtain ⟨h1, h2, h3, h4, h5, h6⟩ := h
  simp only [AABB.Min, AABB.Max, V3.Sub, V3.Add] at *
  ext <;> simp [AABB.ClosestPoint, geometry.clamp, V3.SetX, V3.SetY, V3.SetZ, V3.X, V3.Y, V3.Z, AABB.Min, AABB.Max, V3.Sub, V3.Add, *]





/-- the threshold constant of `RotationTo` as the source has it (float64 nearest to 0.999999) -/
noncomputable def rotThreshold : ℝ := (9007190247541737 : ℝ) / 9007199254740992

theorem quat_rotationTo_generic (a b : P3) (ha : a.Dot a = 1) (hb : b.Dot b = 1)
    (h1 : ¬ a.Dot b < -rotThreshold) (h2 : ¬ rotThreshold < a.Dot b) :
    (RotationTo a b).Rotate a = b := by
  have hth : rotThreshold < 1 := by unfold rotThreshold; norm_num
  obtain ⟨ax, ay, az⟩ := a
  obtain ⟨bx, b_y, bz⟩ := b
  simp only [V3.Dot] at ha hb h1 h2
  have hw : 0 < 1 + (ax * bx + ay * b_y + az * bz) := by linarith [not_lt.mp h1]
  have hS : (ay * bz - az * b_y) * (ay * bz - az * b_y) + (az * bx - ax * bz) * (az * bx - ax * bz) +
        (ax * b_y - ay * bx) * (ax * b_y - ay * bx) +
      (1 + (ax * bx + ay * b_y + az * bz)) * (1 + (ax * bx + ay * b_y + az * bz)) = 2 * (1 + (ax * bx + ay * b_y + az * bz)) := by
    linear_combination (bx*bx + b_y*b_y + bz*bz) * ha + hb
  have hL := Real.mul_self_sqrt (le_of_lt (by rw [hS]; linarith :
    0 < (ay * bz - az * b_y) * (ay * bz - az * b_y) + (az * bx - ax * bz) * (az * bx - ax * bz) +
        (ax * b_y - ay * bx) * (ax * b_y - ay * bx) +
      (1 + (ax * bx + ay * b_y + az * bz)) * (1 + (ax * bx + ay * b_y + az * bz))))
  have e1 : ¬ (ax * bx + ay * b_y + az * bz < -((9007190247541737 : ℕ) : ℝ) / ((9007199254740992 : ℕ) : ℝ)) := by
    simpa [rotThreshold, neg_div] using h1
  have e2 : ¬ (((9007190247541737 : ℕ) : ℝ) / ((9007199254740992 : ℕ) : ℝ) < ax * bx + ay * b_y + az * bz) := by
    simpa [rotThreshold] using h2
  simp only [RotationTo, V3.Dot, RS.lit_eq, decide_eq_true_eq, neg_div', e1, e2, if_false,
    quaternion.New, Quaternion.Normalize, V3.Cross, V4.Normalized, V4.DivByConstant, V4.Length, V4.LengthSquared,
    V4.New, V3.New, V3.X, V3.Y, V3.Z, V4.X, V4.Y, V4.Z, V4.W, RS.sqrt_eq, Quaternion.Rotate, V3.Scale, V3.Add, RS.sq_eq]
  push_cast
  generalize Real.sqrt ((ay * bz - az * b_y) * (ay * bz - az * b_y) + (az * bx - ax * bz) * (az * bx - ax * bz) +
        (ax * b_y - ay * bx) * (ax * b_y - ay * bx) +
      (1 + (ax * bx + ay * b_y + az * bz)) * (1 + (ax * bx + ay * b_y + az * bz))) = L at hL ⊢
  have hL0 : L ≠ 0 := by intro h; rw [h, hS] at hL; linarith
  have hinv : ((ay * bz - az * b_y) * (ay * bz - az * b_y) + (az * bx - ax * bz) * (az * bx - ax * bz) +
        (ax * b_y - ay * bx) * (ax * b_y - ay * bx) +
      (1 + (ax * bx + ay * b_y + az * bz)) * (1 + (ax * bx + ay * b_y + az * bz))) * L⁻¹ * L⁻¹ = 1 := by
    rw [← hL]; field_simp
  ext
  · show _ = bx
    linear_combination bx * hinv + L⁻¹ * L⁻¹ * ((-(ax + bx) * (bx*bx + b_y*b_y + bz*bz) + 2 * (1 + (ax * bx + ay * b_y + az * bz)) * bx) * ha + (-(ax + bx)) * hb)
  · show _ = b_y
    linear_combination b_y * hinv + L⁻¹ * L⁻¹ * ((-(ay + b_y) * (bx*bx + b_y*b_y + bz*bz) + 2 * (1 + (ax * bx + ay * b_y + az * bz)) * b_y) * ha + (-(ay + b_y)) * hb)
  · show _ = bz
    linear_combination bz * hinv + L⁻¹ * L⁻¹ * ((-(az + bz) * (bx*bx + b_y*b_y + bz*bz) + 2 * (1 + (ax * bx + ay * b_y + az * bz)) * bz) * ha + (-(az + bz)) * hb)


/-! ### RotationTo, opposite directions -/

/-- rotating by the half-turn about a unit axis `n` orthogonal to `f` maps `f` to `-f` -/
theorem halfturn_flips (c f : P3) (hc : c.Dot c ≠ 0) (horth : c.Dot f = 0) :
    (FromTheta Real.pi (c.Normalized)).Rotate f = f.Scale (-1) := by
  have hpos : 0 < c.Dot c := by
    have : 0 ≤ c.Dot c := by simp [V3.Dot]; nlinarith [sq_nonneg c.x, sq_nonneg c.y, sq_nonneg c.z]
    exact lt_of_le_of_ne this (Ne.symm hc)
  simp only [V3.Dot] at hpos hc horth
  have hs := Real.mul_self_sqrt hpos.le
  -- the doubly normalised axis
  simp only [FromTheta, V3.Normalized, V3.DivByConstant, V3.Length, V3.LengthSquared, RS.sqrt_eq, RS.sin_eq, RS.cos_eq,
    Quaternion.Rotate, V3.Scale, V3.Dot, V3.Add, V3.Cross, RS.sq_eq]
  generalize Real.sqrt (c.x * c.x + c.y * c.y + c.z * c.z) = r at hs ⊢
  have hr : r ≠ 0 := by intro h; rw [h] at hs; linarith
  have hinv : (c.x * c.x + c.y * c.y + c.z * c.z) * r⁻¹ * r⁻¹ = 1 := by rw [← hs]; field_simp
  have h2 : Real.sqrt (c.x / r * (c.x / r) + c.y / r * (c.y / r) + c.z / r * (c.z / r)) = 1 := by
    have : c.x / r * (c.x / r) + c.y / r * (c.y / r) + c.z / r * (c.z / r) = 1 := by
      field_simp; nlinarith [hs]
    rw [this]; simp
  rw [h2]
  have hc2 : Real.cos (Real.pi / ((2 : ℕ) : ℝ)) = 0 := by push_cast; exact Real.cos_pi_div_two
  have hs2 : Real.sin (Real.pi / ((2 : ℕ) : ℝ)) = 1 := by push_cast; exact Real.sin_pi_div_two
  rw [hc2, hs2]
  ext
  · simp; field_simp; linear_combination (2 * c.x) * horth + f.x * hs
  · simp; field_simp; linear_combination (2 * c.y) * horth + f.y * hs
  · simp; field_simp; linear_combination (2 * c.z) * horth + f.z * hs


/-- opposite directions (dot below the source's threshold): the result is a half-turn about an axis orthogonal to
    `a`, so `a` is mapped onto `-a`; in particular `RotationTo a (-a)` maps `a` onto `-a` -/
theorem quat_rotationTo_antiparallel (a b : P3) (ha : a.Dot a = 1) (hd : a.Dot b < -rotThreshold) :
    (RotationTo a b).Rotate a = a.Scale (-1) := by
  have e1 : a.Dot b < -((9007190247541737 : ℕ) : ℝ) / ((9007199254740992 : ℕ) : ℝ) := by
    simpa [rotThreshold, neg_div] using hd
  by_cases hlen : (V3.Cross (V3.Right : P3) a).Length < ((4722366482869645 : ℕ) : ℝ) / ((4722366482869645213696 : ℕ) : ℝ)
  · -- fallback axis Up × a
    have : RotationTo a b = FromTheta Real.pi (V3.Normalized (V3.Cross (V3.Up : P3) a)) := by
      unfold RotationTo
      simp only [RS.lit_eq, decide_eq_true_eq, neg_div', e1, if_true, RS.pi_eq, hlen]
    rw [this]
    apply halfturn_flips
    · simp only [V3.Length, V3.LengthSquared, RS.sqrt_eq, V3.Cross, V3.Right, V3.Up, V3.Dot] at *
      push_cast at *
      have hlt : Real.sqrt ((0 * a.z - 0 * a.y) * (0 * a.z - 0 * a.y) + (0 * a.x - 1 * a.z) * (0 * a.x - 1 * a.z) +
          (1 * a.y - 0 * a.x) * (1 * a.y - 0 * a.x)) < 1 := lt_of_lt_of_le hlen (by norm_num)
      have hsq : (0 * a.z - 0 * a.y) * (0 * a.z - 0 * a.y) + (0 * a.x - 1 * a.z) * (0 * a.x - 1 * a.z) +
          (1 * a.y - 0 * a.x) * (1 * a.y - 0 * a.x) < 1 := by
        by_contra hge
        push Not at hge
        have := Real.one_le_sqrt.mpr hge
        linarith
      nlinarith [sq_nonneg a.z, sq_nonneg a.x]
    · simp only [V3.Cross, V3.Up, V3.Dot]; push_cast; ring
  · have : RotationTo a b = FromTheta Real.pi (V3.Normalized (V3.Cross (V3.Right : P3) a)) := by
      unfold RotationTo
      simp only [RS.lit_eq, decide_eq_true_eq, neg_div', e1, if_true, RS.pi_eq, hlen, if_false]
    rw [this]
    apply halfturn_flips
    · intro h0
      apply hlen
      simp only [V3.Length, V3.LengthSquared, RS.sqrt_eq]
      simp only [V3.Dot] at h0
      rw [h0]; simp
    · simp only [V3.Cross, V3.Right, V3.Dot]; push_cast; ring

example : (RotationTo (⟨1, 0, 0⟩ : P3) ⟨-1, 0, 0⟩).Rotate ⟨1, 0, 0⟩ = (⟨1, 0, 0⟩ : P3).Scale (-1) := by
  apply quat_rotationTo_antiparallel
  · simp [V3.Dot]
  · simp [V3.Dot, rotThreshold]; norm_num


/-! ### NewAABBFromPoints (hand model, corresponded) -/

private theorem foldl_min_le (p : P3) (ps : List P3) :
    (fromPointsMin p ps).x ≤ p.x ∧ (fromPointsMin p ps).y ≤ p.y ∧ (fromPointsMin p ps).z ≤ p.z ∧
    ∀ q ∈ ps, (fromPointsMin p ps).x ≤ q.x ∧ (fromPointsMin p ps).y ≤ q.y ∧ (fromPointsMin p ps).z ≤ q.z := by
  unfold fromPointsMin
  induction ps generalizing p with
  | nil => simp
  | cons v vs ih =>
    simp only [List.foldl_cons]
    obtain ⟨hx, hy, hz, hall⟩ := ih ⟨min v.x p.x, min v.y p.y, min v.z p.z⟩
    refine ⟨hx.trans (min_le_right _ _), hy.trans (min_le_right _ _), hz.trans (min_le_right _ _), ?_⟩
    intro q hq
    rcases List.mem_cons.mp hq with rfl | hq
    · exact ⟨hx.trans (min_le_left _ _), hy.trans (min_le_left _ _), hz.trans (min_le_left _ _)⟩
    · exact hall q hq

private theorem foldl_max_ge (p : P3) (ps : List P3) :
    p.x ≤ (fromPointsMax p ps).x ∧ p.y ≤ (fromPointsMax p ps).y ∧ p.z ≤ (fromPointsMax p ps).z ∧
    ∀ q ∈ ps, q.x ≤ (fromPointsMax p ps).x ∧ q.y ≤ (fromPointsMax p ps).y ∧ q.z ≤ (fromPointsMax p ps).z := by
  unfold fromPointsMax
  induction ps generalizing p with
  | nil => simp
  | cons v vs ih =>
    simp only [List.foldl_cons]
    obtain ⟨hx, hy, hz, hall⟩ := ih ⟨max v.x p.x, max v.y p.y, max v.z p.z⟩
    refine ⟨(le_max_right _ _).trans hx, (le_max_right _ _).trans hy, (le_max_right _ _).trans hz, ?_⟩
    intro q hq
    rcases List.mem_cons.mp hq with rfl | hq
    · exact ⟨(le_max_left _ _).trans hx, (le_max_left _ _).trans hy, (le_max_left _ _).trans hz⟩
    · exact hall q hq

theorem aabb_fromPoints_min (p : P3) (ps : List P3) : (fromPoints p ps).Min = fromPointsMin p ps := by
  ext <;> simp [fromPoints, geometry.NewAABB, AABB.Min, V3.Sub, V3.Add, V3.Scale] <;> ring
theorem aabb_fromPoints_max (p : P3) (ps : List P3) : (fromPoints p ps).Max = fromPointsMax p ps := by
  ext <;> simp [fromPoints, geometry.NewAABB, AABB.Max, V3.Sub, V3.Add, V3.Scale] <;> ring

/-- the box built from a non-empty list of points contains every one of them -/
theorem aabb_fromPoints_contains_all (p : P3) (ps : List P3) (q : P3) (hq : q ∈ p :: ps) :
    (fromPoints p ps).Contains q = true := by
  rw [aabb_contains_iff, aabb_fromPoints_min, aabb_fromPoints_max]
  obtain ⟨mx, my, mz, mall⟩ := foldl_min_le p ps
  obtain ⟨Mx, My, Mz, Mall⟩ := foldl_max_ge p ps
  rcases List.mem_cons.mp hq with rfl | hq
  · exact ⟨mx, my, mz, Mx, My, Mz⟩
  · obtain ⟨a1, a2, a3⟩ := mall q hq
    obtain ⟨b1, b2, b3⟩ := Mall q hq
    exact ⟨a1, a2, a3, b1, b2, b3⟩


/-! ### non-vacuity: concrete instances of the hypotheses used above -/

example : (mat.Identity : M4).Determinant ≠ 0 := by simp [Matrix4x4.Determinant, mat.Identity]
example : normSq (⟨⟨0, 0, 0⟩, 1⟩ : Q) = 1 := by simp [normSq, V3.Dot]
example : (⟨1, 0, 0⟩ : P3).Dot ⟨1, 0, 0⟩ = 1 ∧ (⟨0, 1, 0⟩ : P3).Dot ⟨0, 1, 0⟩ = 1 ∧
    ¬ (⟨1, 0, 0⟩ : P3).Dot ⟨0, 1, 0⟩ < -rotThreshold ∧ ¬ rotThreshold < (⟨1, 0, 0⟩ : P3).Dot ⟨0, 1, 0⟩ := by
  refine ⟨by simp [V3.Dot], by simp [V3.Dot], ?_, ?_⟩ <;> simp [V3.Dot, rotThreshold] <;> norm_num
example : (⟨⟨0, 0, 0⟩, ⟨1, 1, 1⟩⟩ : AABB ℝ).Contains ⟨1, -1, 0.5⟩ = true := by
  rw [aabb_contains_iff]; simp [AABB.Min, AABB.Max, V3.Sub, V3.Add]; norm_num

end C17
end PolyVerif
