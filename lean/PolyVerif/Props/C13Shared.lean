/-
  C13 — rejected messages are no-ops of the sequential specification (added after seeded change C13-m17:
  `Value[T].ApplyMessage` decoding into the value the parameter already holds, so that a REJECTED message was
  partially applied).  The predicate the harness evaluates on the implementation
  (`c13.holds.rejected_message_noop`, `c13.holds.artifact_snapshot` in Driver/C13.lean) is this statement: the reads
  after a rejected `UpdateParameter` answer exactly what they would have answered had the call never been made.
-/
import PolyVerif.Lemmas.Linz

namespace PolyVerif
namespace C13
open Nodes Linz

variable {V : Type} {F : Nat}

/-- a rejected message answers `err` and leaves the whole graph state (values, versions, caches) alone -/
theorem rejected_message_step (g : Graph V) (p : Nat) :
    seqStep F g (.updateRejected p) = (g, .err) := rfl

/-- **rejected_message_noop**: in ANY sequential run a rejected `UpdateParameter` can be deleted — the final state
    is the same, the call itself answered `err`, and every call after it (ParameterData, Artifact, later updates)
    gets exactly the response it gets in the run without the rejected call -/
theorem rejected_message_noop (g0 : Graph V) (pre post : List (Call V)) (p : Nat) :
    (replay F g0 (pre ++ .updateRejected p :: post)).1 = (replay F g0 (pre ++ post)).1 ∧
    (replay F g0 (pre ++ .updateRejected p :: post)).2 =
      (replay F g0 pre).2 ++ .err :: (replay F (replay F g0 pre).1 post).2 ∧
    (replay F g0 (pre ++ post)).2 = (replay F g0 pre).2 ++ (replay F (replay F g0 pre).1 post).2 := by
  simp [replay_append, replay, rejected_message_step]

/-- non-vacuity: on the parameter graph, `[u 0 5, ub 0, d 0]` answers `[ok, err, v 5]` — the rejected message
    between the accepted update and the read changes neither -/
example : (replay 2 (fun _ => (.param 0 0 : Node Nat)) [.update 0 5, .updateRejected 0, .paramData 0]).2
    = [.ok, .err, .val 5] := by decide

end C13
end PolyVerif
