/-
  C20 — 2-D triangulation is a consistently wound Delaunay triangulation of the input.
  Theorems about the model `PolyVerif/Model/Delaunay.lean` of
  /repo/modeling/triangulation/bowyer_watson.go.

  PARTIAL: the property's main claim — Bowyer–Watson with this finite super-triangle returns a non-overlapping,
  empty-circumcircle triangulation for EVERY point set in general position — is NOT proved here; it is stated as
  `def C20_full : Prop` and left open.  What is proved: the sign convention of the in-circle determinant, invariants of
  the algorithm model (vertices, index range, winding — non-strict `orient ≤ 0`; strictness is decided per run by
  `windingOk`), adequacy of the super-triangle, and the SOUNDNESS OF THE EXECUTABLE CHECKERS that the driver applies,
  in exact arithmetic, to each output of the real implementation (sound per input, sampled over inputs).
  `bw_vertices_are_inputs` and `vertices_check_sound` are definitional (the model builds the vertex list by the same
  map the checker compares with).
-/
import PolyVerif.Model.Delaunay
import Mathlib.Tactic

set_option linter.unusedSectionVars false

namespace PolyVerif
namespace C20
open Delaunay

/-! ### checkers: vertices, indices, winding -/

/-- the vertex checker (run on raw float64 bit patterns) accepts exactly the list `(xᵢ, 0, yᵢ)` -/
theorem vertices_check_sound {α : Type} [Zero α] [BEq α] [LawfulBEq α]
    (pts : List (Pt α)) (out : List (α × α × α)) (h : verticesOk pts out = true) :
    out.length = pts.length ∧
      ∀ i (hi : i < pts.length) (ho : i < out.length), out[i] = ((pts[i]).1, 0, (pts[i]).2) := by
  have e : out = bwVertices pts := by simpa [verticesOk] using h
  subst e
  refine ⟨by simp [bwVertices], ?_⟩
  intro i hi ho
  simp [bwVertices]

example : verticesOk [((1 : Nat), 2), (3, 4)] [(1, 0, 2), (3, 0, 4)] = true := by decide

theorem indices_check_sound (n : Nat) (tris : List Tri) (h : indicesOk n tris = true) :
    ∀ t ∈ tris, t.1 < n ∧ t.2.1 < n ∧ t.2.2 < n := by
  intro t ht
  have := (List.all_eq_true.mp h) t ht
  simpa [Bool.and_eq_true, and_assoc] using this

example : indicesOk 3 [(0, 1, 2), (2, 1, 0)] = true := by decide

section Ring
variable {R : Type} [CommRing R] [LinearOrder R] [IsStrictOrderedRing R]

/-- winding checker: every triangle is strictly clockwise (one winding, non-zero area) -/
theorem winding_check_sound (P : Nat → Pt R) (tris : List Tri) (h : windingOk P tris = true) :
    ∀ t ∈ tris, orient (P t.1) (P t.2.1) (P t.2.2) < 0 := by
  intro t ht
  have := (List.all_eq_true.mp h) t ht
  simpa using this

example : windingOk (fun i => [((0 : ℤ), (0 : ℤ)), (0, 3), (4, 0)].getD i (0, 0)) [(0, 1, 2)] = true := by
  decide


/-! ### the in-circle determinant -/

/-- squared distance -/
def dist2 (o p : Pt R) : R := (p.1 - o.1) * (p.1 - o.1) + (p.2 - o.2) * (p.2 - o.2)

omit [LinearOrder R] [IsStrictOrderedRing R] in
/-- The Go determinant, for ANY candidate centre `o` and squared radius `r`: the lifted-paraboloid
    expansion.  When `a b c` lie on the circle `(o, r)` only the first term survives. -/
theorem inCircleDet_eq (a b c p o : Pt R) (r : R) :
    inCircleDet a b c p =
      (r - dist2 o p) * orient a b c - (r - dist2 o a) * orient b c p
      + (r - dist2 o b) * orient a c p - (r - dist2 o c) * orient a b p := by
  simp only [inCircleDet, orient, dist2]; ring

omit [LinearOrder R] [IsStrictOrderedRing R] in
/-- det = orient · (r² − |p − o|²) for the circle through `a b c` -/
theorem inCircleDet_on_circle (a b c p o : Pt R) (r : R)
    (ha : dist2 o a = r) (hb : dist2 o b = r) (hc : dist2 o c = r) :
    inCircleDet a b c p = (r - dist2 o p) * orient a b c := by
  rw [inCircleDet_eq a b c p o r, ha, hb, hc]; ring

example : inCircleDet ((0 : ℤ), (0 : ℤ)) (0, 2) (2, 0) (1, 1) = (2 - dist2 (1, 1) (1, 1)) * orient ((0 : ℤ), (0 : ℤ)) (0, 2) (2, 0) :=
  inCircleDet_on_circle _ _ _ _ (1, 1) 2 (by decide) (by decide) (by decide)

omit [LinearOrder R] [IsStrictOrderedRing R] in
/-- homogeneity: scaling all coordinates by `s` scales `orient` by `s²` (the driver evaluates the
    checkers on integers `2^E · x`) -/
theorem orient_smul (s : R) (a b c : Pt R) :
    orient (s * a.1, s * a.2) (s * b.1, s * b.2) (s * c.1, s * c.2) = s ^ 2 * orient a b c := by
  simp only [orient]; ring

omit [LinearOrder R] [IsStrictOrderedRing R] in
theorem inCircleDet_smul (s : R) (a b c p : Pt R) :
    inCircleDet (s * a.1, s * a.2) (s * b.1, s * b.2) (s * c.1, s * c.2) (s * p.1, s * p.2)
      = s ^ 4 * inCircleDet a b c p := by
  simp only [inCircleDet]; ring

/-- `p` lies strictly inside the circle through `a b c`: some centre `o` and squared radius `r` with
    `|a-o|² = |b-o|² = |c-o|² = r` and `|p-o|² < r`. -/
def StrictlyInsideCircumcircle (a b c p : Pt R) : Prop :=
  ∃ (o : Pt R) (r : R), dist2 o a = r ∧ dist2 o b = r ∧ dist2 o c = r ∧ dist2 o p < r

/-- soundness direction (any ordered commutative ring): clockwise triangle, `p` strictly inside ⇒ `det < 0` -/
theorem inCircle_neg_of_inside (a b c p : Pt R) (hcw : orient a b c < 0)
    (h : StrictlyInsideCircumcircle a b c p) : inCircleDet a b c p < 0 := by
  obtain ⟨o, r, ha, hb, hc, hp⟩ := h
  rw [inCircleDet_on_circle a b c p o r ha hb hc]
  exact mul_neg_of_pos_of_neg (by linarith) hcw


/-! ### the Delaunay checker -/

theorem delaunay_check_raw (P : Nat → Pt R) (n : Nat) (tris : List Tri) (h : delaunayOk P n tris = true) :
    ∀ t ∈ tris, ∀ i < n, ¬ inCircleDet (P t.1) (P t.2.1) (P t.2.2) (P i) < 0 := by
  intro t ht i hi
  have h1 := (List.all_eq_true.mp h) t ht
  have h2 := (List.all_eq_true.mp h1) i (List.mem_range.mpr hi)
  simpa [insideCirc] using h2

/-- **delaunay_check_sound**: if the winding checker and the all-pairs Delaunay checker accept, no
    circumcircle of an output triangle strictly contains an input point -/
theorem delaunay_check_sound (P : Nat → Pt R) (n : Nat) (tris : List Tri)
    (hw : windingOk P tris = true) (hd : delaunayOk P n tris = true) :
    ∀ t ∈ tris, ∀ i < n, ¬ StrictlyInsideCircumcircle (P t.1) (P t.2.1) (P t.2.2) (P i) := by
  intro t ht i hi hin
  exact delaunay_check_raw P n tris hd t ht i hi
    (inCircle_neg_of_inside _ _ _ _ (winding_check_sound P tris hw t ht) hin)

example : let P : Nat → Pt ℤ := fun i => [((0 : ℤ), (0 : ℤ)), (0, 3), (4, 0), (5, 5)].getD i (0, 0)
    windingOk P [(0, 1, 2)] = true ∧ delaunayOk P 4 [(0, 1, 2)] = true := by decide

/-! ### the overlap checker -/

/-- `q` is strictly inside the clockwise triangle `t`: strictly on the inner side of its three edges -/
def StrictlyInside (P : Nat → Pt R) (t : Tri) (q : Pt R) : Prop :=
  orient (P t.1) (P t.2.1) q < 0 ∧ orient (P t.2.1) (P t.2.2) q < 0 ∧ orient (P t.2.2) (P t.1) q < 0

/-- if the three vertices of `u` are on the closed outer side of the line `a b`, so is every point
    strictly inside `u` (`orient a b ·` is affine; barycentric identity) -/
theorem sep_key (a b u1 u2 u3 q : Pt R)
    (h1 : ¬ orient a b u1 < 0) (h2 : ¬ orient a b u2 < 0) (h3 : ¬ orient a b u3 < 0)
    (q1 : orient u1 u2 q < 0) (q2 : orient u2 u3 q < 0) (q3 : orient u3 u1 q < 0) :
    ¬ orient a b q < 0 := by
  intro hq
  have key : (orient u1 u2 q + orient u2 u3 q + orient u3 u1 q) * orient a b q =
      orient u2 u3 q * orient a b u1 + orient u3 u1 q * orient a b u2 + orient u1 u2 q * orient a b u3 := by
    simp only [orient]; ring
  push Not at h1 h2 h3
  have l : 0 < (orient u1 u2 q + orient u2 u3 q + orient u3 u1 q) * orient a b q :=
    mul_pos_of_neg_of_neg (by linarith) hq
  have r1 := mul_nonpos_of_nonpos_of_nonneg q2.le h1
  have r2 := mul_nonpos_of_nonpos_of_nonneg q3.le h2
  have r3 := mul_nonpos_of_nonpos_of_nonneg q1.le h3
  linarith

theorem sepEdge_sound (P : Nat → Pt R) (t u : Tri) (h : sepEdge P t u = true) (q : Pt R)
    (ht : StrictlyInside P t q) (hu : StrictlyInside P u q) : False := by
  obtain ⟨e, he, hs⟩ := List.any_eq_true.mp h
  simp only [Bool.and_eq_true, Bool.not_eq_true', decide_eq_false_iff_not] at hs
  obtain ⟨⟨s1, s2⟩, s3⟩ := hs
  have := sep_key (P e.1) (P e.2) (P u.1) (P u.2.1) (P u.2.2) q s1 s2 s3 hu.1 hu.2.1 hu.2.2
  simp only [edges, List.mem_cons, List.not_mem_nil, or_false] at he
  rcases he with rfl | rfl | rfl
  · exact this ht.1
  · exact this ht.2.1
  · exact this ht.2.2

/-- two triangles overlap: they have a common strictly interior point -/
def Overlap (P : Nat → Pt R) (t u : Tri) : Prop := ∃ q : Pt R, StrictlyInside P t q ∧ StrictlyInside P u q

/-- **overlap_check_sound**: if the separating-edge checker accepts, no two triangles of the list
    (at different positions) have a common strictly interior point -/
theorem overlap_check_sound (P : Nat → Pt R) (tris : List Tri) (h : noOverlapOk P tris = true) :
    tris.Pairwise (fun t u => ¬ Overlap P t u) := by
  induction tris with
  | nil => exact List.Pairwise.nil
  | cons t ts ih =>
    simp only [noOverlapOk, Bool.and_eq_true] at h
    refine List.Pairwise.cons ?_ (ih h.2)
    intro u hu ⟨q, hqt, hqu⟩
    have := (List.all_eq_true.mp h.1) u hu
    simp only [sepOk, Bool.or_eq_true] at this
    rcases this with h1 | h1
    · exact sepEdge_sound P t u h1 q hqt hqu
    · exact sepEdge_sound P u t h1 q hqu hqt

example : let P : Nat → Pt ℤ := fun i => [((0 : ℤ), (0 : ℤ)), (0, 3), (4, 0), (5, 5)].getD i (0, 0)
    noOverlapOk P [(0, 1, 2), (1, 3, 2)] = true := by decide

end Ring

section Field
variable {K : Type} [Field K] [LinearOrder K] [IsStrictOrderedRing K]

omit [LinearOrder K] [IsStrictOrderedRing K] in
private theorem cc_aux (a1 a2 b1 b2 c1 c2 d : K)
    (hd : d = 2 * ((b1 - a1) * (c2 - a2) - (c1 - a1) * (b2 - a2))) (h : d ≠ 0) :
    let bx := b1 - a1; let by' := b2 - a2; let cx := c1 - a1; let cy := c2 - a2
    let ox := a1 + (cy * (bx * bx + by' * by') - by' * (cx * cx + cy * cy)) / d
    let oy := a2 + (bx * (cx * cx + cy * cy) - cx * (bx * bx + by' * by')) / d
    (b1 - ox) * (b1 - ox) + (b2 - oy) * (b2 - oy) = (a1 - ox) * (a1 - ox) + (a2 - oy) * (a2 - oy) ∧
    (c1 - ox) * (c1 - ox) + (c2 - oy) * (c2 - oy) = (a1 - ox) * (a1 - ox) + (a2 - oy) * (a2 - oy) := by
  intro bx by' cx cy ox oy
  simp only [ox, oy, bx, by', cx, cy]
  constructor <;> (field_simp; rw [hd]; ring)

/-- a non-degenerate triangle has a circumcentre (closed form, denominator `2·orient`) -/
theorem circumcentre_exists (a b c : Pt K) (h : orient a b c ≠ 0) :
    ∃ o : Pt K, dist2 o b = dist2 o a ∧ dist2 o c = dist2 o a := by
  obtain ⟨a1, a2⟩ := a; obtain ⟨b1, b2⟩ := b; obtain ⟨c1, c2⟩ := c
  have h2 : (2 : K) * ((b1 - a1) * (c2 - a2) - (c1 - a1) * (b2 - a2)) ≠ 0 := mul_ne_zero two_ne_zero h
  have := cc_aux a1 a2 b1 b2 c1 c2 _ rfl h2
  exact ⟨(_, _), this.1, this.2⟩

/-- **inCircle_iff**: for a clockwise triangle the Go determinant is negative exactly when the point is
    strictly inside the circumcircle -/
theorem inCircle_iff (a b c p : Pt K) (hcw : orient a b c < 0) :
    inCircleDet a b c p < 0 ↔ StrictlyInsideCircumcircle a b c p := by
  constructor
  · intro hd
    obtain ⟨o, hb, hc⟩ := circumcentre_exists a b c hcw.ne
    refine ⟨o, dist2 o a, rfl, hb, hc, ?_⟩
    rw [inCircleDet_on_circle a b c p o (dist2 o a) rfl hb hc] at hd
    by_contra hn
    push Not at hn
    have : 0 ≤ (dist2 o a - dist2 o p) * orient a b c :=
      mul_nonneg_of_nonpos_of_nonpos (by linarith) hcw.le
    linarith
  · exact inCircle_neg_of_inside a b c p hcw

example : orient ((0 : ℚ), (0 : ℚ)) (0, 2) (2, 0) < 0 := by norm_num [orient]

end Field

/-! ### theorems about the model of the algorithm -/

/-- **bw_vertices_are_inputs**: `BowyerWatson` emits one vertex per input point, vertex `i` = `(xᵢ, 0, yᵢ)` -/
theorem bw_vertices_are_inputs {α : Type} [Zero α] (pts : List (Pt α)) :
    (bwVertices pts).length = pts.length ∧
      ∀ i (hi : i < pts.length), (bwVertices pts)[i]'(by simpa [bwVertices] using hi) = ((pts[i]).1, 0, (pts[i]).2) := by
  refine ⟨by simp [bwVertices], ?_⟩
  intro i hi
  simp [bwVertices]

section Ring
variable {R : Type} [CommRing R] [LinearOrder R] [IsStrictOrderedRing R]

/-- **bw_indices_lt**: no super-triangle vertex survives — for every point function, every map
    enumeration `env` (no assumption on it at all) and every `n` -/
theorem bw_indices_lt (P : Nat → Pt R) (env : List Tri → List Tri) (n : Nat) :
    ∀ t ∈ bw P env n, t.1 < n ∧ t.2.1 < n ∧ t.2.2 < n := by
  intro t ht
  simp only [bw, List.mem_filter, touchesSuper, Bool.not_eq_true', Bool.or_eq_false_iff,
    decide_eq_false_iff_not, Nat.not_le] at ht
  exact ⟨ht.2.1.1, ht.2.1.2, ht.2.2⟩

theorem mem_insertTri {t u : Tri} {tris : List Tri} (h : u ∈ insertTri t tris) : u = t ∨ u ∈ tris := by
  unfold insertTri at h
  split at h
  · exact Or.inr h
  · rcases List.mem_append.mp h with h | h
    · exact Or.inr h
    · exact Or.inl (by simpa using h)

/-- the triangle added by `fillHole` is never counter-clockwise (the winding fix-up) -/
theorem fanTri_not_ccw (P : Nat → Pt R) (e : Edge) (pi : Nat) :
    orient (P (fanTri P e pi).1) (P (fanTri P e pi).2.1) (P (fanTri P e pi).2.2) ≤ 0 := by
  unfold fanTri
  split
  · rename_i h
    simp only [ccw, decide_eq_true_eq] at h
    have : orient (P e.1) (P pi) (P e.2) = - orient (P e.1) (P e.2) (P pi) := by
      simp only [orient]; ring
    simp only [this]; linarith
  · rename_i h
    simp only [ccw, decide_eq_true_eq, not_lt] at h
    exact h

theorem fillHole_inv (P : Nat → Pt R) (Q : Tri → Prop) (pi : Nat) (poly : List Edge)
    (hq : ∀ e ∈ poly, Q (fanTri P e pi)) :
    ∀ tris : List Tri, (∀ t ∈ tris, Q t) → ∀ t ∈ fillHole P poly pi tris, Q t := by
  induction poly with
  | nil => intro tris h; simpa [fillHole] using h
  | cons e es ih =>
    intro tris h
    simp only [fillHole, List.foldl_cons]
    apply ih (fun e' he' => hq e' (List.mem_cons_of_mem _ he'))
    split
    · exact h
    · intro t ht
      rcases mem_insertTri ht with rfl | ht
      · exact hq e (List.mem_cons_self ..)
      · exact h t ht

theorem step_inv (P : Nat → Pt R) (env : List Tri → List Tri) (Q : Tri → Prop) (pi : Nat)
    (tris : List Tri) (h : ∀ t ∈ tris, Q t)
    (hq : ∀ e ∈ polygon (badTris P env tris pi), Q (fanTri P e pi)) :
    ∀ t ∈ step P env tris pi, Q t := by
  unfold step
  apply fillHole_inv P Q pi _ hq
  intro t ht
  exact h t (List.mem_filter.mp ht).1

/-- invariant rule for the insertion loop: `Q` holds of the initial triangles and of every triangle
    `fillHole` can add in a state satisfying `Q` ⇒ `Q` holds of every triangle of the final state -/
theorem loop_inv (P : Nat → Pt R) (env : List Tri → List Tri) (Q : Tri → Prop) (l : List Nat)
    (hq : ∀ tris : List Tri, (∀ t ∈ tris, Q t) → ∀ pi ∈ l,
      ∀ e ∈ polygon (badTris P env tris pi), Q (fanTri P e pi)) :
    ∀ tris : List Tri, (∀ t ∈ tris, Q t) → ∀ t ∈ l.foldl (step P env) tris, Q t := by
  induction l with
  | nil => intro tris h; simpa using h
  | cons pi l ih =>
    intro tris h
    simp only [List.foldl_cons]
    refine ih (fun tr htr pj hpj => hq tr htr pj (List.mem_cons_of_mem _ hpj)) _ ?_
    exact step_inv P env Q pi tris h (hq tris h pi (List.mem_cons_self ..))

/-- **bw_not_ccw**: if the super-triangle is not counter-clockwise, no triangle of any state of the
    insertion loop, hence no output triangle, is counter-clockwise — for every enumeration `env` -/
theorem bw_not_ccw (P : Nat → Pt R) (env : List Tri → List Tri) (n : Nat)
    (hsuper : orient (P n) (P (n + 1)) (P (n + 2)) ≤ 0) :
    ∀ t ∈ bw P env n, orient (P t.1) (P t.2.1) (P t.2.2) ≤ 0 := by
  intro t ht
  have hl : t ∈ bwLoop P env n := (List.mem_filter.mp ht).1
  refine loop_inv P env (fun t => orient (P t.1) (P t.2.1) (P t.2.2) ≤ 0) (List.range n)
    (fun _ _ pi _ e _ => fanTri_not_ccw P e pi) [(n, n + 1, n + 2)] ?_ t hl
  intro u hu
  simp only [List.mem_singleton] at hu
  subst hu; exact hsuper

theorem mem_polygon {bad : List Tri} {e : Edge} (h : e ∈ polygon bad) : ∃ t ∈ bad, e ∈ edges t := by
  simp only [polygon, List.mem_flatMap, List.mem_filter] at h
  obtain ⟨⟨t, ti⟩, hmem, he, _⟩ := h
  exact ⟨t, (List.mem_zipIdx hmem).2.2 ▸ List.getElem_mem _, he⟩

/-- every index used in any state of the loop is a valid index into the `n + 3` points
    (so the model's total lookup `pointFn` is never asked for a point that does not exist);
    needs only that the enumeration `env` invents no triangles -/
theorem bw_all_indices_lt (P : Nat → Pt R) (env : List Tri → List Tri) (n : Nat)
    (henv : ∀ l, env l ⊆ l) :
    ∀ t ∈ bwLoop P env n, t.1 < n + 3 ∧ t.2.1 < n + 3 ∧ t.2.2 < n + 3 := by
  refine loop_inv P env (fun t => t.1 < n + 3 ∧ t.2.1 < n + 3 ∧ t.2.2 < n + 3) (List.range n) ?_
    [(n, n + 1, n + 2)] ?_
  · intro tris h pi hpi e he
    obtain ⟨t, htb, hte⟩ := mem_polygon he
    have ht := h t (henv _ (List.mem_filter.mp htb).1)
    have hpi' : pi < n := List.mem_range.mp hpi
    simp only [edges, List.mem_cons, List.not_mem_nil, or_false] at hte
    have he' : e.1 < n + 3 ∧ e.2 < n + 3 := by
      rcases hte with rfl | rfl | rfl <;> simp <;> omega
    unfold fanTri
    split <;> simp <;> omega
  · intro u hu
    simp only [List.mem_singleton] at hu
    subst hu; simp

/-- all output triangles have ONE winding, strictly, unless their three points are collinear -/
theorem bw_cw_of_not_collinear (P : Nat → Pt R) (env : List Tri → List Tri) (n : Nat)
    (hsuper : orient (P n) (P (n + 1)) (P (n + 2)) ≤ 0) :
    ∀ t ∈ bw P env n, orient (P t.1) (P t.2.1) (P t.2.2) ≠ 0 → orient (P t.1) (P t.2.1) (P t.2.2) < 0 :=
  fun t ht hne => lt_of_le_of_ne (bw_not_ccw P env n hsuper t ht) hne

end Ring

section Field
variable {K : Type} [Field K] [LinearOrder K] [IsStrictOrderedRing K]

theorem minOf_le (x : K) (xs : List K) : minOf x xs ≤ x := by
  unfold minOf
  induction xs generalizing x with
  | nil => simp
  | cons v vs ih =>
    simp only [List.foldl_cons]
    split
    · exact le_trans (ih v) (le_of_lt ‹v < x›)
    · exact ih x

theorem le_maxOf (x : K) (xs : List K) : x ≤ maxOf x xs := by
  unfold maxOf
  induction xs generalizing x with
  | nil => simp
  | cons v vs ih =>
    simp only [List.foldl_cons]
    split
    · exact le_trans (le_of_lt ‹x < v›) (ih v)
    · exact ih x

/-- the super-triangle `[left, top, right]` is strictly clockwise as soon as the input has positive width -/
theorem superTriangle_cw (p : Pt K) (ps : List (Pt K))
    (hw : minOf p.1 (ps.map (·.1)) < maxOf p.1 (ps.map (·.1))) :
    ∃ l t r, superTriangle p ps = [l, t, r] ∧ orient l t r < 0 := by
  refine ⟨_, _, _, rfl, ?_⟩
  have hh : minOf p.2 (ps.map (·.2)) ≤ maxOf p.2 (ps.map (·.2)) :=
    le_trans (minOf_le _ _) (le_maxOf _ _)
  generalize minOf p.1 (ps.map (·.1)) = minX at *
  generalize maxOf p.1 (ps.map (·.1)) = maxX at *
  generalize minOf p.2 (ps.map (·.2)) = minY at *
  generalize maxOf p.2 (ps.map (·.2)) = maxY at *
  simp only [orient]
  push_cast
  have e : ((minX + maxX) / 2 - ((minX + maxX) / 2 - (maxX - minX) * 20)) * (minY - 2 - (minY - 2)) -
      ((minX + maxX) / 2 + (maxX - minX) * 20 - ((minX + maxX) / 2 - (maxX - minX) * 20)) *
        (maxY + (maxY - minY) * 20 + 2 - (minY - 2)) = -(40 * ((maxX - minX) * (21 * (maxY - minY) + 4))) := by
    ring
  rw [e]
  have : 0 < (maxX - minX) * (21 * (maxY - minY) + 4) := mul_pos (by linarith) (by linarith)
  linarith

example : minOf (0 : ℚ) ([((4 : ℚ), (0 : ℚ)), (0, 3)].map (·.1)) < maxOf (0 : ℚ) ([((4 : ℚ), (0 : ℚ)), (0, 3)].map (·.1)) := by
  norm_num [minOf, maxOf]


/-- input point `i` is looked up at index `i` -/
theorem pointFn_input (p : Pt K) (ps : List (Pt K)) (i : Nat) (hi : i < (p :: ps).length) :
    pointFn p ps i = (p :: ps)[i] := by
  simp only [pointFn, List.getD_eq_getElem?_getD]
  rw [List.getElem?_append_left hi, List.getElem?_eq_getElem hi]; rfl

/-- the three super-triangle vertices sit at indices `n, n+1, n+2` -/
theorem pointFn_super (p : Pt K) (ps : List (Pt K)) (l t r : Pt K) (h : superTriangle p ps = [l, t, r]) :
    pointFn p ps (p :: ps).length = l ∧ pointFn p ps ((p :: ps).length + 1) = t ∧
      pointFn p ps ((p :: ps).length + 2) = r := by
  simp only [pointFn, List.getD_eq_getElem?_getD, h]
  refine ⟨?_, ?_, ?_⟩ <;> rw [List.getElem?_append_right (by omega)] <;> simp

/-- fewer than three points: panic; otherwise an answer whose indices are all `< n` -/
theorem bowyerWatson_spec (env : List Tri → List Tri) (pts : List (Pt K)) :
    (pts.length < 3 → bowyerWatson env pts = none) ∧
    (∀ tris, bowyerWatson env pts = some tris →
      3 ≤ pts.length ∧ ∀ t ∈ tris, t.1 < pts.length ∧ t.2.1 < pts.length ∧ t.2.2 < pts.length) := by
  constructor
  · intro h
    match pts, h with
    | [], _ => rfl
    | [_], _ => rfl
    | [_, _], _ => rfl
    | _ :: _ :: _ :: _, h => simp at h; omega
  · intro tris h
    match pts, h with
    | p :: q :: r :: rest, h =>
      simp only [bowyerWatson, Option.some.injEq] at h
      subst h
      exact ⟨by simp, bw_indices_lt _ env _⟩

/-- public entry point: with positive width every output triangle is not counter-clockwise -/
theorem bowyerWatson_not_ccw (env : List Tri → List Tri) (p : Pt K) (ps : List (Pt K)) (tris : List Tri)
    (h : bowyerWatson env (p :: ps) = some tris)
    (hw : minOf p.1 (ps.map (·.1)) < maxOf p.1 (ps.map (·.1))) :
    ∀ t ∈ tris, orient (pointFn p ps t.1) (pointFn p ps t.2.1) (pointFn p ps t.2.2) ≤ 0 := by
  match ps, h with
  | q :: r :: rest, h =>
    simp only [bowyerWatson, Option.some.injEq] at h
    subst h
    obtain ⟨l, t, r', hs, ho⟩ := superTriangle_cw p (q :: r :: rest) hw
    obtain ⟨h0, h1, h2⟩ := pointFn_super p (q :: r :: rest) l t r' hs
    apply bw_not_ccw
    rw [h0, h1, h2]; exact ho.le

example : (bowyerWatson id [((0 : ℚ), (0 : ℚ)), (4, 0), (0, 3)]).isSome = true := rfl

end Field

/-! ### adequacy of the super-triangle -/
section Field
variable {K : Type} [Field K] [LinearOrder K] [IsStrictOrderedRing K]

theorem minOf_le_of_mem (x : K) (xs : List K) : ∀ v ∈ xs, minOf x xs ≤ v := by
  induction xs generalizing x with
  | nil => intro v hv; simp at hv
  | cons w ws ih =>
    intro v hv
    have e : minOf x (w :: ws) = minOf (if w < x then w else x) ws := by simp [minOf]
    rw [e]
    rcases List.mem_cons.mp hv with rfl | hv
    · refine le_trans (minOf_le _ _) ?_
      split <;> [exact le_rfl; exact not_lt.mp ‹_›]
    · exact ih _ v hv

theorem le_maxOf_of_mem (x : K) (xs : List K) : ∀ v ∈ xs, v ≤ maxOf x xs := by
  induction xs generalizing x with
  | nil => intro v hv; simp at hv
  | cons w ws ih =>
    intro v hv
    have e : maxOf x (w :: ws) = maxOf (if x < w then w else x) ws := by simp [maxOf]
    rw [e]
    rcases List.mem_cons.mp hv with rfl | hv
    · refine le_trans ?_ (le_maxOf _ _)
      split <;> [exact le_rfl; exact not_lt.mp ‹_›]
    · exact ih _ v hv

/-- adequacy of the (fixed) super-triangle: every point of the bounding box is strictly inside it -/
theorem superTriangle_contains_box (minX maxX minY maxY qx qy : K) (hw : minX < maxX)
    (h1 : minX ≤ qx) (h2 : qx ≤ maxX) (h3 : minY ≤ qy) (h4 : qy ≤ maxY) :
    let xm := (minX + maxX) / 2
    let l : Pt K := (xm - (maxX - minX) * 20, minY - 2)
    let t : Pt K := (xm, maxY + (maxY - minY) * 20 + 2)
    let r : Pt K := (xm + (maxX - minX) * 20, minY - 2)
    orient l t (qx, qy) < 0 ∧ orient t r (qx, qy) < 0 ∧ orient r l (qx, qy) < 0 := by
  intro xm l t r
  simp only [orient, xm, l, t, r]
  have hh : minY ≤ maxY := le_trans h3 h4
  refine ⟨?_, ?_, ?_⟩
  · nlinarith [mul_nonneg (sub_nonneg.mpr hw.le) (sub_nonneg.mpr hh), mul_nonneg (sub_nonneg.mpr hw.le) (sub_nonneg.mpr h4),
      mul_nonneg (sub_nonneg.mpr h1) (sub_nonneg.mpr hh), mul_nonneg (sub_nonneg.mpr hw.le) (sub_nonneg.mpr h3)]
  · nlinarith [mul_nonneg (sub_nonneg.mpr hw.le) (sub_nonneg.mpr hh), mul_nonneg (sub_nonneg.mpr hw.le) (sub_nonneg.mpr h4),
      mul_nonneg (sub_nonneg.mpr h2) (sub_nonneg.mpr hh), mul_nonneg (sub_nonneg.mpr hw.le) (sub_nonneg.mpr h3)]
  · nlinarith [mul_nonneg (sub_nonneg.mpr hw.le) (sub_nonneg.mpr h3)]


/-- **superTriangle_contains**: with positive width, every input point lies strictly inside the
    (clockwise) super-triangle — the adequacy that the pre-731df05 construction lacked -/
theorem superTriangle_contains (p : Pt K) (ps : List (Pt K))
    (hw : minOf p.1 (ps.map (·.1)) < maxOf p.1 (ps.map (·.1))) :
    ∃ l t r, superTriangle p ps = [l, t, r] ∧
      ∀ q ∈ p :: ps, orient l t q < 0 ∧ orient t r q < 0 ∧ orient r l q < 0 := by
  refine ⟨_, _, _, rfl, ?_⟩
  intro q hq
  have b : minOf p.1 (ps.map (·.1)) ≤ q.1 ∧ q.1 ≤ maxOf p.1 (ps.map (·.1)) ∧
      minOf p.2 (ps.map (·.2)) ≤ q.2 ∧ q.2 ≤ maxOf p.2 (ps.map (·.2)) := by
    rcases List.mem_cons.mp hq with rfl | hq
    · exact ⟨minOf_le _ _, le_maxOf _ _, minOf_le _ _, le_maxOf _ _⟩
    · exact ⟨minOf_le_of_mem _ _ _ (List.mem_map_of_mem hq), le_maxOf_of_mem _ _ _ (List.mem_map_of_mem hq),
        minOf_le_of_mem _ _ _ (List.mem_map_of_mem hq), le_maxOf_of_mem _ _ _ (List.mem_map_of_mem hq)⟩
  have := superTriangle_contains_box _ _ _ _ q.1 q.2 hw b.1 b.2.1 b.2.2.1 b.2.2.2
  push_cast
  exact this

end Field

/-! ### order of map enumeration, the combined checker, and the full statement (NOT a theorem) -/

section Full
variable {K : Type} [Field K] [LinearOrder K] [IsStrictOrderedRing K]

/-- **bw_order_independent_partial**: the bad-triangle SET of an insertion does not depend on the order
    in which the Go map is enumerated (the hole boundary is computed from it by `polygon`) -/
theorem bw_order_independent_partial (P : Nat → Pt K) (env : List Tri → List Tri)
    (henv : ∀ l, (env l).Perm l) (tris : List Tri) (pi : Nat) :
    (badTris P env tris pi).Perm (badTris P id tris pi) := by
  unfold badTris
  exact (henv tris).filter _

/-- what one run of the oracle establishes about an implementation output `tris` -/
theorem c20_checkers_sound (P : Nat → Pt K) (n : Nat) (tris : List Tri)
    (h : (indicesOk n tris && windingOk P tris && delaunayOk P n tris && noOverlapOk P tris) = true) :
    (∀ t ∈ tris, t.1 < n ∧ t.2.1 < n ∧ t.2.2 < n) ∧
    (∀ t ∈ tris, orient (P t.1) (P t.2.1) (P t.2.2) < 0) ∧
    tris.Pairwise (fun t u => ¬ Overlap P t u) ∧
    (∀ t ∈ tris, ∀ i < n, ¬ StrictlyInsideCircumcircle (P t.1) (P t.2.1) (P t.2.2) (P i)) := by
  simp only [Bool.and_eq_true] at h
  obtain ⟨⟨⟨h1, h2⟩, h3⟩, h4⟩ := h
  exact ⟨indices_check_sound n tris h1, winding_check_sound P tris h2, overlap_check_sound P tris h4,
    delaunay_check_sound P n tris h2 h3⟩

/-- general position of the first `n` points: no three collinear, no four cocircular -/
def GeneralPosition (P : Nat → Pt K) (n : Nat) : Prop :=
  (∀ i j k, i < j → j < k → k < n → orient (P i) (P j) (P k) ≠ 0) ∧
  (∀ i j k l, i < j → j < k → k < l → l < n → inCircleDet (P i) (P j) (P k) (P l) ≠ 0)

/-- The full property about the model of `bowyerWatson` — **NOT proved** (correctness of Bowyer–Watson
    with a finite super-triangle).  Its clauses are decided per run by the verified checkers above,
    applied to the implementation's output. -/
def C20_full (K : Type) [Field K] [LinearOrder K] [IsStrictOrderedRing K] : Prop :=
  ∀ (env : List Tri → List Tri), (∀ l, (env l).Perm l) →
  ∀ (p : Pt K) (ps : List (Pt K)), 2 ≤ ps.length →
    GeneralPosition (pointFn p ps) (ps.length + 1) →
    ∃ tris, bowyerWatson env (p :: ps) = some tris ∧
      (∀ t ∈ tris, t.1 < ps.length + 1 ∧ t.2.1 < ps.length + 1 ∧ t.2.2 < ps.length + 1) ∧
      (∀ t ∈ tris, orient (pointFn p ps t.1) (pointFn p ps t.2.1) (pointFn p ps t.2.2) < 0) ∧
      tris.Pairwise (fun t u => ¬ Overlap (pointFn p ps) t u) ∧
      (∀ t ∈ tris, ∀ i < ps.length + 1,
        ¬ StrictlyInsideCircumcircle (pointFn p ps t.1) (pointFn p ps t.2.1) (pointFn p ps t.2.2) (pointFn p ps i))

end Full

/-- position-free characterisation of the hole boundary of a duplicate-free bad list -/
theorem mem_polygon_iff {bad : List Tri} (hn : bad.Nodup) (e : Edge) :
    e ∈ polygon bad ↔
      ∃ t ∈ bad, e ∈ edges t ∧ ∀ o ∈ bad, o ≠ t → ∀ f ∈ edges o, edgeSame e f = false := by
  constructor
  · intro h
    simp only [polygon, List.mem_flatMap, List.mem_filter, Bool.not_eq_true'] at h
    obtain ⟨⟨t, ti⟩, hmem, he, hs⟩ := h
    have hti := List.mem_zipIdx_iff_getElem?.mp hmem
    simp only at hti
    refine ⟨t, List.mem_of_getElem? hti, he, ?_⟩
    intro o ho hne f hf
    obtain ⟨oti, holt, rfl⟩ := List.getElem_of_mem ho
    have hom : (bad[oti], oti) ∈ bad.zipIdx := List.mem_zipIdx_iff_getElem?.mpr (by simp [holt])
    have := (List.any_eq_false.mp hs) _ hom
    simp only [Bool.and_eq_true, bne_iff_ne, ne_eq, List.any_eq_true, not_and, not_exists] at this
    have hne' : ti ≠ oti := by
      rintro rfl
      rw [List.getElem?_eq_getElem holt] at hti
      exact hne (Option.some.inj hti)
    have := this hne' f hf
    simpa using this
  · rintro ⟨t, ht, he, hs⟩
    obtain ⟨ti, hlt, rfl⟩ := List.getElem_of_mem ht
    simp only [polygon, List.mem_flatMap, List.mem_filter, Bool.not_eq_true']
    refine ⟨(bad[ti], ti), List.mem_zipIdx_iff_getElem?.mpr (by simp [hlt]), he, ?_⟩
    apply List.any_eq_false.mpr
    rintro ⟨o, oti⟩ hom
    have hoti := List.mem_zipIdx_iff_getElem?.mp hom
    simp only at hoti
    simp only [Bool.and_eq_true, bne_iff_ne, ne_eq, List.any_eq_true, not_and, not_exists]
    intro hne f hf
    have holt : oti < bad.length := by
      by_contra hc
      rw [List.getElem?_eq_none (by omega)] at hoti
      cases hoti
    rw [List.getElem?_eq_getElem holt] at hoti
    have ho : o = bad[oti] := (Option.some.inj hoti).symm
    subst ho
    have hne2 : bad[oti] ≠ bad[ti] := fun h => hne ((hn.getElem_inj_iff.mp h).symm)
    have := hs _ (List.getElem_mem holt) hne2 f hf
    simp [this]

/-- **bw_polygon_order_independent**: the hole-boundary edge SET does not depend on the order in which the
    bad triangles were enumerated -/
theorem bw_polygon_order_independent {bad bad' : List Tri} (hp : bad.Perm bad') (hn : bad.Nodup) (e : Edge) :
    e ∈ polygon bad ↔ e ∈ polygon bad' := by
  rw [mem_polygon_iff hn, mem_polygon_iff (hp.nodup_iff.mp hn)]
  constructor
  · rintro ⟨t, ht, he, hs⟩
    exact ⟨t, hp.mem_iff.mp ht, he, fun o ho => hs o (hp.mem_iff.mpr ho)⟩
  · rintro ⟨t, ht, he, hs⟩
    exact ⟨t, hp.mem_iff.mpr ht, he, fun o ho => hs o (hp.mem_iff.mp ho)⟩


/-- one insertion step: bad set and hole-boundary edge set are the same for every map order -/
theorem bw_hole_order_independent {K : Type} [Field K] [LinearOrder K] [IsStrictOrderedRing K]
    (P : Nat → Pt K) (env : List Tri → List Tri) (henv : ∀ l, (env l).Perm l)
    (tris : List Tri) (hn : tris.Nodup) (pi : Nat) (e : Edge) :
    e ∈ polygon (badTris P env tris pi) ↔ e ∈ polygon (badTris P id tris pi) :=
  bw_polygon_order_independent (bw_order_independent_partial P env henv tris pi)
    (((henv tris).nodup_iff.mpr hn).filter _) e

example : polygon [(0, 1, 2), (2, 1, 3)] = [(0, 1), (2, 0), (1, 3), (3, 2)] := by decide

/-! ### order independence of the whole run; the Delaunay and winding invariants under named geometric hypotheses -/

section Order
variable {R : Type} [CommRing R] [LinearOrder R] [IsStrictOrderedRing R]

theorem contains_iff_mem (l : List Tri) (t : Tri) : l.contains t = true ↔ t ∈ l := by
  simp

theorem mem_insertTri_iff {t u : Tri} {tris : List Tri} : u ∈ insertTri t tris ↔ u = t ∨ u ∈ tris := by
  unfold insertTri
  split
  · rename_i h
    have ht : t ∈ tris := by simpa using h
    constructor
    · exact fun h => Or.inr h
    · rintro (rfl | h)
      · exact ht
      · exact h
  · simp only [List.mem_append, List.mem_singleton]
    tauto

theorem insertTri_nodup {t : Tri} {tris : List Tri} (h : tris.Nodup) : (insertTri t tris).Nodup := by
  unfold insertTri
  split
  · exact h
  · rename_i hc
    have ht : t ∉ tris := by simpa using hc
    exact List.Nodup.append h (List.nodup_singleton t) (by
      intro a ha hb
      simp only [List.mem_singleton] at hb
      subst hb; exact ht ha)

/-- `fillHole` as a set: the old triangles plus the fan triangle of every boundary edge not touching the point;
    and it keeps the list duplicate-free -/
theorem fillHole_spec (P : Nat → Pt R) (pi : Nat) (poly : List Edge) :
    ∀ tris : List Tri, tris.Nodup →
      (fillHole P poly pi tris).Nodup ∧
      ∀ t, t ∈ fillHole P poly pi tris ↔
        t ∈ tris ∨ ∃ e ∈ poly, (e.1 == pi || e.2 == pi) = false ∧ t = fanTri P e pi := by
  induction poly with
  | nil => intro tris h; simp [fillHole, h]
  | cons e es ih =>
    intro tris h
    simp only [fillHole, List.foldl_cons]
    by_cases hc : (e.1 == pi || e.2 == pi) = true
    · simp only [hc, if_true]
      obtain ⟨h1, h2⟩ := ih tris h
      refine ⟨h1, fun t => ?_⟩
      have := h2 t
      simp only [fillHole] at this
      rw [this]
      constructor
      · rintro (ht | ⟨e', he', hn, rfl⟩)
        · exact Or.inl ht
        · exact Or.inr ⟨e', List.mem_cons_of_mem _ he', hn, rfl⟩
      · rintro (ht | ⟨e', he', hn, rfl⟩)
        · exact Or.inl ht
        · rcases List.mem_cons.mp he' with rfl | he'
          · rw [hc] at hn; cases hn
          · exact Or.inr ⟨e', he', hn, rfl⟩
    · have hc' : (e.1 == pi || e.2 == pi) = false := by simpa using hc
      simp only [hc', Bool.false_eq_true, if_false]
      obtain ⟨h1, h2⟩ := ih (insertTri (fanTri P e pi) tris) (insertTri_nodup h)
      refine ⟨h1, fun t => ?_⟩
      have := h2 t
      simp only [fillHole] at this
      rw [this, mem_insertTri_iff]
      constructor
      · rintro ((rfl | ht) | ⟨e', he', hn, rfl⟩)
        · exact Or.inr ⟨e, List.mem_cons_self .., hc', rfl⟩
        · exact Or.inl ht
        · exact Or.inr ⟨e', List.mem_cons_of_mem _ he', hn, rfl⟩
      · rintro (ht | ⟨e', he', hn, rfl⟩)
        · exact Or.inl (Or.inr ht)
        · rcases List.mem_cons.mp he' with rfl | he'
          · exact Or.inl (Or.inl rfl)
          · exact Or.inr ⟨e', he', hn, rfl⟩

/-- one insertion step as a set -/
theorem step_spec (P : Nat → Pt R) (env : List Tri → List Tri) (henv : ∀ l, (env l).Perm l)
    (tris : List Tri) (hn : tris.Nodup) (pi : Nat) :
    (step P env tris pi).Nodup ∧
    ∀ t, t ∈ step P env tris pi ↔
      (t ∈ tris ∧ insideCirc P t (P pi) = false) ∨
      ∃ e ∈ polygon (tris.filter (fun t => insideCirc P t (P pi))),
        (e.1 == pi || e.2 == pi) = false ∧ t = fanTri P e pi := by
  have hbadp : (badTris P env tris pi).Perm (tris.filter (fun t => insideCirc P t (P pi))) :=
    (henv tris).filter _
  have hbadn : (badTris P env tris pi).Nodup := ((henv tris).nodup_iff.mpr hn).filter _
  unfold step
  obtain ⟨h1, h2⟩ := fillHole_spec P pi (polygon (badTris P env tris pi))
    (tris.filter (fun t => !(badTris P env tris pi).contains t)) (hn.filter _)
  refine ⟨h1, fun t => ?_⟩
  rw [h2 t]
  have hk : t ∈ tris.filter (fun t => !(badTris P env tris pi).contains t) ↔
      (t ∈ tris ∧ insideCirc P t (P pi) = false) := by
    simp only [List.mem_filter, Bool.not_eq_true', List.contains_eq_mem, decide_eq_false_iff_not]
    rw [hbadp.mem_iff]
    simp only [List.mem_filter, not_and, Bool.not_eq_true]
    constructor
    · rintro ⟨a, b⟩; exact ⟨a, b a⟩
    · rintro ⟨a, b⟩; exact ⟨a, fun _ => b⟩
  rw [hk]
  constructor
  · rintro (h | ⟨e, he, hc, rfl⟩)
    · exact Or.inl h
    · exact Or.inr ⟨e, (bw_polygon_order_independent hbadp hbadn e).mp he, hc, rfl⟩
  · rintro (h | ⟨e, he, hc, rfl⟩)
    · exact Or.inl h
    · exact Or.inr ⟨e, (bw_polygon_order_independent hbadp hbadn e).mpr he, hc, rfl⟩

/-- one step from permuted states with two enumerations gives permuted states -/
theorem step_perm (P : Nat → Pt R) (env env' : List Tri → List Tri)
    (henv : ∀ l, (env l).Perm l) (henv' : ∀ l, (env' l).Perm l)
    (tris tris' : List Tri) (hn : tris.Nodup) (hp : tris.Perm tris') (pi : Nat) :
    (step P env tris pi).Nodup ∧ (step P env tris pi).Perm (step P env' tris' pi) := by
  have hn' : tris'.Nodup := hp.nodup_iff.mp hn
  obtain ⟨a1, a2⟩ := step_spec P env henv tris hn pi
  obtain ⟨b1, b2⟩ := step_spec P env' henv' tris' hn' pi
  refine ⟨a1, (List.perm_ext_iff_of_nodup a1 b1).mpr (fun t => ?_)⟩
  rw [a2 t, b2 t]
  have hf : (tris.filter (fun t => insideCirc P t (P pi))).Perm (tris'.filter (fun t => insideCirc P t (P pi))) :=
    hp.filter _
  have hfn : (tris.filter (fun t => insideCirc P t (P pi))).Nodup := hn.filter _
  constructor
  · rintro (⟨h1, h2⟩ | ⟨e, he, hc, rfl⟩)
    · exact Or.inl ⟨hp.mem_iff.mp h1, h2⟩
    · exact Or.inr ⟨e, (bw_polygon_order_independent hf hfn e).mp he, hc, rfl⟩
  · rintro (⟨h1, h2⟩ | ⟨e, he, hc, rfl⟩)
    · exact Or.inl ⟨hp.mem_iff.mpr h1, h2⟩
    · exact Or.inr ⟨e, (bw_polygon_order_independent hf hfn e).mpr he, hc, rfl⟩

theorem loop_perm (P : Nat → Pt R) (env env' : List Tri → List Tri)
    (henv : ∀ l, (env l).Perm l) (henv' : ∀ l, (env' l).Perm l) (l : List Nat) :
    ∀ tris tris' : List Tri, tris.Nodup → tris.Perm tris' →
      (l.foldl (step P env) tris).Nodup ∧ (l.foldl (step P env) tris).Perm (l.foldl (step P env') tris') := by
  induction l with
  | nil => intro tris tris' hn hp; exact ⟨hn, hp⟩
  | cons pi l ih =>
    intro tris tris' hn hp
    simp only [List.foldl_cons]
    obtain ⟨s1, s2⟩ := step_perm P env env' henv henv' tris tris' hn hp pi
    exact ih _ _ s1 s2

/-- **bw_order_independent**: the triangle set Bowyer–Watson ends with does not depend on Go's map iteration order.
    For ANY two enumerations (each a permutation at every use), every point function and every `n`, the final states
    of the insertion loop — and the outputs after removing the super-triangle's triangles — are duplicate-free and
    permutations of each other, as lists of index TRIPLES (the corner order of each triangle included: it is fixed by
    the directed boundary edge and the winding fix-up, not by the enumeration). -/
theorem bw_order_independent (P : Nat → Pt R) (env env' : List Tri → List Tri)
    (henv : ∀ l, (env l).Perm l) (henv' : ∀ l, (env' l).Perm l) (n : Nat) :
    (bwLoop P env n).Perm (bwLoop P env' n) ∧ (bw P env n).Nodup ∧ (bw P env n).Perm (bw P env' n) := by
  obtain ⟨h1, h2⟩ := loop_perm P env env' henv henv' (List.range n) [(n, n + 1, n + 2)] [(n, n + 1, n + 2)]
    (List.nodup_singleton _) (List.Perm.refl _)
  exact ⟨h2, h1.filter _, h2.filter _⟩

end Order

/-- the public entry point: two runs with different map orders return permutations of one another -/
theorem bowyerWatson_order_independent {K : Type} [Field K] [LinearOrder K] [IsStrictOrderedRing K]
    (env env' : List Tri → List Tri) (henv : ∀ l, (env l).Perm l) (henv' : ∀ l, (env' l).Perm l)
    (pts : List (Pt K)) :
    match bowyerWatson env pts, bowyerWatson env' pts with
    | some a, some b => a.Nodup ∧ a.Perm b
    | none, none => True
    | _, _ => False := by
  match pts with
  | [] => simp [bowyerWatson]
  | [_] => simp [bowyerWatson]
  | [_, _] => simp [bowyerWatson]
  | p :: q :: r :: rest =>
    simp only [bowyerWatson]
    have := bw_order_independent (pointFn p (q :: r :: rest)) env env' henv henv' (p :: q :: r :: rest).length
    exact ⟨this.2.1, this.2.2⟩

section Fan
variable {R : Type} [CommRing R] [LinearOrder R] [IsStrictOrderedRing R]

/-- the state of the triangulation after the first `k` insertions -/
def stateAt (P : Nat → Pt R) (env : List Tri → List Tri) (n k : Nat) : List Tri :=
  (List.range k).foldl (step P env) [(n, n + 1, n + 2)]

theorem stateAt_succ (P : Nat → Pt R) (env : List Tri → List Tri) (n k : Nat) :
    stateAt P env n (k + 1) = step P env (stateAt P env n k) k := by
  simp [stateAt, List.range_succ, List.foldl_append]

theorem stateAt_n (P : Nat → Pt R) (env : List Tri → List Tri) (n : Nat) : stateAt P env n n = bwLoop P env n := rfl

theorem stateAt_nodup (P : Nat → Pt R) (env : List Tri → List Tri) (henv : ∀ l, (env l).Perm l) (n k : Nat) :
    (stateAt P env n k).Nodup :=
  (loop_perm P env env henv henv (List.range k) _ _ (List.nodup_singleton _) (List.Perm.refl _)).1

/-- a corner of a triangle is never strictly inside its circumcircle: the determinant vanishes -/
theorem inCircleDet_corner (a b c : Pt R) :
    inCircleDet a b c a = 0 ∧ inCircleDet a b c b = 0 ∧ inCircleDet a b c c = 0 := by
  refine ⟨?_, ?_, ?_⟩ <;> simp only [inCircleDet] <;> ring

/-- THE GEOMETRIC HYPOTHESIS `FanEmpty` (not proved): whenever point `k` is inserted, the new fan triangle over each
    boundary edge of the cavity has none of the EARLIER points strictly inside its circumcircle.  It speaks about the
    states the loop actually reaches. -/
def FanEmpty (P : Nat → Pt R) (env : List Tri → List Tri) (n : Nat) : Prop :=
  ∀ k < n, ∀ e ∈ polygon ((stateAt P env n k).filter (fun t => insideCirc P t (P k))),
    (e.1 == k || e.2 == k) = false → ∀ j < k, insideCirc P (fanTri P e k) (P j) = false

/-- THE GEOMETRIC HYPOTHESIS `FanPositive` (not proved): the inserted point lies strictly on the inner side (clockwise
    convention: `orient < 0`) of every directed boundary edge of its cavity — the cavity is strictly star-shaped around it. -/
def FanPositive (P : Nat → Pt R) (env : List Tri → List Tri) (n : Nat) : Prop :=
  ∀ k < n, ∀ e ∈ polygon ((stateAt P env n k).filter (fun t => insideCirc P t (P k))),
    (e.1 == k || e.2 == k) = false → orient (P e.1) (P e.2) (P k) < 0

/-- the Delaunay invariant of the insertion loop, given `FanEmpty`: after `k` insertions no triangle of the state
    has one of the first `k` points strictly inside its circumcircle (`det < 0`) -/
theorem delaunay_inv_of_fanEmpty (P : Nat → Pt R) (env : List Tri → List Tri) (henv : ∀ l, (env l).Perm l) (n : Nat)
    (hfan : FanEmpty P env n) :
    ∀ k ≤ n, ∀ t ∈ stateAt P env n k, ∀ j < k, insideCirc P t (P j) = false := by
  intro k
  induction k with
  | zero => intro _ t _ j hj; omega
  | succ k ih =>
    intro hk t ht j hj
    rw [stateAt_succ] at ht
    have hspec := (step_spec P env henv (stateAt P env n k) (stateAt_nodup P env henv n k) k).2 t
    rcases hspec.mp ht with ⟨hold, hkeep⟩ | ⟨e, he, hc, rfl⟩
    · rcases Nat.lt_succ_iff_lt_or_eq.mp hj with hlt | rfl
      · exact ih (by omega) t hold j hlt
      · exact hkeep
    · rcases Nat.lt_succ_iff_lt_or_eq.mp hj with hlt | rfl
      · exact hfan k (by omega) e he hc j hlt
      · -- the inserted point is a corner of its own fan triangle
        simp only [insideCirc, decide_eq_false_iff_not, not_lt]
        unfold fanTri
        split
        · exact le_of_eq (inCircleDet_corner _ _ _).2.1.symm
        · exact le_of_eq (inCircleDet_corner _ _ _).2.2.symm

/-- **bw_delaunay_of_fanEmpty**: under `FanEmpty`, no output triangle (indeed no triangle of the final state, those touching
    the super-triangle included) has an input point strictly inside its circumcircle — for every enumeration order -/
theorem bw_delaunay_of_fanEmpty (P : Nat → Pt R) (env : List Tri → List Tri) (henv : ∀ l, (env l).Perm l) (n : Nat)
    (hfan : FanEmpty P env n) :
    ∀ t ∈ bw P env n, ∀ j < n, ¬ inCircleDet (P t.1) (P t.2.1) (P t.2.2) (P j) < 0 := by
  intro t ht j hj
  have hl : t ∈ stateAt P env n n := (List.mem_filter.mp ht).1
  have := delaunay_inv_of_fanEmpty P env henv n hfan n le_rfl t hl j hj
  simpa [insideCirc] using this

/-- the winding invariant, strict, given `FanPositive`: every triangle of every state is strictly clockwise
    (one winding, positive area) if the super-triangle is -/
theorem winding_inv_of_fanPositive (P : Nat → Pt R) (env : List Tri → List Tri) (henv : ∀ l, (env l).Perm l) (n : Nat)
    (hsuper : orient (P n) (P (n + 1)) (P (n + 2)) < 0) (hfan : FanPositive P env n) :
    ∀ k ≤ n, ∀ t ∈ stateAt P env n k, orient (P t.1) (P t.2.1) (P t.2.2) < 0 := by
  intro k
  induction k with
  | zero =>
    intro _ t ht
    simp only [stateAt, List.range_zero, List.foldl_nil, List.mem_singleton] at ht
    subst ht; exact hsuper
  | succ k ih =>
    intro hk t ht
    rw [stateAt_succ] at ht
    have hspec := (step_spec P env henv (stateAt P env n k) (stateAt_nodup P env henv n k) k).2 t
    rcases hspec.mp ht with ⟨hold, _⟩ | ⟨e, he, hc, rfl⟩
    · exact ih (by omega) t hold
    · have hpos := hfan k (by omega) e he hc
      have hnot : ccw P (e.1, e.2, k) = false := by
        simp only [ccw, decide_eq_false_iff_not, not_lt]; exact hpos.le
      simp only [fanTri, hnot, Bool.false_eq_true, if_false]
      exact hpos

/-- **bw_strict_winding_of_fanPositive**: under `FanPositive` every output triangle is strictly clockwise -/
theorem bw_strict_winding_of_fanPositive (P : Nat → Pt R) (env : List Tri → List Tri) (henv : ∀ l, (env l).Perm l)
    (n : Nat) (hsuper : orient (P n) (P (n + 1)) (P (n + 2)) < 0) (hfan : FanPositive P env n) :
    ∀ t ∈ bw P env n, orient (P t.1) (P t.2.1) (P t.2.2) < 0 := by
  intro t ht
  exact winding_inv_of_fanPositive P env henv n hsuper hfan n le_rfl t (List.mem_filter.mp ht).1

/-- with both hypotheses: the empty-circumcircle clause in its geometric form -/
theorem bw_empty_circumcircles (P : Nat → Pt R) (env : List Tri → List Tri) (henv : ∀ l, (env l).Perm l) (n : Nat)
    (hsuper : orient (P n) (P (n + 1)) (P (n + 2)) < 0) (hpos : FanPositive P env n) (hemp : FanEmpty P env n) :
    ∀ t ∈ bw P env n, ∀ j < n, ¬ StrictlyInsideCircumcircle (P t.1) (P t.2.1) (P t.2.2) (P j) := by
  intro t ht j hj hin
  exact bw_delaunay_of_fanEmpty P env henv n hemp t ht j hj
    (inCircle_neg_of_inside _ _ _ _ (bw_strict_winding_of_fanPositive P env henv n hsuper hpos t ht) hin)

end Fan

/-- three input points and a clockwise super-triangle around them, over ℤ -/
def exP : Nat → Pt ℤ := fun i => [((0 : ℤ), (0 : ℤ)), (4, 1), (1, 3), (-100, -10), (2, 200), (100, -10)].getD i (0, 0)

example : orient (exP 3) (exP 4) (exP 5) < 0 := by decide
example : FanPositive exP id 3 := by unfold FanPositive; decide
example : FanEmpty exP id 3 := by unfold FanEmpty; decide
example : bw exP id 3 = [(1, 0, 2)] := by decide

/-- the executable forms (run by the driver on the model's own states, exact arithmetic) decide the two hypotheses -/
theorem fanPositive_check_sound {R : Type} [CommRing R] [LinearOrder R] [IsStrictOrderedRing R]
    (P : Nat → Pt R) (n : Nat) (h : fanPositiveOk P n = true) : FanPositive P id n := by
  intro k hk e he hc
  have h1 := (List.all_eq_true.mp h) k (List.mem_range.mpr hk)
  have h2 := (List.all_eq_true.mp h1) e he
  simpa [hc] using h2

theorem fanEmpty_check_sound {R : Type} [CommRing R] [LinearOrder R] [IsStrictOrderedRing R]
    (P : Nat → Pt R) (n : Nat) (h : fanEmptyOk P n = true) : FanEmpty P id n := by
  intro k hk e he hc j hj
  have h1 := (List.all_eq_true.mp h) k (List.mem_range.mpr hk)
  have h2 := (List.all_eq_true.mp h1) e he
  simp only [hc, Bool.false_or] at h2
  have h3 := (List.all_eq_true.mp h2) j (List.mem_range.mpr hj)
  simpa using h3

example : fanPositiveOk exP 3 = true ∧ fanEmptyOk exP 3 = true := by decide

/-! ### towards `FanPositive`: the two-circle lemma -/

section TwoCircle
variable {R : Type} [CommRing R] [LinearOrder R] [IsStrictOrderedRing R]

omit [LinearOrder R] [IsStrictOrderedRing R] in
/-- Grassmann–Plücker relation between the in-circle determinants and orientations of five points with a common
    chord `a b` -/
theorem two_circle_identity (a b c q p : Pt R) :
    orient a b c * inCircleDet b a q p =
      inCircleDet b a q c * orient a b p - inCircleDet a b c p * orient a b q := by
  simp only [inCircleDet, orient]; ring

/-- **two_circle**: let `T = (a,b,c)` and `T' = (b,a,q)` be clockwise triangles on the two sides of the edge `a b`,
    locally Delaunay (`c` not strictly inside the circumcircle of `T'`).  A point `p` strictly inside the circumcircle
    of `T` that is NOT strictly on `T`'s side of the edge is strictly inside the circumcircle of `T'`. -/
theorem two_circle (a b c q p : Pt R) (hT : orient a b c < 0) (hT' : orient b a q < 0)
    (hloc : ¬ inCircleDet b a q c < 0) (hin : inCircleDet a b c p < 0) (hp : ¬ orient a b p < 0) :
    inCircleDet b a q p < 0 := by
  have hq : 0 < orient a b q := by
    have : orient b a q = - orient a b q := by simp only [orient]; ring
    linarith
  have hid := two_circle_identity a b c q p
  have hpos : 0 < inCircleDet b a q c * orient a b p - inCircleDet a b c p * orient a b q := by
    have h1 : 0 ≤ inCircleDet b a q c * orient a b p := mul_nonneg (not_lt.mp hloc) (not_lt.mp hp)
    have h2 : inCircleDet a b c p * orient a b q < 0 := mul_neg_of_neg_of_pos hin hq
    linarith
  by_contra hcon
  have : orient a b c * inCircleDet b a q p ≤ 0 := mul_nonpos_of_nonpos_of_nonneg hT.le (not_lt.mp hcon)
  linarith

/-- the geometric content of `FanPositive` at one boundary edge: if the bad triangle `T = (a,b,c)` has, across its edge
    `a b`, a clockwise neighbour `T' = (b,a,q)` that is NOT bad, and the pair is locally Delaunay, then the inserted
    point is strictly on `T`'s side of the directed edge `a b`. -/
theorem boundary_edge_inner (a b c q p : Pt R) (hT : orient a b c < 0) (hT' : orient b a q < 0)
    (hloc : ¬ inCircleDet b a q c < 0) (hbad : inCircleDet a b c p < 0) (hnb : ¬ inCircleDet b a q p < 0) :
    orient a b p < 0 := by
  by_contra hp
  exact hnb (two_circle a b c q p hT hT' hloc hbad hp)

example : orient ((0 : ℤ), (0 : ℤ)) (0, 2) (2, 0) < 0 ∧ orient ((0 : ℤ), (2 : ℤ)) (0, 0) (-3, 1) < 0 ∧
    ¬ inCircleDet ((0 : ℤ), (2 : ℤ)) (0, 0) (-3, 1) (2, 0) < 0 ∧ inCircleDet ((0 : ℤ), (0 : ℤ)) (0, 2) (2, 0) (1, 1) < 0 ∧
    ¬ inCircleDet ((0 : ℤ), (2 : ℤ)) (0, 0) (-3, 1) (1, 1) < 0 := by decide
end TwoCircle

/-! ### discharging `FanPositive` / `FanEmpty`: structure of the states; the one remaining hypothesis `CavityDisc` -/

section Pencil
variable {R : Type} [CommRing R] [LinearOrder R] [IsStrictOrderedRing R]

omit [LinearOrder R] [IsStrictOrderedRing R] in
theorem orient_rot (a b c : Pt R) : orient b c a = orient a b c ∧ orient c a b = orient a b c := by
  constructor <;> simp only [orient] <;> ring

omit [LinearOrder R] [IsStrictOrderedRing R] in
theorem inCircleDet_rot (a b c x : Pt R) :
    inCircleDet b c a x = inCircleDet a b c x ∧ inCircleDet c a b x = inCircleDet a b c x := by
  constructor <;> simp only [inCircleDet] <;> ring

omit [LinearOrder R] [IsStrictOrderedRing R] in
theorem orient_self (a b : Pt R) : orient a b a = 0 ∧ orient a b b = 0 := by
  constructor <;> simp only [orient] <;> ring

omit [LinearOrder R] [IsStrictOrderedRing R] in
/-- cyclic Grassmann–Plücker relation for three points over the chord `a b` -/
theorem pencil_identity (a b x y z : Pt R) :
    inCircleDet a b y z * orient a b x + inCircleDet a b z x * orient a b y + inCircleDet a b x y * orient a b z = 0 := by
  simp only [inCircleDet, orient]; ring

omit [LinearOrder R] [IsStrictOrderedRing R] in
theorem inCircleDet_swap34 (a b x y : Pt R) : inCircleDet a b y x = - inCircleDet a b x y := by
  simp only [inCircleDet]; ring

omit [LinearOrder R] [IsStrictOrderedRing R] in
theorem inCircleDet_swap12 (a b x y : Pt R) : inCircleDet b a x y = - inCircleDet a b x y := by
  simp only [inCircleDet]; ring

/-- pencil of circles through `a b`, T's side: `T = (a,b,c)` clockwise, `p` strictly inside circ(T) and strictly on T's side,
    `x` on T's side or on the line, `x` not strictly inside circ(T) ⇒ `x` not strictly inside circ(a,b,p) -/
theorem fan_empty_same_side (a b c p x : Pt R) (hc : orient a b c < 0) (hp : orient a b p < 0) (hx : orient a b x ≤ 0)
    (hin : inCircleDet a b c p < 0) (hout : ¬ inCircleDet a b c x < 0) : ¬ inCircleDet a b p x < 0 := by
  have id := pencil_identity a b c p x
  -- D(p,x) O(c) + D(x,c) O(p) + D(c,p) O(x) = 0
  have e : inCircleDet a b x c = - inCircleDet a b c x := inCircleDet_swap34 a b c x
  rw [e] at id
  intro hneg
  have h1 : 0 < inCircleDet a b p x * orient a b c := mul_pos_of_neg_of_neg hneg hc
  have h2 : 0 ≤ inCircleDet a b c x * (- orient a b p) := mul_nonneg (not_lt.mp hout) (by linarith)
  have h3 : 0 ≤ inCircleDet a b c p * orient a b x := mul_nonneg_of_nonpos_of_nonpos hin.le hx
  nlinarith

/-- pencil of circles through `a b`, the neighbour's side: `N = (b,a,q)` clockwise, `p` strictly on the other side and not
    strictly inside circ(N), `x` on N's side or on the line and not strictly inside circ(N) ⇒ `x` not strictly inside circ(a,b,p) -/
theorem fan_empty_other_side (a b q p x : Pt R) (hq : orient b a q < 0) (hp : orient a b p < 0) (hx : 0 ≤ orient a b x)
    (hpn : ¬ inCircleDet b a q p < 0) (hxn : ¬ inCircleDet b a q x < 0) : ¬ inCircleDet a b p x < 0 := by
  have id := pencil_identity a b q p x
  have oq : 0 < orient a b q := by
    have : orient b a q = - orient a b q := by simp only [orient]; ring
    linarith
  have e1 : inCircleDet b a q p = - inCircleDet a b q p := inCircleDet_swap12 a b q p
  have e2 : inCircleDet b a q x = - inCircleDet a b q x := inCircleDet_swap12 a b q x
  have e3 : inCircleDet a b x q = - inCircleDet a b q x := inCircleDet_swap34 a b q x
  rw [e1] at hpn; rw [e2] at hxn; rw [e3] at id
  intro hneg
  have h1 : inCircleDet a b p x * orient a b q < 0 := mul_neg_of_neg_of_pos hneg oq
  have h2 : 0 ≤ (- inCircleDet a b q x) * (- orient a b p) := mul_nonneg (not_lt.mp hxn) (by linarith)
  have h3 : 0 ≤ (- inCircleDet a b q p) * orient a b x := mul_nonneg (not_lt.mp hpn) hx
  nlinarith

end Pencil

section Structure
variable {R : Type} [CommRing R] [LinearOrder R] [IsStrictOrderedRing R]

/-- the three directed boundary edges of the super-triangle `(n, n+1, n+2)` -/
def isSuperEdge (n : Nat) (e : Edge) : Prop := e = (n, n + 1) ∨ e = (n + 1, n + 2) ∨ e = (n + 2, n)

/-- the points present after `k` insertions: the first `k` inputs and the three super-triangle vertices -/
def Present (n k j : Nat) : Prop := j < k ∨ j = n ∨ j = n + 1 ∨ j = n + 2

/-- every input point is strictly inside the (clockwise) super-triangle — `superTriangle_contains` for the model's own
    super-triangle -/
def InputsInSuper (P : Nat → Pt R) (n : Nat) : Prop :=
  ∀ j < n, orient (P n) (P (n + 1)) (P j) < 0 ∧ orient (P (n + 1)) (P (n + 2)) (P j) < 0 ∧
    orient (P (n + 2)) (P n) (P j) < 0

/-- THE REMAINING HYPOTHESIS `EdgePaired` (combinatorial, not proved): in every state the loop reaches, every directed edge
    of every triangle is a super-triangle boundary edge or has its reverse in some triangle of the state -/
def EdgePaired (P : Nat → Pt R) (env : List Tri → List Tri) (n : Nat) : Prop :=
  ∀ k < n, ∀ t ∈ stateAt P env n k, ∀ e ∈ edges t,
    isSuperEdge n e ∨ ∃ u ∈ stateAt P env n k, (e.2, e.1) ∈ edges u

/-- the vertex opposite a directed edge of a triangle, with the rotation bookkeeping -/
theorem edge_opp (P : Nat → Pt R) (t : Tri) (e : Edge) (he : e ∈ edges t) :
    ∃ c, (c = t.1 ∨ c = t.2.1 ∨ c = t.2.2) ∧ (e.1 = t.1 ∨ e.1 = t.2.1 ∨ e.1 = t.2.2) ∧
      (e.2 = t.1 ∨ e.2 = t.2.1 ∨ e.2 = t.2.2) ∧
      orient (P e.1) (P e.2) (P c) = orient (P t.1) (P t.2.1) (P t.2.2) ∧
      ∀ x, inCircleDet (P e.1) (P e.2) (P c) x = inCircleDet (P t.1) (P t.2.1) (P t.2.2) x := by
  obtain ⟨t1, t2, t3⟩ := t
  simp only [edges, List.mem_cons, List.not_mem_nil, or_false] at he
  rcases he with rfl | rfl | rfl
  · exact ⟨t3, by simp, by simp, by simp, rfl, fun _ => rfl⟩
  · exact ⟨t1, by simp, by simp, by simp, (orient_rot _ _ _).1, fun x => (inCircleDet_rot _ _ _ x).1⟩
  · exact ⟨t2, by simp, by simp, by simp, (orient_rot _ _ _).2, fun x => (inCircleDet_rot _ _ _ x).2⟩

/-- a non-degenerate triangle does not contain an edge in both directions -/
theorem no_both_dirs (P : Nat → Pt R) (t : Tri) (h : orient (P t.1) (P t.2.1) (P t.2.2) ≠ 0) (a b : Nat)
    (h1 : (a, b) ∈ edges t) (h2 : (b, a) ∈ edges t) : False := by
  obtain ⟨t1, t2, t3⟩ := t
  simp only [edges, List.mem_cons, List.not_mem_nil, or_false, Prod.mk.injEq] at h1 h2
  apply h
  rcases h1 with ⟨rfl, rfl⟩ | ⟨rfl, rfl⟩ | ⟨rfl, rfl⟩ <;> rcases h2 with ⟨h3, h4⟩ | ⟨h3, h4⟩ | ⟨h3, h4⟩ <;>
    (try subst h3) <;> (try subst h4) <;> simp only [orient] <;> ring


theorem present_mono {n k j : Nat} (h : Present n k j) : Present n (k + 1) j := by
  rcases h with h | h | h | h
  · exact Or.inl (by omega)
  · exact Or.inr (Or.inl h)
  · exact Or.inr (Or.inr (Or.inl h))
  · exact Or.inr (Or.inr (Or.inr h))

/-- a present point is never strictly beyond a boundary edge of the super-triangle -/
theorem present_super_side (P : Nat → Pt R) (n k : Nat) (hk : k ≤ n)
    (hsuper : orient (P n) (P (n + 1)) (P (n + 2)) < 0) (hin : InputsInSuper P n)
    (e : Edge) (he : isSuperEdge n e) (j : Nat) (hj : Present n k j) :
    orient (P e.1) (P e.2) (P j) ≤ 0 := by
  have r1 := (orient_rot (P n) (P (n + 1)) (P (n + 2))).1
  have r2 := (orient_rot (P n) (P (n + 1)) (P (n + 2))).2
  rcases he with rfl | rfl | rfl <;> rcases hj with hj | rfl | rfl | rfl
  · exact (hin j (by omega)).1.le
  · exact le_of_eq (orient_self _ _).1
  · exact le_of_eq (orient_self _ _).2
  · exact hsuper.le
  · exact (hin j (by omega)).2.1.le
  · simp only; rw [r1]; exact hsuper.le
  · exact le_of_eq (orient_self _ _).1
  · exact le_of_eq (orient_self _ _).2
  · exact (hin j (by omega)).2.2.le
  · exact le_of_eq (orient_self _ _).2
  · simp only; rw [r2]; exact hsuper.le
  · exact le_of_eq (orient_self _ _).1

/-- the state invariant: strictly clockwise triangles, Delaunay w.r.t. every present point (super vertices included),
    only present vertices -/
def StateInv (P : Nat → Pt R) (n k : Nat) (S : List Tri) : Prop :=
  (∀ t ∈ S, orient (P t.1) (P t.2.1) (P t.2.2) < 0) ∧
  (∀ t ∈ S, ∀ j, Present n k j → ¬ inCircleDet (P t.1) (P t.2.1) (P t.2.2) (P j) < 0) ∧
  (∀ t ∈ S, Present n k t.1 ∧ Present n k t.2.1 ∧ Present n k t.2.2)

/-- **cavity_edge**: in a state satisfying the invariant whose edges are paired, every boundary edge `e` of the cavity of
    the next point `p = P k` has `p` strictly on its inner side (`FanPositive` at `e`), the fan triangle `(e.1, e.2, k)` has no
    present point strictly inside its circumcircle (`FanEmpty` at `e`), and its end points are present -/
theorem cavity_edge (P : Nat → Pt R) (n k : Nat) (hk : k < n) (S : List Tri) (hn : S.Nodup)
    (hsuper : orient (P n) (P (n + 1)) (P (n + 2)) < 0) (hin : InputsInSuper P n)
    (hinv : StateInv P n k S)
    (hpair : ∀ t ∈ S, ∀ e ∈ edges t, isSuperEdge n e ∨ ∃ u ∈ S, (e.2, e.1) ∈ edges u)
    (e : Edge) (he : e ∈ polygon (S.filter (fun t => insideCirc P t (P k)))) :
    orient (P e.1) (P e.2) (P k) < 0 ∧
    (∀ j, Present n k j → ¬ inCircleDet (P e.1) (P e.2) (P k) (P j) < 0) ∧
    Present n k e.1 ∧ Present n k e.2 := by
  obtain ⟨i1, i3, i5⟩ := hinv
  obtain ⟨T, hT, heT, hoth⟩ := (mem_polygon_iff (hn.filter _) e).mp he
  obtain ⟨hTS, hTbad⟩ := List.mem_filter.mp hT
  have hTbad' : inCircleDet (P T.1) (P T.2.1) (P T.2.2) (P k) < 0 := by simpa [insideCirc] using hTbad
  obtain ⟨c, hc, ha, hb, hor, hdet⟩ := edge_opp P T e heT
  have hcw : orient (P e.1) (P e.2) (P c) < 0 := by rw [hor]; exact i1 T hTS
  have hbadc : inCircleDet (P e.1) (P e.2) (P c) (P k) < 0 := by rw [hdet]; exact hTbad'
  have pres : ∀ v, (v = T.1 ∨ v = T.2.1 ∨ v = T.2.2) → Present n k v := by
    rintro v (rfl | rfl | rfl)
    · exact (i5 T hTS).1
    · exact (i5 T hTS).2.1
    · exact (i5 T hTS).2.2
  have houtT : ∀ j, Present n k j → ¬ inCircleDet (P e.1) (P e.2) (P c) (P j) < 0 := by
    intro j hj; rw [hdet]; exact i3 T hTS j hj
  rcases hpair T hTS e heT with hse | ⟨u, huS, hue⟩
  · -- a boundary edge of the super-triangle: the point is inside the super-triangle, nothing lies beyond the edge
    have hp : orient (P e.1) (P e.2) (P k) < 0 := by
      rcases hse with rfl | rfl | rfl
      · exact (hin k hk).1
      · exact (hin k hk).2.1
      · exact (hin k hk).2.2
    refine ⟨hp, ?_, pres _ ha, pres _ hb⟩
    intro j hj
    exact fan_empty_same_side _ _ _ _ _ hcw hp (present_super_side P n k hk.le hsuper hin e hse j hj) hbadc (houtT j hj)
  · -- the neighbour across the edge is not bad
    have hune : u ≠ T := by
      rintro rfl
      exact no_both_dirs P u (i1 u huS).ne e.1 e.2 heT hue
    have hunb : ¬ inCircleDet (P u.1) (P u.2.1) (P u.2.2) (P k) < 0 := by
      intro hub
      have huB : u ∈ S.filter (fun t => insideCirc P t (P k)) :=
        List.mem_filter.mpr ⟨huS, by simpa [insideCirc] using hub⟩
      have := hoth u huB hune (e.2, e.1) hue
      simp [edgeSame] at this
    obtain ⟨q, hq, _, _, horu, hdetu⟩ := edge_opp P u (e.2, e.1) hue
    simp only at horu hdetu
    have hqcw : orient (P e.2) (P e.1) (P q) < 0 := by rw [horu]; exact i1 u huS
    have hloc : ¬ inCircleDet (P e.2) (P e.1) (P q) (P c) < 0 := by
      rw [hdetu]; exact i3 u huS c (pres c hc)
    have hnb : ¬ inCircleDet (P e.2) (P e.1) (P q) (P k) < 0 := by rw [hdetu]; exact hunb
    have hp : orient (P e.1) (P e.2) (P k) < 0 :=
      boundary_edge_inner _ _ _ _ _ hcw hqcw hloc hbadc hnb
    refine ⟨hp, ?_, pres _ ha, pres _ hb⟩
    intro j hj
    rcases le_total (orient (P e.1) (P e.2) (P j)) 0 with hx | hx
    · exact fan_empty_same_side _ _ _ _ _ hcw hp hx hbadc (houtT j hj)
    · refine fan_empty_other_side _ _ _ _ _ hqcw hp hx hnb ?_
      rw [hdetu]; exact i3 u huS j hj


/-- the directed-edge pairing of one state -/
def Paired (n : Nat) (S : List Tri) : Prop :=
  ∀ t ∈ S, ∀ e ∈ edges t, isSuperEdge n e ∨ ∃ u ∈ S, (e.2, e.1) ∈ edges u

theorem not_present_self {n k : Nat} (hk : k < n) : ¬ Present n k k := by
  rintro (h | h | h | h) <;> omega

/-- what one insertion does to a state satisfying the invariant whose edges are paired: the fan triangles are exactly
    `(e.1, e.2, k)` for the boundary edges `e` of the cavity, and the invariant is kept -/
theorem stateInv_step (P : Nat → Pt R) (env : List Tri → List Tri) (henv : ∀ l, (env l).Perm l) (n k : Nat) (hkn : k < n)
    (hsuper : orient (P n) (P (n + 1)) (P (n + 2)) < 0) (hin : InputsInSuper P n)
    (S : List Tri) (hnod : S.Nodup) (hS : StateInv P n k S) (hX : Paired n S) :
    (∀ t, t ∈ step P env S k ↔ (t ∈ S ∧ insideCirc P t (P k) = false) ∨
        ∃ e ∈ polygon (S.filter (fun t => insideCirc P t (P k))), t = (e.1, e.2, k)) ∧
    StateInv P n (k + 1) (step P env S k) := by
  have hspec := (step_spec P env henv S hnod k).2
  have hce := cavity_edge P n k hkn S hnod hsuper hin hS hX
  have hfan : ∀ e ∈ polygon (S.filter (fun t => insideCirc P t (P k))), fanTri P e k = (e.1, e.2, k) := by
    intro e he
    have hp := (hce e he).1
    have hnot : ccw P (e.1, e.2, k) = false := by
      simp only [ccw, decide_eq_false_iff_not, not_lt]; exact hp.le
    simp only [fanTri, hnot, Bool.false_eq_true, if_false]
  have hnt : ∀ e ∈ polygon (S.filter (fun t => insideCirc P t (P k))), (e.1 == k || e.2 == k) = false := by
    intro e he
    have h1 : e.1 ≠ k := fun h => not_present_self hkn (h ▸ (hce e he).2.2.1)
    have h2 : e.2 ≠ k := fun h => not_present_self hkn (h ▸ (hce e he).2.2.2)
    simp [h1, h2]
  have hmem : ∀ t, t ∈ step P env S k ↔ (t ∈ S ∧ insideCirc P t (P k) = false) ∨
      ∃ e ∈ polygon (S.filter (fun t => insideCirc P t (P k))), t = (e.1, e.2, k) := by
    intro t
    rw [hspec t]
    constructor
    · rintro (h | ⟨e, he, _, rfl⟩)
      · exact Or.inl h
      · exact Or.inr ⟨e, he, hfan e he⟩
    · rintro (h | ⟨e, he, rfl⟩)
      · exact Or.inl h
      · exact Or.inr ⟨e, he, hnt e he, (hfan e he).symm⟩
  refine ⟨hmem, ?_⟩
  obtain ⟨i1, i3, i5⟩ := hS
  have pk : Present n (k + 1) k := Or.inl (by omega)
  refine ⟨?_, ?_, ?_⟩
  · intro t ht
    rcases (hmem t).mp ht with ⟨hold, _⟩ | ⟨e, he, rfl⟩
    · exact i1 t hold
    · exact (hce e he).1
  · intro t ht j hj
    rcases (hmem t).mp ht with ⟨hold, hkeep⟩ | ⟨e, he, rfl⟩
    · rcases hj with hj | hj
      · rcases Nat.lt_succ_iff_lt_or_eq.mp hj with hlt | rfl
        · exact i3 t hold j (Or.inl hlt)
        · simpa [insideCirc] using hkeep
      · exact i3 t hold j (Or.inr hj)
    · simp only
      have hemp := (hce e he).2.1
      have corner : ¬ inCircleDet (P e.1) (P e.2) (P k) (P k) < 0 := by
        rw [(inCircleDet_corner (P e.1) (P e.2) (P k)).2.2]; exact lt_irrefl _
      rcases hj with hj | hj
      · rcases Nat.lt_succ_iff_lt_or_eq.mp hj with hlt | rfl
        · exact hemp j (Or.inl hlt)
        · exact corner
      · exact hemp j (Or.inr hj)
  · intro t ht
    rcases (hmem t).mp ht with ⟨hold, _⟩ | ⟨e, he, rfl⟩
    · obtain ⟨a, b, c⟩ := i5 t hold
      exact ⟨present_mono a, present_mono b, present_mono c⟩
    · exact ⟨present_mono (hce e he).2.2.1, present_mono (hce e he).2.2.2, pk⟩

theorem stateInv_zero (P : Nat → Pt R) (env : List Tri → List Tri) (n : Nat)
    (hsuper : orient (P n) (P (n + 1)) (P (n + 2)) < 0) : StateInv P n 0 (stateAt P env n 0) := by
  have hst : stateAt P env n 0 = [(n, n + 1, n + 2)] := rfl
  rw [hst]
  refine ⟨?_, ?_, ?_⟩
  · intro t ht; simp only [List.mem_singleton] at ht; subst ht; exact hsuper
  · intro t ht j hj
    simp only [List.mem_singleton] at ht; subst ht
    have hc := inCircleDet_corner (P n) (P (n + 1)) (P (n + 2))
    rcases hj with hj | rfl | rfl | rfl
    · omega
    · simp only; rw [hc.1]; exact lt_irrefl _
    · simp only; rw [hc.2.1]; exact lt_irrefl _
    · simp only; rw [hc.2.2]; exact lt_irrefl _
  · intro t ht; simp only [List.mem_singleton] at ht; subst ht
    exact ⟨Or.inr (Or.inl rfl), Or.inr (Or.inr (Or.inl rfl)), Or.inr (Or.inr (Or.inr rfl))⟩

/-- the invariant holds in every state the loop reaches, given only the combinatorial hypothesis `EdgePaired` -/
theorem stateInv_of_edgePaired (P : Nat → Pt R) (env : List Tri → List Tri) (henv : ∀ l, (env l).Perm l) (n : Nat)
    (hsuper : orient (P n) (P (n + 1)) (P (n + 2)) < 0) (hin : InputsInSuper P n) (hpair : EdgePaired P env n) :
    ∀ k ≤ n, StateInv P n k (stateAt P env n k) := by
  intro k
  induction k with
  | zero => intro _; exact stateInv_zero P env n hsuper
  | succ k ih =>
    intro hk
    rw [stateAt_succ]
    exact (stateInv_step P env henv n k (by omega) hsuper hin _ (stateAt_nodup P env henv n k) (ih (by omega))
      (hpair k (by omega))).2

/-- each directed edge occurs in at most one triangle of the state -/
def EdgeUnique (S : List Tri) : Prop := ∀ t ∈ S, ∀ u ∈ S, ∀ e, e ∈ edges t → e ∈ edges u → t = u

/-- the boundary of a cavity is a union of directed cycles in which every vertex has exactly one incoming and one outgoing
    edge — what makes the cavity a disc around the inserted point -/
def DiscAt (Q : List Edge) : Prop :=
  (∀ e ∈ Q, ∃ f ∈ Q, f.1 = e.2) ∧ (∀ e ∈ Q, ∃ f ∈ Q, f.2 = e.1) ∧
  (∀ e ∈ Q, ∀ f ∈ Q, e.2 = f.2 → e = f) ∧ (∀ e ∈ Q, ∀ f ∈ Q, e.1 = f.1 → e = f)

/-- THE ONE REMAINING HYPOTHESIS `CavityDisc` (combinatorial/topological, not proved): at every insertion the boundary of the
    cavity has in- and out-degree one at each of its vertices -/
def CavityDisc (P : Nat → Pt R) (env : List Tri → List Tri) (n : Nat) : Prop :=
  ∀ k < n, DiscAt (polygon ((stateAt P env n k).filter (fun t => insideCirc P t (P k))))

theorem edge_verts (t : Tri) (e : Edge) (he : e ∈ edges t) :
    (e.1 = t.1 ∨ e.1 = t.2.1 ∨ e.1 = t.2.2) ∧ (e.2 = t.1 ∨ e.2 = t.2.1 ∨ e.2 = t.2.2) := by
  obtain ⟨t1, t2, t3⟩ := t
  simp only [edges, List.mem_cons, List.not_mem_nil, or_false] at he
  rcases he with rfl | rfl | rfl <;> simp

/-- pairing and uniqueness of directed edges survive an insertion whose cavity boundary is a disc boundary -/
theorem pairing_step (P : Nat → Pt R) (env : List Tri → List Tri) (henv : ∀ l, (env l).Perm l) (n k : Nat) (hkn : k < n)
    (hsuper : orient (P n) (P (n + 1)) (P (n + 2)) < 0) (hin : InputsInSuper P n)
    (S : List Tri) (hnod : S.Nodup) (hS : StateInv P n k S) (hX : Paired n S) (hU : EdgeUnique S)
    (hD : DiscAt (polygon (S.filter (fun t => insideCirc P t (P k))))) :
    Paired n (step P env S k) ∧ EdgeUnique (step P env S k) := by
  obtain ⟨hmem, _⟩ := stateInv_step P env henv n k hkn hsuper hin S hnod hS hX
  have hce := cavity_edge P n k hkn S hnod hsuper hin hS hX
  obtain ⟨i1, i3, i5⟩ := hS
  obtain ⟨d1, d1', d2, d2'⟩ := hD
  set Q := polygon (S.filter (fun t => insideCirc P t (P k))) with hQ
  have hbadn : (S.filter (fun t => insideCirc P t (P k))).Nodup := hnod.filter _
  -- vertices of old triangles are not k
  have oldv : ∀ t ∈ S, ∀ e ∈ edges t, e.1 ≠ k ∧ e.2 ≠ k := by
    intro t ht e he
    obtain ⟨p1, p2, p3⟩ := i5 t ht
    obtain ⟨v1, v2⟩ := edge_verts t e he
    have pe1 : Present n k e.1 := by
      rcases v1 with h | h | h <;> rw [h] <;> assumption
    have pe2 : Present n k e.2 := by
      rcases v2 with h | h | h <;> rw [h] <;> assumption
    exact ⟨fun h => not_present_self hkn (h ▸ pe1), fun h => not_present_self hkn (h ▸ pe2)⟩
  have qv : ∀ e ∈ Q, e.1 ≠ k ∧ e.2 ≠ k := by
    intro e he
    exact ⟨fun h => not_present_self hkn (h ▸ (hce e he).2.2.1), fun h => not_present_self hkn (h ▸ (hce e he).2.2.2)⟩
  -- the bad triangle behind a boundary edge
  have qT : ∀ e ∈ Q, ∃ T ∈ S, insideCirc P T (P k) = true ∧ e ∈ edges T ∧
      ∀ o ∈ S, insideCirc P o (P k) = true → o ≠ T → ∀ f ∈ edges o, edgeSame e f = false := by
    intro e he
    obtain ⟨T, hT, heT, hoth⟩ := (mem_polygon_iff hbadn e).mp he
    obtain ⟨hTS, hTb⟩ := List.mem_filter.mp hT
    exact ⟨T, hTS, hTb, heT, fun o ho hob hne f hf => hoth o (List.mem_filter.mpr ⟨ho, hob⟩) hne f hf⟩
  have fanmem : ∀ e ∈ Q, (e.1, e.2, k) ∈ step P env S k := fun e he => (hmem _).mpr (Or.inr ⟨e, he, rfl⟩)
  constructor
  · -- pairing
    intro t ht e he
    rcases (hmem t).mp ht with ⟨htS, htk⟩ | ⟨g, hg, rfl⟩
    · rcases hX t htS e he with hs | ⟨u, huS, hue⟩
      · exact Or.inl hs
      · by_cases hub : insideCirc P u (P k) = true
        · -- the neighbour is removed: the reversed edge is a boundary edge of the cavity, its fan triangle carries it
          have hrev : (e.2, e.1) ∈ Q := by
            refine (mem_polygon_iff hbadn _).mpr ⟨u, List.mem_filter.mpr ⟨huS, hub⟩, hue, ?_⟩
            intro o ho hne f hf
            obtain ⟨hoS, hob⟩ := List.mem_filter.mp ho
            by_contra hsame
            have hsame' : edgeSame (e.2, e.1) f = true := by simpa using hsame
            simp only [edgeSame, Bool.or_eq_true, Bool.and_eq_true, beq_iff_eq] at hsame'
            rcases hsame' with ⟨h1, h2⟩ | ⟨h1, h2⟩
            · have : f = (e.2, e.1) := by ext <;> simp [h1, h2]
              exact hne (hU o hoS u huS _ (this ▸ hf) hue)
            · have : f = e := by ext <;> simp [h1, h2]
              have hot : o = t := hU o hoS t htS _ (this ▸ hf) he
              rw [hot] at hob; rw [hob] at htk; cases htk
          exact Or.inr ⟨_, fanmem _ hrev, by simp [edges]⟩
        · exact Or.inr ⟨u, (hmem u).mpr (Or.inl ⟨huS, by simpa using hub⟩), hue⟩
    · -- a fan triangle (g.1, g.2, k)
      simp only [edges, List.mem_cons, List.not_mem_nil, or_false] at he
      rcases he with rfl | rfl | rfl
      · -- its base edge: the neighbour across it is kept
        obtain ⟨T, hTS, hTb, hgT, hoth⟩ := qT g hg
        rcases hX T hTS g hgT with hs | ⟨u, huS, hue⟩
        · exact Or.inl hs
        · have hune : u ≠ T := by
            rintro rfl
            exact no_both_dirs P u (i1 u huS).ne g.1 g.2 hgT hue
          have hunb : insideCirc P u (P k) = false := by
            by_contra hub
            have := hoth u huS (by simpa using hub) hune (g.2, g.1) hue
            simp [edgeSame] at this
          exact Or.inr ⟨u, (hmem u).mpr (Or.inl ⟨huS, hunb⟩), hue⟩
      · -- (g.2, k): the next boundary edge's fan triangle has (k, g.2)
        obtain ⟨f, hf, hf1⟩ := d1 g hg
        exact Or.inr ⟨_, fanmem f hf, by simp [edges, hf1]⟩
      · -- (k, g.1): the previous boundary edge's fan triangle has (g.1, k)
        obtain ⟨f, hf, hf2⟩ := d1' g hg
        exact Or.inr ⟨_, fanmem f hf, by simp [edges, hf2]⟩
  · -- uniqueness
    intro t ht u hu e het heu
    rcases (hmem t).mp ht with ⟨htS, htk⟩ | ⟨g, hg, rfl⟩ <;> rcases (hmem u).mp hu with ⟨huS, huk⟩ | ⟨g', hg', rfl⟩
    · exact hU t htS u huS e het heu
    · exfalso
      obtain ⟨v1, v2⟩ := oldv t htS e het
      simp only [edges, List.mem_cons, List.not_mem_nil, or_false] at heu
      rcases heu with rfl | rfl | rfl
      · obtain ⟨T, hTS, hTb, hgT, _⟩ := qT g' hg'
        have := hU t htS T hTS _ het hgT
        rw [this] at htk; rw [hTb] at htk; cases htk
      · exact v2 rfl
      · exact v1 rfl
    · exfalso
      obtain ⟨v1, v2⟩ := oldv u huS e heu
      simp only [edges, List.mem_cons, List.not_mem_nil, or_false] at het
      rcases het with rfl | rfl | rfl
      · obtain ⟨T, hTS, hTb, hgT, _⟩ := qT g hg
        have := hU u huS T hTS _ heu hgT
        rw [this] at huk; rw [hTb] at huk; cases huk
      · exact v2 rfl
      · exact v1 rfl
    · obtain ⟨a1, a2⟩ := qv g hg
      obtain ⟨b1, b2⟩ := qv g' hg'
      simp only [edges, List.mem_cons, List.not_mem_nil, or_false] at het heu
      have key : g = g' := by
        rcases het with rfl | rfl | rfl <;> rcases heu with h | h | h
        · exact Prod.ext (congrArg Prod.fst h) (congrArg Prod.snd h)
        · exact absurd (congrArg Prod.snd h) a2
        · exact absurd (congrArg Prod.fst h) a1
        · exact absurd (congrArg Prod.snd h).symm b2
        · exact d2 g hg g' hg' (congrArg Prod.fst h)
        · exact absurd (congrArg Prod.fst h) a2
        · exact absurd (congrArg Prod.fst h).symm b1
        · exact absurd (congrArg Prod.snd h) a1
        · exact d2' g hg g' hg' (congrArg Prod.snd h)
      rw [key]

/-- both geometric hypotheses follow from the combinatorial one -/
theorem fanPositive_of_edgePaired (P : Nat → Pt R) (env : List Tri → List Tri) (henv : ∀ l, (env l).Perm l) (n : Nat)
    (hsuper : orient (P n) (P (n + 1)) (P (n + 2)) < 0) (hin : InputsInSuper P n) (hpair : EdgePaired P env n) :
    FanPositive P env n := by
  intro k hk e he _
  exact (cavity_edge P n k hk _ (stateAt_nodup P env henv n k) hsuper hin
    (stateInv_of_edgePaired P env henv n hsuper hin hpair k hk.le) (hpair k hk) e he).1

theorem fanEmpty_of_edgePaired (P : Nat → Pt R) (env : List Tri → List Tri) (henv : ∀ l, (env l).Perm l) (n : Nat)
    (hsuper : orient (P n) (P (n + 1)) (P (n + 2)) < 0) (hin : InputsInSuper P n) (hpair : EdgePaired P env n) :
    FanEmpty P env n := by
  intro k hk e he _ j hj
  have hce := cavity_edge P n k hk _ (stateAt_nodup P env henv n k) hsuper hin
    (stateInv_of_edgePaired P env henv n hsuper hin hpair k hk.le) (hpair k hk) e he
  have hnot : ccw P (e.1, e.2, k) = false := by
    simp only [ccw, decide_eq_false_iff_not, not_lt]; exact hce.1.le
  simp only [fanTri, hnot, Bool.false_eq_true, if_false, insideCirc, decide_eq_false_iff_not]
  exact hce.2.1 j (Or.inl hj)

/-- **bw_delaunay_of_edgePaired**: for a clockwise super-triangle strictly containing the inputs, and every map order: if the
    states' edges are paired (`EdgePaired`, combinatorial), then NO triangle of the final state — hence no output triangle — has
    an input point (or a super-triangle vertex) strictly inside its circumcircle, and every one is strictly clockwise. -/
theorem bw_delaunay_of_edgePaired (P : Nat → Pt R) (env : List Tri → List Tri) (henv : ∀ l, (env l).Perm l) (n : Nat)
    (hsuper : orient (P n) (P (n + 1)) (P (n + 2)) < 0) (hin : InputsInSuper P n) (hpair : EdgePaired P env n) :
    ∀ t ∈ bw P env n, orient (P t.1) (P t.2.1) (P t.2.2) < 0 ∧
      ∀ j < n, ¬ inCircleDet (P t.1) (P t.2.1) (P t.2.2) (P j) < 0 := by
  intro t ht
  have hl : t ∈ stateAt P env n n := (List.mem_filter.mp ht).1
  obtain ⟨i1, i3, _⟩ := stateInv_of_edgePaired P env henv n hsuper hin hpair n le_rfl
  exact ⟨i1 t hl, fun j hj => i3 t hl j (Or.inl hj)⟩

/-- the same in the geometric form of the property's clause -/
theorem bw_empty_circumcircles_of_edgePaired (P : Nat → Pt R) (env : List Tri → List Tri) (henv : ∀ l, (env l).Perm l)
    (n : Nat) (hsuper : orient (P n) (P (n + 1)) (P (n + 2)) < 0) (hin : InputsInSuper P n)
    (hpair : EdgePaired P env n) :
    ∀ t ∈ bw P env n, ∀ j < n, ¬ StrictlyInsideCircumcircle (P t.1) (P t.2.1) (P t.2.2) (P j) := by
  intro t ht j hj hins
  obtain ⟨h1, h2⟩ := bw_delaunay_of_edgePaired P env henv n hsuper hin hpair t ht
  exact h2 j hj (inCircle_neg_of_inside _ _ _ _ h1 hins)


/-- the full structural invariant along the run, from `CavityDisc` alone -/
theorem structure_of_cavityDisc (P : Nat → Pt R) (env : List Tri → List Tri) (henv : ∀ l, (env l).Perm l) (n : Nat)
    (hsuper : orient (P n) (P (n + 1)) (P (n + 2)) < 0) (hin : InputsInSuper P n) (hdisc : CavityDisc P env n) :
    ∀ k ≤ n, StateInv P n k (stateAt P env n k) ∧ Paired n (stateAt P env n k) ∧ EdgeUnique (stateAt P env n k) := by
  intro k
  induction k with
  | zero =>
    intro _
    refine ⟨stateInv_zero P env n hsuper, ?_, ?_⟩
    · intro t ht e he
      have hst : stateAt P env n 0 = [(n, n + 1, n + 2)] := rfl
      rw [hst, List.mem_singleton] at ht; subst ht
      simp only [edges, List.mem_cons, List.not_mem_nil, or_false] at he
      exact Or.inl he
    · intro t ht u hu e _ _
      have hst : stateAt P env n 0 = [(n, n + 1, n + 2)] := rfl
      rw [hst, List.mem_singleton] at ht hu
      rw [ht, hu]
  | succ k ih =>
    intro hk
    obtain ⟨hS, hX, hU⟩ := ih (by omega)
    have hkn : k < n := by omega
    have hnod := stateAt_nodup P env henv n k
    rw [stateAt_succ]
    obtain ⟨h1, h2⟩ := pairing_step P env henv n k hkn hsuper hin _ hnod hS hX hU (hdisc k hkn)
    exact ⟨(stateInv_step P env henv n k hkn hsuper hin _ hnod hS hX).2, h1, h2⟩

theorem edgePaired_of_cavityDisc (P : Nat → Pt R) (env : List Tri → List Tri) (henv : ∀ l, (env l).Perm l) (n : Nat)
    (hsuper : orient (P n) (P (n + 1)) (P (n + 2)) < 0) (hin : InputsInSuper P n) (hdisc : CavityDisc P env n) :
    EdgePaired P env n :=
  fun k hk => (structure_of_cavityDisc P env henv n hsuper hin hdisc k hk.le).2.1

/-- **bw_delaunay_of_cavityDisc**: clockwise super-triangle strictly containing the inputs, any map order.  If at every
    insertion the cavity boundary has in- and out-degree one at each vertex (`CavityDisc`: the ONE remaining, purely
    combinatorial hypothesis), then every output triangle is strictly clockwise (one winding, positive area) and has no
    input point strictly inside its circumcircle.  `FanPositive` and `FanEmpty` are no longer hypotheses: they are proved
    along the way (`cavity_edge`). -/
theorem bw_delaunay_of_cavityDisc (P : Nat → Pt R) (env : List Tri → List Tri) (henv : ∀ l, (env l).Perm l) (n : Nat)
    (hsuper : orient (P n) (P (n + 1)) (P (n + 2)) < 0) (hin : InputsInSuper P n) (hdisc : CavityDisc P env n) :
    ∀ t ∈ bw P env n, orient (P t.1) (P t.2.1) (P t.2.2) < 0 ∧
      (∀ j < n, ¬ inCircleDet (P t.1) (P t.2.1) (P t.2.2) (P j) < 0) ∧
      (∀ j < n, ¬ StrictlyInsideCircumcircle (P t.1) (P t.2.1) (P t.2.2) (P j)) := by
  intro t ht
  have hp := edgePaired_of_cavityDisc P env henv n hsuper hin hdisc
  obtain ⟨h1, h2⟩ := bw_delaunay_of_edgePaired P env henv n hsuper hin hp t ht
  exact ⟨h1, h2, fun j hj hins => h2 j hj (inCircle_neg_of_inside _ _ _ _ h1 hins)⟩

/-- and the two formerly hypothetical facts, now consequences -/
theorem fan_hypotheses_of_cavityDisc (P : Nat → Pt R) (env : List Tri → List Tri) (henv : ∀ l, (env l).Perm l) (n : Nat)
    (hsuper : orient (P n) (P (n + 1)) (P (n + 2)) < 0) (hin : InputsInSuper P n) (hdisc : CavityDisc P env n) :
    FanPositive P env n ∧ FanEmpty P env n :=
  ⟨fanPositive_of_edgePaired P env henv n hsuper hin (edgePaired_of_cavityDisc P env henv n hsuper hin hdisc),
   fanEmpty_of_edgePaired P env henv n hsuper hin (edgePaired_of_cavityDisc P env henv n hsuper hin hdisc)⟩

end Structure

section PublicEntry
variable {K : Type} [Field K] [LinearOrder K] [IsStrictOrderedRing K]

/-- the model's own point function puts every input strictly inside its (clockwise) super-triangle, for inputs of positive width -/
theorem pointFn_inputsInSuper (p : Pt K) (ps : List (Pt K))
    (hw : minOf p.1 (ps.map (·.1)) < maxOf p.1 (ps.map (·.1))) :
    orient (pointFn p ps (p :: ps).length) (pointFn p ps ((p :: ps).length + 1)) (pointFn p ps ((p :: ps).length + 2)) < 0 ∧
    InputsInSuper (pointFn p ps) (p :: ps).length := by
  obtain ⟨l, t, r, hs, hc⟩ := superTriangle_contains p ps hw
  obtain ⟨l', t', r', hs', ho⟩ := superTriangle_cw p ps hw
  rw [hs] at hs'
  simp only [List.cons.injEq, and_true] at hs'
  obtain ⟨rfl, rfl, rfl⟩ := hs'
  obtain ⟨h0, h1, h2⟩ := pointFn_super p ps l t r hs
  rw [h0, h1, h2]
  refine ⟨ho, ?_⟩
  intro j hj
  rw [h0, h1, h2, pointFn_input p ps j hj]
  exact hc _ (List.getElem_mem hj)

/-- **bowyerWatson_delaunay_of_cavityDisc**: the public entry point of the model, any map order, any input of positive
    width: under `CavityDisc` every output triangle is strictly clockwise and has no input point strictly inside its
    circumcircle. -/
theorem bowyerWatson_delaunay_of_cavityDisc (env : List Tri → List Tri) (henv : ∀ l, (env l).Perm l)
    (p : Pt K) (ps : List (Pt K)) (tris : List Tri) (h : bowyerWatson env (p :: ps) = some tris)
    (hw : minOf p.1 (ps.map (·.1)) < maxOf p.1 (ps.map (·.1)))
    (hdisc : CavityDisc (pointFn p ps) env (p :: ps).length) :
    ∀ t ∈ tris, orient (pointFn p ps t.1) (pointFn p ps t.2.1) (pointFn p ps t.2.2) < 0 ∧
      ∀ j < (p :: ps).length,
        ¬ StrictlyInsideCircumcircle (pointFn p ps t.1) (pointFn p ps t.2.1) (pointFn p ps t.2.2) (pointFn p ps j) := by
  match ps, h, hw, hdisc with
  | q :: r :: rest, h, hw, hdisc =>
    simp only [bowyerWatson, Option.some.injEq] at h
    subst h
    obtain ⟨hsup, hin⟩ := pointFn_inputsInSuper p (q :: r :: rest) hw
    intro t ht
    obtain ⟨a, _, c⟩ := bw_delaunay_of_cavityDisc (pointFn p (q :: r :: rest)) env henv _ hsup hin hdisc t ht
    exact ⟨a, c⟩
end PublicEntry

/-- the executable form decides the remaining hypothesis (for the enumeration order `id`) -/
theorem cavityDisc_check_sound {R : Type} [CommRing R] [LinearOrder R] [IsStrictOrderedRing R]
    (P : Nat → Pt R) (n : Nat) (h : cavityDiscOk P n = true) : CavityDisc P id n := by
  intro k hk
  have h1 := (List.all_eq_true.mp h) k (List.mem_range.mpr hk)
  simp only [discOk, Bool.and_eq_true, List.all_eq_true, List.any_eq_true, beq_iff_eq, Bool.or_eq_true,
    Bool.not_eq_true', beq_eq_false_iff_ne, ne_eq] at h1
  obtain ⟨⟨⟨a, b⟩, c⟩, d⟩ := h1
  refine ⟨fun e he => ?_, fun e he => ?_, fun e he f hf hef => ?_, fun e he f hf hef => ?_⟩
  · obtain ⟨f, hf, hf1⟩ := a e he; exact ⟨f, hf, hf1⟩
  · obtain ⟨f, hf, hf1⟩ := b e he; exact ⟨f, hf, hf1⟩
  · rcases c e he f hf with h | h
    · exact absurd hef h
    · exact h
  · rcases d e he f hf with h | h
    · exact absurd hef h
    · exact h

/-- the hypotheses of `bw_delaunay_of_cavityDisc` are satisfiable: the 3-point instance `exP` (super-triangle strictly
    clockwise, inputs strictly inside it, every cavity a disc) -/
example : orient (exP 3) (exP 4) (exP 5) < 0 ∧ InputsInSuper exP 3 ∧ CavityDisc exP id 3 := by
  refine ⟨by decide, ?_, cavityDisc_check_sound exP 3 (by decide)⟩
  unfold InputsInSuper; decide

/-! ### the witness of the known finding C20-float-incircle-tight-cluster is in general position

Input (insertion order): (352,320), (432,−480), (−880,288), (0,0), (3,1)·2⁻⁴⁶, (1,4)·2⁻⁴⁶, (864,−32); below on the common
scale 2⁴⁶ (the predicates are homogeneous: `orient_smul`, `inCircleDet_smul`).  No three points are collinear and no four
cocircular, by the exact predicates — so the non-Delaunay, overlapping output of the float64 implementation on this input
(oracles `c20.holds.delaunay_tight_cluster_witness`, `c20.holds.no_overlap_tight_cluster_witness`) is not an artefact of
degeneracy. -/

def tightWitness : Fin 7 → Pt ℤ := fun i =>
  [((352 : ℤ) * 2 ^ 46, (320 : ℤ) * 2 ^ 46), (432 * 2 ^ 46, -480 * 2 ^ 46), (-880 * 2 ^ 46, 288 * 2 ^ 46),
   (0, 0), (3, 1), (1, 4), (864 * 2 ^ 46, -32 * 2 ^ 46)].getD i.val (0, 0)

example : ∀ i j k : Fin 7, i < j → j < k → orient (tightWitness i) (tightWitness j) (tightWitness k) ≠ 0 := by
  decide +kernel

example : ∀ i j k l : Fin 7, i < j → j < k → k < l →
    inCircleDet (tightWitness i) (tightWitness j) (tightWitness k) (tightWitness l) ≠ 0 := by
  decide +kernel

example : ∀ i j : Fin 7, i < j → tightWitness i ≠ tightWitness j := by decide +kernel

end C20
end PolyVerif
