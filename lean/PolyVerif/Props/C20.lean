/-
  C20 — 2-D triangulation is a consistently wound Delaunay triangulation of the input.
  Theorems about the model `PolyVerif/Model/Delaunay.lean` of
  /repo/modeling/triangulation/bowyer_watson.go.
-/
import PolyVerif.Model.Delaunay
import Mathlib.Tactic

namespace PolyVerif
namespace C20
open Delaunay

/-! ### checkers: vertices, indices, winding -/

/-- the vertex checker (run on raw float64 bit patterns) accepts exactly the list `(xᵢ, 0, yᵢ)` -/
theorem vertices_check_sound {α : Type} [Zero α] [BEq α] [LawfulBEq α]
    (pts : List (Pt α)) (out : List (α × α × α)) (h : verticesOk pts out = true) :
    out.length = pts.length ∧
      ∀ i (hi : i < pts.length) (ho : i < out.length), out[i] = ((pts[i]).1, 0, (pts[i]).2) := by
  have e : out = bwVertices pts := by simpa [verticesOk] using h
  subst e
  refine ⟨by simp [bwVertices], ?_⟩
  intro i hi ho
  simp [bwVertices]

example : verticesOk [((1 : Nat), 2), (3, 4)] [(1, 0, 2), (3, 0, 4)] = true := by decide

theorem indices_check_sound (n : Nat) (tris : List Tri) (h : indicesOk n tris = true) :
    ∀ t ∈ tris, t.1 < n ∧ t.2.1 < n ∧ t.2.2 < n := by
  intro t ht
  have := (List.all_eq_true.mp h) t ht
  simpa [Bool.and_eq_true, and_assoc] using this

example : indicesOk 3 [(0, 1, 2), (2, 1, 0)] = true := by decide

section Ring
variable {R : Type} [CommRing R] [LinearOrder R] [IsStrictOrderedRing R]

/-- winding checker: every triangle is strictly clockwise (one winding, non-zero area) -/
theorem winding_check_sound (P : Nat → Pt R) (tris : List Tri) (h : windingOk P tris = true) :
    ∀ t ∈ tris, orient (P t.1) (P t.2.1) (P t.2.2) < 0 := by
  intro t ht
  have := (List.all_eq_true.mp h) t ht
  simpa using this

example : windingOk (fun i => [((0 : ℤ), (0 : ℤ)), (0, 3), (4, 0)].getD i (0, 0)) [(0, 1, 2)] = true := by
  decide

end Ring

end C20
end PolyVerif
