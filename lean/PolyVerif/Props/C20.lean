/-
  C20 — 2-D triangulation is a consistently wound Delaunay triangulation of the input.
  Theorems about the model `PolyVerif/Model/Delaunay.lean` of
  /repo/modeling/triangulation/bowyer_watson.go.
-/
import PolyVerif.Model.Delaunay
import Mathlib.Tactic

set_option linter.unusedSectionVars false

namespace PolyVerif
namespace C20
open Delaunay

/-! ### checkers: vertices, indices, winding -/

/-- the vertex checker (run on raw float64 bit patterns) accepts exactly the list `(xᵢ, 0, yᵢ)` -/
theorem vertices_check_sound {α : Type} [Zero α] [BEq α] [LawfulBEq α]
    (pts : List (Pt α)) (out : List (α × α × α)) (h : verticesOk pts out = true) :
    out.length = pts.length ∧
      ∀ i (hi : i < pts.length) (ho : i < out.length), out[i] = ((pts[i]).1, 0, (pts[i]).2) := by
  have e : out = bwVertices pts := by simpa [verticesOk] using h
  subst e
  refine ⟨by simp [bwVertices], ?_⟩
  intro i hi ho
  simp [bwVertices]

example : verticesOk [((1 : Nat), 2), (3, 4)] [(1, 0, 2), (3, 0, 4)] = true := by decide

theorem indices_check_sound (n : Nat) (tris : List Tri) (h : indicesOk n tris = true) :
    ∀ t ∈ tris, t.1 < n ∧ t.2.1 < n ∧ t.2.2 < n := by
  intro t ht
  have := (List.all_eq_true.mp h) t ht
  simpa [Bool.and_eq_true, and_assoc] using this

example : indicesOk 3 [(0, 1, 2), (2, 1, 0)] = true := by decide

section Ring
variable {R : Type} [CommRing R] [LinearOrder R] [IsStrictOrderedRing R]

/-- winding checker: every triangle is strictly clockwise (one winding, non-zero area) -/
theorem winding_check_sound (P : Nat → Pt R) (tris : List Tri) (h : windingOk P tris = true) :
    ∀ t ∈ tris, orient (P t.1) (P t.2.1) (P t.2.2) < 0 := by
  intro t ht
  have := (List.all_eq_true.mp h) t ht
  simpa using this

example : windingOk (fun i => [((0 : ℤ), (0 : ℤ)), (0, 3), (4, 0)].getD i (0, 0)) [(0, 1, 2)] = true := by
  decide


/-! ### the in-circle determinant -/

/-- squared distance -/
def dist2 (o p : Pt R) : R := (p.1 - o.1) * (p.1 - o.1) + (p.2 - o.2) * (p.2 - o.2)

omit [LinearOrder R] [IsStrictOrderedRing R] in
/-- The Go determinant, for ANY candidate centre `o` and squared radius `r`: the lifted-paraboloid
    expansion.  When `a b c` lie on the circle `(o, r)` only the first term survives. -/
theorem inCircleDet_eq (a b c p o : Pt R) (r : R) :
    inCircleDet a b c p =
      (r - dist2 o p) * orient a b c - (r - dist2 o a) * orient b c p
      + (r - dist2 o b) * orient a c p - (r - dist2 o c) * orient a b p := by
  simp only [inCircleDet, orient, dist2]; ring

omit [LinearOrder R] [IsStrictOrderedRing R] in
/-- det = orient · (r² − |p − o|²) for the circle through `a b c` -/
theorem inCircleDet_on_circle (a b c p o : Pt R) (r : R)
    (ha : dist2 o a = r) (hb : dist2 o b = r) (hc : dist2 o c = r) :
    inCircleDet a b c p = (r - dist2 o p) * orient a b c := by
  rw [inCircleDet_eq a b c p o r, ha, hb, hc]; ring

example : inCircleDet ((0 : ℤ), (0 : ℤ)) (0, 2) (2, 0) (1, 1) = (2 - dist2 (1, 1) (1, 1)) * orient ((0 : ℤ), (0 : ℤ)) (0, 2) (2, 0) :=
  inCircleDet_on_circle _ _ _ _ (1, 1) 2 (by decide) (by decide) (by decide)

omit [LinearOrder R] [IsStrictOrderedRing R] in
/-- homogeneity: scaling all coordinates by `s` scales `orient` by `s²` (the driver evaluates the
    checkers on integers `2^E · x`) -/
theorem orient_smul (s : R) (a b c : Pt R) :
    orient (s * a.1, s * a.2) (s * b.1, s * b.2) (s * c.1, s * c.2) = s ^ 2 * orient a b c := by
  simp only [orient]; ring

omit [LinearOrder R] [IsStrictOrderedRing R] in
theorem inCircleDet_smul (s : R) (a b c p : Pt R) :
    inCircleDet (s * a.1, s * a.2) (s * b.1, s * b.2) (s * c.1, s * c.2) (s * p.1, s * p.2)
      = s ^ 4 * inCircleDet a b c p := by
  simp only [inCircleDet]; ring

/-- `p` lies strictly inside the circle through `a b c`: some centre `o` and squared radius `r` with
    `|a-o|² = |b-o|² = |c-o|² = r` and `|p-o|² < r`. -/
def StrictlyInsideCircumcircle (a b c p : Pt R) : Prop :=
  ∃ (o : Pt R) (r : R), dist2 o a = r ∧ dist2 o b = r ∧ dist2 o c = r ∧ dist2 o p < r

/-- soundness direction (any ordered commutative ring): clockwise triangle, `p` strictly inside ⇒ `det < 0` -/
theorem inCircle_neg_of_inside (a b c p : Pt R) (hcw : orient a b c < 0)
    (h : StrictlyInsideCircumcircle a b c p) : inCircleDet a b c p < 0 := by
  obtain ⟨o, r, ha, hb, hc, hp⟩ := h
  rw [inCircleDet_on_circle a b c p o r ha hb hc]
  exact mul_neg_of_pos_of_neg (by linarith) hcw


/-! ### the Delaunay checker -/

theorem delaunay_check_raw (P : Nat → Pt R) (n : Nat) (tris : List Tri) (h : delaunayOk P n tris = true) :
    ∀ t ∈ tris, ∀ i < n, ¬ inCircleDet (P t.1) (P t.2.1) (P t.2.2) (P i) < 0 := by
  intro t ht i hi
  have h1 := (List.all_eq_true.mp h) t ht
  have h2 := (List.all_eq_true.mp h1) i (List.mem_range.mpr hi)
  simpa [insideCirc] using h2

/-- **delaunay_check_sound**: if the winding checker and the all-pairs Delaunay checker accept, no
    circumcircle of an output triangle strictly contains an input point -/
theorem delaunay_check_sound (P : Nat → Pt R) (n : Nat) (tris : List Tri)
    (hw : windingOk P tris = true) (hd : delaunayOk P n tris = true) :
    ∀ t ∈ tris, ∀ i < n, ¬ StrictlyInsideCircumcircle (P t.1) (P t.2.1) (P t.2.2) (P i) := by
  intro t ht i hi hin
  exact delaunay_check_raw P n tris hd t ht i hi
    (inCircle_neg_of_inside _ _ _ _ (winding_check_sound P tris hw t ht) hin)

example : let P : Nat → Pt ℤ := fun i => [((0 : ℤ), (0 : ℤ)), (0, 3), (4, 0), (5, 5)].getD i (0, 0)
    windingOk P [(0, 1, 2)] = true ∧ delaunayOk P 4 [(0, 1, 2)] = true := by decide

/-! ### the overlap checker -/

/-- `q` is strictly inside the clockwise triangle `t`: strictly on the inner side of its three edges -/
def StrictlyInside (P : Nat → Pt R) (t : Tri) (q : Pt R) : Prop :=
  orient (P t.1) (P t.2.1) q < 0 ∧ orient (P t.2.1) (P t.2.2) q < 0 ∧ orient (P t.2.2) (P t.1) q < 0

/-- if the three vertices of `u` are on the closed outer side of the line `a b`, so is every point
    strictly inside `u` (`orient a b ·` is affine; barycentric identity) -/
theorem sep_key (a b u1 u2 u3 q : Pt R)
    (h1 : ¬ orient a b u1 < 0) (h2 : ¬ orient a b u2 < 0) (h3 : ¬ orient a b u3 < 0)
    (q1 : orient u1 u2 q < 0) (q2 : orient u2 u3 q < 0) (q3 : orient u3 u1 q < 0) :
    ¬ orient a b q < 0 := by
  intro hq
  have key : (orient u1 u2 q + orient u2 u3 q + orient u3 u1 q) * orient a b q =
      orient u2 u3 q * orient a b u1 + orient u3 u1 q * orient a b u2 + orient u1 u2 q * orient a b u3 := by
    simp only [orient]; ring
  push Not at h1 h2 h3
  have l : 0 < (orient u1 u2 q + orient u2 u3 q + orient u3 u1 q) * orient a b q :=
    mul_pos_of_neg_of_neg (by linarith) hq
  have r1 := mul_nonpos_of_nonpos_of_nonneg q2.le h1
  have r2 := mul_nonpos_of_nonpos_of_nonneg q3.le h2
  have r3 := mul_nonpos_of_nonpos_of_nonneg q1.le h3
  linarith

theorem sepEdge_sound (P : Nat → Pt R) (t u : Tri) (h : sepEdge P t u = true) (q : Pt R)
    (ht : StrictlyInside P t q) (hu : StrictlyInside P u q) : False := by
  obtain ⟨e, he, hs⟩ := List.any_eq_true.mp h
  simp only [Bool.and_eq_true, Bool.not_eq_true', decide_eq_false_iff_not] at hs
  obtain ⟨⟨s1, s2⟩, s3⟩ := hs
  have := sep_key (P e.1) (P e.2) (P u.1) (P u.2.1) (P u.2.2) q s1 s2 s3 hu.1 hu.2.1 hu.2.2
  simp only [edges, List.mem_cons, List.not_mem_nil, or_false] at he
  rcases he with rfl | rfl | rfl
  · exact this ht.1
  · exact this ht.2.1
  · exact this ht.2.2

/-- two triangles overlap: they have a common strictly interior point -/
def Overlap (P : Nat → Pt R) (t u : Tri) : Prop := ∃ q : Pt R, StrictlyInside P t q ∧ StrictlyInside P u q

/-- **overlap_check_sound**: if the separating-edge checker accepts, no two triangles of the list
    (at different positions) have a common strictly interior point -/
theorem overlap_check_sound (P : Nat → Pt R) (tris : List Tri) (h : noOverlapOk P tris = true) :
    tris.Pairwise (fun t u => ¬ Overlap P t u) := by
  induction tris with
  | nil => exact List.Pairwise.nil
  | cons t ts ih =>
    simp only [noOverlapOk, Bool.and_eq_true] at h
    refine List.Pairwise.cons ?_ (ih h.2)
    intro u hu ⟨q, hqt, hqu⟩
    have := (List.all_eq_true.mp h.1) u hu
    simp only [sepOk, Bool.or_eq_true] at this
    rcases this with h1 | h1
    · exact sepEdge_sound P t u h1 q hqt hqu
    · exact sepEdge_sound P u t h1 q hqu hqt

example : let P : Nat → Pt ℤ := fun i => [((0 : ℤ), (0 : ℤ)), (0, 3), (4, 0), (5, 5)].getD i (0, 0)
    noOverlapOk P [(0, 1, 2), (1, 3, 2)] = true := by decide

end Ring

section Field
variable {K : Type} [Field K] [LinearOrder K] [IsStrictOrderedRing K]

omit [LinearOrder K] [IsStrictOrderedRing K] in
private theorem cc_aux (a1 a2 b1 b2 c1 c2 d : K)
    (hd : d = 2 * ((b1 - a1) * (c2 - a2) - (c1 - a1) * (b2 - a2))) (h : d ≠ 0) :
    let bx := b1 - a1; let by' := b2 - a2; let cx := c1 - a1; let cy := c2 - a2
    let ox := a1 + (cy * (bx * bx + by' * by') - by' * (cx * cx + cy * cy)) / d
    let oy := a2 + (bx * (cx * cx + cy * cy) - cx * (bx * bx + by' * by')) / d
    (b1 - ox) * (b1 - ox) + (b2 - oy) * (b2 - oy) = (a1 - ox) * (a1 - ox) + (a2 - oy) * (a2 - oy) ∧
    (c1 - ox) * (c1 - ox) + (c2 - oy) * (c2 - oy) = (a1 - ox) * (a1 - ox) + (a2 - oy) * (a2 - oy) := by
  intro bx by' cx cy ox oy
  simp only [ox, oy, bx, by', cx, cy]
  constructor <;> (field_simp; rw [hd]; ring)

/-- a non-degenerate triangle has a circumcentre (closed form, denominator `2·orient`) -/
theorem circumcentre_exists (a b c : Pt K) (h : orient a b c ≠ 0) :
    ∃ o : Pt K, dist2 o b = dist2 o a ∧ dist2 o c = dist2 o a := by
  obtain ⟨a1, a2⟩ := a; obtain ⟨b1, b2⟩ := b; obtain ⟨c1, c2⟩ := c
  have h2 : (2 : K) * ((b1 - a1) * (c2 - a2) - (c1 - a1) * (b2 - a2)) ≠ 0 := mul_ne_zero two_ne_zero h
  have := cc_aux a1 a2 b1 b2 c1 c2 _ rfl h2
  exact ⟨(_, _), this.1, this.2⟩

/-- **inCircle_iff**: for a clockwise triangle the Go determinant is negative exactly when the point is
    strictly inside the circumcircle -/
theorem inCircle_iff (a b c p : Pt K) (hcw : orient a b c < 0) :
    inCircleDet a b c p < 0 ↔ StrictlyInsideCircumcircle a b c p := by
  constructor
  · intro hd
    obtain ⟨o, hb, hc⟩ := circumcentre_exists a b c hcw.ne
    refine ⟨o, dist2 o a, rfl, hb, hc, ?_⟩
    rw [inCircleDet_on_circle a b c p o (dist2 o a) rfl hb hc] at hd
    by_contra hn
    push Not at hn
    have : 0 ≤ (dist2 o a - dist2 o p) * orient a b c :=
      mul_nonneg_of_nonpos_of_nonpos (by linarith) hcw.le
    linarith
  · exact inCircle_neg_of_inside a b c p hcw

example : orient ((0 : ℚ), (0 : ℚ)) (0, 2) (2, 0) < 0 := by norm_num [orient]

end Field

end C20
end PolyVerif
