/-
  C18 (round 2) — the NODE WRAPPERS of the solid primitives inside the regenerated model.

  `UvSphereNode`, `HemisphereNode`, `CylinderNode`, `CubeNode` are how the primitives are reached from a node graph:
  every input port is optional; `Process()` substitutes defaults, clamps (UV sphere only) and calls one constructor.
  Engine F (`go/facts c18.nodes`) regenerates each `Process` body from sphere.go / hemisphere.go / cylinder.go / cube.go on
  every run as a program of `Model/NodeIR.lean` (`Gen/PrimNodes.lean`); here the hand model `Model/SolidsNodes.lean` (the
  one the driver answers the `c18.node.*` correspondence lines from) is PROVED equal to the interpretation of the
  regenerated program for EVERY assignment of the ports and every scalar type, and the consequences for C18 are drawn:
  the UV-sphere node can never reach the constructors' panics and always yields a closed, face-connected surface; the
  defaults of the other nodes are admissible.
-/
import PolyVerif.Props.C18Connected
import PolyVerif.Model.SolidsNodes
import PolyVerif.Gen.PrimNodes

namespace PolyVerif
namespace C18
open Solids NodeIR

section
variable {α : Type} [Scalar α]

/-- `UvSphereNodeData.Process` (sphere.go): defaults `.5, 10, 10, true`, `rows = max(rows, 2)`, `columns = max(columns, 3)`,
    `UVSphere` when welded else `UVSphereUnwelded` — the extracted program computes exactly the model, ∀ ports -/
theorem uvSphereNode_from_source (i : UvSphereNodeIn α) :
    run Gen.PrimNodes.uvSphereNode (uvSphereNodePorts i) = some (uvSphereNodeCall i) := by
  obtain ⟨r, ro, c, w⟩ := i
  cases r <;> cases ro <;> cases c <;> cases w <;> first | rfl | (rename_i b; cases b <;> rfl)

/-- `HemisphereNodeData.Process` (hemisphere.go): defaults `0.5, true, 20, 20`, no clamp, `Hemisphere{..}.UV(rows, columns)` -/
theorem hemisphereNode_from_source (i : HemisphereNodeIn α) :
    run Gen.PrimNodes.hemisphereNode (hemisphereNodePorts i) = some (hemisphereNodeCall i) := by
  obtain ⟨ro, c, r, cp⟩ := i
  cases r <;> cases ro <;> cases c <;> cases cp <;> rfl

/-- `CylinderNodeData.Process` (cylinder.go): defaults `0.5, 1., true, true, 20`, `NoTop: !top`, `NoBottom: !bottom` -/
theorem cylinderNode_from_source (i : CylinderNodeIn α) :
    run Gen.PrimNodes.cylinderNode (cylinderNodePorts i) = some (cylinderNodeCall i) := by
  obtain ⟨s, h, r, t, b⟩ := i
  cases s <;> cases h <;> cases r <;> cases t <;> cases b <;> rfl

/-- `CubeNodeData.Process` (cube.go): defaults `1, 1, 1`, each port overrides ITS OWN field, `cube.UnweldedQuads()` -/
theorem cubeNode_from_source (i : CubeNodeIn α) :
    run Gen.PrimNodes.cubeNode (cubeNodePorts i) = some (cubeNodeCall i) := by
  obtain ⟨w, h, d⟩ := i
  cases w <;> cases h <;> cases d <;> rfl

omit [Scalar α] in
/-- **the UV-sphere node never reaches the constructors' panics**: whatever is connected (negative counts included), the
    row / column counts it passes on are naturals `R ≥ 2`, `C ≥ 3` — and so its index buffer is a closed, consistently
    oriented, face-connected surface (welded: literally; unwelded: modulo the copy map) -/
theorem uvSphereNode_always_solid (i : UvSphereNodeIn α) :
    ∃ R C : Nat, uvSphereNodeRows i = (R : Int) ∧ uvSphereNodeCols i = (C : Int) ∧ uvAdmissible R C = true ∧
      Closed (uvSphereTris R C) ∧ FaceConnected (uvSphereTris R C) ∧
      ClosedMod (uvUnweldedSrc R C) (uvSphereUnweldedTris R C) ∧
      FaceConnectedMod (uvUnweldedSrc R C) (uvSphereUnweldedTris R C) := by
  have h2 : 2 ≤ uvSphereNodeRows i := by unfold uvSphereNodeRows; omega
  have h3 : 3 ≤ uvSphereNodeCols i := by unfold uvSphereNodeCols; omega
  refine ⟨(uvSphereNodeRows i).toNat, (uvSphereNodeCols i).toNat, by omega, by omega, ?_⟩
  have hR : 2 ≤ (uvSphereNodeRows i).toNat := by omega
  have hC : 3 ≤ (uvSphereNodeCols i).toNat := by omega
  refine ⟨by simp [uvAdmissible, hR, hC], uvSphere_closed hR hC, uvSphere_faceConnected hR hC,
    uvSphereUnwelded_closed_mod_merge hR hC, uvSphereUnwelded_faceConnected_mod_merge hR hC⟩
end

/-- the unconnected nodes call their constructors on admissible parameters: hemisphere 20 × 20, cylinder 20 sides with
    both caps (`NoTop = NoBottom = false`), UV sphere 10 × 10 welded, unit box -/
theorem node_defaults_admissible :
    (∀ {α : Type} [Scalar α], ∃ r : α, (hemisphereNodeCall (α := α) ⟨none, none, none, none⟩).args = [.int 20, .int 20] ∧
      (hemisphereNodeCall (α := α) ⟨none, none, none, none⟩).recv = [("Radius", .flt r), ("Capped", .bool true)]) ∧
    uvAdmissible 20 20 = true ∧
    (∀ {α : Type} [Scalar α], ∃ r h : α, (cylinderNodeCall (α := α) ⟨none, none, none, none, none⟩).recv =
      [("Radius", .flt r), ("Height", .flt h), ("Sides", .int 20), ("NoTop", .bool false), ("NoBottom", .bool false)]) ∧
    cylinderAdmissible 20 false false = true ∧
    (∀ {α : Type} [Scalar α], uvSphereNodeRows (α := α) ⟨none, none, none, none⟩ = 10 ∧
      uvSphereNodeCols (α := α) ⟨none, none, none, none⟩ = 10 ∧ uvSphereNodeWeld (α := α) ⟨none, none, none, none⟩ = true) := by
  refine ⟨fun {α} _ => ⟨_, rfl, rfl⟩, by decide, fun {α} _ => ⟨_, _, rfl⟩, by decide, fun {α} _ => ⟨?_, ?_, rfl⟩⟩
  · simp [uvSphereNodeRows]
  · simp [uvSphereNodeCols]

/-! non-vacuity: a connected port below the minimum is clamped; a connected hemisphere port is passed through -/
example : uvSphereNodeRows (α := Float) ⟨none, some (-7), some 1, some false⟩ = 2 := by decide
example : uvSphereNodeCols (α := Float) ⟨none, some (-7), some 1, some false⟩ = 3 := by decide
example : (uvSphereNodeCall (α := Float) ⟨none, some 5, some 1, some false⟩).fn = "UVSphereUnwelded" := rfl

end C18
end PolyVerif
