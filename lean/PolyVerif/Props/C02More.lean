/-
  C02, round 2 — well-formedness is preserved by the operations that had the WF oracle only:
  `ScaleAttributeAlongNormal`, `ScaleAttribute2D`, `NormalizeAttribute2D`, `CopyFloatNAttribute` (under exactly the
  guard it needs — it is `SetFloatNAttribute` with the source's array, delete-on-missing included).
  Models: `Model/MeshMore.lean`; the drivers answer `c02.op.{scalealongnormal,scale2d,normalize2d,copyattr}` through
  these very definitions (result shape, rejection must coincide) and `c02.holds.wf` is evaluated on every result.
-/
import PolyVerif.Props.C02
import PolyVerif.Model.MeshMore

namespace PolyVerif.C02
open PolyVerif PolyVerif.Gen PolyVerif.Mesh PolyVerif.Mesh.MeshVal

variable {α : Type} {s : Type} [Scalar s]

/-- `ScaleAttributeAlongNormal` on a well-formed mesh returns a well-formed mesh (one value per vertex is written) -/
theorem scaleAlongNormal_wf {m m' : MeshVal (List s)} (h : WF m) {a n : String} {amount : s}
    (hm : m.scaleAlongNormal a n amount = some m') : WF m' := by
  unfold scaleAlongNormal at hm
  split at hm
  · rename_i pd nd hp hn
    split at hm
    · cases hm
    · cases hm
      have h1 : pd.length = m.attrLen := h.1 _ (Attrs.find?_mem hp)
      have h2 : nd.length = m.attrLen := h.1 _ (Attrs.find?_mem hn)
      exact MeshVal.setAttr_wf h _ _ (Or.inl (by simp [h1, h2]))
  · cases hm

/-- non-vacuity: the operation succeeds on a well-formed cloud with both attributes -/
example : ∃ m', (⟨.point, [0, 1], [], [(⟨3, "Position"⟩, [[1, 2, 3], [4, 5, 6]]), (⟨3, "Normal"⟩, [[0, 0, 1], [1, 0, 0]])]⟩ :
    MeshVal (List Float)).scaleAlongNormal "Position" "Normal" 0.5 = some m' := ⟨_, rfl⟩

/-- `ScaleAttributeAlongNormalNodeData.Process` never fails on a well-formed (or absent) input and always returns a
    well-formed mesh: the empty triangle mesh when something is missing, the offset mesh otherwise. -/
theorem scaleAlongNormalNode_total (m : Option (MeshVal (List s))) (h : ∀ x, m = some x → WF x)
    (attr nrm : Option String) (amount : Option s) :
    ∃ m', MeshVal.scaleAlongNormalNode m attr nrm amount = some m' ∧ WF m' := by
  have hE : WF (MeshVal.empty .triangle : MeshVal (List s)) := by
    refine ⟨by simp [MeshVal.empty], by simp [MeshVal.empty], ?_⟩
    simp [MeshVal.empty, Topology.Fits]
  cases m with
  | none => exact ⟨_, rfl, hE⟩
  | some x =>
    have hx := h x rfl
    simp only [MeshVal.scaleAlongNormalNode]
    generalize attr.getD "Position" = a
    generalize nrm.getD "Normal" = n
    generalize amount.getD ((0 : Nat) : s) = amt
    cases h1 : x.hasAttr ⟨3, a⟩
    · exact ⟨_, by simp, hE⟩
    · cases h2 : x.hasAttr ⟨3, n⟩
      · exact ⟨_, by simp, hE⟩
      · simp only [Bool.not_true, Bool.false_eq_true, if_false]
        cases hr : x.scaleAlongNormal a n amt with
        | some m' => exact ⟨m', rfl, scaleAlongNormal_wf hx hr⟩
        | none =>
          exfalso
          simp only [hasAttr] at h1 h2
          unfold scaleAlongNormal at hr
          split at hr
          · rename_i pd nd hp hn
            have e1 : pd.length = x.attrLen := hx.1 _ (Attrs.find?_mem hp)
            have e2 : nd.length = x.attrLen := hx.1 _ (Attrs.find?_mem hn)
            split at hr
            · omega
            · cases hr
          · rename_i hno
            simp only [attr?] at hno
            cases hp : x.attrs.find? ⟨3, a⟩ with
            | none => simp [hp] at h1
            | some pd =>
              cases hn : x.attrs.find? ⟨3, n⟩ with
              | none => simp [hn] at h2
              | some nd => exact hno pd nd hp hn

/-- `CropAttribute3DNodeData.Process`: well-formed in ⇒ well-formed out (with or without a box) -/
theorem cropNode_wf {m m' : MeshVal α} (h : WF m) {attr : Option String} {inside : Option (α → Bool)}
    (hm : m.cropNode attr inside = some m') : WF m' := by
  cases inside with
  | none => cases hm; exact h
  | some p => exact crop_wf h hm

/-- the thin node wrappers of translate / rotate / scale: WF in ⇒ WF out (rotate: also without a mesh input) -/
theorem thinNodes_wf {m m' : MeshVal (List s)} (h : WF m) (attr : Option String) :
    (∀ t, m.translateNode attr t = some m' → WF m') ∧
    (∀ q, MeshVal.rotateNode (some m) attr q = some m' → WF m') ∧
    (∀ q, MeshVal.rotateNode (none : Option (MeshVal (List s))) attr q = some m' → WF m') ∧
    (∀ o a, m.scaleNode attr o a = some m' → WF m') := by
  refine ⟨fun t hm => MeshVal.mapAttr_wf h hm, fun q hm => MeshVal.mapAttr_wf h hm, ?_, fun o a hm => MeshVal.mapAttr_wf h hm⟩
  intro q hm
  cases hm
  exact ⟨by simp [MeshVal.empty], by simp [MeshVal.empty], by simp [MeshVal.empty, Topology.Fits]⟩

/-- `VertexColorSpace` and its Transformer (any transfer functions, any enum value, skip flag) -/
theorem vertexColorSpace_wf {g0 g1 : s → s} {m m' : MeshVal (List s)} (h : WF m) {n : String} {mode : Nat} :
    (m.vertexColorSpace g0 g1 n mode = some m' → WF m') ∧
    (∀ skip, m.vertexColorSpaceT g0 g1 n skip mode = some m' → WF m') := by
  refine ⟨fun hm => MeshVal.mapAttr_wf h hm, fun skip hm => ?_⟩
  unfold vertexColorSpaceT at hm
  split at hm
  · exact MeshVal.mapAttr_wf h hm
  · split at hm
    · cases hm; exact h
    · cases hm

/-- `ScaleAttribute2D` -/
theorem scale2D_wf {m m' : MeshVal (List s)} (h : WF m) {n : String} {o a : V2 s}
    (hm : m.scale2D n o a = some m') : WF m' := MeshVal.mapAttr_wf h hm

/-- `NormalizeAttribute2D` -/
theorem normalize2D_wf {m m' : MeshVal (List s)} (h : WF m) {init : s} {mx : s → s → s} {n : String}
    (hm : MeshVal.normalize2D init mx m n = some m') : WF m' :=
  MeshVal.modifyAttr_wf h (fun d => by simp) hm

/-- `CopyFloatNAttribute(src, k)` with a non-empty source array of the receiver's vertex count (or onto a mesh without
    attributes): well-formed.  Go does not check this — a caller-checked builder like `SetFloatNAttribute`. -/
theorem copyAttr_wf {m src : MeshVal α} (h : WF m) {k : AttrKey} {d : List α} (hd : src.attr? k = some d)
    (hl : d.length = m.attrLen ∨ m.attrs = []) : WF (m.copyAttr src k) := by
  unfold copyAttr; rw [hd]; exact MeshVal.setAttr_wf h k d hl

/-- copying a key the source does not have DELETES it in the receiver: well-formed when another array remains or
    there is no index (the guard of `setAttr_delete_wf`) -/
theorem copyAttr_missing_wf {m src : MeshVal α} (h : WF m) {k : AttrKey} (hd : src.attr? k = none)
    (hk : (∃ kd ∈ m.attrs, kd.1 ≠ k) ∨ m.indices = []) : WF (m.copyAttr src k) := by
  unfold copyAttr; rw [hd]; exact MeshVal.setAttr_delete_wf h k hk

example : WF (sample.copyAttr sample ⟨1, "Class"⟩) ∧ WF (sample.copyAttr (MeshVal.empty .point) ⟨1, "Class"⟩) ∧
    ¬ WF ((⟨.point, [0], [], [(⟨1, "A"⟩, [5])]⟩ : MeshVal Nat).copyAttr (MeshVal.empty .point) ⟨1, "A"⟩) := by decide

end PolyVerif.C02
