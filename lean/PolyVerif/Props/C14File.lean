/-
  C14, PLY from the FILE BYTES: the header text parser of b-ply (`Ply.parseHeader`, proved in
  Props/C04Header.lean: `ply_header_text_roundtrip`, `ply_header_cut_bytes`) composed with the body theorems of
  Props/C14.lean through the bridge `PlyFile.hdrOf`.  The parsed header is no longer a parameter: it is
  computed from the bytes.

  Outside (b-ply's `ClaimOK` / `buildAll`): which PropertyReader claims which vertex property and what a vertex
  record means as mesh attributes.  The records are kept raw here.
-/
import PolyVerif.Props.C14
import PolyVerif.Props.C04Header
import PolyVerif.Model.PlyFile

namespace PolyVerif
namespace C14
open Readers PlyFile
open Ply (Header parseHeader)
open PlyHeader (HeaderOK)

/-! ### the bridge on writer-shaped headers -/

/-- all properties scalar: record size = sum of the sizes -/
theorem vsizeOf_scalars (ps : List (Ply.Bytes × Ply.SType)) :
    vsizeOf (ps.map fun p => Ply.PProp.scalar p.1 p.2) = some (ps.map fun p => p.2.size).sum := by
  induction ps with
  | nil => rfl
  | cons p ps ih => simp only [List.map_cons, vsizeOf, ih, Option.map_some, List.sum_cons]; congr 1; omega

/-- all properties lists: count-field and entry sizes in order -/
theorem listsOf_lists (ps : List (Ply.Bytes × Ply.SType × Ply.SType)) :
    listsOf (ps.map fun p => Ply.PProp.list p.1 p.2.1 p.2.2) =
      some (ps.map fun p => ⟨countSizeOf p.2.1, p.2.2.size⟩) := by
  induction ps with
  | nil => rfl
  | cons p ps ih => simp only [List.map_cons, listsOf, ih, Option.map_some]

/-- a header with one vertex element (scalar properties) and no face element: a point cloud -/
theorem hdrOf_vertex_only (fmt : Ply.Format) (n : Int) (ps : List (Ply.Bytes × Ply.SType)) (cs : List Ply.Bytes) :
    hdrOf ⟨fmt, [⟨Ply.nm "vertex", n, ps.map fun p => .scalar p.1 p.2⟩], cs, []⟩ =
      some ⟨fmtOf fmt, n.toNat, (ps.map fun p => p.2.size).sum, ps.length, none⟩ := by
  have hv : lastElement (Ply.nm "vertex") [⟨Ply.nm "vertex", n, ps.map fun p => Ply.PProp.scalar p.1 p.2⟩] =
      some ⟨Ply.nm "vertex", n, ps.map fun p => .scalar p.1 p.2⟩ := by simp [lastElement]
  have hf : lastElement (Ply.nm "face") [⟨Ply.nm "vertex", n, ps.map fun p => Ply.PProp.scalar p.1 p.2⟩] = none := by
    have : ¬ (Ply.nm "vertex" = Ply.nm "face") := by decide
    simp [lastElement, this]
  simp only [hdrOf, hv, hf, vsizeOf_scalars, List.length_map]

/-- the header the writer prints for a mesh: vertex element, then the face element with the index list and
    optionally the texcoord list (uchar counts) -/
theorem hdrOf_vertex_face (fmt : Ply.Format) (n m : Int) (ps : List (Ply.Bytes × Ply.SType)) (cs : List Ply.Bytes)
    (tex : Bool) :
    hdrOf ⟨fmt, [⟨Ply.nm "vertex", n, ps.map fun p => .scalar p.1 p.2⟩,
                 ⟨Ply.nm "face", m, .list (Ply.nm "vertex_indices") .uchar .int ::
                    (if tex then [.list (Ply.nm "texcoord") .uchar .float] else [])⟩], cs, []⟩ =
      some ⟨fmtOf fmt, n.toNat, (ps.map fun p => p.2.size).sum, ps.length,
        some ⟨m.toNat, ⟨1, 4⟩ :: (if tex then [⟨1, 4⟩] else []), 0, if tex then some 1 else none⟩⟩ := by
  have hvf : ¬ (Ply.nm "vertex" = Ply.nm "face") := by decide
  have hfv : ¬ (Ply.nm "face" = Ply.nm "vertex") := by decide
  have t1 : ¬ (Ply.nm "texcoord" = Ply.nm "vertex_index") := by decide
  have t2 : ¬ (Ply.nm "texcoord" = Ply.nm "vertex_indices") := by decide
  have t3 : ¬ (Ply.nm "vertex_indices" = Ply.nm "texcoord") := by decide
  cases tex <;>
    simp [hdrOf, lastElement, hvf, hfv, t1, t2, t3, vsizeOf_scalars, faceOf, listsOf, lastIdx, isIndexProp, isTexProp,
      countSizeOf, Ply.SType.size, Ply.PProp.name]

/-! ### binary PLY from the file bytes -/

theorem readPlyFile_of_header (L : Lex) (h : Header) (hok : HeaderOK h) (body : List UInt8) :
    readPlyFile L (h.render ++ body) = readAfterHeader L h body := by
  simp only [readPlyFile, C04.ply_header_text_roundtrip h hok body]

/-- a cut inside the header text: `ReadHeader` fails (b-ply's `ply_header_cut_bytes`), so does the whole read -/
theorem ply_file_header_cut (L : Lex) (h : Header) (hok : HeaderOK h) (body : List UInt8) (k : Nat)
    (hk : k < h.render.length) :
    readPlyFile L ((h.render ++ body).take k) = .error (.header .err) := by
  have e : (h.render ++ body).take k = h.render.take k := by
    rw [List.take_append_of_le_length (by omega)]
  have := C04.ply_header_cut_bytes h hok (h.render.take k) (h.render.drop k) (List.take_append_drop k _)
    (by intro hnil; have := congrArg List.length hnil; simp at this; omega)
  simp only [readPlyFile, e, this]

/-- **binary PLY, whole file from its bytes**: `file = Header.Write h ++ body`, the header any `HeaderOK` header
    whose bridge `hdrOf h = hd` is a binary format, the body a valid body for `hd` (`BinFile.ok`: `vcount`
    records of `vsize` bytes, then `count` face records in the reference encoding).  The complete file is read
    back as its records … -/
theorem ply_file_binary_full (L : Lex) (h : Header) (hok : HeaderOK h) (hd : Hdr) (hb : hdrOf h = some hd)
    (be : Bool) (hfmt : hd.fmt = if be then .be else .le) (x : BinFile) (hx : x.ok hd) :
    readPlyFile L (h.render ++ x.body be hd) = .ok (.bin (x.mesh be hd)) := by
  rw [readPlyFile_of_header L h hok]
  cases be <;> simp only [readAfterHeader, hb, hfmt, ply_binary_body_full _ hd x hx] <;> rfl

/-- … and EVERY strict prefix of the file — cut anywhere in the header text, at `end_header`, or anywhere in the
    body — is rejected -/
theorem ply_file_binary_prefix_rejected (L : Lex) (h : Header) (hok : HeaderOK h) (hd : Hdr)
    (hb : hdrOf h = some hd) (be : Bool) (hfmt : hd.fmt = if be then .be else .le) (x : BinFile) (hx : x.ok hd)
    (k : Nat) (hk : k < (h.render ++ x.body be hd).length) :
    ∃ e, readPlyFile L ((h.render ++ x.body be hd).take k) = .error e := by
  by_cases hkh : k < h.render.length
  · exact ⟨_, ply_file_header_cut L h hok _ k hkh⟩
  · rw [List.take_append, List.take_of_length_le (by omega), readPlyFile_of_header L h hok]
    obtain ⟨e, he⟩ := ply_binary_body_cut be hd x hx (k - h.render.length)
      (by simp only [List.length_append] at hk; omega)
    cases be <;> simp only [readAfterHeader, hb, hfmt, he] <;> exact ⟨_, rfl⟩

/-- no placeholder: an ok on ANY prefix of the file is the decode of the complete file -/
theorem no_placeholder_ply_file_binary (L : Lex) (h : Header) (hok : HeaderOK h) (hd : Hdr)
    (hb : hdrOf h = some hd) (be : Bool) (hfmt : hd.fmt = if be then .be else .le) (x : BinFile) (hx : x.ok hd)
    (k : Nat) (m : PlyMesh) (hm : readPlyFile L ((h.render ++ x.body be hd).take k) = .ok m) :
    m = .bin (x.mesh be hd) ∧ readPlyFile L (h.render ++ x.body be hd) = .ok m := by
  by_cases hk : k < (h.render ++ x.body be hd).length
  · obtain ⟨e, he⟩ := ply_file_binary_prefix_rejected L h hok hd hb be hfmt x hx k hk
    rw [he] at hm; cases hm
  · rw [List.take_of_length_le (by omega)] at hm
    have hf := ply_file_binary_full L h hok hd hb be hfmt x hx
    rw [hf] at hm; cases hm
    exact ⟨rfl, hf⟩

/-! ### ASCII PLY from the file bytes (body text as the writer prints it) -/

/-- the complete ASCII file, with or without its final line feed, is read back as its lines -/
theorem ply_file_ascii_full (L : Lex) (h : Header) (hok : HeaderOK h) (hd : Hdr) (hb : hdrOf h = some hd)
    (hfmt : hd.fmt = .ascii) (init : List (List Tok)) (last : List Tok)
    (hclean : ∀ ts ∈ init ++ [last], ∀ t ∈ ts, CleanTok t) (hlast : last ≠ [])
    (vls fls : List (List Tok)) (hsplit : init ++ [last] = vls ++ fls)
    (hx : AsciiOk L hd (vls.map mkLine) (fls.map mkLine)) :
    readPlyFile L (h.render ++ renderLines (init ++ [last])) =
        .ok (.ascii (asciiMesh L hd (vls.map mkLine) (fls.map mkLine))) ∧
    readPlyFile L (h.render ++ (renderLines init ++ joinSp last)) =
        .ok (.ascii (asciiMesh L hd (vls.map mkLine) (fls.map mkLine))) := by
  obtain ⟨h1, h2⟩ := ply_ascii_bytes_complete init last hclean hlast
  have hfull := ply_ascii_full L hd (vls.map mkLine) (fls.map mkLine) hx
  rw [← List.map_append, ← hsplit] at hfull
  constructor
  · rw [readPlyFile_of_header L h hok]; simp only [readAfterHeader, hb, hfmt, h1, hfull]
  · rw [readPlyFile_of_header L h hok]; simp only [readAfterHeader, hb, hfmt, h2, hfull]

/-- ASCII: the file cut at any token boundary of the body that loses a token — after `j` lines and `t` tokens of
    line `j`, `t` < its count, with or without the separating space (`t = 0`: at the line break) — or anywhere in
    the header, is rejected -/
theorem ply_file_ascii_prefix_rejected (L : Lex) (h : Header) (hok : HeaderOK h) (hd : Hdr) (hb : hdrOf h = some hd)
    (hfmt : hd.fmt = .ascii) (vls fls : List (List Tok))
    (hclean : ∀ ts ∈ vls ++ fls, ∀ t ∈ ts, CleanTok t)
    (hx : AsciiOk L hd (vls.map mkLine) (fls.map mkLine))
    (j : Nat) (hj : j < (vls ++ fls).length) (t : Nat) (ht : t < ((vls ++ fls)[j]).length)
    (sp : Bool) (hsp : sp = true → 0 < t) :
    readPlyFile L (h.render ++ (renderLines ((vls ++ fls).take j) ++
      (joinSp (((vls ++ fls)[j]).take t) ++ (if sp then [32] else [])))) = .error (.body .short) := by
  rw [readPlyFile_of_header L h hok]
  simp only [readAfterHeader, hb, hfmt, ply_ascii_prefix_bytes L hd vls fls hclean hx j hj t ht sp hsp]

/-- ASCII: cut right after the last token of a non-final line (before its line feed) -/
theorem ply_file_ascii_prefix_rejected_eol (L : Lex) (h : Header) (hok : HeaderOK h) (hd : Hdr)
    (hb : hdrOf h = some hd) (hfmt : hd.fmt = .ascii) (vls fls : List (List Tok))
    (hclean : ∀ ts ∈ vls ++ fls, ∀ t ∈ ts, CleanTok t)
    (hx : AsciiOk L hd (vls.map mkLine) (fls.map mkLine))
    (j : Nat) (hj : j + 1 < (vls ++ fls).length) (hne : (vls ++ fls)[j] ≠ []) :
    readPlyFile L (h.render ++ (renderLines ((vls ++ fls).take j) ++ joinSp ((vls ++ fls)[j]))) =
      .error (.body .short) := by
  rw [readPlyFile_of_header L h hok]
  simp only [readAfterHeader, hb, hfmt, ply_ascii_prefix_bytes_eol L hd vls fls hclean hx j hj hne]

/-! ### iteration counts, header scan included -/

theorem headerLoopI_step (s : Ply.HState) (bs line rest : Ply.Bytes) (h : Ply.readLine bs = some (line, rest)) :
    headerLoopI s bs = (match Ply.headerStep s line with
      | .error e => (.error e, 1)
      | .ok (.inr hdr) => (.ok (hdr, rest), 1)
      | .ok (.inl s') => ((headerLoopI s' rest).1, (headerLoopI s' rest).2 + 1)) := by
  rw [headerLoopI]
  split
  · rename_i h'; rw [h] at h'; simp at h'
  · rename_i line' rest' h'
    rw [h] at h'; simp only [Option.some.injEq, Prod.mk.injEq] at h'
    obtain ⟨rfl, rfl⟩ := h'
    rfl

theorem headerLoopI_none (s : Ply.HState) (bs : Ply.Bytes) (h : Ply.readLine bs = none) :
    headerLoopI s bs = (.error .err, 1) := by
  rw [headerLoopI]
  split
  · rfl
  · rename_i l r h'; rw [h] at h'; simp at h'

/-- the instrumented header loop returns `ReadHeader`'s result; every line consumes at least one byte -/
theorem headerLoopI_spec (n : Nat) : ∀ (s : Ply.HState) (bs : Ply.Bytes), bs.length ≤ n →
    (headerLoopI s bs).1 = Ply.headerLoop s bs ∧
    (match (headerLoopI s bs).1 with
     | .ok (_, rest) => (headerLoopI s bs).2 + rest.length ≤ bs.length
     | .error _ => (headerLoopI s bs).2 ≤ bs.length + 1) := by
  induction n with
  | zero =>
    intro s bs hn
    have : bs = [] := List.length_eq_zero_iff.mp (by omega)
    subst this
    have hr : Ply.readLine [] = none := rfl
    rw [headerLoopI_none s [] hr]
    refine ⟨?_, by simp⟩
    rw [Ply.headerLoop]; split
    · rfl
    · rename_i l r h'; rw [hr] at h'; simp at h'
  | succ n ih =>
    intro s bs hn
    cases hr : Ply.readLine bs with
    | none =>
      rw [headerLoopI_none s bs hr]
      refine ⟨?_, by simp⟩
      rw [Ply.headerLoop]; split
      · rfl
      · rename_i l r h'; rw [hr] at h'; simp at h'
    | some x =>
      obtain ⟨line, rest⟩ := x
      have hlt := Ply.readLine_length bs line rest hr
      rw [headerLoopI_step s bs line rest hr, PlyHeader.headerLoop_step s bs line rest hr]
      cases hst : Ply.headerStep s line with
      | error e => exact ⟨rfl, by simp⟩
      | ok r =>
        cases r with
        | inr hdr => refine ⟨rfl, ?_⟩; simp only; omega
        | inl s' =>
          obtain ⟨h1, h2⟩ := ih s' rest (by omega)
          refine ⟨h1, ?_⟩
          simp only
          cases hq : (headerLoopI s' rest).1 with
          | error e => rw [hq] at h2; simp only at h2 ⊢; omega
          | ok y => obtain ⟨hh, r'⟩ := y; rw [hq] at h2; simp only at h2 ⊢; omega

theorem readPlyFileI_fst (L : Lex) (bs : List UInt8) : (readPlyFileI L bs).1 = readPlyFile L bs := by
  have h := (headerLoopI_spec bs.length .init bs (Nat.le_refl _)).1
  simp only [readPlyFileI, readPlyFile, Ply.parseHeader, ← h]
  cases (headerLoopI .init bs).1 with
  | error e => rfl
  | ok x =>
    obtain ⟨hd, body⟩ := x
    simp only [readAfterHeader]
    cases hdrOf hd with
    | none => rfl
    | some hh =>
      simp only
      cases hh.fmt with
      | ascii => simp only [readPlyAsciiBytesI_fst]
      | le => simp only [readPlyBinBodyI_fst]
      | be => simp only [readPlyBinBodyI_fst]

/-- **PLY, the whole read from the file bytes, header scan included**: the instrumented reader returns
    `readPlyFile`'s result, and its total iteration count — header lines + body iterations — is linear in the
    number of bytes, for ALL inputs, provided a binary vertex record is not empty (a header declaring `count`
    vertices of ZERO properties makes the binary vertex loop — in the model as in reader.go:516-525 — run
    `count` iterations that consume nothing: not bounded by the input) -/
theorem reader_steps_linear_ply_file (L : Lex) (bs : List UInt8)
    (hv : ∀ h body hd, parseHeader bs = .ok (h, body) → hdrOf h = some hd → hd.fmt ≠ .ascii → 1 ≤ hd.vsize) :
    (readPlyFileI L bs).1 = readPlyFile L bs ∧ (readPlyFileI L bs).2 ≤ 9 * bs.length + 10 := by
  refine ⟨readPlyFileI_fst L bs, ?_⟩
  obtain ⟨h1, h2⟩ := headerLoopI_spec bs.length .init bs (Nat.le_refl _)
  simp only [readPlyFileI]
  cases hq : (headerLoopI .init bs).1 with
  | error e => rw [hq] at h2; simp only at h2 ⊢; omega
  | ok x =>
    obtain ⟨hd, body⟩ := x
    rw [hq] at h2; simp only at h2 ⊢
    have hp : parseHeader bs = .ok (hd, body) := by rw [Ply.parseHeader, ← h1, hq]
    cases hb : hdrOf hd with
    | none => simp only; omega
    | some hh =>
      simp only
      cases hf : hh.fmt with
      | ascii =>
        have := readPlyAsciiBytesI_bound L hh body
        simp only; omega
      | le =>
        have := readPlyBinBodyI_bound hh false body (hv hd body hh hp hb (by rw [hf]; decide))
        simp only; omega
      | be =>
        have := readPlyBinBodyI_bound hh true body (hv hd body hh hp hb (by rw [hf]; decide))
        simp only; omega

/-! ### a concrete file satisfying the hypotheses -/

section example_file

def exFileHeader : Header :=
  ⟨.le, [⟨Ply.nm "vertex", 1, [.scalar (Ply.nm "x") .float, .scalar (Ply.nm "y") .float, .scalar (Ply.nm "z") .float]⟩,
         ⟨Ply.nm "face", 1, [.list (Ply.nm "vertex_indices") .uchar .int]⟩], [Ply.nm "made by hand"], []⟩

example : hdrOf exFileHeader = some exHdrBin := by
  have := hdrOf_vertex_face .le 1 1 [(Ply.nm "x", .float), (Ply.nm "y", .float), (Ply.nm "z", .float)]
    [Ply.nm "made by hand"] false
  simpa [exFileHeader, exHdrBin, fmtOf, Ply.SType.size] using this

open PlyHeader in
example : HeaderOK exFileHeader := by
  refine ⟨rfl, ?_, ?_⟩
  · intro c hc
    simp only [exFileHeader, List.mem_singleton] at hc; subst hc
    exact ⟨by decide, by decide⟩
  · intro e he
    simp only [exFileHeader, List.mem_cons, List.not_mem_nil, or_false] at he
    rcases he with rfl | rfl
    · refine ⟨by decide, by decide, by decide, by decide, ?_⟩
      intro p hp
      simp only [List.mem_cons, List.not_mem_nil, or_false] at hp
      rcases hp with rfl | rfl | rfl <;> (show Tok _; decide)
    · refine ⟨by decide, by decide, by decide, by decide, ?_⟩
      intro p hp
      simp only [List.mem_singleton] at hp; subst hp
      exact ⟨by decide, by decide⟩

end example_file

end C14
end PolyVerif
