/-
  C14 — Truncated model files are rejected; no hang, no fabricated geometry.

  Theorems about the reader models of `Model/Readers.lean`, `Model/Spz.lean`, `Model/Splat.lean`:
  for every valid file of the format (given by its reference encoding) and every cut position,
  the reader applied to the prefix reports an error — or, where the property allows it, returns
  exactly the data wholly present.  Binary formats: every byte position.  ASCII bodies (PLY ascii,
  PTS): every token boundary, at the line/token level the scanner delivers (a cut inside a number
  yields a different valid number: outside the property's quantifier).

  Property theorems only; lemmas are in `Lemmas/Readers.lean`.
-/
import PolyVerif.Lemmas.Readers

namespace PolyVerif
namespace C14
open Readers Spz Splat

/-! ## binary STL -/

theorem stl_full (hdr : List UInt8) (tris : List (List UInt8)) (hh : hdr.length = 80)
    (ht : ∀ t ∈ tris, t.length = 50) (hn : tris.length < 2 ^ 32) :
    readStl (stlFile hdr tris) = .ok tris := by
  have h1 : readArrays [80, 4] (stlFile hdr tris) = some ([hdr, le32n tris.length], tris.flatten) := by
    have := readArrays_full [hdr, le32n tris.length] tris.flatten
    simpa [stlFile, hh, le32n_length] using this
  simp only [readStl, h1, leNat_le32n _ hn]
  have h2 := readArrays_full tris []
  rw [map_length_const tris 50 ht] at h2
  simp only [List.append_nil] at h2
  rw [h2]

theorem stl_prefix_rejected (hdr : List UInt8) (tris : List (List UInt8)) (hh : hdr.length = 80)
    (ht : ∀ t ∈ tris, t.length = 50) (hn : tris.length < 2 ^ 32)
    (k : Nat) (hk : k < (stlFile hdr tris).length) :
    readStl ((stlFile hdr tris).take k) = .error .short := by
  have hlen : (stlFile hdr tris).length = 84 + tris.length * 50 := by
    simp [stlFile, hh, le32n_length, flatten_length_const tris 50 ht]; ring
  by_cases h84 : k < 84
  · have : readArrays [80, 4] ((stlFile hdr tris).take k) = none :=
      readArrays_short _ _ (by simp [List.length_take]; omega)
    simp [readStl, this]
  · have hk84 : 84 ≤ k := by omega
    have e : (stlFile hdr tris).take k = hdr ++ le32n tris.length ++ tris.flatten.take (k - 84) := by
      simp only [stlFile]
      rw [List.take_append]
      rw [List.take_of_length_le (by simp [hh, le32n_length]; omega)]
      simp [hh, le32n_length]
    have h1 : readArrays [80, 4] ((stlFile hdr tris).take k) =
        some ([hdr, le32n tris.length], tris.flatten.take (k - 84)) := by
      rw [e]
      have := readArrays_full [hdr, le32n tris.length] (tris.flatten.take (k - 84))
      simpa [hh, le32n_length] using this
    simp only [readStl, h1, leNat_le32n _ hn]
    rw [readArrays_short]
    simp only [sum_replicate_nat, List.length_take, flatten_length_const tris 50 ht]
    omega

example : ∃ hdr : List UInt8, ∃ tris : List (List UInt8), hdr.length = 80 ∧ (∀ t ∈ tris, t.length = 50) ∧
    tris.length < 2 ^ 32 ∧ tris ≠ [] :=
  ⟨List.replicate 80 0, [List.replicate 50 7], by simp, by simp, by simp, by simp⟩

/-! ## .splat: record-streamed -/

/-- cut after `k` bytes: exactly the first `⌊k/32⌋` records, the `ErrUnexpectedEOF` flag iff `32 ∤ k`,
    after `⌊k/32⌋ + 1` reads -/
theorem splat_prefix (rs : List Rec) (k : Nat) (hk : k ≤ (rs.flatMap encRec).length) :
    readRecs ((rs.flatMap encRec).take k) = ⟨rs.take (k / 32), decide (k % 32 ≠ 0), k / 32 + 1⟩ := by
  apply splat_prefix_aux
  have hlen : ∀ rs : List Rec, (rs.flatMap encRec).length = 32 * rs.length := by
    intro rs
    induction rs with
    | nil => simp
    | cons r rs ih => simp only [List.flatMap_cons, List.length_append, encRec_length, List.length_cons, ih]; omega
  rw [hlen] at hk
  exact hk

/-- the same at the level of `splat.Read` on a written cloud: the decoded splats are those of the records
    wholly contained in the prefix, in order -/
theorem splat_prefix_read {α : Type} [Scalar α] (E : Splat.Env α) (cloud : List (Splat.Splat α)) (k : Nat)
    (hk : k ≤ (Splat.write E cloud).length) :
    Splat.read E ((Splat.write E cloud).take k) =
      ((cloud.take (k / 32)).map (fun s => decSplat E (encSplat E s)), decide (k % 32 ≠ 0)) := by
  simp only [Splat.read, Splat.write] at *
  rw [splat_prefix _ k hk]
  simp [List.map_take, Function.comp_def]

/-! ## SPZ (decompressed stream) -/

/-- a stream exactly as long as its header announces: every strict prefix is rejected -/
theorem spz_prefix (bs : List UInt8) (h16 : 16 ≤ bs.length)
    (hlen : bs.length = payloadLength (parseHeader (bs.take 16)))
    (k : Nat) (hk : k < bs.length) : ∃ e, readRaw (bs.take k) = .error e :=
  spz_prefix_aux bs h16 hlen k hk

/-- ... and the complete stream (valid header) is accepted with every array of the declared length -/
theorem spz_complete (bs : List UInt8) (h16 : 16 ≤ bs.length)
    (hv : (parseHeader (bs.take 16)).valid = true)
    (hlen : payloadLength (parseHeader (bs.take 16)) ≤ bs.length) :
    ∃ a, readRaw bs = .ok a ∧ a.header = parseHeader (bs.take 16) ∧
      a.positions.length = a.header.numPoints * posBytes a.header ∧ a.alphas.length = a.header.numPoints ∧
      a.colors.length = a.header.numPoints * 3 ∧ a.scales.length = a.header.numPoints * 3 ∧
      a.rotations.length = a.header.numPoints * 3 ∧
      a.sh.length = a.header.numPoints * 3 * shDim a.header.shDegree :=
  spz_complete_aux bs h16 hv hlen

/-! ## PLY -/

/-- a cut anywhere inside the header (before the newline that ends `end_header`) is rejected,
    whatever the header says and whatever the encoding -/
theorem ply_header_cut (L : Lex) (h : Hdr) (ls : List (List UInt8)) (hls : HeaderLines ls) (body : List UInt8)
    (k : Nat) (hk : k < (headerText ls).length) :
    readPly L h ((headerText ls ++ body).take k) = .error .short := by
  simp only [readPly, skipHeader_cut ls hls body k hk]

/-- a binary PLY file: header lines, fixed-size vertex records, face records in the reference encoding -/
structure BinFile where
  ls : List (List UInt8)
  vs : List (List UInt8)
  fs : List (List ListInst)

def BinFile.body (be : Bool) (h : Hdr) (x : BinFile) : List UInt8 :=
  x.vs.flatten ++ (match h.face with | none => [] | some f => encFaces be f x.fs)

def BinFile.bytes (be : Bool) (h : Hdr) (x : BinFile) : List UInt8 := headerText x.ls ++ x.body be h

/-- the file is what the header `h` describes -/
def BinFile.ok (h : Hdr) (x : BinFile) : Prop :=
  HeaderLines x.ls ∧ h.vcount = x.vs.length ∧ (∀ v ∈ x.vs, v.length = h.vsize) ∧
  (match h.face with
   | none => x.fs = []
   | some f => f.count = x.fs.length ∧ ∀ y ∈ x.fs, FaceOk f y)

def BinFile.mesh (be : Bool) (h : Hdr) (x : BinFile) : BinMesh :=
  ⟨x.vs, match h.face with
         | none => []
         | some f => x.fs.map fun xs => ⟨facePoints f xs, encLists be f.lists xs⟩⟩

theorem ply_binary_body_full (be : Bool) (h : Hdr) (x : BinFile) (hx : x.ok h) :
    readPlyBinBody h be (x.body be h) = .ok (x.mesh be h) := by
  obtain ⟨_, hc, hv, hf⟩ := hx
  simp only [readPlyBinBody, BinFile.body, BinFile.mesh, hc]
  rw [← map_length_const x.vs h.vsize hv, readArrays_full]
  cases hface : h.face with
  | none => rfl
  | some f =>
    rw [hface] at hf
    simp only [hf.1]
    have := binFaces_full be f x.fs hf.2 []
    rw [List.append_nil] at this
    rw [this]

theorem ply_binary_body_cut (be : Bool) (h : Hdr) (x : BinFile) (hx : x.ok h)
    (j : Nat) (hj : j < (x.body be h).length) : ∃ e, readPlyBinBody h be ((x.body be h).take j) = .error e := by
  obtain ⟨_, hc, hv, hf⟩ := hx
  have hL : x.vs.flatten.length = x.vs.length * h.vsize := flatten_length_const x.vs h.vsize hv
  simp only [readPlyBinBody, hc]
  by_cases hjl : j < x.vs.flatten.length
  · rw [readArrays_short]
    · exact ⟨_, rfl⟩
    · simp only [sum_replicate_nat, List.length_take]; omega
  · have hjl' : x.vs.flatten.length ≤ j := Nat.le_of_not_lt hjl
    simp only [BinFile.body] at hj ⊢
    rw [List.take_append, List.take_of_length_le hjl', ← map_length_const x.vs h.vsize hv,
      readArrays_full]
    cases hface : h.face with
    | none => rw [hface] at hj; simp only [List.append_nil] at hj; omega
    | some f =>
      rw [hface] at hf hj
      simp only [hf.1]
      obtain ⟨e, he⟩ := binFaces_cut be f x.fs hf.2 (j - x.vs.flatten.length)
        (by simp only [List.length_append] at hj; omega)
      rw [he]; exact ⟨_, rfl⟩

/-- binary PLY (either byte order): the complete file is read back as its vertex and face records -/
theorem ply_binary_full (L : Lex) (be : Bool) (h : Hdr) (hfmt : h.fmt = if be then .be else .le)
    (x : BinFile) (hx : x.ok h) :
    readPly L h (x.bytes be h) = .ok (.bin (x.mesh be h)) := by
  simp only [readPly, BinFile.bytes, skipHeader_full x.ls hx.1, hfmt]
  cases be <;> simp [ply_binary_body_full _ h x hx, Except.map]

/-- binary PLY: every strict prefix — header cut or body short — is rejected -/
theorem ply_binary_prefix_rejected (L : Lex) (be : Bool) (h : Hdr) (hfmt : h.fmt = if be then .be else .le)
    (x : BinFile) (hx : x.ok h) (k : Nat) (hk : k < (x.bytes be h).length) :
    ∃ e, readPly L h ((x.bytes be h).take k) = .error e := by
  by_cases hkh : k < (headerText x.ls).length
  · exact ⟨_, ply_header_cut L h x.ls hx.1 _ k hkh⟩
  · simp only [BinFile.bytes] at hk ⊢
    rw [List.take_append, List.take_of_length_le (by omega)]
    simp only [readPly, skipHeader_full x.ls hx.1, hfmt]
    obtain ⟨e, he⟩ := ply_binary_body_cut be h x hx (k - (headerText x.ls).length)
      (by simp only [List.length_append] at hk; omega)
    cases be <;> simp only [he, Except.map] <;> exact ⟨_, rfl⟩

/-- ASCII PLY body, line/token level.  `vs`: vertex lines, `fl`: face lines, as the writer produces them. -/
def AsciiOk (L : Lex) (h : Hdr) (vs fl : List Line) : Prop :=
  h.vcount = vs.length ∧ (∀ l ∈ vs, VLineOk L h.nprops l) ∧
  (match h.face with
   | none => fl = []
   | some f => f.count = fl.length ∧ ∀ l ∈ fl, FLineOk L f l)

def asciiMesh (L : Lex) (h : Hdr) (vs fl : List Line) : AsciiMesh :=
  ⟨vs.map (·.toks), match h.face with
                     | none => []
                     | some f => fl.map fun l => (linePoints L f l, l.toks)⟩

/-- the complete body — also when only the final line break is missing: the scanner delivers the same
    lines — is read back as its lines -/
theorem ply_ascii_full (L : Lex) (h : Hdr) (vs fl : List Line) (hx : AsciiOk L h vs fl) :
    readPlyAsciiBody L h (vs ++ fl) = .ok (asciiMesh L h vs fl) := by
  obtain ⟨hc, hv, hf⟩ := hx
  simp only [readPlyAsciiBody, hc, asciiVerts_full L h.nprops vs hv fl, asciiMesh]
  cases hface : h.face with
  | none => rfl
  | some f =>
    rw [hface] at hf
    simp only [hf.1]
    have := asciiFaces_full L f fl hf.2 []
    rw [List.append_nil] at this
    rw [this]

/-- ASCII PLY: a cut at any token boundary that loses at least one token — the first `j` lines complete,
    then nothing (`d = none`: cut at a line break) or a line holding a strict non-empty part of the tokens
    of line `j` — is rejected -/
theorem ply_ascii_prefix (L : Lex) (h : Hdr) (vs fl : List Line) (hx : AsciiOk L h vs fl)
    (j : Nat) (hj : j < (vs ++ fl).length) (d : Option Line) (hd : ∀ x, d = some x → PartialOf x (vs ++ fl)[j]) :
    readPlyAsciiBody L h ((vs ++ fl).take j ++ d.toList) = .error .short := by
  obtain ⟨hc, hv, hf⟩ := hx
  simp only [readPlyAsciiBody, hc]
  by_cases hjv : j < vs.length
  · have e : (vs ++ fl).take j = vs.take j := by
      rw [List.take_append]; simp; omega
    rw [e, asciiVerts_cut L h.nprops vs hv j hjv d (by
      intro x hx'; have := hd x hx'; rwa [List.getElem_append_left hjv] at this)]
  · have hjv' : vs.length ≤ j := by omega
    have e : (vs ++ fl).take j = vs ++ fl.take (j - vs.length) := by
      rw [List.take_append, List.take_of_length_le hjv']
    rw [e, List.append_assoc, asciiVerts_full L h.nprops vs hv]
    cases hface : h.face with
    | none => rw [hface] at hf; subst hf; simp at hj; omega
    | some f =>
      rw [hface] at hf
      simp only [hf.1]
      rw [asciiFaces_cut L f fl hf.2 (j - vs.length) (by simp only [List.length_append] at hj; omega) d (by
        intro x hx'; have := hd x hx'; rwa [List.getElem_append_right hjv'] at this)]

/-! ### ASCII PLY at the byte level (writer-shaped text) -/

/-- BYTE level, ASCII PLY body as the writer prints it (tokens joined by single spaces, one line per
    record): the complete text — and the text without its final line feed — scans to the lines. -/
theorem ply_ascii_bytes_complete (init : List (List Tok)) (last : List Tok)
    (hclean : ∀ ts ∈ init ++ [last], ∀ t ∈ ts, CleanTok t) (hlast : last ≠ []) :
    scanLines (renderLines (init ++ [last])) = (init ++ [last]).map mkLine ∧
    scanLines (renderLines init ++ joinSp last) = (init ++ [last]).map mkLine := by
  constructor
  · have := scanLines_render (init ++ [last]) hclean [] (by simp) (by simp)
    simpa using this
  · have hl : ∀ t ∈ last, CleanTok t := hclean last (by simp)
    obtain ⟨h10, h13⟩ := joinSp_noSpecial last hl
    have := scanLines_render init (fun ts hts => hclean ts (List.mem_append_left _ hts)) (joinSp last) h10 h13
    rw [this]
    have hne : (joinSp last).isEmpty = false := by
      have := joinSp_ne_nil last hl hlast
      cases hj : joinSp last with
      | nil => exact absurd hj this
      | cons a b => rfl
    simp [hne, mkLine, fields_joinSp last hl]

/-- BYTE level, ASCII PLY: the body text cut at any token boundary that loses at least one token — after
    `j` complete lines and the first `t` tokens of line `j` (`t` < its token count), with or without the
    separating space — is rejected by the body reader run on what the scanner delivers. -/
theorem ply_ascii_prefix_bytes (L : Lex) (h : Hdr) (vls fls : List (List Tok))
    (hclean : ∀ ts ∈ vls ++ fls, ∀ t ∈ ts, CleanTok t)
    (hx : AsciiOk L h (vls.map mkLine) (fls.map mkLine))
    (j : Nat) (hj : j < (vls ++ fls).length) (t : Nat) (ht : t < ((vls ++ fls)[j]).length)
    (sp : Bool) (hsp : sp = true → 0 < t) :
    readPlyAsciiBody L h (scanLines (renderLines ((vls ++ fls).take j) ++
      (joinSp (((vls ++ fls)[j]).take t) ++ (if sp then [32] else [])))) = .error .short := by
  have hcj : ∀ x ∈ (vls ++ fls)[j].take t, CleanTok x :=
    fun x hx' => hclean (vls ++ fls)[j] (List.getElem_mem hj) x (List.mem_of_mem_take hx')
  obtain ⟨p10, p13⟩ := joinSp_noSpecial ((vls ++ fls)[j].take t) hcj
  have hp10 : (10 : UInt8) ∉ joinSp ((vls ++ fls)[j].take t) ++ (if sp then [32] else []) := by
    cases sp <;> simp [p10]
  have hp13 : (13 : UInt8) ∉ joinSp ((vls ++ fls)[j].take t) ++ (if sp then [32] else []) := by
    cases sp <;> simp [p13]
  rw [scanLines_render ((vls ++ fls).take j) (fun ts hts => hclean ts (List.mem_of_mem_take hts)) _ hp10 hp13]
  have hmap : ((vls ++ fls).take j).map mkLine = (vls.map mkLine ++ fls.map mkLine).take j := by
    rw [← List.map_append, List.map_take]
  have hjm : j < (vls.map mkLine ++ fls.map mkLine).length := by
    simpa using hj
  have hget : (vls.map mkLine ++ fls.map mkLine)[j] = mkLine (vls ++ fls)[j] := by
    simp [← List.map_append]
  rw [hmap]
  by_cases ht0 : t = 0
  · subst ht0
    have hsp' : sp = false := by cases sp with | false => rfl | true => exact absurd (hsp rfl) (by omega)
    subst hsp'
    have := ply_ascii_prefix L h (vls.map mkLine) (fls.map mkLine) hx j hjm none (by simp)
    simpa [joinSp] using this
  · have hne : (joinSp ((vls ++ fls)[j].take t) ++ (if sp then [32] else [])).isEmpty = false := by
      have h1 := joinSp_ne_nil ((vls ++ fls)[j].take t) hcj (by
        intro hnil
        have h2 : ((vls ++ fls)[j].take t).length = 0 := by rw [hnil]; rfl
        rw [List.length_take] at h2
        omega)
      cases hjs : joinSp ((vls ++ fls)[j].take t) with
      | nil => exact absurd hjs h1
      | cons a b => simp
    have hf : fields (joinSp ((vls ++ fls)[j].take t) ++ (if sp then [32] else [])) = (vls ++ fls)[j].take t := by
      cases sp with
      | false => simpa using fields_joinSp _ hcj
      | true => simpa using fields_joinSp_space _ hcj
    simp only [hne, Bool.false_eq_true, if_false]
    have := ply_ascii_prefix L h (vls.map mkLine) (fls.map mkLine) hx j hjm
      (some ⟨joinSp ((vls ++ fls)[j].take t) ++ (if sp then [32] else []), fields (joinSp ((vls ++ fls)[j].take t) ++ (if sp then [32] else []))⟩)
      (by
        intro x hx'
        simp only [Option.some.injEq] at hx'
        subst hx'
        rw [hget]
        refine ⟨by simp [Line.blank, hne], t, by omega, by simpa [mkLine] using ht, ?_⟩
        simp [hf, mkLine])
    simpa using this

/-- the whole ASCII file: after a complete header the reader is the body reader on what the scanner
    delivers from the remaining bytes — so `ply_ascii_prefix_bytes` / `ply_ascii_bytes_complete` speak
    about `readPly` on `headerText ls ++ (cut body text)`, and `ply_header_cut` covers the rest -/
theorem ply_ascii_file (L : Lex) (h : Hdr) (hfmt : h.fmt = .ascii) (ls : List (List UInt8)) (hls : HeaderLines ls)
    (bodyText : List UInt8) :
    readPly L h (headerText ls ++ bodyText) = (readPlyAsciiBody L h (scanLines bodyText)).map .ascii := by
  simp only [readPly, skipHeader_full ls hls, hfmt]

/-! ## PTS (line/token level) -/

/-- a PTS file: the count line, then `n` point lines of `fpp` fields each -/
def PtsOk (L : Lex) (fpp : Nat) (c : Line) (pl : List Line) : Prop :=
  L.atoi? c.raw = some (pl.length : Int) ∧ ∀ l ∈ pl, PLineOk L fpp l

theorem pts_full (L : Lex) (fpp : Nat) (c : Line) (pl : List Line) (hx : PtsOk L fpp c pl) :
    readPtsLines L (c :: pl) = .ok (pl.map fun l => ptsPoint l.toks) := by
  obtain ⟨hc, hp⟩ := hx
  simp only [readPtsLines, hc]
  rw [if_neg (by omega)]
  have := ptsLoop_full L fpp pl hp none (Or.inl rfl) []
  simpa using this

/-- PTS, cut at a token boundary that loses at least one token:
    * nothing left, or the count line alone while points are declared → error;
    * the count line, `j ≥ 1` complete point lines, then nothing or a shorter line → error;
    * a cut inside the FIRST point line: error, unless that line still has ≥ 3 fields and is the only
      point declared — then (the format has no field count: such a file is a valid one-point file) the
      result is that single point built from the tokens present (`ptsPoint_restriction`: every
      component is the full point's or absent). -/
theorem pts_prefix (L : Lex) (fpp : Nat) (c : Line) (pl : List Line) (hx : PtsOk L fpp c pl) :
    readPtsLines L [] = .error .malformed ∧
    (pl ≠ [] → readPtsLines L [c] = .error .short) ∧
    (∀ j, 1 ≤ j → j < pl.length → ∀ d : Option Line,
      (∀ x, d = some x → ∃ t, 0 < t ∧ t < fpp ∧ x.toks.length = t) →
      ∃ e, readPtsLines L (c :: (pl.take j ++ d.toList)) = .error e) ∧
    (∀ l, pl.head? = some l → ∀ d : Line, (∃ t, 0 < t ∧ t < fpp ∧ d.toks = l.toks.take t) →
      (∃ e, readPtsLines L [c, d] = .error e) ∨
      (pl = [l] ∧ 3 ≤ d.toks.length ∧ readPtsLines L [c, d] = .ok [ptsPoint d.toks])) := by
  obtain ⟨hc, hp⟩ := hx
  refine ⟨rfl, ?_, ?_, ?_⟩
  · intro hne
    simp only [readPtsLines, hc]
    rw [if_neg (by omega)]
    cases pl with
    | nil => exact absurd rfl hne
    | cons l pl => simp [ptsLoop]
  · intro j hj1 hj d hd
    simp only [readPtsLines, hc]
    rw [if_neg (by omega)]
    obtain ⟨j', rfl⟩ : ∃ j', j = j' + 1 := ⟨j - 1, by omega⟩
    cases pl with
    | nil => simp at hj
    | cons l pl =>
      have hpl : ∀ x ∈ pl, PLineOk L fpp x := fun x hx => hp x (List.mem_cons_of_mem _ hx)
      simp only [Int.toNat_natCast, List.take_succ_cons, List.cons_append, List.length_cons,
        ptsLoop_step L fpp l _ _ none (hp l List.mem_cons_self) (Or.inl rfl)]
      rcases ptsLoop_cut L fpp pl hpl j' (by simpa using hj) d hd with h1 | ⟨x, _, h2⟩
      · rw [h1]; exact ⟨_, rfl⟩
      · rw [h2]; exact ⟨_, rfl⟩
  · intro l hl d hd
    obtain ⟨t, ht0, ht, hdt⟩ := hd
    cases pl with
    | nil => simp at hl
    | cons l' pl =>
      simp only [List.head?_cons, Option.some.injEq] at hl
      subst hl
      obtain ⟨hlen, h3, _⟩ := hp l' List.mem_cons_self
      have hdl : d.toks.length = t := by rw [hdt, List.length_take]; omega
      simp only [readPtsLines, hc]
      rw [if_neg (by omega)]
      simp only [Int.toNat_natCast, List.length_cons, ptsLoop]
      have hne : d.toks.isEmpty = false := by
        cases hd' : d.toks with
        | nil => simp [hd'] at hdl; omega
        | cons a b => rfl
      simp only [hne, Bool.false_eq_true, if_false]
      by_cases ht3 : d.toks.length < 3
      · left; rw [if_pos ht3]; exact ⟨_, rfl⟩
      · rw [if_neg ht3]
        by_cases hok : ptsTokensOk L d.toks = true
        · simp only [hok, Bool.not_true, Bool.false_eq_true, if_false]
          cases pl with
          | nil => right; refine ⟨rfl, by omega, ?_⟩; simp [ptsLoop]
          | cons l2 pl => left; simp [ptsLoop]
        · left; simp only [hok, Bool.not_false, if_true]; exact ⟨_, rfl⟩


/-- BYTE level, PTS text as written (count line, then one line per point, single spaces): cut after the
    count line, `j ≥ 1` complete point lines and the first `t` tokens of point line `j` (fewer than its
    fields; with or without the separating space; `t = 0`: cut at the line break) → rejected. -/
theorem pts_prefix_bytes (L : Lex) (fpp : Nat) (ctok : Tok) (pls : List (List Tok))
    (hc : CleanTok ctok) (hclean : ∀ ts ∈ pls, ∀ t ∈ ts, CleanTok t)
    (hx : PtsOk L fpp (mkLine [ctok]) (pls.map mkLine))
    (j : Nat) (hj1 : 1 ≤ j) (hj : j < pls.length) (t : Nat) (ht : t < fpp)
    (sp : Bool) (hsp : sp = true → 0 < t) :
    ∃ e, readPts L (renderLines ([ctok] :: pls.take j) ++
      (joinSp ((pls[j]).take t) ++ (if sp then [32] else []))) = .error e := by
  have hlen : (pls[j]).length = fpp := by
    have := (hx.2 (mkLine pls[j]) (by simp; exact ⟨pls[j], List.getElem_mem hj, rfl⟩)).1
    simpa [mkLine] using this
  have hcj : ∀ x ∈ (pls[j]).take t, CleanTok x :=
    fun x hx' => hclean pls[j] (List.getElem_mem hj) x (List.mem_of_mem_take hx')
  obtain ⟨p10, p13⟩ := joinSp_noSpecial ((pls[j]).take t) hcj
  have hp10 : (10 : UInt8) ∉ joinSp ((pls[j]).take t) ++ (if sp then [32] else []) := by
    cases sp <;> simp [p10]
  have hp13 : (13 : UInt8) ∉ joinSp ((pls[j]).take t) ++ (if sp then [32] else []) := by
    cases sp <;> simp [p13]
  have hall : ∀ ts ∈ [ctok] :: pls.take j, ∀ x ∈ ts, CleanTok x := by
    intro ts hts x hx'
    rcases List.mem_cons.mp hts with rfl | hts
    · simp only [List.mem_singleton] at hx'; subst hx'; exact hc
    · exact hclean ts (List.mem_of_mem_take hts) x hx'
  unfold readPts
  rw [scanLines_render _ hall _ hp10 hp13]
  have hmap : ([ctok] :: pls.take j).map mkLine = mkLine [ctok] :: (pls.map mkLine).take j := by
    simp [List.map_take]
  rw [hmap]
  have key := (pts_prefix L fpp (mkLine [ctok]) (pls.map mkLine) hx).2.2.1 j hj1 (by simpa using hj)
  by_cases ht0 : t = 0
  · subst ht0
    have hsp' : sp = false := by cases sp with | false => rfl | true => exact absurd (hsp rfl) (by omega)
    subst hsp'
    have := key none (by simp)
    simpa [joinSp] using this
  · have hne : (joinSp ((pls[j]).take t) ++ (if sp then [32] else [])).isEmpty = false := by
      have h1 := joinSp_ne_nil ((pls[j]).take t) hcj (by
        intro hnil
        have h2 : ((pls[j]).take t).length = 0 := by rw [hnil]; rfl
        rw [List.length_take] at h2
        omega)
      cases hjs : joinSp ((pls[j]).take t) with
      | nil => exact absurd hjs h1
      | cons a b => simp
    have hf : fields (joinSp ((pls[j]).take t) ++ (if sp then [32] else [])) = (pls[j]).take t := by
      cases sp with
      | false => simpa using fields_joinSp _ hcj
      | true => simpa using fields_joinSp_space _ hcj
    simp only [hne, Bool.false_eq_true, if_false]
    have := key (some ⟨joinSp ((pls[j]).take t) ++ (if sp then [32] else []),
        fields (joinSp ((pls[j]).take t) ++ (if sp then [32] else []))⟩)
      (by
        intro x hx'
        simp only [Option.some.injEq] at hx'
        subst hx'
        refine ⟨t, by omega, ht, ?_⟩
        simp only [hf, List.length_take]; omega)
    simpa using this

/-- BYTE level, ASCII PLY: the cut right after the LAST token of a non-final line `j` (before its line feed) —
    the scanner still delivers line `j` complete, but lines are missing — is rejected. -/
theorem ply_ascii_prefix_bytes_eol (L : Lex) (h : Hdr) (vls fls : List (List Tok))
    (hclean : ∀ ts ∈ vls ++ fls, ∀ t ∈ ts, CleanTok t)
    (hx : AsciiOk L h (vls.map mkLine) (fls.map mkLine))
    (j : Nat) (hj : j + 1 < (vls ++ fls).length) (hne : (vls ++ fls)[j] ≠ []) :
    readPlyAsciiBody L h (scanLines (renderLines ((vls ++ fls).take j) ++ joinSp ((vls ++ fls)[j]))) =
      .error .short := by
  have hc : ∀ ts ∈ (vls ++ fls).take j ++ [(vls ++ fls)[j]], ∀ t ∈ ts, CleanTok t := by
    intro ts hts
    rcases List.mem_append.mp hts with h1 | h1
    · exact hclean ts (List.mem_of_mem_take h1)
    · simp only [List.mem_singleton] at h1; subst h1; exact hclean _ (List.getElem_mem _)
  rw [(ply_ascii_bytes_complete _ _ hc hne).2]
  have e : (vls ++ fls).take j ++ [(vls ++ fls)[j]] = (vls ++ fls).take (j + 1) := by
    rw [List.take_succ_eq_append_getElem (by omega)]
  rw [e, List.map_take, List.map_append]
  have := ply_ascii_prefix L h (vls.map mkLine) (fls.map mkLine) hx (j + 1) (by simpa using hj) none (by simp)
  simpa using this

/-- BYTE level, PTS: nothing at all, or the count line alone (with or without its line feed) while points
    are declared → rejected -/
theorem pts_count_line_bytes (L : Lex) (fpp : Nat) (ctok : Tok) (pls : List (List Tok)) (hc : CleanTok ctok)
    (hx : PtsOk L fpp (mkLine [ctok]) (pls.map mkLine)) (hne : pls ≠ []) :
    readPts L [] = .error .malformed ∧ readPts L ctok = .error .short ∧ readPts L (ctok ++ [10]) = .error .short := by
  have hall : ∀ ts ∈ [[ctok]], ∀ x ∈ ts, CleanTok x := by
    intro ts hts x hx'; simp only [List.mem_singleton] at hts; subst hts
    simp only [List.mem_singleton] at hx'; subst hx'; exact hc
  have hkey := (pts_prefix L fpp (mkLine [ctok]) (pls.map mkLine) hx).2.1 (by simpa using hne)
  refine ⟨rfl, ?_, ?_⟩
  · have h1 := (ply_ascii_bytes_complete [] [ctok] (by simpa using hall) (by simp)).2
    simp only [renderLines, List.flatMap_nil, List.nil_append, joinSp, List.map_cons, List.map_nil] at h1
    unfold readPts; rw [h1]; exact hkey
  · have h1 := (ply_ascii_bytes_complete [] [ctok] (by simpa using hall) (by simp)).1
    simp only [renderLines, List.nil_append, List.flatMap_cons, List.flatMap_nil, List.append_nil, joinSp,
      List.map_cons, List.map_nil] at h1
    unfold readPts; rw [h1]; exact hkey

/-- BYTE level, PTS: cut right after the last token of point line `j` (before its line feed) while more
    points are declared → rejected (`j = 0` included) -/
theorem pts_prefix_bytes_eol (L : Lex) (fpp : Nat) (ctok : Tok) (pls : List (List Tok))
    (hc : CleanTok ctok) (hclean : ∀ ts ∈ pls, ∀ t ∈ ts, CleanTok t)
    (hx : PtsOk L fpp (mkLine [ctok]) (pls.map mkLine))
    (j : Nat) (hj : j + 1 < pls.length) (hne : pls[j] ≠ []) :
    ∃ e, readPts L (renderLines ([ctok] :: pls.take j) ++ joinSp pls[j]) = .error e := by
  have hcl : ∀ ts ∈ ([ctok] :: pls.take j) ++ [pls[j]], ∀ t ∈ ts, CleanTok t := by
    intro ts hts x hx'
    rcases List.mem_append.mp hts with h1 | h1
    · rcases List.mem_cons.mp h1 with rfl | h2
      · simp only [List.mem_singleton] at hx'; subst hx'; exact hc
      · exact hclean ts (List.mem_of_mem_take h2) x hx'
    · simp only [List.mem_singleton] at h1; subst h1; exact hclean _ (List.getElem_mem _) x hx'
  unfold readPts
  rw [(ply_ascii_bytes_complete _ _ hcl hne).2]
  have e : ([ctok] :: pls.take j) ++ [pls[j]] = [ctok] :: pls.take (j + 1) := by
    rw [List.take_succ_eq_append_getElem (by omega)]; simp
  rw [e]
  have := (pts_prefix L fpp (mkLine [ctok]) (pls.map mkLine) hx).2.2.1 (j + 1) (by omega) (by simpa using hj)
    none (by simp)
  simpa [List.map_take] using this

/-- BYTE level, PTS: a cut inside the FIRST point line after `t ≥ 1` of its tokens (with or without the
    separating space): rejected — or, when that line is the only point declared and at least 3 tokens
    remain, exactly the one point built from the tokens present (see `ptsPoint_restriction`; the text is
    then itself a valid one-point PTS file with fewer fields). -/
theorem pts_first_line_bytes (L : Lex) (fpp : Nat) (ctok : Tok) (l : List Tok) (rest : List (List Tok))
    (hc : CleanTok ctok) (hcl : ∀ t ∈ l, CleanTok t)
    (hx : PtsOk L fpp (mkLine [ctok]) ((l :: rest).map mkLine))
    (t : Nat) (ht0 : 0 < t) (ht : t < fpp) (sp : Bool) :
    (∃ e, readPts L (renderLines [[ctok]] ++ (joinSp (l.take t) ++ (if sp then [32] else []))) = .error e) ∨
    (rest = [] ∧ 3 ≤ t ∧
      readPts L (renderLines [[ctok]] ++ (joinSp (l.take t) ++ (if sp then [32] else []))) =
        .ok [ptsPoint (l.take t)]) := by
  have hlen : l.length = fpp := by
    have := (hx.2 (mkLine l) (by simp)).1
    simpa [mkLine] using this
  have hct : ∀ x ∈ l.take t, CleanTok x := fun x hx' => hcl x (List.mem_of_mem_take hx')
  obtain ⟨p10, p13⟩ := joinSp_noSpecial (l.take t) hct
  have hp10 : (10 : UInt8) ∉ joinSp (l.take t) ++ (if sp then [32] else []) := by cases sp <;> simp [p10]
  have hp13 : (13 : UInt8) ∉ joinSp (l.take t) ++ (if sp then [32] else []) := by cases sp <;> simp [p13]
  have hall : ∀ ts ∈ [[ctok]], ∀ x ∈ ts, CleanTok x := by
    intro ts hts x hx'; simp only [List.mem_singleton] at hts; subst hts
    simp only [List.mem_singleton] at hx'; subst hx'; exact hc
  have hne : (joinSp (l.take t) ++ (if sp then [32] else [])).isEmpty = false := by
    have h1 := joinSp_ne_nil (l.take t) hct (by
      intro hnil
      have h2 : (l.take t).length = 0 := by rw [hnil]; rfl
      rw [List.length_take] at h2; omega)
    cases hjs : joinSp (l.take t) with
    | nil => exact absurd hjs h1
    | cons a b => simp
  have hf : fields (joinSp (l.take t) ++ (if sp then [32] else [])) = l.take t := by
    cases sp with
    | false => simpa using fields_joinSp _ hct
    | true => simpa using fields_joinSp_space _ hct
  unfold readPts
  rw [scanLines_render _ hall _ hp10 hp13]
  simp only [hne, Bool.false_eq_true, if_false, List.map_cons, List.map_nil, List.cons_append, List.nil_append, hf]
  have key := (pts_prefix L fpp (mkLine [ctok]) ((l :: rest).map mkLine) hx).2.2.2 (mkLine l) (by simp)
    ⟨joinSp (l.take t) ++ (if sp then [32] else []), l.take t⟩ ⟨t, ht0, ht, by simp [mkLine]⟩
  rcases key with ⟨e, he⟩ | ⟨h1, h2, h3⟩
  · left; exact ⟨e, he⟩
  · right
    refine ⟨?_, ?_, h3⟩
    · simpa using h1
    · simpa [List.length_take, hlen] using (show 3 ≤ (l.take t).length from h2) |>.trans (by simp)

/-- the point built from the first `t ≥ 3` tokens of a line: exactly those tokens — position = tokens 0–2,
    intensity = token 3 iff it is among them, colour = tokens 4–6 iff all of them are; absent otherwise.
    Nothing is defaulted: an absent field is `none` (in the Go reader: the attribute is not set on the mesh,
    `readIntensity` / `readColor` stay false — reader.go:112-125), never a zero. -/
theorem ptsPoint_take_exact (toks : List Tok) (t : Nat) (h3 : 3 ≤ t) (ht : t ≤ toks.length) :
    ptsPoint (toks.take t) =
      { pos := toks.take 3,
        intensity := if 3 < t then toks[3]? else none,
        color := if 6 < t then some ((toks.drop 4).take 3) else none } := by
  simp only [ptsPoint, List.length_take, Nat.min_eq_left ht, List.take_take, Nat.min_eq_left h3]
  congr 1
  · split
    · rw [List.getElem?_take]; simp; omega
    · rfl
  · split
    · congr 1
      rw [List.drop_take, List.take_take]; congr 1; omega
    · rfl

/-- DECISION on the one-point case (C14, "data wholly present in the prefix"): whenever the reader accepts a PTS
    text cut inside its first point line, the file declares exactly one point and the record returned consists of
    exactly the tokens present — see `ptsPoint_take_exact` — with every other field ABSENT. -/
theorem pts_one_point_exact (L : Lex) (fpp : Nat) (ctok : Tok) (l : List Tok) (rest : List (List Tok))
    (hc : CleanTok ctok) (hcl : ∀ t ∈ l, CleanTok t)
    (hx : PtsOk L fpp (mkLine [ctok]) ((l :: rest).map mkLine))
    (t : Nat) (ht0 : 0 < t) (ht : t < fpp) (sp : Bool) (m : List PtsPoint)
    (hok : readPts L (renderLines [[ctok]] ++ (joinSp (l.take t) ++ (if sp then [32] else []))) = .ok m) :
    rest = [] ∧ 3 ≤ t ∧
    m = [{ pos := l.take 3,
           intensity := if 3 < t then l[3]? else none,
           color := if 6 < t then some ((l.drop 4).take 3) else none }] := by
  have hlen : l.length = fpp := by
    have := (hx.2 (mkLine l) (by simp)).1
    simpa [mkLine] using this
  rcases pts_first_line_bytes L fpp ctok l rest hc hcl hx t ht0 ht sp with ⟨e, he⟩ | ⟨h1, h2, h3⟩
  · rw [he] at hok; cases hok
  · rw [h3] at hok
    simp only [Except.ok.injEq] at hok
    refine ⟨h1, h2, ?_⟩
    rw [← hok, ptsPoint_take_exact l t h2 (by omega)]

/-! ## iteration counts: every loop consumes input

  Each reader is a total function whose loops are structural recursions on the input.  The counters are
  threaded through the same recursions (`xI = (x, iterations)`, `Model/Readers.lean`): every statement below
  first says that the instrumented function returns exactly the reader's result, then bounds the count. -/

theorem reader_steps_linear_splat (bs : List UInt8) : (readRecs bs).steps ≤ bs.length / 32 + 1 := by
  induction bs using readRecs.induct with
  | case1 => rw [readRecs]; simp
  | case2 bs h hd => rw [readRecs]; simp [h, hd]
  | case3 bs h r hd ih =>
    rw [readRecs]; simp only [h, hd, dite_false]
    have hl := decRec_some_length hd
    simp only [List.length_take] at hl
    simp only [List.length_drop] at ih
    omega

/-- the sequence of exact reads (STL header/count/records, PLY binary vertex records, the six SPZ arrays):
    the instrumented function computes `readArrays`'s result, makes at most one read per requested buffer
    (SPZ: ≤ 6 whatever the header says, also for degree 0 / zero points) and at most
    `bytes + 1 + (number of zero-size buffers)` reads (PLY vertex loop with a non-empty record: ≤ bytes + 1) -/
theorem reader_steps_linear_arrays (sizes : List Nat) (bs : List UInt8) :
    (readArraysI sizes bs).1 = readArrays sizes bs ∧
    (readArraysI sizes bs).2 ≤ sizes.length ∧
    (readArraysI sizes bs).2 ≤ bs.length + 1 + zeroSizes sizes :=
  ⟨readArraysI_fst sizes bs, readArraysI_steps_le_length sizes bs, readArraysI_steps_le_bytes sizes bs⟩

theorem reader_steps_linear_ascii_verts (L : Lex) (np : Nat) (ls : List Line) (n : Nat) :
    (asciiVertsI L np ls n).1 = asciiVerts L np ls n ∧ (asciiVertsI L np ls n).2 ≤ ls.length + 1 :=
  ⟨asciiVertsI_fst L np ls n, asciiVertsI_steps L np ls n⟩

theorem reader_steps_linear_ascii_faces (L : Lex) (f : FaceHdr) (ls : List Line) (n : Nat) :
    (asciiFacesI L f ls n).1 = asciiFaces L f ls n ∧ (asciiFacesI L f ls n).2 ≤ ls.length + 1 :=
  ⟨asciiFacesI_fst L f ls n, asciiFacesI_steps L f ls n⟩

theorem reader_steps_linear_pts_loop (L : Lex) (ls : List Line) (n : Nat) (o : Option Nat) :
    (ptsLoopI L ls n o).1 = ptsLoop L ls n o ∧ (ptsLoopI L ls n o).2 ≤ ls.length + 1 :=
  ⟨ptsLoopI_fst L ls n o, ptsLoopI_steps L ls n o⟩

/-! ### one assembled statement per format: the WHOLE read (PLY: header scan aside)

  `readXI` runs the instrumented loops exactly as `readX` runs the plain ones; every statement says that its
  first component is the reader's result and bounds its second component — the total number of loop iterations
  (reads, records, faces, list reads, bytes scanned, bytes split into fields, lines, list readers per line) —
  linearly in the number of input bytes, for ALL inputs (valid, cut or garbage).  Not counted: the validation of
  a token's number syntax (`goFloatOk`/`goInt?`: structural recursions over the token's bytes). -/

theorem reader_steps_linear_stl (bs : List UInt8) :
    (readStlI bs).1 = readStl bs ∧ (readStlI bs).2 ≤ bs.length + 3 :=
  ⟨readStlI_fst bs, readStlI_bound bs⟩

/-- SPZ (decompressed stream): one header read and at most six array reads whatever the header says; and when the
    read succeeds the announced payload is present, so the dequantisation loops (five of `numPoints` iterations,
    `shDim` of `numPoints` iterations) are bounded by the number of bytes -/
theorem reader_steps_linear_spz (bs : List UInt8) :
    (readArraysI (arraySizes (parseHeader (bs.take 16))) (bs.drop 16)).1 =
        readArrays (arraySizes (parseHeader (bs.take 16))) (bs.drop 16) ∧
    (readArraysI (arraySizes (parseHeader (bs.take 16))) (bs.drop 16)).2 ≤ 6 ∧
    ∀ a, readRaw bs = .ok a → payloadLength a.header ≤ bs.length ∧
      a.header.numPoints * (5 + shDim a.header.shDegree) ≤ bs.length := by
  refine ⟨readArraysI_fst _ _, by simpa [arraySizes] using readArraysI_steps_le_length (arraySizes (parseHeader (bs.take 16))) (bs.drop 16), ?_⟩
  intro a ha
  unfold readRaw at ha
  split at ha
  · next h16 =>
    simp only at ha
    split at ha
    · have hsum : (arraySizes (parseHeader (bs.take 16))).sum ≤ (bs.drop 16).length := by
        by_contra hc
        rw [readArrays_short _ _ (by omega)] at ha
        cases ha
      split at ha
      · simp only [Except.ok.injEq] at ha
        subst ha
        simp only [payloadLength, arraySizes, List.sum_cons, List.sum_nil, List.length_drop, posBytes] at hsum ⊢
        constructor
        · omega
        · have : (parseHeader (bs.take 16)).numPoints * (5 + shDim (parseHeader (bs.take 16)).shDegree) ≤
              (parseHeader (bs.take 16)).numPoints * (if (parseHeader (bs.take 16)).version = 1 then 6 else 9) +
              ((parseHeader (bs.take 16)).numPoints + ((parseHeader (bs.take 16)).numPoints * 3 +
              ((parseHeader (bs.take 16)).numPoints * 3 + ((parseHeader (bs.take 16)).numPoints * 3 +
              ((parseHeader (bs.take 16)).numPoints * 3 * shDim (parseHeader (bs.take 16)).shDegree + 0))))) := by
            generalize (parseHeader (bs.take 16)).numPoints = n
            generalize shDim (parseHeader (bs.take 16)).shDegree = d
            split <;> nlinarith [Nat.zero_le (n * d)]
          omega
      · cases ha
    · cases ha
  · cases ha

theorem reader_steps_linear_ply_binary (h : Hdr) (be : Bool) (body : List UInt8) :
    (readPlyBinBodyI h be body).1 = readPlyBinBody h be body ∧
    (1 ≤ h.vsize → (readPlyBinBodyI h be body).2 ≤ 3 * body.length + 3) :=
  ⟨readPlyBinBodyI_fst h be body, readPlyBinBodyI_bound h be body⟩

theorem reader_steps_linear_ply_ascii (L : Lex) (h : Hdr) (body : List UInt8) :
    (readPlyAsciiBytesI L h body).1 = readPlyAsciiBody L h (scanLines body) ∧
    (readPlyAsciiBytesI L h body).2 ≤ 9 * body.length + 9 :=
  ⟨readPlyAsciiBytesI_fst L h body, readPlyAsciiBytesI_bound L h body⟩

theorem reader_steps_linear_pts (L : Lex) (bs : List UInt8) :
    (readPtsI L bs).1 = readPts L bs ∧ (readPtsI L bs).2 ≤ 4 * bs.length + 4 :=
  ⟨readPtsI_fst L bs, readPtsI_bound L bs⟩

/-- the scanner delivers at most one line per byte (plus a final unterminated one) -/
theorem scanLines_length (bs : List UInt8) : (scanLines bs).length ≤ bs.length + 1 := by
  have aux : ∀ (bs cur : List UInt8), (scanLinesAux bs cur).length ≤ bs.length + 1 := by
    intro bs
    induction bs with
    | nil => intro cur; simp only [scanLinesAux]; split <;> simp
    | cons b bs ih =>
      intro cur
      simp only [scanLinesAux]
      split
      · have := ih []; simp only [List.length_cons]; omega
      · have := ih (b :: cur); simp only [List.length_cons]; omega
  simpa [scanLines] using aux bs []

/-! ## no placeholder: an `ok` on a cut file is (a prefix-restriction of) the full decode

  For the ASCII formats see `ply_ascii_prefix` (always an error) and `pts_prefix` (error, or the one
  restricted point of `ptsPoint_restriction`). -/

theorem no_placeholder_stl_eq (hdr : List UInt8) (tris : List (List UInt8)) (hh : hdr.length = 80)
    (ht : ∀ t ∈ tris, t.length = 50) (hn : tris.length < 2 ^ 32) (k : Nat) (m : List (List UInt8))
    (h : readStl ((stlFile hdr tris).take k) = .ok m) : m = tris := by
  by_cases hk : k < (stlFile hdr tris).length
  · rw [stl_prefix_rejected hdr tris hh ht hn k hk] at h; cases h
  · rw [List.take_of_length_le (by omega), stl_full hdr tris hh ht hn] at h
    cases h; rfl

theorem no_placeholder_splat_eq (rs : List Rec) (k : Nat) :
    (readRecs ((rs.flatMap encRec).take k)).recs <+: rs := by
  by_cases hk : k ≤ (rs.flatMap encRec).length
  · rw [splat_prefix rs k hk]; exact List.take_prefix _ _
  · rw [List.take_of_length_le (by omega), readRecs_flatMap]

theorem no_placeholder_spz_eq (bs : List UInt8) (h16 : 16 ≤ bs.length)
    (hlen : bs.length = payloadLength (parseHeader (bs.take 16))) (k : Nat) (a : Arrays)
    (h : readRaw (bs.take k) = .ok a) : readRaw bs = .ok a := by
  by_cases hk : k < bs.length
  · obtain ⟨e, he⟩ := spz_prefix bs h16 hlen k hk
    rw [he] at h; cases h
  · rwa [List.take_of_length_le (by omega)] at h

theorem no_placeholder_ply_binary_eq (L : Lex) (be : Bool) (h : Hdr) (hfmt : h.fmt = if be then .be else .le)
    (x : BinFile) (hx : x.ok h) (k : Nat) (m : PlyMesh)
    (hm : readPly L h ((x.bytes be h).take k) = .ok m) : m = .bin (x.mesh be h) := by
  by_cases hk : k < (x.bytes be h).length
  · obtain ⟨e, he⟩ := ply_binary_prefix_rejected L be h hfmt x hx k hk
    rw [he] at hm; cases hm
  · rw [List.take_of_length_le (by omega), ply_binary_full L be h hfmt x hx] at hm
    cases hm; rfl

theorem no_placeholder_ply_ascii_eq (L : Lex) (h : Hdr) (vs fl : List Line) (hx : AsciiOk L h vs fl)
    (j : Nat) (hj : j ≤ (vs ++ fl).length) (d : Option Line)
    (hd : ∀ x, d = some x → ∃ hj' : j < (vs ++ fl).length, PartialOf x (vs ++ fl)[j]) (m : AsciiMesh)
    (hm : readPlyAsciiBody L h ((vs ++ fl).take j ++ d.toList) = .ok m) : m = asciiMesh L h vs fl := by
  by_cases hlt : j < (vs ++ fl).length
  · rw [ply_ascii_prefix L h vs fl hx j hlt d (fun x hx' => (hd x hx').2)] at hm; cases hm
  · have hjl : j = (vs ++ fl).length := by omega
    cases d with
    | some x => obtain ⟨hj', _⟩ := hd x rfl; omega
    | none =>
      rw [hjl, List.take_length, Option.toList_none, List.append_nil, ply_ascii_full L h vs fl hx] at hm
      cases hm; rfl

/-! ### … stated through `Readers.prefixOf`, the predicate the oracle `c14.holds.prefix_only` evaluates -/

theorem isPrefixOf_self {β : Type} [DecidableEq β] (l : List β) : l.isPrefixOf l = true := by
  induction l with
  | nil => rfl
  | cons a l ih => simp [List.isPrefixOf, ih]

/-- a one-attribute summary is a (complete) prefix-restriction of itself -/
theorem prefixOf_self_single {V P : Type} [DecidableEq V] [DecidableEq P] (mode : Mode) (n : String)
    (vs : List V) (ps : List P) : prefixOf mode (⟨[(n, vs)], ps⟩ : Summary V P) ⟨[(n, vs)], ps⟩ = true := by
  simp [prefixOf, List.lookup, isPrefixOf_self]

def stlSummary (tris : List (List UInt8)) : Summary (List UInt8) Unit := ⟨[("triangle", tris)], []⟩
def splatSummary (rs : List Rec) : Summary Rec Unit := ⟨[("record", rs)], []⟩
def spzSummary (a : Arrays) : Summary (List UInt8) Unit :=
  ⟨[("arrays", [a.positions, a.alphas, a.colors, a.scales, a.rotations, a.sh])], []⟩
def binSummary (m : BinMesh) : Summary (List UInt8) (List UInt8) := ⟨[("vertex", m.verts)], m.faces.map (·.raw)⟩
def asciiSummary (m : AsciiMesh) : Summary (List Tok) (Nat × List Tok) := ⟨[("vertex", m.verts)], m.faces⟩

theorem no_placeholder_stl (hdr : List UInt8) (tris : List (List UInt8)) (hh : hdr.length = 80)
    (ht : ∀ t ∈ tris, t.length = 50) (hn : tris.length < 2 ^ 32) (k : Nat) (m : List (List UInt8))
    (h : readStl ((stlFile hdr tris).take k) = .ok m) :
    prefixOf .complete (stlSummary m) (stlSummary tris) = true := by
  rw [no_placeholder_stl_eq hdr tris hh ht hn k m h]; exact prefixOf_self_single _ _ _ _

theorem no_placeholder_splat (rs : List Rec) (k : Nat) :
    prefixOf .streamed (splatSummary (readRecs ((rs.flatMap encRec).take k)).recs) (splatSummary rs) = true := by
  have := no_placeholder_splat_eq rs k
  simp [prefixOf, splatSummary, List.lookup, List.isPrefixOf_iff_prefix, this]

theorem no_placeholder_spz (bs : List UInt8) (h16 : 16 ≤ bs.length)
    (hlen : bs.length = payloadLength (parseHeader (bs.take 16))) (k : Nat) (a : Arrays)
    (h : readRaw (bs.take k) = .ok a) :
    ∃ x, readRaw bs = .ok x ∧ prefixOf .complete (spzSummary a) (spzSummary x) = true :=
  ⟨a, no_placeholder_spz_eq bs h16 hlen k a h, prefixOf_self_single _ _ _ _⟩

theorem no_placeholder_ply_binary (L : Lex) (be : Bool) (h : Hdr) (hfmt : h.fmt = if be then .be else .le)
    (x : BinFile) (hx : x.ok h) (k : Nat) (m : BinMesh)
    (hm : readPly L h ((x.bytes be h).take k) = .ok (.bin m)) :
    prefixOf .complete (binSummary m) (binSummary (x.mesh be h)) = true := by
  have := no_placeholder_ply_binary_eq L be h hfmt x hx k _ hm
  simp only [PlyMesh.bin.injEq] at this
  rw [this]; exact prefixOf_self_single _ _ _ _

theorem no_placeholder_ply_ascii (L : Lex) (h : Hdr) (vs fl : List Line) (hx : AsciiOk L h vs fl)
    (j : Nat) (hj : j ≤ (vs ++ fl).length) (d : Option Line)
    (hd : ∀ x, d = some x → ∃ hj' : j < (vs ++ fl).length, PartialOf x (vs ++ fl)[j]) (m : AsciiMesh)
    (hm : readPlyAsciiBody L h ((vs ++ fl).take j ++ d.toList) = .ok m) :
    prefixOf .complete (asciiSummary m) (asciiSummary (asciiMesh L h vs fl)) = true := by
  rw [no_placeholder_ply_ascii_eq L h vs fl hx j hj d hd m hm]; exact prefixOf_self_single _ _ _ _

/-- the pinned (pre-bd55314) face loop makes no progress at end of input: the state steps to itself,
    forever — the hang the property forbids.  (The repaired loop is `asciiFaces`: `[] ↦ error`.) -/
theorem ascii_eof_loop_no_progress (count i : Nat) (h : i < count) :
    oldFaceLoopStep count ([], i) = some ([], i) := by
  simp [oldFaceLoopStep, Nat.not_le.mpr h]

/-! ## non-vacuity: concrete files satisfying the hypotheses -/

section examples

def exHdrBin : Hdr := ⟨.le, 1, 12, 3, some ⟨1, [⟨1, 4⟩], 0, none⟩⟩
def exBin : BinFile := ⟨[[112, 108, 121]], [List.replicate 12 1], [[(3, List.replicate 12 0)]]⟩

example : exBin.ok exHdrBin := by
  refine ⟨?_, rfl, ?_, rfl, ?_⟩
  · intro l hl; simp only [exBin, List.mem_singleton] at hl; subst hl; decide
  · intro v hv; simp only [exBin, List.mem_singleton] at hv; subst hv; rfl
  · intro y hy; simp only [exBin, List.mem_singleton] at hy; subst hy
    refine ⟨⟨⟨Or.inl ⟨rfl, by decide⟩, rfl⟩, trivial⟩, 3, rfl, Or.inl rfl⟩

def exHdrAscii : Hdr := ⟨.ascii, 1, 12, 3, some ⟨1, [⟨1, 4⟩], 0, none⟩⟩
def exV : Line := ⟨[49, 46, 53, 32, 45, 50, 32, 51, 101, 50], [[49, 46, 53], [45, 50], [51, 101, 50]]⟩
def exF : Line := ⟨[51, 32, 48, 32, 49, 32, 50], [[51], [48], [49], [50]]⟩

example : AsciiOk goLex exHdrAscii [exV] [exF] := by
  refine ⟨rfl, ?_, rfl, ?_⟩
  · intro l hl; simp only [List.mem_singleton] at hl; subst hl; exact ⟨by decide, by decide, by decide⟩
  · intro l hl; simp only [List.mem_singleton] at hl; subst hl
    refine ⟨by decide, [⟨[51], [[48], [49], [50]]⟩], rfl, ⟨by decide, by decide, trivial⟩, by decide, 3, by decide, Or.inl rfl⟩

/-- a cut after the second token of the face line -/
example : PartialOf ⟨[51, 32, 48], [[51], [48]]⟩ exF := ⟨by decide, 2, by decide, by decide, by decide⟩

def exC : Line := ⟨[49], [[49]]⟩
def exP : Line := ⟨[49, 32, 50, 32, 51, 32, 57, 32, 49, 48, 32, 50, 48, 32, 51, 48], [[49], [50], [51], [57], [49, 48], [50, 48], [51, 48]]⟩

example : PtsOk goLex 7 exC [exP] := by
  refine ⟨by decide, ?_⟩
  intro l hl; simp only [List.mem_singleton] at hl; subst hl; exact ⟨by decide, by decide, by decide⟩

/-- an SPZ stream exactly as long as its header announces (version 2, one point, degree 0: 16 + 19 bytes) -/
def exSpz : List UInt8 := Spz.encHeader ⟨Spz.magicNum, 2, 1, 0, 12, 0, 0⟩ ++ List.replicate 19 7

example : 16 ≤ exSpz.length ∧ exSpz.length = payloadLength (parseHeader (exSpz.take 16)) ∧
    (parseHeader (exSpz.take 16)).valid = true := by decide

/-- writer-shaped lines: clean tokens, `mkLine` -/
example : (∀ ts ∈ [exV.toks] ++ [exF.toks], ∀ t ∈ ts, CleanTok t) ∧
    AsciiOk goLex exHdrAscii ([exV.toks].map mkLine) ([exF.toks].map mkLine) := by
  refine ⟨?_, rfl, ?_, rfl, ?_⟩
  · intro ts hts t ht
    simp only [List.cons_append, List.nil_append, List.mem_cons, List.not_mem_nil, or_false] at hts
    rcases hts with rfl | rfl <;>
      (simp only [exV, exF, List.mem_cons, List.not_mem_nil, or_false] at ht
       rcases ht with rfl | rfl | rfl | rfl <;> exact ⟨by decide, by decide⟩)
  · intro l hl; simp only [List.map_cons, List.map_nil, List.mem_singleton] at hl; subst hl
    exact ⟨by decide, by decide, by decide⟩
  · intro l hl; simp only [List.map_cons, List.map_nil, List.mem_singleton] at hl; subst hl
    refine ⟨by decide, [⟨[51], [[48], [49], [50]]⟩], rfl, ⟨by decide, by decide, trivial⟩, by decide, 3, by decide, Or.inl rfl⟩

end examples

end C14
end PolyVerif
