/-
  C11 — node outputs are never stale; nodes recompute only when an input changed; version +1 per
  execution.  Property theorems only.
  Model: PolyVerif/Model/Nodes.lean (mirrors /repo/nodes/struct_node.go, value_node.go,
  generator/parameter/value.go).  Lemmas: PolyVerif/Lemmas/Nodes*.lean.

  All theorems are for an arbitrary value type `V`, arbitrary processor functions `fn`, every graph
  `g0` satisfying the guard `Init` (acyclic numbering: each dependency has a smaller id; nothing
  processed yet) and EVERY history `ops : List (Op V)` of parameter updates, scalar re-wirings,
  array add/remove and reads of arbitrary nodes (rejected calls included; they leave the state alone).
-/
import PolyVerif.Lemmas.NodesOps

namespace PolyVerif
namespace C11
open Nodes
variable {V : Type}

/-- the states the API can produce -/
def Reachable (g : Graph V) : Prop := ∃ g0 ops, Init g0 ∧ g = (run g0 ops).1

/-- the ghost-free inductive invariant (I1 ∧ I2 ∧ guard) holds in every reachable state -/
theorem reachable_inv {g : Graph V} (h : Reachable g) : Inv g := by
  obtain ⟨g0, ops, h0, rfl⟩ := h
  exact run_inv h0.inv ops

/-- `Spec` is evaluation from scratch: it satisfies (and, ids being well-founded, is determined by)
    the recursive equation that mentions only parameter values, processors and wiring -/
theorem spec_is_from_scratch (g : Graph V) (hwf : WF g) (i : Nat) :
    Spec g i = match g i with
      | .param x _ => x
      | .struct s => s.fn s.scalars s.arrays (s.deps.map (Spec g)) :=
  Spec_eq g hwf i

/-- **never stale**: after any history, `Value()` of any node returns the from-scratch value of
    the current graph -/
theorem read_fresh (g0 : Graph V) (h0 : Init g0) (ops : List (Op V)) (i : Nat) :
    val (step (run g0 ops).1 (.read i)).1 i = Spec (run g0 ops).1 i := by
  have hinv := run_inv h0.inv ops
  rw [step_read]
  have hok := Eval_ok i _ hinv
  rw [val_eq_spec hok.inv hok.fresh, Spec_static hinv.wf hok.evo.static]

/-- in every reachable state, every node that reports `Processed` holds the from-scratch value
    (so a read that does not execute is fresh as well) -/
theorem processed_is_fresh (g0 : Graph V) (h0 : Init g0) (ops : List (Op V)) (j : Nat)
    (hj : Outdated (run g0 ops).1 j = false) : val (run g0 ops).1 j = Spec (run g0 ops).1 j :=
  val_eq_spec (run_inv h0.inv ops) hj

/-- evaluation changes no parameter, processor or wiring, and only nodes that were outdated (I3) -/
theorem eval_frame (g0 : Graph V) (h0 : Init g0) (ops : List (Op V)) (i : Nat) :
    SameStatic (step (run g0 ops).1 (.read i)).1 (run g0 ops).1 ∧
    (∀ k, Outdated (run g0 ops).1 k = false → (step (run g0 ops).1 (.read i)).1 k = (run g0 ops).1 k) ∧
    (∀ e ∈ (step (run g0 ops).1 (.read i)).2, Reach (run g0 ops).1 i e.1) := by
  have hinv := run_inv h0.inv ops
  rw [step_read]
  have hok := Eval_ok i _ hinv
  exact ⟨hok.evo.static, hok.evo.keep, hok.logCone⟩

/-- **a second read executes nothing** (and changes nothing) -/
theorem reads_idempotent (g0 : Graph V) (h0 : Init g0) (ops : List (Op V)) (i : Nat) :
    step (step (run g0 ops).1 (.read i)).1 (.read i) = ((step (run g0 ops).1 (.read i)).1, []) := by
  have hinv := run_inv h0.inv ops
  rw [step_read, step_read]
  have hok := Eval_ok i _ hinv
  rw [Eval_eq _ hok.inv.wf]
  cases hs : (Eval (run g0 ops).1 i).1 i with
  | param x v => rfl
  | struct s => simp [hok.fresh]

/-- a node executes during a read only if it was outdated, and it is processed afterwards -/
theorem exec_only_if_outdated (g0 : Graph V) (h0 : Init g0) (ops : List (Op V)) (i : Nat)
    (e : Nat × Nat) (he : e ∈ (step (run g0 ops).1 (.read i)).2) :
    Outdated (run g0 ops).1 e.1 = true ∧ Outdated (step (run g0 ops).1 (.read i)).1 e.1 = false := by
  have hinv := run_inv h0.inv ops
  rw [step_read] at he ⊢
  exact ⟨((Eval_ok i _ hinv).logOut e he).1, executed_fresh hinv i e he⟩

/-- **recompute only on change**: once node `j` is processed (in particular right after it
    executed), no history that neither updates a parameter in `j`'s dependency cone nor re-wires a
    node of that cone (`j` itself included) executes `j` again, whatever is read, and `j` stays
    processed -/
theorem exec_only_if_changed (g0 : Graph V) (h0 : Init g0) (ops : List (Op V)) (j : Nat)
    (hj : Outdated (run g0 ops).1 j = false) (ops2 : List (Op V)) (hq : Untouched (run g0 ops).1 ops2 j) :
    cnt (run (run g0 ops).1 ops2).2 j = 0 ∧ Outdated (run (run g0 ops).1 ops2).1 j = false := by
  have := untouched_run (run_inv h0.inv ops) hj ops2 hq
  exact ⟨this.2, this.1⟩

/-- the same, from execution to execution: if `j` executed in a read and the following history
    `ops2` (any reads included) does not touch `j`'s cone, `j` does not execute in `ops2` -/
theorem reexecution_needs_change (g0 : Graph V) (h0 : Init g0) (ops : List (Op V)) (i j : Nat)
    (hex : 0 < cnt (step (run g0 ops).1 (.read i)).2 j) (ops2 : List (Op V))
    (hq : Untouched (step (run g0 ops).1 (.read i)).1 ops2 j) :
    cnt (run (step (run g0 ops).1 (.read i)).1 ops2).2 j = 0 := by
  have hinv := run_inv h0.inv ops
  obtain ⟨e, he, hej⟩ := cnt_pos_mem hex
  have hf := (exec_only_if_outdated g0 h0 ops i e he).2
  rw [hej] at hf
  exact (untouched_run (step_inv hinv _) hf ops2 hq).2

/-- **version = number of executions**: along every history the version of every node grows by
    exactly the number of its executions in the log plus, for a parameter, the number of accepted
    updates — and by nothing else -/
theorem version_counts_executions (g0 : Graph V) (h0 : Init g0) (ops : List (Op V)) (k : Nat) :
    ver (run g0 ops).1 k = ver g0 k + cnt (run g0 ops).2 k + setCount g0 ops k :=
  version_run h0.inv ops k

/-- for a struct node the version counts its executions and nothing else -/
theorem struct_version_counts_executions (g0 : Graph V) (h0 : Init g0) (ops : List (Op V)) (k : Nat)
    (s : SNode V) (hk : g0 k = .struct s) :
    ver (run g0 ops).1 k = s.version + cnt (run g0 ops).2 k := by
  rw [version_run h0.inv ops k, setCount_struct h0.inv ops k (by simp [hk, isParam])]
  simp [ver, hk]

/-- one step: +1 per execution, +1 for an accepted `Set` of that parameter, otherwise unchanged -/
theorem version_step_exact (g0 : Graph V) (h0 : Init g0) (ops : List (Op V)) (op : Op V) (k : Nat) :
    ver (step (run g0 ops).1 op).1 k
      = ver (run g0 ops).1 k + cnt (step (run g0 ops).1 op).2 k + bumps (run g0 ops).1 op k :=
  version_step (run_inv h0.inv ops) op k

/-- the index `sn.depVersions[i]` in `Outdated()` never panics: whenever the flag is clear the
    remembered list has one entry per dependency (and each is `≤` the dependency's version) -/
theorem remembered_length (g0 : Graph V) (h0 : Init g0) (ops : List (Op V)) (i : Nat) (s : SNode V)
    (rv : List Nat) (hs : (run g0 ops).1 i = .struct s) (hr : s.remembered = some rv) (hf : s.flag = false) :
    rv.length = s.deps.length ∧ All2 (fun d r => r ≤ ver (run g0 ops).1 d) s.deps rv := by
  have h := (run_inv h0.inv ops).rem i s rv hs hr hf
  exact ⟨h.length_eq.symm, h⟩

/-- the executable cone used by the driver's `no_spurious` oracle is the cone `Reach` of the theorems -/
theorem inCone_iff_reach (g : Graph V) (hwf : WF g) (j k : Nat) : inCone (j+1) g j k = true ↔ Reach g j k :=
  inCone_iff hwf (j+1) j k (Nat.lt_succ_self j)

/-- the guard is preserved: the model never creates a dependency on a node with a larger id -/
theorem wf_preserved (g0 : Graph V) (h0 : Init g0) (ops : List (Op V)) : WF (run g0 ops).1 :=
  (run_inv h0.inv ops).wf

/-! ### the pre-2752e26 defect: dependencies enumerated in map order -/

/-- with an enumeration that may be permuted between calls, a node that has just executed
    (remembered versions = current versions, in the order of that call) is reported outdated by
    the very next `Outdated()` although nothing changed: closed witness with two parameter
    dependencies at versions 1 and 2 -/
theorem permuted_deps_spurious :
    ∃ (g : Graph Nat) (s : SNode Nat) (ds ds' : List Nat),
      ds'.Perm ds ∧ s.flag = false ∧ s.remembered = some (ds.map (ver g)) ∧
      outdatedEnum g s ds = false ∧ outdatedEnum g s ds' = true := by
  refine ⟨fun j => .param 0 (j + 1),
    { fn := fun _ _ _ => 0, scalars := [some 0, some 1], arrays := [], cache := 0, version := 1,
      remembered := some [1, 2], flag := false }, [0, 1], [1, 0], List.Perm.swap _ _ _, rfl, rfl, ?_, ?_⟩
  · simp [outdatedEnum, mismatch, ver]
  · simp [outdatedEnum, mismatch, ver]

/-- with the sorted (stable) enumeration the same situation is not outdated: for parameter
    dependencies, remembering the current versions in enumeration order gives "not outdated" -/
theorem stable_deps_not_spurious (g : Graph V) (s : SNode V) (ds : List Nat)
    (hr : s.remembered = some (ds.map (ver g))) (hf : s.flag = false) : outdatedEnum g s ds = false := by
  simp [outdatedEnum, hr, hf, mismatch_map_ver]

/-- (partial: one node over parameter dependencies — the combinatorial core of DESIGN's
    `permuted_deps_still_fresh`) even the pre-2752e26 code was never stale at such a node: if the
    versions remembered at the last execution (enumeration `ds`, state `g0`) are matched by a later
    `Outdated()` call that enumerates ANY permutation `ds'` in a later state `g` (versions only grow),
    then no dependency version changed in between — a permuted vector equal to the remembered one
    has the same sum -/
theorem permuted_deps_still_fresh_partial (g0 g : Graph V) (s : SNode V) (ds ds' : List Nat)
    (hperm : ds'.Perm ds) (hrem : s.remembered = some (ds.map (ver g0)))
    (hmono : ∀ d ∈ ds, ver g0 d ≤ ver g d) (hno : outdatedEnum g s ds' = false) :
    ∀ d ∈ ds, ver g d = ver g0 d := by
  simp only [outdatedEnum, hrem, Bool.or_eq_false_iff] at hno
  have hlen : ds'.length = (ds.map (ver g0)).length := by simp [hperm.length_eq]
  have h1 := mismatch_false_map g _ ds' _ hno.2 hlen
  have h2 : (ds'.map (ver g)).sum = (ds.map (ver g)).sum := (hperm.map (ver g)).sum_nat
  rw [h1] at h2
  intro d hd
  exact (sum_eq_pointwise ds (ver g0) (ver g) hmono h2 d hd).symm

/-- the hypotheses are satisfiable with a genuinely permuted enumeration (equal versions) -/
example : outdatedEnum (fun _ => (.param 0 3 : Node Nat))
    { fn := fun _ _ _ => 0, scalars := [some 0, some 1], arrays := [], cache := 0, version := 1,
      remembered := some ([0, 1].map (ver (fun _ => (.param 0 3 : Node Nat)))), flag := false } [1, 0] = false := by
  decide

/-! ### non-vacuity: a diamond over two parameters with a shared node and an array port -/

def sum3 : List (Option Nat) → List (List Nat) → List Nat → Nat := fun _ _ vs => vs.foldl (· + ·) 1

def mk (sc : List (Option Nat)) (ar : List (List Nat)) : Node Nat :=
  .struct { fn := sum3, scalars := sc, arrays := ar, cache := 0, version := 0, remembered := none, flag := false }

/-- 0,1 parameters; 2 = f(0,1); 3 = f(2, nil); 4 = f(2,3 ; [0,2]) -/
def diamond : Graph Nat := fun i =>
  match i with
  | 0 => .param 5 0
  | 1 => .param 7 0
  | 2 => mk [some 0, some 1] []
  | 3 => mk [some 2, none] []
  | 4 => mk [some 2, some 3] [[0, 2]]
  | _ => .param 0 0

theorem diamond_init : Init diamond := by
  constructor
  · intro i s hs d hd
    match i with
    | 0 | 1 => simp [diamond] at hs
    | 2 | 3 | 4 =>
      simp only [diamond, mk, Node.struct.injEq] at hs
      subst hs
      simp [SNode.deps] at hd
      omega
    | n+5 => simp [diamond] at hs
  · intro i s hs
    match i with
    | 0 | 1 => simp [diamond] at hs
    | 2 | 3 | 4 =>
      simp only [diamond, mk, Node.struct.injEq] at hs
      subst hs
      rfl
    | n+5 => simp [diamond] at hs

def history : List (Op Nat) :=
  [.read 4, .setParam 0 9, .read 3, .setInput 3 1 (some 1), .arrayRemove 4 0 0, .read 4, .arrayAdd 4 0 3, .read 4]

example : val (step (run diamond history).1 (.read 4)).1 4 = Spec (run diamond history).1 4 :=
  read_fresh diamond diamond_init history 4

example : (run diamond history).2 = [(2, 1), (3, 1), (4, 1), (2, 2), (3, 2), (3, 3), (4, 2), (4, 3)] := by decide

example : Spec (run diamond history).1 4 = 85 := by decide

/-- hypotheses of `exec_only_if_changed` on a concrete instance: node 3 is processed after reading
    it; re-wiring node 4 and reading 2 and 4 does not touch the cone {3,2,0,1} of node 3 -/
example : Outdated (run diamond [.read 3]).1 3 = false := by decide

example : Untouched (run diamond [.read 3]).1 [.arrayAdd 4 0 1, .read 4, .setInput 4 0 none, .read 2, .read 4] 3 := by
  apply untouched_of_above (run_inv diamond_init.inv _)
  intro op hop
  simp only [List.mem_cons, List.not_mem_nil, or_false] at hop
  rcases hop with rfl | rfl | rfl | rfl | rfl <;> simp [opNode]

/-- and indeed node 3 is not executed by that history, while node 4 is (twice) -/
example : (run (run diamond [.read 3]).1 [.arrayAdd 4 0 1, .read 4, .setInput 4 0 none, .read 2, .read 4]).2
    = [(4, 1), (4, 2)] := by decide

end C11
end PolyVerif
