/-
  C11 — node outputs are never stale; nodes recompute only when an input changed; version +1 per
  execution.  Property theorems only.
  Model: PolyVerif/Model/Nodes.lean (mirrors /repo/nodes/struct_node.go, value_node.go,
  generator/parameter/value.go).  Lemmas: PolyVerif/Lemmas/Nodes*.lean.

  All theorems are for an arbitrary value type `V`, arbitrary processor functions `fn`, every graph
  `g0` satisfying `Init F g0` (acyclic with fewer than `F` levels — `F` is the evaluation fuel, any
  number; ids are just names — and nothing processed yet) and EVERY history `ops : List (Op V)` of
  parameter updates, scalar re-wirings, array add/remove and reads of arbitrary nodes (rejected
  calls included; they leave the state alone) that keeps the graph acyclic (`Valid F g0 ops`; like
  the Go API the model has no cycle check, and a cycle makes `Outdated()` recurse forever).
  PROCESSORS MAY SKIP INPUTS AND PULL THEM IN ANY ORDER (`SNode.next`, a pull STRATEGY: from the
  wiring and the entries pulled so far it names the next dependency to pull, or stops — a later
  dependency first, an early return on a nil port, decisions on values read so far; at most one
  pull per dependency slot; `fn` gets `none` for an input it did not pull, and the from-scratch
  evaluation `Spec` follows the same strategy).  Freshness (`read_fresh`,
  `processed_is_fresh`), the frame, "executes only if outdated", `exec_only_if_changed` and the
  version accounting are proved for EVERY processor.  The guard `ReadsAll g0` (every `Process()`
  pulls all its wired inputs) is a hypothesis ONLY of the theorems that need a node to be
  `Processed` right after it executed: `reads_idempotent`, `executed_then_processed`,
  `reexecution_needs_change`.  For a processor that skips a stale struct input they are FALSE of
  the code and of the model alike (`skipping_processor_spurious`, `no_spurious_full_false`; known
  finding C11-skipping-processor): the unread dependency stays `Stale`, `Outdated()` stays true,
  the node re-executes on every read (its value stays right).
  `valid_fixed_numbering`: histories in which every new connection goes to a node of smaller rank
  in one fixed ranking (e.g. smaller id) are valid.
-/
import PolyVerif.Lemmas.NodesOps

namespace PolyVerif
namespace C11
open Nodes
variable {V : Type} {F : Nat}

/-- the ghost-free inductive invariant (I1 ∧ I2 ∧ guard) holds in every reachable state -/
theorem reachable_inv (g0 : Graph V) (h0 : Init F g0) (ops : List (Op V)) (hv : Valid F g0 ops) :
    Inv F (run F g0 ops).1 :=
  run_inv h0.inv ops hv

/-- `Spec` is evaluation from scratch: it satisfies (and, the dependency relation being
    well-founded, is determined by) the recursive equation that mentions only parameter values,
    processors and wiring -/
theorem spec_is_from_scratch (g : Graph V) (hac : Acyclic F g) (i : Nat) :
    Spec F g i = match g i with
      | .param x _ => x
      | .struct s => s.fn s.scalars s.arrays
          (specPullS (Spec F g) (s.next s.scalars s.arrays) s.deps s.deps.length (List.replicate s.deps.length none)) := by
  obtain ⟨rank, hwf⟩ := hac
  exact Spec_eq g hwf i

/-- a processor that reads all its inputs (strategy `nextAll`) gets an entry for every dependency -/
theorem spec_reads_all (ev : Nat → V) (ds : List Nat) :
    ∀ x ∈ specPullS ev nextAll ds ds.length (List.replicate ds.length none), x.isNone = false :=
  nextAll_fills ev ds ds.length _ (by simp) (by simp [List.countP_replicate])

/-- likewise `Outdated` is `Struct.Outdated()`: the fuel never runs out on an acyclic graph -/
theorem outdated_is_outdated (g : Graph V) (hac : Acyclic F g) (i : Nat) :
    Outdated F g i = match g i with
      | .param _ _ => false
      | .struct s => match s.remembered with
        | none => true
        | some rv => s.flag || mismatch g (Outdated F g) s.deps rv := by
  obtain ⟨rank, hwf⟩ := hac
  exact Outdated_eq g hwf i

/-- and `Eval` is `Struct.Value()` (`if Outdated() { process() }`), for ANY processor (skipping ones
    included): `process()` pulls the inputs `reads` selects, stores `fn`, bumps the version,
    remembers the dependency versions -/
theorem eval_is_value (g : Graph V) (hac : Acyclic F g) (i : Nat) :
    Eval F g i = match g i with
      | .param _ _ => (g, [])
      | .struct s =>
        if Outdated F g i then
          let r := pullS (Eval F) (s.next s.scalars s.arrays) s.deps s.deps.length g
            (List.replicate s.deps.length none)
          (r.1.set i (.struct (s.executed r.1 r.2.1)), r.2.2 ++ [(i, s.version + 1)])
        else (g, []) := by
  obtain ⟨rank, hwf⟩ := hac
  exact Eval_eq g hwf i

/-- a sufficient condition for the guard on histories: one ranking for the whole history (for
    instance "every dependency has a smaller id"); the guard itself allows the ranking to change
    from call to call -/
theorem valid_fixed_numbering (rank : Nat → Nat) (g0 : Graph V) (hwf : Ranked rank F g0) (ops : List (Op V))
    (hops : ∀ op ∈ ops, opRanked rank op) : Valid F g0 ops :=
  (valid_of_fixed_rank hwf ops hops).1

/-- a message that does not decode (`parameter.Value.ApplyMessage` returns the error before writing)
    changes nothing: not the value, not the version, no dependant; so by `read_fresh` every later
    read still returns the from-scratch value of the UNCHANGED parameter valuation -/
theorem rejected_message_noop (g : Graph V) (p : Nat) : step F g (.rejectedMessage p) = (g, []) := rfl

/-- **never stale**, for EVERY processor (skipping ones included; no `ReadsAll`): after any history,
    the value `Value()` of any node returns is the from-scratch value of the current graph.  The
    statement is about the value returned by the read (which executes the node when it is
    outdated), not about the node being `Processed` afterwards — a skipping processor may be
    outdated again at once -/
theorem read_fresh (g0 : Graph V) (h0 : Init F g0) (ops : List (Op V)) (hv : Valid F g0 ops) (i : Nat) :
    val (step F (run F g0 ops).1 (.read i)).1 i = Spec F (run F g0 ops).1 i := by
  have hinv := run_inv h0.inv ops hv
  rw [step_read]
  exact (Eval_ok i _ hinv).value

/-- in every reachable state, every node that reports `Processed` holds the from-scratch value
    (so a read that does not execute is fresh as well) — for every processor -/
theorem processed_is_fresh (g0 : Graph V) (h0 : Init F g0) (ops : List (Op V)) (hv : Valid F g0 ops) (j : Nat)
    (hj : Outdated F (run F g0 ops).1 j = false) : val (run F g0 ops).1 j = Spec F (run F g0 ops).1 j :=
  val_eq_spec (run_inv h0.inv ops hv) hj

/-- evaluation changes no parameter, processor or wiring, only nodes that were outdated and lie in
    the cone of the node read, and executes only such nodes (I3) -/
theorem eval_frame (g0 : Graph V) (h0 : Init F g0) (ops : List (Op V)) (hv : Valid F g0 ops) (i : Nat) :
    SameStatic (step F (run F g0 ops).1 (.read i)).1 (run F g0 ops).1 ∧
    (∀ k, Outdated F (run F g0 ops).1 k = false → (step F (run F g0 ops).1 (.read i)).1 k = (run F g0 ops).1 k) ∧
    (∀ k, ¬ Reach (run F g0 ops).1 i k → (step F (run F g0 ops).1 (.read i)).1 k = (run F g0 ops).1 k) ∧
    (∀ e ∈ (step F (run F g0 ops).1 (.read i)).2, Reach (run F g0 ops).1 i e.1) := by
  have hinv := run_inv h0.inv ops hv
  rw [step_read]
  have hok := Eval_ok i _ hinv
  exact ⟨hok.evo.static, hok.evo.keep, hok.frame, hok.logCone⟩

/-- **a second read executes nothing** (and changes nothing) — for processors that read all their
    wired inputs (`ReadsAll`; proved part of `C11_no_spurious_full`, which is false without it) -/
theorem reads_idempotent (g0 : Graph V) (h0 : Init F g0) (hra : ReadsAll g0) (ops : List (Op V)) (hv : Valid F g0 ops)
    (i : Nat) :
    step F (step F (run F g0 ops).1 (.read i)).1 (.read i) = ((step F (run F g0 ops).1 (.read i)).1, []) := by
  have hinv := run_inv h0.inv ops hv
  rw [step_read, step_read]
  have hok := Eval_ok i _ hinv
  obtain ⟨rank', hwf'⟩ := hok.inv.wf
  rw [Eval_eq _ hwf']
  cases hs : (Eval F (run F g0 ops).1 i).1 i with
  | param x v => rfl
  | struct s => simp [hok.fresh (run_readsAll hra ops)]

/-- a node executes during a read only if it was outdated — for every processor -/
theorem exec_only_if_outdated (g0 : Graph V) (h0 : Init F g0) (ops : List (Op V)) (hv : Valid F g0 ops) (i : Nat)
    (e : Nat × Nat) (he : e ∈ (step F (run F g0 ops).1 (.read i)).2) :
    Outdated F (run F g0 ops).1 e.1 = true := by
  have hinv := run_inv h0.inv ops hv
  rw [step_read] at he
  exact (Eval_ok i _ hinv).logOut e he

/-- a node that executed during a read is `Processed` afterwards — for processors that read all
    their wired inputs (`ReadsAll`); false for a processor that skipped a stale struct input -/
theorem executed_then_processed (g0 : Graph V) (h0 : Init F g0) (hra : ReadsAll g0) (ops : List (Op V))
    (hv : Valid F g0 ops) (i : Nat) (e : Nat × Nat) (he : e ∈ (step F (run F g0 ops).1 (.read i)).2) :
    Outdated F (step F (run F g0 ops).1 (.read i)).1 e.1 = false := by
  have hinv := run_inv h0.inv ops hv
  rw [step_read] at he ⊢
  exact executed_fresh hinv (run_readsAll hra ops) i e he

/-- **recompute only on change** — for every processor: once node `j` is processed (in particular right after it
    executed), no history that neither updates a parameter in `j`'s dependency cone nor re-wires a
    node of that cone (`j` itself included) executes `j` again, whatever is read, and `j` stays
    processed.  (What a skipping processor lacks is the hypothesis: after executing it need not be
    `Processed` — `executed_then_processed` needs `ReadsAll`.) -/
theorem exec_only_if_changed (g0 : Graph V) (h0 : Init F g0) (ops : List (Op V)) (hv : Valid F g0 ops) (j : Nat)
    (hj : Outdated F (run F g0 ops).1 j = false) (ops2 : List (Op V)) (hv2 : Valid F (run F g0 ops).1 ops2)
    (hq : Untouched F (run F g0 ops).1 ops2 j) :
    cnt (run F (run F g0 ops).1 ops2).2 j = 0 ∧ Outdated F (run F (run F g0 ops).1 ops2).1 j = false := by
  have := untouched_run (run_inv h0.inv ops hv) hj ops2 hv2 hq
  exact ⟨this.2, this.1⟩

/-- the same, from execution to execution, again for processors that read all their wired inputs
    (`ReadsAll`): if `j` executed in a read and the following history
    `ops2` (any reads included) does not touch `j`'s cone, `j` does not execute in `ops2` -/
theorem reexecution_needs_change (g0 : Graph V) (h0 : Init F g0) (hra : ReadsAll g0) (ops : List (Op V))
    (hv : Valid F g0 ops) (i j : Nat)
    (hex : 0 < cnt (step F (run F g0 ops).1 (.read i)).2 j) (ops2 : List (Op V))
    (hv2 : Valid F (step F (run F g0 ops).1 (.read i)).1 ops2)
    (hq : Untouched F (step F (run F g0 ops).1 (.read i)).1 ops2 j) :
    cnt (run F (step F (run F g0 ops).1 (.read i)).1 ops2).2 j = 0 := by
  have hinv := run_inv h0.inv ops hv
  obtain ⟨e, he, hej⟩ := cnt_pos_mem hex
  have hf := executed_then_processed g0 h0 hra ops hv i e he
  rw [hej] at hf
  have hac : Acyclic F (step F (run F g0 ops).1 (.read i)).1 := step_acyclic_of_not_rewire hinv.wf _ (.inl ⟨i, rfl⟩)
  exact (untouched_run (step_inv hinv _ hac) hf ops2 hv2 hq).2

/-- **version = number of executions**, for every processor: along every history the version of every node grows by
    exactly the number of its executions in the log plus, for a parameter, the number of accepted
    updates — and by nothing else -/
theorem version_counts_executions (g0 : Graph V) (h0 : Init F g0) (ops : List (Op V)) (hv : Valid F g0 ops) (k : Nat) :
    ver (run F g0 ops).1 k = ver g0 k + cnt (run F g0 ops).2 k + setCount F g0 ops k :=
  version_run h0.inv ops hv k

/-- for a struct node the version counts its executions and nothing else -/
theorem struct_version_counts_executions (g0 : Graph V) (h0 : Init F g0) (ops : List (Op V)) (hv : Valid F g0 ops)
    (k : Nat) (s : SNode V) (hk : g0 k = .struct s) :
    ver (run F g0 ops).1 k = s.version + cnt (run F g0 ops).2 k := by
  rw [version_run h0.inv ops hv k, setCount_struct g0 ops k (by simp [hk, isParam])]
  simp [ver, hk]

/-- one step: +1 per execution, +1 for an accepted `Set` of that parameter, otherwise unchanged -/
theorem version_step_exact (g0 : Graph V) (h0 : Init F g0) (ops : List (Op V)) (hv : Valid F g0 ops) (op : Op V)
    (k : Nat) :
    ver (step F (run F g0 ops).1 op).1 k
      = ver (run F g0 ops).1 k + cnt (step F (run F g0 ops).1 op).2 k + bumps (run F g0 ops).1 op k :=
  version_step (run_inv h0.inv ops hv) op k

/-- **version accounting for parameter messages**, at the level of `Set`: a message accepted by
    `parameter.Value.ApplyMessage` (`= .setParam`, like `ValueNode.Set`) bumps the version of that
    parameter by exactly one — also when the value is unchanged — and no other version; a message
    the decoder rejects (`.rejectedMessage`) bumps nothing; neither executes anything.  Together
    with `version_counts_executions` (where `setCount` counts exactly the accepted messages / Sets):
    parameter version = initial + accepted messages, struct version = initial + executions -/
theorem message_version_accounting (g0 : Graph V) (h0 : Init F g0) (ops : List (Op V)) (hv : Valid F g0 ops)
    (p k : Nat) (v : V) :
    ver (step F (run F g0 ops).1 (.rejectedMessage p)).1 k = ver (run F g0 ops).1 k ∧
    (step F (run F g0 ops).1 (.rejectedMessage p)).2 = [] ∧
    ver (step F (run F g0 ops).1 (.setParam p v)).1 k
      = ver (run F g0 ops).1 k + (if p = k ∧ isParam ((run F g0 ops).1 p) = true then 1 else 0) ∧
    (step F (run F g0 ops).1 (.setParam p v)).2 = [] := by
  have hinv := run_inv h0.inv ops hv
  have hlog : (step F (run F g0 ops).1 (.setParam p v)).2 = [] := by
    simp only [step, step?]
    cases (run F g0 ops).1 p <;> rfl
  refine ⟨rfl, rfl, ?_, hlog⟩
  rw [version_step hinv (.setParam p v) k, hlog]
  simp [cnt, bumps]

/-- the index `sn.depVersions[i]` in `Outdated()` never panics: whenever the flag is clear the
    remembered list has one entry per dependency (and each is `≤` the dependency's version) -/
theorem remembered_length (g0 : Graph V) (h0 : Init F g0) (ops : List (Op V)) (hv : Valid F g0 ops) (i : Nat)
    (s : SNode V) (rv : List Nat) (hs : (run F g0 ops).1 i = .struct s) (hr : s.remembered = some rv)
    (hf : s.flag = false) :
    rv.length = s.deps.length ∧ All2 (fun d r => r ≤ ver (run F g0 ops).1 d) s.deps rv := by
  have h := (run_inv h0.inv ops hv).rem i s rv hs hr hf
  exact ⟨h.length_eq.symm, h⟩

/-- the executable cone used by the driver's `no_spurious` oracle is the cone `Reach` of the theorems -/
theorem inCone_iff_reach (g : Graph V) (hac : Acyclic F g) (j k : Nat) : inCone F g j k = true ↔ Reach g j k := by
  obtain ⟨rank, hwf⟩ := hac
  exact inCone_iff hwf F j k (hwf.1 j)

/-! ### the pre-2752e26 defect: dependencies enumerated in map order -/

/-- with an enumeration that may be permuted between calls, a node that has just executed
    (remembered versions = current versions, in the order of that call) is reported outdated by
    the very next `Outdated()` although nothing changed: closed witness with two parameter
    dependencies at versions 1 and 2 -/
theorem permuted_deps_spurious :
    ∃ (g : Graph Nat) (s : SNode Nat) (ds ds' : List Nat),
      ds'.Perm ds ∧ s.flag = false ∧ s.remembered = some (ds.map (ver g)) ∧
      outdatedEnum g s ds = false ∧ outdatedEnum g s ds' = true := by
  refine ⟨fun j => .param 0 (j + 1),
    { fn := fun _ _ _ => 0, scalars := [some 0, some 1], arrays := [], cache := 0, version := 1,
      remembered := some [1, 2], flag := false }, [0, 1], [1, 0], List.Perm.swap _ _ _, rfl, rfl, ?_, ?_⟩
  · simp [outdatedEnum, mismatch, ver]
  · simp [outdatedEnum, mismatch, ver]

/-- with the sorted (stable) enumeration the same situation is not outdated: for parameter
    dependencies, remembering the current versions in enumeration order gives "not outdated" -/
theorem stable_deps_not_spurious (g : Graph V) (s : SNode V) (ds : List Nat)
    (hr : s.remembered = some (ds.map (ver g))) (hf : s.flag = false) : outdatedEnum g s ds = false := by
  simp [outdatedEnum, hr, hf, mismatch_map_ver]

/-- (partial: one node over parameter dependencies — the combinatorial core of DESIGN's
    `permuted_deps_still_fresh`) even the pre-2752e26 code was never stale at such a node: if the
    versions remembered at the last execution (enumeration `ds`, state `g0`) are matched by a later
    `Outdated()` call that enumerates ANY permutation `ds'` in a later state `g` (versions only grow),
    then no dependency version changed in between — a permuted vector equal to the remembered one
    has the same sum -/
theorem permuted_deps_still_fresh_partial (g0 g : Graph V) (s : SNode V) (ds ds' : List Nat)
    (hperm : ds'.Perm ds) (hrem : s.remembered = some (ds.map (ver g0)))
    (hmono : ∀ d ∈ ds, ver g0 d ≤ ver g d) (hno : outdatedEnum g s ds' = false) :
    ∀ d ∈ ds, ver g d = ver g0 d := by
  simp only [outdatedEnum, hrem, Bool.or_eq_false_iff] at hno
  have hlen : ds'.length = (ds.map (ver g0)).length := by simp [hperm.length_eq]
  have h1 := mismatch_false_map g _ ds' _ hno.2 hlen
  have h2 : (ds'.map (ver g)).sum = (ds.map (ver g)).sum := (hperm.map (ver g)).sum_nat
  rw [h1] at h2
  intro d hd
  exact (sum_eq_pointwise ds (ver g0) (ver g) hmono h2 d hd).symm

/-- the hypotheses are satisfiable with a genuinely permuted enumeration (equal versions) -/
example : outdatedEnum (fun _ => (.param 0 3 : Node Nat))
    { fn := fun _ _ _ => 0, scalars := [some 0, some 1], arrays := [], cache := 0, version := 1,
      remembered := some ([0, 1].map (ver (fun _ => (.param 0 3 : Node Nat)))), flag := false } [1, 0] = false := by
  decide

/-! ### processors that skip a wired input: the clause "recompute only on change" is false -/

/-- the clause without the guard on processors: a second read executes nothing, for every
    processor (the conjunct `reads_idempotent` proves under `ReadsAll`) -/
def C11_no_spurious_full : Prop :=
  ∀ (F : Nat) (g0 : Graph Nat), Init F g0 → ∀ (ops : List (Op Nat)), Valid F g0 ops → ∀ i : Nat,
    step F (step F (run F g0 ops).1 (.read i)).1 (.read i) = ((step F (run F g0 ops).1 (.read i)).1, [])

/-- X = node 0 (parameter, value 0), node 1 a parameter, Y = node 2 (struct over node 1),
    A = node 3 with ports (X, Y): `Process()` reads X, and reads Y only when X > 0 -/
def skipG : Graph Nat := fun i =>
  match i with
  | 0 => .param 0 0
  | 1 => .param 7 0
  | 2 => .struct { fn := fun _ _ vs => vs.foldl (fun a o => a + o.getD 0) 1, scalars := [some 1], arrays := [], cache := 0,
                   version := 0, remembered := none, flag := false }
  | 3 => .struct { fn := fun _ _ vs => match vs with
                            | [some x, some y] => x + y + 1
                            | [some x, none] => x + 1
                            | _ => 0,
                   next := fun _ _ es => match es with
                            | [none, _] => some 0                              -- pull X first
                            | [some x, none] => if x > 0 then some 1 else none -- pull Y only when X > 0
                            | _ => none,
                   scalars := [some 0, some 2], arrays := [], cache := 0,
                   version := 0, remembered := none, flag := false }
  | _ => .param 0 0

theorem skipG_init : Init 4 skipG := by
  refine ⟨⟨fun i => if i < 4 then i else 0, ?_, ?_⟩, ?_⟩
  · intro i; dsimp only; split <;> omega
  · intro i s hs d hd
    match i with
    | 0 | 1 => simp [skipG] at hs
    | 2 | 3 =>
      simp only [skipG, Node.struct.injEq] at hs
      subst hs
      simp [SNode.deps] at hd
      have hd4 : d < 4 := by omega
      simp only [hd4, if_true, show (2:Nat) < 4 by omega, show (3:Nat) < 4 by omega]
      omega
    | n+4 => simp [skipG] at hs
  · intro i s hs
    match i with
    | 0 | 1 => simp [skipG] at hs
    | 2 | 3 =>
      simp only [skipG, Node.struct.injEq] at hs
      subst hs
      rfl
    | n+4 => simp [skipG] at hs

/-- **known finding C11-skipping-processor, in the model of the code**: five idle reads of A — no
    parameter update, no re-wiring in between — execute A five times and take its version from 0
    to 5; Y, which `Process()` never pulls while X ≤ 0, is never executed and stays `Stale`, and
    `dep.State() != Processed` keeps A outdated.  The values stay correct (`= Spec`). -/
theorem skipping_processor_spurious :
    (run 4 skipG [.read 3, .read 3, .read 3, .read 3, .read 3]).2 = [(3, 1), (3, 2), (3, 3), (3, 4), (3, 5)] ∧
    ver (run 4 skipG [.read 3, .read 3, .read 3, .read 3, .read 3]).1 3 = 5 ∧
    Outdated 4 (run 4 skipG [.read 3, .read 3, .read 3, .read 3, .read 3]).1 3 = true ∧
    Outdated 4 (run 4 skipG [.read 3, .read 3, .read 3, .read 3, .read 3]).1 2 = true ∧
    val (run 4 skipG [.read 3, .read 3, .read 3, .read 3, .read 3]).1 3
      = Spec 4 (run 4 skipG [.read 3, .read 3, .read 3, .read 3, .read 3]).1 3 := by decide

/-- hence the unguarded clause is false -/
theorem no_spurious_full_false : ¬ C11_no_spurious_full := by
  intro h
  have h1 := congrArg Prod.snd (h 4 skipG skipG_init [] trivial 3)
  revert h1
  decide

/-- … while freshness and version accounting hold for it as for any processor: `read_fresh` and
    `version_counts_executions` apply to `skipG` (no `ReadsAll` in their hypotheses) -/
example (ops : List (Op Nat)) (hops : ∀ op ∈ ops, (∃ i, op = .read i) ∨ ∃ p v, op = .setParam p v) :
    val (step 4 (run 4 skipG ops).1 (.read 3)).1 3 = Spec 4 (run 4 skipG ops).1 3 ∧
    ver (run 4 skipG ops).1 3 = ver skipG 3 + cnt (run 4 skipG ops).2 3 + setCount 4 skipG ops 3 := by
  obtain ⟨rank, hr⟩ := skipG_init.1
  have hv : Valid 4 skipG ops := (valid_of_fixed_rank hr ops (by
    intro op hop
    rcases hops op hop with ⟨i, rfl⟩ | ⟨p, v, rfl⟩ <;> trivial)).1
  exact ⟨read_fresh skipG skipG_init ops hv 3, version_counts_executions skipG skipG_init ops hv 3⟩

/-- with X > 0 the same processor behaves: the second read executes nothing -/
example : (run 4 skipG [.setParam 0 5, .read 3, .read 3]).2 = [(2, 1), (3, 1)] := by decide

/-! ### non-vacuity: a diamond over two parameters with a shared node and an array port -/

def sum3 : List (Option Nat) → List (List Nat) → List (Option Nat) → Nat :=
  fun _ _ vs => vs.foldl (fun a o => a + o.getD 0) 1

def mk (sc : List (Option Nat)) (ar : List (List Nat)) : Node Nat :=
  .struct { fn := sum3, scalars := sc, arrays := ar, cache := 0, version := 0, remembered := none, flag := false }

/-- 0,1 parameters; 2 = f(0,1); 3 = f(2, nil); 4 = f(2,3 ; [0,2]) -/
def diamond : Graph Nat := fun i =>
  match i with
  | 0 => .param 5 0
  | 1 => .param 7 0
  | 2 => mk [some 0, some 1] []
  | 3 => mk [some 2, none] []
  | 4 => mk [some 2, some 3] [[0, 2]]
  | _ => .param 0 0

/-- ranking of the example: the id, for the five nodes -/
def rk (i : Nat) : Nat := if i < 5 then i else 0

theorem diamond_ranked : Ranked rk 5 diamond := by
  constructor
  · intro i; simp only [rk]; split <;> omega
  · intro i s hs d hd
    match i with
    | 0 | 1 => simp [diamond] at hs
    | 2 | 3 | 4 =>
      simp only [diamond, mk, Node.struct.injEq] at hs
      subst hs
      simp [SNode.deps] at hd
      have hd5 : d < 5 := by omega
      simp only [rk, hd5, if_true, show (2:Nat) < 5 by omega, show (3:Nat) < 5 by omega,
        show (4:Nat) < 5 by omega]
      omega
    | n+5 => simp [diamond] at hs

theorem diamond_init : Init 5 diamond := by
  refine ⟨⟨rk, diamond_ranked⟩, ?_⟩
  intro i s hs
  match i with
  | 0 | 1 => simp [diamond] at hs
  | 2 | 3 | 4 =>
    simp only [diamond, mk, Node.struct.injEq] at hs
    subst hs
    rfl
  | n+5 => simp [diamond] at hs

theorem diamond_readsAll : ReadsAll diamond := by
  intro i s hs
  match i with
  | 0 | 1 => simp [diamond] at hs
  | 2 | 3 | 4 =>
    simp only [diamond, mk, Node.struct.injEq] at hs
    subst hs
    rfl
  | n+5 => simp [diamond] at hs

def history : List (Op Nat) :=
  [.read 4, .setParam 0 9, .read 3, .setInput 3 1 (some 1), .arrayRemove 4 0 0, .read 4, .arrayAdd 4 0 3, .read 4]

theorem history_valid : Valid 5 diamond history := by
  apply valid_fixed_numbering rk diamond diamond_ranked
  intro op hop
  simp only [history, List.mem_cons, List.not_mem_nil, or_false] at hop
  rcases hop with rfl | rfl | rfl | rfl | rfl | rfl | rfl | rfl <;> simp [opRanked, rk]

example : val (step 5 (run 5 diamond history).1 (.read 4)).1 4 = Spec 5 (run 5 diamond history).1 4 :=
  read_fresh diamond diamond_init history history_valid 4

example : (run 5 diamond history).2 = [(2, 1), (3, 1), (4, 1), (2, 2), (3, 2), (3, 3), (4, 2), (4, 3)] := by decide

example : Spec 5 (run 5 diamond history).1 4 = 85 := by decide

/-- hypotheses of `exec_only_if_changed` on a concrete instance: node 3 is processed after reading
    it; re-wiring node 4 and reading 2 and 4 does not touch the cone {3,2,0,1} of node 3 -/
example : Outdated 5 (run 5 diamond [.read 3]).1 3 = false := by decide

def history2 : List (Op Nat) := [.arrayAdd 4 0 1, .read 4, .setInput 4 0 none, .read 2, .read 4]

example : Valid 5 (run 5 diamond [.read 3]).1 history2 ∧ Untouched 5 (run 5 diamond [.read 3]).1 history2 3 := by
  have hr := (valid_of_fixed_rank diamond_ranked [.read 3] (by simp [opRanked])).2
  have hops : ∀ op ∈ history2, opRanked rk op := by
    intro op hop
    simp only [history2, List.mem_cons, List.not_mem_nil, or_false] at hop
    rcases hop with rfl | rfl | rfl | rfl | rfl <;> simp [opRanked, rk]
  refine ⟨(valid_of_fixed_rank hr history2 hops).1, untouched_of_above hr 3 history2 hops ?_⟩
  intro op hop
  simp only [history2, List.mem_cons, List.not_mem_nil, or_false] at hop
  rcases hop with rfl | rfl | rfl | rfl | rfl <;> simp [opNode, rk]

/-- and indeed node 3 is not executed by that history, while node 4 is (twice) -/
example : (run 5 (run 5 diamond [.read 3]).1 history2).2 = [(4, 1), (4, 2)] := by decide

/-- a history that NO fixed numbering admits, but that is valid: 3 depends on 2, the edge is removed,
    then 2 is made to depend on 3 (the guard lets the ranking change from call to call) -/
def flip : List (Op Nat) :=
  [.read 4, .setInput 3 0 none, .setInput 4 0 none, .arrayRemove 4 0 1, .setInput 2 0 (some 3), .arrayAdd 4 0 2, .read 4]

example : (run 5 diamond flip).2 = [(2, 1), (3, 1), (4, 1), (3, 2), (2, 2), (4, 2)] ∧
    Spec 5 (run 5 diamond flip).1 4 = 16 ∧ val (run 5 diamond flip).1 4 = 16 := by decide

theorem diamond_params (ops : List (Op Nat)) (i : Nat) (hi : 5 ≤ i) : isParam ((run 5 diamond ops).1 i) = true := by
  rw [run_isParam]
  match i with
  | n+5 => rfl

/-- the ranking after the edges 3 → 2, 4 → 2 are gone: 3 below 2 -/
def rk2 (i : Nat) : Nat := if i = 3 then 1 else if i = 2 then 2 else if i = 4 then 3 else 0

/-- its validity: the ranking `rk` (ids) serves until the edges are removed, `rk2` afterwards; no
    single ranking serves both `3 → 2` (initially) and `2 → 3` (at the end) -/
example : Valid 5 diamond flip := by
  have h1 := valid_of_fixed_rank diamond_ranked [.read 4, .setInput 3 0 none, .setInput 4 0 none, .arrayRemove 4 0 1]
    (by intro op hop; simp only [List.mem_cons, List.not_mem_nil, or_false] at hop
        rcases hop with rfl | rfl | rfl | rfl <;> simp [opRanked])
  have hr2 : Ranked rk2 5 (run 5 diamond [.read 4, .setInput 3 0 none, .setInput 4 0 none, .arrayRemove 4 0 1]).1 := by
    apply ranked_of_check 5
    · intro i; simp only [rk2]; split <;> (try split) <;> (try split) <;> omega
    · exact diamond_params _
    · decide
  have h2 := valid_of_fixed_rank hr2 [.setInput 2 0 (some 3), .arrayAdd 4 0 2, .read 4]
    (by intro op hop; simp only [List.mem_cons, List.not_mem_nil, or_false] at hop
        rcases hop with rfl | rfl | rfl <;> simp [opRanked, rk2])
  exact ⟨h1.1.1, h1.1.2.1, h1.1.2.2.1, h1.1.2.2.2.1, h2.1.1, h2.1.2.1, h2.1.2.2.1, trivial⟩

end C11
end PolyVerif
