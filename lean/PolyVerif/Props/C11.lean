/-
  C11 — node outputs are never stale; nodes recompute only when an input changed; version +1 per
  execution.  Property theorems only (model: PolyVerif/Model/Nodes.lean, lemmas: Lemmas/Nodes.lean).
-/
import PolyVerif.Lemmas.Nodes

namespace PolyVerif
namespace C11
open Nodes

end C11
end PolyVerif
