/-
  C09 — the hand-written model of the cell / block loops of `modeling/marching/canvas.go` IS the interpretation of the
  loop / fetch skeleton regenerated from the source (engine F, mode `c09.loops`, `Gen/Gen.MarchLoops.lean`).

  `Gen/Gen.MarchLoops.lean` is rewritten by `./check C09` from /repo/modeling/marching/canvas.go on every run: the three nested
  cell loops of `marchFloat1BlockPosition` (variable, start, comparison, bound, step), the block step
  `if a == marchingSectionSize-1 { aBlockPosition += 1 }`, the two early `continue`s, the corner fetch (`newIndex`, its guards,
  the argument order of `d.index`, the body of `index`), which block / index each `cubeCorners[i]` reads, the comparison of the
  inside test, the world position (`xf := float64(x)`, `offset`), the tables and argument order of the three `interpolateVerts`
  calls, and a one-label-per-statement skeleton of the innermost loop body.

  `namespace Src` below gives that data a meaning (a tiny interpreter: `loopVals`, `nest`, `blockPos`, `newIndex`, `indexOf`,
  `fetchCorner`, `earlySkip`, `cellEmit`, `marchedEdges`).  The `*_from_source` theorems prove that the hand model the C09
  theorems are stated about (`localCells`, `March.fetchCorner`, `bindex`, `globalOf`, `cellEmit`, `marchedEdges`, `vertR`,
  the `<` of `signOf`) equals that interpretation, and `marched_closed_from_source` / `marched_volume_positive_from_source`
  restate the headline results for the interpreted program.  An off-by-one in a loop bound, a swapped corner, `<` ↔ `<=`,
  a changed block size or neighbour rule in the Go source breaks a named theorem here before any sample runs.
-/
import PolyVerif.Props.C09
import PolyVerif.Gen.MarchLoops

namespace PolyVerif
namespace C09
open PolyVerif.March PolyVerif.Gen.March


namespace Src

/-- a regenerated constant `(m, c)` read as `m * marchingSectionSize + c` -/
def lin (mc : Int × Int) : Int := mc.1 * marchingSectionSize + mc.2

/-- a Go integer comparison, by its printed operator -/
def cmpInt (op : String) (a b : Int) : Bool :=
  if op = "<" then decide (a < b) else if op = "<=" then decide (a ≤ b)
  else if op = "==" then decide (a = b) else if op = "!=" then decide (a ≠ b)
  else if op = ">" then decide (a > b) else if op = ">=" then decide (a ≥ b) else false

/-- the values the Go loop `for v := start; v OP bound; v += step` gives its variable (the body does not assign it: the
    extractor rejects any assignment in the loop bodies other than the expected ones).  Positive step and `<` / `<=`;
    anything else has no reading (no value). -/
def loopVals (start : Int) (op : String) (bound step : Int) : List Int :=
  if step ≤ 0 then [] else
  let n : Int := if op = "<" then (bound - start + step - 1) / step
                 else if op = "<=" then (bound - start + step) / step else 0
  (List.range n.toNat).map fun (k : Nat) => start + Int.ofNat k * step

def setAx (a : Nat) (v : Int) (l : Pt) : Pt :=
  if a = 0 then (v, l.2.1, l.2.2) else if a = 1 then (l.1, v, l.2.2) else (l.1, l.2.1, v)

/-- nested loops, outermost first; each sets one coordinate of the local cell position -/
def nest : List (Nat × List Int) → List Pt
  | [] => [(0, 0, 0)]
  | (a, vs) :: rest => vs.flatMap fun v => (nest rest).map (setAx a v)

/-- the local cells `marchFloat1BlockPosition` visits, in the order it visits them -/
def cells : List Pt :=
  nest (Gen.MarchLoops.cellLoops.map fun l => (l.1, loopVals l.2.1 l.2.2.1 (lin l.2.2.2.1) l.2.2.2.2))

/-- `aBlockPosition` after `aBlockPosition := blockPosition.A; if a OP const { aBlockPosition += k }` -/
def blockPos (b l : Pt) (a : Nat) : Int :=
  match Gen.MarchLoops.blockSteps.find? (fun s => s.1 == a) with
  | some (_, op, mc, k) => if cmpInt op (coord a l) (lin mc) then coord a b + k else coord a b
  | none => coord a b

/-- a block selector row: 1 = the stepped `aBlockPosition`, 0 = `blockPosition.A` -/
def selBlock (sel : List Int) (b l : Pt) : Pt :=
  (if sel.getD 0 0 = 1 then blockPos b l 0 else b.1,
   if sel.getD 1 0 = 1 then blockPos b l 1 else b.2.1,
   if sel.getD 2 0 = 1 then blockPos b l 2 else b.2.2)

/-- field `f` of `newIndex` for corner `i` whose block is `pos`: the initial `v + cubeDataIndexIncrements[i].G`, then the
    guards `if pos.P OP blockPosition.B { newIndex.F = k }` in source order -/
def newIndex (b l : Pt) (i : Nat) (pos : Pt) (f : Nat) : Int :=
  let init : Int := match Gen.MarchLoops.newIndexInit.find? (fun s => s.1 == f) with
    | some (_, v, g) => coord v l + coord g (cornerOff i)
    | none => -1
  Gen.MarchLoops.newIndexGuards.foldl
    (fun acc gd => if gd.2.2.2.1 = f ∧ cmpInt gd.2.1 (coord gd.1 pos) (coord gd.2.2.1 b) = true then gd.2.2.2.2 else acc) init

/-- `d.index(p0, p1, p2)`: the regenerated sum of `p_i * marchingSectionSize ^ e` -/
def indexOf (args : List Int) : Int :=
  Gen.MarchLoops.indexTerms.foldl (fun acc t => acc + args.getD t.1 0 * marchingSectionSize ^ t.2) 0

/-- `cubeCorners[i] = cubeData[j][cubeDataIndexes[k]]`: the block of fetch-loop iteration `j`, the index of iteration `k` -/
def fetchCorner {α : Type} (bl : Blocks α) (b l : Pt) (i : Nat) : Option α :=
  match Gen.MarchLoops.cornerReads.find? (fun s => s.1 == i) with
  | none => none
  | some (_, j, k) =>
    (bl (selBlock (cubeDataBlockPositions.getD j []) b l)).map fun d =>
      d (indexOf (Gen.MarchLoops.indexArgs.map (newIndex b l k (selBlock (cubeDataBlockPositions.getD k []) b l))))

/-- the early `continue`s of the z and y loops: taken when the loop variable passes the block-step test and the tested
    block is not allocated -/
def earlySkip {α : Type} (bl : Blocks α) (b l : Pt) : Bool :=
  Gen.MarchLoops.earlyContinues.any fun e =>
    (match Gen.MarchLoops.blockSteps.find? (fun s => s.1 == e.1) with
     | some (_, op, mc, _) => cmpInt op (coord e.1 l) (lin mc)
     | none => false) && (bl (selBlock e.2 b l)).isNone

/-- lattice position of the cell's low corner: `offset` + `(xf, yf, zf)` -/
def origin (b l : Pt) : Pt :=
  let comp (k : Nat) : Int :=
    (match Gen.MarchLoops.blockOffset.getD k (3, (0, 0)) with | (a, mc) => coord a b * lin mc) +
    (match Gen.MarchLoops.floatVars.find? (fun s => s.1 == k) with | some (_, v) => coord v l | none => 0)
  (comp 0, comp 1, comp 2)

/-- one cell of the regenerated program: early `continue`, fetch of the eight corners (`continue` when a block is
    missing), case index of the fetched values, table edges at the cell's lattice position -/
def cellEmit {α : Type} (bl : Blocks α) (val : α → Bool) (b l : Pt) : List DEdge :=
  if earlySkip bl b l then [] else
  match (List.range 8).mapM (fetchCorner bl b l) with
  | none => []
  | some cs => (caseSegsRel (caseIndex (cs.map val))).map (shiftE (origin b l))

def cellEmitTris {α : Type} (bl : Blocks α) (val : α → Bool) (b l : Pt) : List (LEdge × LEdge × LEdge) :=
  if earlySkip bl b l then [] else
  match (List.range 8).mapM (fetchCorner bl b l) with
  | none => []
  | some cs => (caseTris (caseIndex (cs.map val))).map fun t =>
      (shiftL (origin b l) (edgeRel t.1), shiftL (origin b l) (edgeRel t.2.1), shiftL (origin b l) (edgeRel t.2.2))

/-- `marchFloat1` over the regenerated loops: all blocks (order `bs` of the Go map iteration), all `cells` -/
def marchedEdges {α : Type} (bl : Blocks α) (val : α → Bool) (bs : List Pt) : List DEdge :=
  bs.flatMap fun b => cells.flatMap (cellEmit bl val b)

def marchedTris {α : Type} (bl : Blocks α) (val : α → Bool) (bs : List Pt) : List (LEdge × LEdge × LEdge) :=
  bs.flatMap fun b => cells.flatMap (cellEmitTris bl val b)

end Src

/-! ## 1. The loops -/

theorem flatMap_swap_perm_aux {α β γ : Type} (l1 : List α) (l2 : List β) (f : α → β → List γ) :
    (l1.flatMap fun a => l2.flatMap fun b => f a b).Perm (l2.flatMap fun b => l1.flatMap fun a => f a b) := by
  induction l1 with
  | nil => simp
  | cons a l1 ih =>
    simp only [List.flatMap_cons]
    exact (List.Perm.append_left _ ih).trans (List.flatMap_append_perm l2 _ _)

theorem nest3_perm_aux {γ : Type} (xs ys zs : List Int) (g : Int → Int → Int → γ) :
    (zs.flatMap fun z => ys.flatMap fun y => xs.flatMap fun x => [g x y z]).Perm
      (xs.flatMap fun x => ys.flatMap fun y => zs.flatMap fun z => [g x y z]) := by
  refine (flatMap_swap_perm_aux zs ys _).trans ?_
  refine (List.Perm.flatMap_left ys (fun y _ => flatMap_swap_perm_aux zs xs _)).trans ?_
  exact flatMap_swap_perm_aux ys xs _

theorem loopVals_source_aux : Src.loopVals 0 "<" (Src.lin (1, 0)) 1 = (List.range 100).map Int.ofNat := by
  simp [Src.loopVals, Src.lin, marchingSectionSize]

/-- **The cell loops.**  The cells the three regenerated loops visit (start, comparison, bound `marchingSectionSize`, step, as
    written in the source, z outermost) are, as a multiset, the model's `localCells` = `[0,100)³`: each exactly once. -/
theorem cells_from_source : Src.cells.Perm localCells := by
  have h : Src.cells = ((List.range 100).map Int.ofNat).flatMap fun z =>
      ((List.range 100).map Int.ofNat).flatMap fun y =>
        ((List.range 100).map Int.ofNat).flatMap fun x => [((x, y, z) : Pt)] := by
    simp only [Src.cells, Gen.MarchLoops.cellLoops, List.map_cons, List.map_nil, Src.nest, loopVals_source_aux]
    simp [Src.setAx, List.map_flatMap]
  rw [h]
  refine (nest3_perm_aux _ _ _ _).trans (List.Perm.of_eq ?_)
  simp [localCells, boxCells, padd, List.map_eq_flatMap, List.flatMap_assoc]

/-! ## 2. The corner fetch -/

/-- `d.index` as regenerated (`(z * S²) + (y * S) + x`) is the model's `bindex` -/
theorem index_from_source (x y z : Int) : Src.indexOf [x, y, z] = bindex x y z := by
  simp only [Src.indexOf, Gen.MarchLoops.indexTerms, List.foldl_cons, List.foldl_nil, bindex, List.getD_cons_zero,
    List.getD_cons_succ, marchingSectionSize]
  ring

/-- the block step `if a == marchingSectionSize-1 { aBlockPosition += 1 }` of the three loops -/
theorem blockPos_from_source (b l : Pt) (a : Nat) (ha : a < 3) :
    Src.blockPos b l a = if coord a l = marchingSectionSize - 1 then coord a b + 1 else coord a b := by
  interval_cases a <;>
    simp [Src.blockPos, Gen.MarchLoops.blockSteps, List.find?, Src.cmpInt, Src.lin, marchingSectionSize] <;> rfl

/-- **The corner fetch.**  For each of the eight corners, what the regenerated program reads into `cubeCorners[i]` (block of
    fetch iteration `j`, index of iteration `k` as in `cubeCorners[i] = cubeData[j][cubeDataIndexes[k]]`; `newIndex` with
    its guards; argument order and body of `d.index`; block step at the regenerated last index) is the model's
    `March.fetchCorner`. -/
theorem fetchCorner_from_source {α : Type} (bl : Blocks α) (b : Pt) (x y z : Int) (i : Nat) (hi : i < 8) :
    Src.fetchCorner bl b (x, y, z) i = March.fetchCorner bl b x y z i := by
  obtain ⟨bx, by', bz⟩ := b
  interval_cases i <;>
  · simp only [Src.fetchCorner, Gen.MarchLoops.cornerReads, List.find?, Src.selBlock,
      Src.newIndex, Gen.MarchLoops.newIndexInit, Gen.MarchLoops.newIndexGuards, Gen.MarchLoops.indexArgs,
      List.map_cons, List.map_nil, index_from_source, List.foldl_cons, List.foldl_nil, Src.cmpInt,
      March.fetchCorner, cornerOff, ptOfRow, cubeDataBlockPositions, cubeDataIndexIncrements, neighbourIndex,
      List.getD_cons_zero, List.getD_cons_succ, coord, marchingSectionSize]
    simp [blockPos_from_source _ _ 0 (by decide), blockPos_from_source _ _ 1 (by decide),
      blockPos_from_source _ _ 2 (by decide), coord, marchingSectionSize]
    try (refine congrArg₂ Option.map (funext fun d => congrArg d ?_) rfl
         simp only [bindex, marchingSectionSize]; split_ifs <;> omega)

theorem fetchCell_from_source {α : Type} (bl : Blocks α) (b : Pt) (x y z : Int) :
    (List.range 8).mapM (Src.fetchCorner bl b (x, y, z)) = fetchCell bl b x y z := by
  rw [fetchCell, show List.range 8 = [0, 1, 2, 3, 4, 5, 6, 7] from rfl]
  simp only [List.mapM_cons, List.mapM_nil, fetchCorner_from_source _ _ _ _ _ _ (by decide : (0 : Nat) < 8),
    fetchCorner_from_source _ _ _ _ _ _ (by decide : (1 : Nat) < 8), fetchCorner_from_source _ _ _ _ _ _ (by decide : (2 : Nat) < 8),
    fetchCorner_from_source _ _ _ _ _ _ (by decide : (3 : Nat) < 8), fetchCorner_from_source _ _ _ _ _ _ (by decide : (4 : Nat) < 8),
    fetchCorner_from_source _ _ _ _ _ _ (by decide : (5 : Nat) < 8), fetchCorner_from_source _ _ _ _ _ _ (by decide : (6 : Nat) < 8),
    fetchCorner_from_source _ _ _ _ _ _ (by decide : (7 : Nat) < 8)]

/-! ## 3. The early `continue`s, the world position, one cell, the whole march -/

theorem mapM_none_aux {β γ : Type} (f : β → Option γ) (l : List β) (i : β) (hi : i ∈ l) (h : f i = none) :
    l.mapM f = none := by
  induction l with
  | nil => cases hi
  | cons a l ih =>
    rw [List.mapM_cons]
    rcases List.mem_cons.mp hi with rfl | hm
    · simp [h]
    · rw [ih hm]; cases f a <;> rfl

/-- **The early `continue`s are subsumed by the corner fetch.**  Whenever the regenerated z- or y-loop `continue`s (the loop
    variable is at the regenerated last index and the block `nextZ` / `nextY` is not allocated), one of the eight corner
    blocks of every cell of that row is missing, i.e. the model's `fetchCell` skips the cell as well. -/
theorem early_continue_from_source {α : Type} (bl : Blocks α) (b : Pt) (x y z : Int)
    (h : Src.earlySkip bl b (x, y, z) = true) : fetchCell bl b x y z = none := by
  obtain ⟨bx, by', bz⟩ := b
  simp only [Src.earlySkip, Gen.MarchLoops.earlyContinues, Gen.MarchLoops.blockSteps, List.find?, List.any_cons, List.any_nil,
    Src.selBlock, blockPos_from_source _ _ 1 (by decide), blockPos_from_source _ _ 2 (by decide), Src.cmpInt, Src.lin,
    coord, marchingSectionSize, List.getD_cons_zero, List.getD_cons_succ] at h
  simp at h
  rcases h with ⟨hz, hn⟩ | ⟨hy, hn⟩
  · refine mapM_none_aux _ _ 3 (by decide) ?_
    rw [if_pos hz] at hn
    simp [March.fetchCorner, ptOfRow, cubeDataBlockPositions, marchingSectionSize, hz, hn]
  · refine mapM_none_aux _ _ 7 (by decide) ?_
    rw [if_pos hy] at hn
    simp [March.fetchCorner, ptOfRow, cubeDataBlockPositions, marchingSectionSize, hy]
    exact hn

/-- `offset + (xf, yf, zf)`: the lattice position of the cell's low corner is the model's `globalOf` -/
theorem origin_from_source (b : Pt) (x y z : Int) : Src.origin b (x, y, z) = globalOf b x y z := by
  simp [Src.origin, Gen.MarchLoops.blockOffset, Gen.MarchLoops.floatVars, List.find?, Src.lin, coord, globalOf,
    marchingSectionSize]

/-- **One cell.**  The regenerated cell body (early `continue`s, fetch, skip when a block is missing, case index of the
    fetched values, table edges at `offset + (xf, yf, zf)`) emits what the model's `cellEmit` emits — for every local
    position, every block, every storage. -/
theorem cellEmit_from_source {α : Type} (bl : Blocks α) (val : α → Bool) (b l : Pt) :
    Src.cellEmit bl val b l = cellEmit bl val b l := by
  obtain ⟨x, y, z⟩ := l
  unfold Src.cellEmit
  rw [fetchCell_from_source, origin_from_source]
  by_cases hs : Src.earlySkip bl b (x, y, z) = true
  · rw [if_pos hs, cellEmit, early_continue_from_source bl b x y z hs]
  · rw [if_neg hs]; rfl

theorem cellEmitTris_from_source {α : Type} (bl : Blocks α) (val : α → Bool) (b l : Pt) :
    Src.cellEmitTris bl val b l = cellEmitTris bl val b l := by
  obtain ⟨x, y, z⟩ := l
  unfold Src.cellEmitTris
  rw [fetchCell_from_source, origin_from_source]
  by_cases hs : Src.earlySkip bl b (x, y, z) = true
  · rw [if_pos hs, cellEmitTris, early_continue_from_source bl b x y z hs]
  · rw [if_neg hs]; rfl

/-- **The whole march.**  The interpretation of the regenerated program (all blocks, the regenerated loops, the regenerated
    cell body) emits, as a multiset, exactly the model's `marchedEdges` (the model lists a block's cells x-outermost, the
    source z-outermost) -/
theorem marched_from_source {α : Type} (bl : Blocks α) (val : α → Bool) (bs : List Pt) :
    (Src.marchedEdges bl val bs).Perm (marchedEdges bl val bs) := by
  unfold Src.marchedEdges marchedEdges
  refine List.Perm.flatMap_left bs fun b _ => ?_
  rw [show Src.cellEmit bl val b = cellEmit bl val b from funext (cellEmit_from_source bl val b)]
  exact cells_from_source.flatMap_right _

theorem marched_tris_from_source {α : Type} (bl : Blocks α) (val : α → Bool) (bs : List Pt) :
    (Src.marchedTris bl val bs).Perm (marchedTris bl val bs) := by
  unfold Src.marchedTris marchedTris
  refine List.Perm.flatMap_left bs fun b _ => ?_
  rw [show Src.cellEmitTris bl val b = cellEmitTris bl val b from funext (cellEmitTris_from_source bl val b)]
  exact cells_from_source.flatMap_right _

/-- **Closed, for the program as regenerated from canvas.go**: under `MarchHyp`, the directed edges the interpreted source
    loops emit are balanced and duplicate-free (every directed edge exactly once, its reverse exactly once) -/
theorem marched_closed_from_source {α : Type} (bl : Blocks α) (val : α → Bool) (bs : List Pt) (o : Pt) (nx ny nz : Nat)
    (H : MarchHyp bl val bs o nx ny nz) :
    Balanced (Src.marchedEdges bl val bs) ∧ (Src.marchedEdges bl val bs).Nodup := by
  have hp := marched_from_source bl val bs
  obtain ⟨hb, hn⟩ := marched_closed bl val bs o nx ny nz H
  exact ⟨Balanced.of_perm_aux hp hb, hp.nodup_iff.mpr hn⟩

/-- **Positive volume, for the program as regenerated from canvas.go** -/
theorem marched_volume_positive_from_source {α : Type} (bl : Blocks α) (val : α → Bool) (bs : List Pt) (o : Pt) (nx ny nz : Nat)
    (H : MarchHyp bl val bs o nx ny nz) (τ : LEdge → ℝ) (hτ : ∀ l, 0 < τ l ∧ τ l < 1) (hne : Src.marchedTris bl val bs ≠ []) :
    0 < volume6 (posL τ) ⟨0, 0, 0⟩ (Src.marchedTris bl val bs) := by
  have hp := marched_tris_from_source bl val bs
  have hv : volume6 (posL τ) ⟨0, 0, 0⟩ (Src.marchedTris bl val bs) = volume6 (posL τ) ⟨0, 0, 0⟩ (marchedTris bl val bs) := by
    unfold volume6; exact (hp.map _).sum_eq
  rw [hv]
  refine marched_volume_positive bl val bs o nx ny nz H τ hτ ?_
  intro h0; rw [h0] at hp; exact hne (List.Perm.eq_nil hp)

/-- non-vacuity: the one-block canvas of `Props/C09.lean`'s `MarchHyp` example, marched by the interpreted source program,
    emits something (the single inside sample at (50, 50, 50) gives eight cells with one triangle each) -/
example : Src.cellEmit (fun b => if b = ((0 : Int), (0 : Int), (0 : Int)) then some (fun i => decide (i = bindex 50 50 50)) else none)
    id (0, 0, 0) (50, 50, 50) ≠ [] := by decide

/-! ## 4. The inside test, the vertices, the statement skeleton -/

/-- a Go float comparison against the cutoff, by its printed operator (exact reals) -/
noncomputable def Src.cmpReal (op : String) (a b : ℝ) : Bool :=
  if op = "<" then decide (a < b) else if op = "<=" then decide (a ≤ b)
  else if op = ">" then decide (a > b) else if op = ">=" then decide (a ≥ b) else false

/-- `cubeCornersExistence[i]` of the regenerated program on the fetched values `cs` -/
noncomputable def Src.insideBit (cs : List ℝ) (c : ℝ) (i : Nat) : Bool :=
  match Gen.MarchLoops.insideCmp.find? (fun s => s.1 == i) with
  | some (_, j, op) => Src.cmpReal op (cs.getD j 0) c
  | none => false

/-- **The inside test is `<`** on the corner's own sample: bit `i` of the case index is `cubeCorners[i] < cutoff` — the
    `signOf G c q = decide (G q < c)` the isosurface / orientation theorems are stated with (`<=` or another corner's
    sample breaks this theorem) -/
theorem inside_test_from_source (cs : List ℝ) (c : ℝ) (i : Nat) (hi : i < 8) :
    Src.insideBit cs c i = decide (cs.getD i 0 < c) := by
  interval_cases i <;> simp [Src.insideBit, Gen.MarchLoops.insideCmp, List.find?, Src.cmpReal]

/-- the edge → corner table named in the source -/
def Src.tabOf (n : String) : List Nat :=
  if n = "cornerIndexAFromEdge" then cornerIndexAFromEdge else if n = "cornerIndexBFromEdge" then cornerIndexBFromEdge else []

/-- the vertex the regenerated triangle loop appends for use `u = (j, [T1, T2, T3, T4])` on table triangle `t`:
    `interpolateVerts(cubeCornerPositions[T1[e]], cubeCornerPositions[T2[e]], cubeCorners[T3[e]], cubeCorners[T4[e]], cutoff)`,
    `e = t[j]`, in lattice coordinates of the cell at `p` (the `.Add(offset)` is `origin_from_source`) -/
noncomputable def Src.vert (G : Pt → ℝ) (c : ℝ) (p : Pt) (t : Nat × Nat × Nat) (u : Nat × List String) : V3 ℝ :=
  let e := [t.1, t.2.1, t.2.2].getD u.1 12
  let T (k : Nat) : Nat := (Src.tabOf (u.2.getD k "")).getD e 0
  Gen.marching.interpolateVerts (ptR (padd p (cornerPosOff (T 0)))) (ptR (padd p (cornerPosOff (T 1))))
    (G (padd p (cornerOff (T 2)))) (G (padd p (cornerOff (T 3)))) c

theorem cornerPosOff_eq_aux : cornerPosOff = cornerOff := rfl

/-- **Edge → (cornerA, cornerB) use.**  The three vertices the regenerated triangle loop appends (in append order) are the
    model's `vertR` of the triangle's three cube edges: positions AND values are taken at `cornerIndexAFromEdge[e]` first,
    `cornerIndexBFromEdge[e]` second, row entries `i`, `i+1`, `i+2` in this order (a swapped table, a position / value taken
    from different ends, or a reordered append breaks this theorem) -/
theorem vertex_uses_from_source (G : Pt → ℝ) (c : ℝ) (p : Pt) (t : Nat × Nat × Nat) :
    Gen.MarchLoops.triVertexUses.map (Src.vert G c p t) = [vertR G c p t.1, vertR G c p t.2.1, vertR G c p t.2.2] := by
  simp [Gen.MarchLoops.triVertexUses, Src.vert, Src.tabOf, vertR, cA, cB, cornerPosOff_eq_aux]

/-- the block size the loops, the block step and `index` use is the `marchingSectionSize` of the tables module -/
theorem section_size_from_source : Gen.MarchLoops.sectionSize = marchingSectionSize ∧ marchingSectionSize = 100 := by decide

/-- **Statement skeleton.**  `marchFloat1` is the range loop over `section.positions` appending
    `marchFloat1BlockPosition(.., blockPosition)`; the fetch loop is `if dataIndex, ok := section.positions[pos]; ok { .. } else
    { allValid = false; break }` followed by `if !allValid { continue }`; and the innermost loop body consists of exactly the
    statements the model transcribes, in this order (one label per statement; the extractor rejects any statement kind it does
    not know, so an added `continue`, an extra assignment to a loop variable or a second loop is an extraction error) -/
theorem cell_body_from_source :
    Gen.MarchLoops.blockLoop =
      ["finalMesh := modeling.EmptyMesh(modeling.TriangleTopology)",
       "for blockPosition := range section.positions { finalMesh = finalMesh.Append(d.marchFloat1BlockPosition(cutoff, meshAttribute, section, blockPosition)) }",
       "return finalMesh"] ∧
    Gen.MarchLoops.fetchFrame =
      ["if dataIndex, ok := section.positions[pos]; ok", "else { allValid = false; break }",
       "cubeData[i] = d.float1Data[dataIndex]"] ∧
    Gen.MarchLoops.cellBodyShape =
      ["cubeDataBlockPositions", "cubeData[0]", "cubeData[1]", "cubeData[2]", "cubeData[3]", "cubeData[4]",
       "cubeData[5]", "cubeData[6]", "cubeData[7]", "cubeDataIndexes[0]", "cubeDataIndexes[1]", "cubeDataIndexes[2]",
       "cubeDataIndexes[3]", "cubeDataIndexes[4]", "cubeDataIndexes[5]", "cubeDataIndexes[6]", "cubeDataIndexes[7]",
       "allValid", "range cubeDataBlockPositions", "if !allValid", "cubeCorners[0]", "cubeCorners[1]", "cubeCorners[2]",
       "cubeCorners[3]", "cubeCorners[4]", "cubeCorners[5]", "cubeCorners[6]", "cubeCorners[7]", "cubeCornersExistence[0]",
       "cubeCornersExistence[1]", "cubeCornersExistence[2]", "cubeCornersExistence[3]", "cubeCornersExistence[4]",
       "cubeCornersExistence[5]", "cubeCornersExistence[6]", "cubeCornersExistence[7]", "xf", "yf", "zf", "cubeCornerPositions",
       "lookupIndex", "if cubeCornersExistence[0]", "if cubeCornersExistence[1]", "if cubeCornersExistence[2]",
       "if cubeCornersExistence[3]", "if cubeCornersExistence[4]", "if cubeCornersExistence[5]", "if cubeCornersExistence[6]",
       "if cubeCornersExistence[7]", "for i := 0; triangulation[lookupIndex][i] != -1; i += 3"] :=
  ⟨rfl, rfl, rfl⟩

/-! ## 5. Block level: canvas filling (`AddField`), block enumeration, the final weld -/

theorem mem_loopVals_aux (s b X : Int) : X ∈ Src.loopVals s "<" b 1 ↔ s ≤ X ∧ X < b := by
  have e : Src.loopVals s "<" b 1 = (List.range (b - s).toNat).map fun (k : Nat) => s + Int.ofNat k := by
    simp [Src.loopVals]
  rw [e, List.mem_map]
  constructor
  · rintro ⟨k, hk, rfl⟩
    rw [List.mem_range] at hk
    simp only [Int.ofNat_eq_natCast]; omega
  · rintro ⟨h1, h2⟩
    exact ⟨(X - s).toNat, List.mem_range.mpr (by omega), by simp only [Int.ofNat_eq_natCast]; omega⟩

/-- `fieldBounds`: sample range per axis `[⌊min·cubesPerUnit⌋ − 1, ⌈max·cubesPerUnit⌉ + 1)` — the one-cell padding that
    `addField_allocates_neighbourhood` / `MarchHyp.padded` rest on; `canvasPosToChunkPos` = `⌊x / marchingSectionSize⌋` per axis
    (model `chunkOf`); `chunkSectionsInRange` = all chunks from the chunk of `min` to the chunk of `max` INCLUSIVE (`< range+1`) -/
theorem field_bounds_from_source :
    Gen.MarchLoops.src_fieldBounds =
      ["min := f.Domain.Min()",
       "max := f.Domain.Max()",
       "minCanvas := modeling.VectorInt{ X: int(math.Floor(min.X()*d.cubesPerUnit)) - 1, Y: int(math.Floor(min.Y()*d.cubesPerUnit)) - 1, Z: int(math.Floor(min.Z()*d.cubesPerUnit)) - 1, }",
       "maxCanvas := modeling.VectorInt{ X: int(math.Ceil(max.X()*d.cubesPerUnit)) + 1, Y: int(math.Ceil(max.Y()*d.cubesPerUnit)) + 1, Z: int(math.Ceil(max.Z()*d.cubesPerUnit)) + 1, }",
       "return minCanvas, maxCanvas"] ∧
    Gen.MarchLoops.src_canvasPosToChunkPos =
      ["return modeling.VectorInt{ X: int(math.Floor(float64(x) / marchingSectionSize)), Y: int(math.Floor(float64(y) / marchingSectionSize)), Z: int(math.Floor(float64(z) / marchingSectionSize)), }"] ∧
    Gen.MarchLoops.src_chunkSectionsInRange =
      ["minChunkPos := d.canvasPosToChunkPos(min.X, min.Y, min.Z)",
       "maxChunkPos := d.canvasPosToChunkPos(max.X, max.Y, max.Z)",
       "if minChunkPos == maxChunkPos",
       ". return []modeling.VectorInt{minChunkPos}",
       "chunkRange := maxChunkPos.Sub(minChunkPos)",
       "allSections := make([]modeling.VectorInt, 0)",
       "for x := 0; x < chunkRange.X+1; x++",
       ". for y := 0; y < chunkRange.Y+1; y++",
       ". . for z := 0; z < chunkRange.Z+1; z++",
       ". . . allSections = append(allSections, modeling.VectorInt{ X: minChunkPos.X + x, Y: minChunkPos.Y + y, Z: minChunkPos.Z + z, })",
       "return allSections"] :=
  ⟨rfl, rfl, rfl⟩

/-- `AddField` / `addFloat1Range` as text: every chunk of `chunkSections` is written (no early-out, no skipped range), the clipped
    range is `[maxInt(c·S, min), minInt(c·S + S, max))` per axis, each position of it is written once into
    `index(x − c.X·S, y − c.Y·S, z − c.Z·S)` with `+=`; a missing block is allocated by `chunkIndex_atomic` with `S³` zero samples -/
theorem add_field_from_source :
    Gen.MarchLoops.src_AddField =
      ["min, max := d.fieldBounds(field)",
       "chunkSections := d.chunkSectionsInRange(min, max)",
       "for attribute, function := range field.Float1Functions",
       ". section := d.getSection(attribute, Float1)",
       ". for _, chunkPos := range chunkSections",
       ". . canvasSpaceChunkPos := modeling.VectorInt{ X: maxInt(chunkPos.X*marchingSectionSize, min.X), Y: maxInt(chunkPos.Y*marchingSectionSize, min.Y), Z: maxInt(chunkPos.Z*marchingSectionSize, min.Z), }",
       ". . endPos := modeling.VectorInt{ X: minInt((chunkPos.X*marchingSectionSize)+marchingSectionSize, max.X), Y: minInt((chunkPos.Y*marchingSectionSize)+marchingSectionSize, max.Y), Z: minInt((chunkPos.Z*marchingSectionSize)+marchingSectionSize, max.Z), }",
       ". . d.addFloat1Range(section, chunkPos, canvasSpaceChunkPos, endPos, function)"] ∧
    Gen.MarchLoops.src_addFloat1Range =
      ["if section.dataType != Float1",
       ". panic(fmt.Errorf(\"cant add float1 to section with type of: %d\", section.dataType))",
       "index := d.chunkIndex_atomic(section, chunkPos)",
       "d.chunkMutex.Lock()",
       "data := d.float1Data[index]",
       "d.chunkMutex.Unlock()",
       "for z := min.Z; z < max.Z; z++",
       ". for y := min.Y; y < max.Y; y++",
       ". . for x := min.X; x < max.X; x++",
       ". . . pos := vector3. New(float64(x), float64(y), float64(z)). DivByConstant(d.cubesPerUnit)",
       ". . . shiftedPos := modeling.VectorInt{ X: x - (chunkPos.X * marchingSectionSize), Y: y - (chunkPos.Y * marchingSectionSize), Z: z - (chunkPos.Z * marchingSectionSize), }",
       ". . . data[d.index(shiftedPos.X, shiftedPos.Y, shiftedPos.Z)] += function(pos)"] ∧
    Gen.MarchLoops.src_chunkIndex_atomic =
      ["d.chunkMutex.Lock()",
       "defer d.chunkMutex.Unlock()",
       "chunkIndex, ok := section.positions[vec]",
       "if !ok",
       ". switch section.dataType",
       ". case Float1",
       ". . chunkIndex = len(d.float1Data)",
       ". . d.float1Data = append(d.float1Data, make(float1MarchingSection, marchingSectionSizeCubed))",
       ". case Float2",
       ". . chunkIndex = len(d.float2Data)",
       ". . d.float2Data = append(d.float2Data, make(float2MarchingSection, marchingSectionSizeCubed))",
       ". case Float3",
       ". . chunkIndex = len(d.float3Data)",
       ". . d.float3Data = append(d.float3Data, make(float3MarchingSection, marchingSectionSizeCubed))",
       ". section.positions[vec] = chunkIndex",
       "return chunkIndex"] :=
  ⟨rfl, rfl, rfl⟩

/-- the reading of the pinned clipping expressions of `AddField` (one axis, chunk `c`, sample range `[mn, mx)`) -/
def Src.clipLo (c mn : Int) : Int := max (c * marchingSectionSize) mn
def Src.clipHi (c mx : Int) : Int := min (c * marchingSectionSize + marchingSectionSize) mx
def Src.shifted (X c : Int) : Int := X - c * marchingSectionSize

/-- **AddField partition, on the pinned expressions** (one axis): the loop `for x := lo; x < hi; x++` of `addFloat1Range` with the
    clipped bounds of `AddField` visits a sample position `X ∈ [mn, mx)` in exactly one chunk — `c = ⌊X/S⌋` —, and writes it to the
    local index `X mod S ∈ [0, S)`; an EMPTY clipped range (chunk of the exclusive bound `mx` when `mx` is a multiple of `S`) is
    still passed to `addFloat1Range`, which allocates the block (the neighbour block the last cell layer fetches) -/
theorem addField_partition_from_source (mn mx X : Int) (h1 : mn ≤ X) (h2 : X < mx) :
    (∀ c, X ∈ Src.loopVals (Src.clipLo c mn) "<" (Src.clipHi c mx) 1 ↔ c = X / marchingSectionSize) ∧
    Src.shifted X (X / marchingSectionSize) = X % marchingSectionSize ∧
    0 ≤ X % marchingSectionSize ∧ X % marchingSectionSize < marchingSectionSize := by
  have hp := addField_axis_partition mn mx X
  obtain ⟨_, hb, hc⟩ := hp
  have hb' := hb h1 h2
  simp only at hb'
  refine ⟨fun c => ?_, hb'.2.2.1, hb'.2.2.2.1, hb'.2.2.2.2⟩
  rw [mem_loopVals_aux]
  constructor
  · rintro ⟨ha, hb2⟩; exact hc c ha hb2
  · rintro rfl; exact ⟨hb'.1, hb'.2.1⟩

/-- **Block enumeration and the final weld**: `March` = `MarchOnAttribute(Position, cutoff)`; the section's blocks are marched by
    `marchFloat1` (`cell_body_from_source`: range over `section.positions`, one `Append` per block, no filter); an empty result is
    returned as is, otherwise scaled by `1/cubesPerUnit` and welded with `WeldByFloat3Attribute(attribute, 3)` (the attribute
    marched on, precision 3 = 1e-3); `marchFloat1BlockPosition` has no statement before its cell loops other than the eleven
    set-up assignments (no early return for a block) -/
theorem weld_call_from_source :
    Gen.MarchLoops.src_March =
      ["return d.MarchOnAttribute(modeling.PositionAttribute, cutoff)"] ∧
    Gen.MarchLoops.src_MarchOnAttribute =
      ["for sectionAttribute, section := range d.sections",
       ". if section.dataType == Float1 && sectionAttribute == attribute",
       ". . marched := d.marchFloat1(cutoff, sectionAttribute, section)",
       ". . if marched.PrimitiveCount() == 0",
       ". . . return marched",
       ". . return marched. Transform( meshops.ScaleAttribute3DTransformer{ Amount: vector3.One[float64]().DivByConstant(d.cubesPerUnit), }, ). WeldByFloat3Attribute(attribute, 3)",
       "panic(fmt.Errorf(\"canvas did not contain Float1 attribute %s\", attribute))"] ∧
    Gen.MarchLoops.blockPrologue =
      ["cubeDataIndexIncrements := ..",
       "cubeData := ..",
       "cubeDataIndexes := ..",
       "cubeCorners := ..",
       "cubeCornersExistence := ..",
       "marchingWorkingData := ..",
       "blockIndex := ..",
       "data := ..",
       "offset := ..",
       "<cell loops>",
       "return .."] :=
  ⟨rfl, rfl, rfl⟩

end C09
end PolyVerif
