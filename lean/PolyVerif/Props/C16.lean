/-
  C16 — Spatial index queries agree with exhaustive search.

  Model: `PolyVerif/Model/Tree.lean` (octree.go, bvh.go, hit.go transcribed; AABB code from
  `Gen/Transform.lean`, regenerated from /repo on every run).  Scalar: ℝ.

  Layout of the argument
    * geometry facts about the box code (`aabb_lower_bound`, `contains_mono`, `slab_mono`, …);
    * the tree invariant `Covers` (every node's box contains the box of every element at or below it);
    * for EVERY tree satisfying `Covers` — not only the ones `newOctree` builds — each pruned query
      returns exactly the exhaustive scan of `allElems` (same elements, same order);
    * `newOctree` (every element list, every depth) builds a `Covers` tree whose elements are a
      permutation of the input.
-/
import PolyVerif.Lemmas.TreeTri

namespace PolyVerif
namespace C16
open PolyVerif.Tree Gen.geometry

variable {B E P K : Type}

/-! ### geometry facts (about the regenerated AABB code and the hand-modelled slab test) -/

/-- for `q` inside box `b`, `b.ClosestPoint p` is at least as close to `p` as `q` is -/
theorem aabb_lower_bound (b : Box) (p q : P3) (hq : b.Contains q = true) :
    (b.ClosestPoint p).DistanceSquared p ≤ q.DistanceSquared p :=
  aabb_lower_bound_aux b p q hq

example : (⟨⟨0, 0, 0⟩, ⟨1, 1, 1⟩⟩ : Box).Contains ⟨1, 0, -1⟩ = true := by
  rw [Tree.aabb_contains_iff]; norm_num [AABB.Min, AABB.Max, V3.Sub, V3.Add]

/-- `Contains` is monotone in the box -/
theorem aabb_contains_mono {a b : Box} (h : BoxSub a b) (v : P3) (hv : a.Contains v = true) :
    b.Contains v = true := contains_mono h v hv

/-- the distance from a point to a box does not grow when the box grows -/
theorem aabb_distance_mono {a b : Box} (h : BoxSub a b) (p : P3) :
    (b.ClosestPoint p).Distance p ≤ (a.ClosestPoint p).Distance p := box_distance_mono h p

/-- the slab test (`IntersectsRayInRange`, with its `kEpsilon` widening as in the source) is monotone
    in the box: whatever ray and range it accepts for a box it accepts for every containing box -/
theorem slab_mono {a b : Box} (h : BoxSub a b) (o d : P3) (mn mx : ℝ)
    (ha : intersectsRayInRange a o d mn mx = true) : intersectsRayInRange b o d mn mx = true :=
  Tree.slab_mono h o d mn mx ha

example : BoxSub (⟨⟨0, 0, 0⟩, ⟨1, 1, 1⟩⟩ : Box) ⟨⟨1, 0, 0⟩, ⟨2, 1, 3⟩⟩ := by
  constructor <;> rw [Tree.aabb_contains_iff] <;> norm_num [AABB.Min, AABB.Max, V3.Sub, V3.Add]


/-- `slab_sound`: if the ray `o + t·d` — any direction, axis-parallel ones included — is inside box `a` at some
    parameter `t` of a non-empty range `[mn, mx]`, the slab test (ε-widened, strict) accepts `a` for that range, and
    with `slab_mono` every box containing `a`.  This is what justifies the primitive hypothesis of the BVH
    theorems for a primitive whose hit point lies in its own box. -/
theorem slab_sound (a b : Box) (hab : BoxSub a b) (o d : P3) (mn mx t : ℝ)
    (hr : mn < mx) (h1 : mn ≤ t) (h2 : t ≤ mx)
    (hin : a.Contains (o.Add (d.Scale t)) = true) : intersectsRayInRange b o d mn mx = true :=
  Tree.slab_mono hab o d mn mx (slab_sound_aux a o d mn mx t hr h1 h2 hin)

/-- an axis-parallel ray through the unit box is accepted (the case the plain `1/0 = 0` reading would lose) -/
example : intersectsRayInRange (⟨⟨0, 0, 0⟩, ⟨1, 1, 1⟩⟩ : Box) ⟨0, 0, -5⟩ ⟨0, 0, 1⟩ 0 100 = true := by
  refine slab_sound_aux _ _ _ 0 100 5 (by norm_num) (by norm_num) (by norm_num) ?_
  rw [Tree.aabb_contains_iff]; norm_num [AABB.Min, AABB.Max, V3.Sub, V3.Add, V3.Scale]

example : (⟨⟨0, 0, 0⟩, ⟨1, 1, 1⟩⟩ : Box).Contains ((⟨-3, -3, -3⟩ : P3).Add ((⟨1, 1, 1⟩ : P3).Scale 3)) = true := by
  rw [Tree.aabb_contains_iff]; norm_num [AABB.Min, AABB.Max, V3.Sub, V3.Add, V3.Scale]

/-- growing a box by `EncapsulateBounds` keeps what it contained and adds the other box -/
theorem aabb_encapsulate_contains (a b : Box) :
    BoxSub b (a.EncapsulateBounds b) ∧ ∀ v, a.Contains v = true → (a.EncapsulateBounds b).Contains v = true := by
  refine ⟨⟨?_, ?_⟩, ?_⟩
  · exact Tree.aabb_encapsulatePoint_mono _ _ _ (Tree.aabb_encapsulatePoint_contains _ _)
  · exact Tree.aabb_encapsulatePoint_contains _ _
  · intro v hv
    exact Tree.aabb_encapsulatePoint_mono _ _ _ (Tree.aabb_encapsulatePoint_mono _ _ _ hv)

/-! ### the invariant -/

/-- `Covers t`: the bounds of every node contain the box of every element stored at or below it -/
def Covers (t : Oct Box (Elem ℝ)) : Prop := Inv (fun b e => BoxSub e.box b) t

/-! ### pruned queries = exhaustive scan, for every tree with the invariant (geometry abstract) -/

/-- Shape of `ElementsWithinRange` / `ElementsIntersectingRay`: if accepting an element forbids pruning
    any node related to it, the pruned recursion returns exactly the filtered element list. -/
theorem pruned_eq_scan (R : B → E → Prop) (prune : B → Bool) (accept : E → Bool)
    (h : ∀ b e, R b e → accept e = true → prune b = false) :
    ∀ t : Oct B E, Inv R t → t.pruned prune accept = t.allElems.filter accept := by
  intro t
  induction t using Oct.induct' with
  | h b es cs ih =>
    intro hinv
    have hroot := hinv.root
    have hch := hinv.children
    simp only [Oct.pruned]
    by_cases hp : prune b = true
    · simp only [hp, if_true]
      symm
      rw [List.filter_eq_nil_iff]
      intro e he hacc
      have := h b e (hroot e he) hacc
      rw [this] at hp; cases hp
    · have hp' : prune b = false := by simpa using hp
      simp only [hp', Bool.false_eq_true, if_false]
      rw [Oct.allElems_node, List.filter_append, List.filter_flatMap]
      congr 1
      exact flatMap_congr' (fun c hc => ih c hc (hch c hc))

/-- Shape of `ElementsContainingPoint`: the root is not tested, a child is entered only if its bounds pass. -/
theorem containing_eq_scan_generic (R : B → E → Prop) (inB : B → Bool) (accept : E → Bool)
    (h : ∀ b e, R b e → accept e = true → inB b = true) :
    ∀ t : Oct B E, Inv R t → t.containing inB accept = t.allElems.filter accept := by
  intro t
  induction t using Oct.induct' with
  | h b es cs ih =>
    intro hinv
    have hch := hinv.children
    simp only [Oct.containing]
    rw [Oct.allElems_node, List.filter_append, List.filter_flatMap]
    congr 1
    apply flatMap_congr'
    intro c hc
    by_cases hb : inB c.bounds = true
    · simp only [hb, if_true]; exact ih c hc (hch c hc)
    · have hb' : inB c.bounds = false := by simpa using hb
      simp only [hb', Bool.false_eq_true, if_false]
      symm
      rw [List.filter_eq_nil_iff]
      intro e he hacc
      exact hb (h _ e ((hch c hc).root e he) hacc)

/-! ### the three pruned queries of the octree, concretely -/

/-- `ElementsContainingPoint` returns exactly the elements (in stored order) whose box contains `v` -/
theorem containing_eq_scan (t : Oct Box (Elem ℝ)) (ht : Covers t) (v : P3) :
    elementsContainingPoint t v = ((t.allElems.filter (fun e => e.box.Contains v)).map Elem.id) := by
  unfold elementsContainingPoint
  rw [containing_eq_scan_generic (fun (b : Box) (e : Elem ℝ) => BoxSub e.box b) _ _ _ t ht]
  intro b e hsub hacc
  exact contains_mono hsub v hacc

/-- `ElementsWithinRange` returns exactly the elements whose box is within distance `r` of `p` -/
theorem withinRange_eq_scan (t : Oct Box (Elem ℝ)) (ht : Covers t) (p : P3) (r : ℝ) :
    elementsWithinRange t p r =
      ((t.allElems.filter (fun e => decide ((e.box.ClosestPoint p).Distance p ≤ r))).map Elem.id) := by
  unfold elementsWithinRange
  rw [pruned_eq_scan (fun (b : Box) (e : Elem ℝ) => BoxSub e.box b) _ _ _ t ht]
  intro b e hsub hacc
  have h1 := box_distance_mono hsub p
  simp only [decide_eq_true_eq] at hacc
  simp only [decide_eq_false_iff_not, not_lt]
  linarith

/-- `ElementsIntersectingRay` returns exactly the elements whose box passes the slab test -/
theorem rayElements_eq_scan (t : Oct Box (Elem ℝ)) (ht : Covers t) (o d : P3) (mn mx : ℝ) :
    elementsIntersectingRay t o d mn mx =
      ((t.allElems.filter (fun e => intersectsRayInRange e.box o d mn mx)).map Elem.id) := by
  unfold elementsIntersectingRay
  rw [pruned_eq_scan (fun (b : Box) (e : Elem ℝ) => BoxSub e.box b) _ _ _ t ht]
  intro b e hsub hacc
  simp [Tree.slab_mono hsub o d mn mx hacc]


/-! ### best-first closest point -/

/-- `OctTree.ClosestPoint` over any linearly ordered key: if every node's key is a lower bound for the keys of
    the elements at or below it, the best-first search returns an element of minimal key together with that
    element's closest point; it returns nothing only for a tree without elements.  (Which of several elements
    of equal minimal key is returned is left open — "ties aside".) -/
theorem closest_eq_scan_generic [LinearOrder K] (keyB : B → K) (cp : E → P) (keyP : P → K) (t : Oct B E)
    (ht : Inv (fun b e => keyB b ≤ keyP (cp e)) t) :
    match t.closest ltK keyB cp keyP with
    | none => t.allElems = []
    | some (e, pt) => e ∈ t.allElems ∧ pt = cp e ∧ ∀ e' ∈ t.allElems, keyP (cp e) ≤ keyP (cp e') := by
  have h := bestFirst_spec keyB cp keyP (t.weight + 1) [Item.cell (keyB t.bounds) t]
    (by intro i hi; simp only [List.mem_singleton] at hi; subst hi; exact ⟨rfl, ht⟩)
    (by simp [Item.wt])
  unfold Oct.closest
  revert h
  cases bestFirst ltK keyB cp keyP (t.weight + 1) [Item.cell (keyB t.bounds) t] with
  | none =>
    intro h
    simp only [List.mem_singleton, forall_eq, Item.reps] at h
    exact List.eq_nil_iff_forall_not_mem.mpr h
  | some r =>
    obtain ⟨e, pt⟩ := r
    intro h
    simp only [List.mem_singleton, exists_eq_left, forall_eq, Item.reps] at h
    exact h

/-- `Line3D.ClosestPointOnLine` returns an end point or a point `a + (b-a)·t` with `0 ≤ t ≤ 1` -/
theorem seg_cp_cases (a b v : P3) :
    (NewLine3D a b).ClosestPointOnLine v = b ∨ (NewLine3D a b).ClosestPointOnLine v = a ∨
    ∃ t : ℝ, 0 ≤ t ∧ t ≤ 1 ∧ (NewLine3D a b).ClosestPointOnLine v = a.Add ((b.Sub a).Scale t) := by
  simp only [Line3D.ClosestPointOnLine, NewLine3D, Nat.cast_one, Nat.cast_zero]
  generalize (V3.Sub v a).Dot (V3.Sub b a).Normalized / (V3.Sub b a).Length = t
  by_cases h1 : (1 : ℝ) ≤ t
  · left; simp [h1]
  · by_cases h0 : t ≤ 0
    · right; left; simp [h1, h0]
    · right; right
      exact ⟨t, le_of_lt (not_le.mp h0), le_of_lt (not_le.mp h1), by simp [h1, h0]⟩

/-- `scopedTri.ClosestPoint` (plane projection if `PointInSide` — all three normals agree, /repo f8880ab — accepts it,
    else the nearest of the closest points on the three edges) of a non-degenerate triangle lies in the triangle's
    bounding box.  (With the predicate as it was before f8880ab this is false: see notes, defect 3.) -/
theorem tri_closest_in_box (a b c v : P3) (hnd : 0 < ((b.Sub a).Cross (c.Sub a)).LengthSquared) :
    (aabbFromPoints3 a b c).Contains (triClosestPoint a b c v) = true :=
  tri_closest_in_box_aux a b c v hnd

example : 0 < (((⟨1, 0, 0⟩ : P3).Sub ⟨0, 0, 0⟩).Cross ((⟨0, 1, 0⟩ : P3).Sub ⟨0, 0, 0⟩)).LengthSquared := by
  norm_num [V3.Sub, V3.Cross, V3.LengthSquared]

/-- the closest point of a point / non-degenerate segment / well-formed box / non-degenerate triangle element lies
    in the element's own bounding box — the hypothesis of `closest_eq_scan` for all four element kinds.
    `_hseg` is not needed by the real-number argument (over ℝ `x/0 = 0` makes the closest point of `seg a a` the point
    `a`), but for a zero-length segment the Go code divides by the length 0 and returns NaN, so the real-number
    reading says nothing about it: such segments are excluded from the statement. -/
theorem prim_closest_in_box (p : Prim ℝ) (v : P3)
    (hbox : ∀ b, p = .box b → 0 ≤ b.extents.x ∧ 0 ≤ b.extents.y ∧ 0 ≤ b.extents.z)
    (htri : ∀ a b c, p = .tri a b c → 0 < ((b.Sub a).Cross (c.Sub a)).LengthSquared)
    (_hseg : ∀ a b, p = .seg a b → a ≠ b) :
    p.boundingBox.Contains (p.closestPoint v) = true := by
  cases p with
  | tri a b c => exact tri_closest_in_box_aux a b c v (htri a b c rfl)
  | point q =>
    rw [Tree.aabb_contains_iff]
    simp [Prim.boundingBox, Prim.closestPoint, NewAABB, AABB.Min, AABB.Max, V3.Sub, V3.Add, V3.Scale, V3.Zero]
  | box b =>
    obtain ⟨h1, h2, h3⟩ := hbox b rfl
    exact Tree.aabb_closestPoint_in_box b v h1 h2 h3
  | seg a b =>
    rw [Tree.aabb_contains_iff]
    have hmin : (aabbFromPoints2 a b).Min = ⟨min b.x a.x, min b.y a.y, min b.z a.z⟩ := by
      simp only [aabbFromPoints2, NewAABB, AABB.Min, V3.Sub, V3.Add, V3.Scale, V3.New, RS.lit_eq]
      congr 1 <;> push_cast <;> ring
    have hmax : (aabbFromPoints2 a b).Max = ⟨max b.x a.x, max b.y a.y, max b.z a.z⟩ := by
      simp only [aabbFromPoints2, NewAABB, AABB.Max, V3.Sub, V3.Add, V3.Scale, V3.New, RS.lit_eq]
      congr 1 <;> push_cast <;> ring
    simp only [Prim.boundingBox, Prim.closestPoint, hmin, hmax]
    have between : ∀ (x y t : ℝ), 0 ≤ t → t ≤ 1 → min y x ≤ x + (y - x) * t ∧ x + (y - x) * t ≤ max y x := by
      intro x y t h0 h1
      rcases le_total x y with h | h
      · rw [min_eq_right h, max_eq_left h]; constructor <;> nlinarith
      · rw [min_eq_left h, max_eq_right h]; constructor <;> nlinarith
    rcases seg_cp_cases a b v with h | h | ⟨t, t0, t1, h⟩ <;> rw [h]
    · simp
    · simp
    · simp only [V3.Add, V3.Sub, V3.Scale]
      have bx := between a.x b.x _ t0 t1
      have b_y := between a.y b.y _ t0 t1
      have bz := between a.z b.z _ t0 t1
      exact ⟨bx.1, b_y.1, bz.1, bx.2, b_y.2, bz.2⟩

/-- `OctTree.ClosestPoint` on a tree with `Covers`, whose elements' closest points lie in their boxes (`hprim`;
    discharged by `prim_closest_in_box` for non-degenerate elements — a zero-length segment, whose Go closest point is
    NaN, is outside the real-number reading):
    the returned index is that of an element minimising the (squared) distance to `v`, the returned point is that
    element's closest point; `none` (Go: `-1`) only for a tree without elements. -/
theorem closest_eq_scan (t : Oct Box (Elem ℝ)) (ht : Covers t) (v : P3)
    (hprim : ∀ e ∈ t.allElems, e.box.Contains (e.prim.closestPoint v) = true) :
    match closestPoint t v with
    | none => t.allElems = []
    | some (i, pt) => ∃ e ∈ t.allElems, e.id = i ∧ pt = e.prim.closestPoint v ∧
        ∀ e' ∈ t.allElems, pt.DistanceSquared v ≤ (e'.prim.closestPoint v).DistanceSquared v := by
  have hinv : Inv (fun (b : Box) (e : Elem ℝ) =>
      (b.ClosestPoint v).DistanceSquared v ≤ (e.prim.closestPoint v).DistanceSquared v) t := by
    refine Inv.imp (R := fun (b : Box) (e : Elem ℝ) => BoxSub e.box b)
      (Q := fun e => e.box.Contains (e.prim.closestPoint v) = true) ?_ t ht hprim
    intro b e hsub hq
    exact aabb_lower_bound_aux b v _ (contains_mono hsub _ hq)
  have h := closest_eq_scan_generic (fun (b : Box) => (b.ClosestPoint v).DistanceSquared v)
    (fun (e : Elem ℝ) => e.prim.closestPoint v) (fun (pt : P3) => pt.DistanceSquared v) t hinv
  have hlt : (fun (a b : ℝ) => decide (a < b)) = (ltK : ℝ → ℝ → Bool) := by
    funext a b; simp only [ltK]
  unfold closestPoint
  rw [hlt]
  revert h
  cases Oct.closest ltK (fun (b : Box) => (b.ClosestPoint v).DistanceSquared v)
    (fun (e : Elem ℝ) => e.prim.closestPoint v) (fun (pt : P3) => pt.DistanceSquared v) t with
  | none => intro h; simpa using h
  | some r =>
    obtain ⟨e, pt⟩ := r
    intro h
    obtain ⟨h1, h2, h3⟩ := h
    simp only [Option.map_some]
    exact ⟨e, h1, rfl, h2, fun e' he' => by rw [h2]; exact h3 e' he'⟩


/-! ### `newOctree` establishes the invariant -/

theorem seg_box_min (a b : P3) : (aabbFromPoints2 a b).Min = ⟨min b.x a.x, min b.y a.y, min b.z a.z⟩ := by
  simp only [aabbFromPoints2, NewAABB, AABB.Min, V3.Sub, V3.Add, V3.Scale, V3.New, RS.lit_eq]
  congr 1 <;> push_cast <;> ring

theorem seg_box_max (a b : P3) : (aabbFromPoints2 a b).Max = ⟨max b.x a.x, max b.y a.y, max b.z a.z⟩ := by
  simp only [aabbFromPoints2, NewAABB, AABB.Max, V3.Sub, V3.Add, V3.Scale, V3.New, RS.lit_eq]
  congr 1 <;> push_cast <;> ring

theorem tri_box_min (a b c : P3) : (aabbFromPoints3 a b c).Min =
    ⟨min c.x (min b.x a.x), min c.y (min b.y a.y), min c.z (min b.z a.z)⟩ := by
  simp only [aabbFromPoints3, NewAABB, AABB.Min, V3.Sub, V3.Add, V3.Scale, V3.New, RS.lit_eq]
  congr 1 <;> push_cast <;> ring

theorem tri_box_max (a b c : P3) : (aabbFromPoints3 a b c).Max =
    ⟨max c.x (max b.x a.x), max c.y (max b.y a.y), max c.z (max b.z a.z)⟩ := by
  simp only [aabbFromPoints3, NewAABB, AABB.Max, V3.Sub, V3.Add, V3.Scale, V3.New, RS.lit_eq]
  congr 1 <;> push_cast <;> ring

/-- the bounding boxes of points, segments and triangles are well formed (contain their own corners) -/
theorem prim_box_wf (p : Prim ℝ) (hbox : ∀ b, p = .box b → 0 ≤ b.extents.x ∧ 0 ≤ b.extents.y ∧ 0 ≤ b.extents.z) :
    BoxSub p.boundingBox p.boundingBox := by
  cases p with
  | point q =>
    constructor <;> rw [Tree.aabb_contains_iff] <;>
      simp [Prim.boundingBox, NewAABB, AABB.Min, AABB.Max, V3.Sub, V3.Add, V3.Scale, V3.Zero]
  | seg a b =>
    constructor <;> rw [Tree.aabb_contains_iff] <;>
      simp [Prim.boundingBox, seg_box_min, seg_box_max]
  | box b =>
    obtain ⟨h1, h2, h3⟩ := hbox b rfl
    constructor <;> rw [Tree.aabb_contains_iff] <;>
      simp only [Prim.boundingBox, AABB.Min, AABB.Max, V3.Sub, V3.Add] <;>
      refine ⟨?_, ?_, ?_, ?_, ?_, ?_⟩ <;> linarith
  | tri a b c =>
    have m3 : ∀ x y z : ℝ, min z (min y x) ≤ max z (max y x) :=
      fun x y z => le_trans (min_le_left _ _) (le_max_left _ _)
    constructor <;> rw [Tree.aabb_contains_iff] <;>
      simp only [Prim.boundingBox, tri_box_min, tri_box_max] <;>
      exact ⟨by first | exact le_rfl | exact m3 _ _ _, by first | exact le_rfl | exact m3 _ _ _,
        by first | exact le_rfl | exact m3 _ _ _, by first | exact le_rfl | exact m3 _ _ _,
        by first | exact le_rfl | exact m3 _ _ _, by first | exact le_rfl | exact m3 _ _ _⟩

theorem mem_mkElems {ps : List (Prim ℝ)} {e : Elem ℝ} (he : e ∈ mkElems ps) :
    e.prim ∈ ps ∧ e.box = e.prim.boundingBox := by
  simp only [mkElems, List.mem_map] at he
  obtain ⟨⟨p, i⟩, hpi, rfl⟩ := he
  exact ⟨(List.of_mem_zip hpi).1, rfl⟩

/-- `build_covers`: for EVERY list of elements (with well-formed boxes) and EVERY depth — 0 and the automatic
    depth included — `NewOctreeWithDepth` returns nil only for the empty list, and otherwise a tree that
    satisfies `Covers` and stores each input element exactly once (a permutation of the input).
    Octant assignment, depth cut-off and single-child collapse are those of the code. -/
theorem build_covers (ps : List (Prim ℝ)) (depth : Nat)
    (hwf : ∀ p ∈ ps, BoxSub p.boundingBox p.boundingBox) :
    match newOctreeWithDepth ps depth with
    | none => ps = []
    | some t => Covers t ∧ t.allElems.Perm (mkElems ps) := by
  have h := build_spec (Elem.box (α := ℝ)) depth (mkElems ps)
    (fun e he => by
      obtain ⟨h1, h2⟩ := mem_mkElems he
      rw [h2]; exact hwf _ h1)
  unfold newOctreeWithDepth Covers
  revert h
  cases build Elem.box depth (mkElems ps) with
  | none =>
    intro h
    simp only [mkElems, List.map_eq_nil_iff, List.zip_eq_nil_iff, List.range_eq_nil,
      List.length_eq_zero_iff, or_self] at h
    exact h
  | some t => exact id

example : ∀ p ∈ [Prim.point (⟨0, 0, 0⟩ : P3), Prim.seg ⟨1, 2, 3⟩ ⟨0, 5, 1⟩], BoxSub p.boundingBox p.boundingBox := by
  intro p _; exact prim_box_wf p (by intro b hb; simp_all)

/-- End to end, for the trees the code builds: each pruned query answers a permutation of the exhaustive scan
    over the INPUT list (element `i` of the input has index `i`). -/
theorem octree_queries_eq_scan_of_input (ps : List (Prim ℝ)) (depth : Nat)
    (hwf : ∀ p ∈ ps, BoxSub p.boundingBox p.boundingBox) (t : Oct Box (Elem ℝ))
    (ht : newOctreeWithDepth ps depth = some t) (v o d : P3) (r mn mx : ℝ) :
    (elementsContainingPoint t v).Perm (((mkElems ps).filter (fun e => e.box.Contains v)).map Elem.id) ∧
    (elementsWithinRange t v r).Perm
      (((mkElems ps).filter (fun e => decide ((e.box.ClosestPoint v).Distance v ≤ r))).map Elem.id) ∧
    (elementsIntersectingRay t o d mn mx).Perm
      (((mkElems ps).filter (fun e => intersectsRayInRange e.box o d mn mx)).map Elem.id) := by
  have h := build_covers ps depth hwf
  rw [ht] at h
  obtain ⟨hc, hp⟩ := h
  rw [containing_eq_scan t hc, withinRange_eq_scan t hc, rayElements_eq_scan t hc]
  exact ⟨(hp.filter _).map _, (hp.filter _).map _, (hp.filter _).map _⟩



/-- `traverse_visits_all_hits`: with a callback that records the index and leaves the range alone,
    `TraverseIntersectingRay` visits exactly the elements `ElementsIntersectingRay` returns, in the same order
    (hence, by `rayElements_eq_scan`, exactly the exhaustive scan on a `Covers` tree). -/
theorem traverse_visits_all_hits (t : Oct Box (Elem ℝ)) (o d : P3) (mn mx : ℝ) :
    traverseIntersectingRay t o d mn mx = elementsIntersectingRay t o d mn mx := by
  unfold traverseIntersectingRay elementsIntersectingRay
  rw [traverse_eq_pruned (fun (b : Box) lo hi => intersectsRayInRange b o d lo hi)
    (fun (e : Elem ℝ) lo hi => intersectsRayInRange e.box o d lo hi) Elem.id (mn, mx) t []]
  simp

/-- `TraverseIntersectingRay` with a MONOTONE callback — one that records the index and may move `*min`/`*max`, but only
    into the current range and never inside `[mn*, mx*]` (e.g. shortening `*max` to the nearest hit found so far, with
    `mx*` the final nearest distance): on a `Covers` tree with well-formed element boxes it visits ONLY elements whose box
    the slab test accepts for the initial range, and it visits EVERY element whose box the slab test accepts for
    `[mn*, mx*]`.  (`sh` is the callback's effect on the range; it may depend on the element and on everything visited so far.) -/
theorem traverse_monotone_callback (t : Oct Box (Elem ℝ)) (ht : Covers t)
    (hwf : ∀ e ∈ t.allElems, BoxSub e.box e.box) (o d : P3)
    (sh : Elem ℝ → ℝ × ℝ → List (Elem ℝ) → ℝ × ℝ) (rstar r0 : ℝ × ℝ) (hsh : MonoCallback sh rstar)
    (h0 : rsub rstar r0) :
    let visited := t.traverse (fun b lo hi => intersectsRayInRange b o d lo hi)
      (fun e lo hi => intersectsRayInRange e.box o d lo hi) (fun e r a => (sh e r a, e :: a)) r0 []
    (∀ e ∈ visited, e ∈ t.allElems ∧ intersectsRayInRange e.box o d r0.1 r0.2 = true) ∧
    (∀ e ∈ t.allElems, intersectsRayInRange e.box o d rstar.1 rstar.2 = true → e ∈ visited) := by
  have h := traverse_mono_sandwich (fun (b : Box) lo hi => intersectsRayInRange b o d lo hi)
    (fun (e : Elem ℝ) lo hi => intersectsRayInRange e.box o d lo hi) sh rstar r0 hsh
    (fun (b : Box) (e : Elem ℝ) => BoxSub e.box b)
    (fun b e hsub r hacc => Tree.slab_mono hsub o d r.1 r.2 hacc) t ht
    (fun e he r r' hr hacc => slab_mono_range (hwf e he) o d r.1 r.2 r'.1 r'.2 hr.1 hr.2 hacc)
    r0 [] h0 (rsub_refl r0)
  obtain ⟨_, h2, h3⟩ := h
  refine ⟨fun e he => ?_, h3⟩
  rcases h2 e he with h | h
  · cases h
  · exact h

/-- a callback that shortens `*max` to a recorded distance but never below `m` is monotone w.r.t. `[mn, m]` -/
example (dist : Elem ℝ → ℝ) (mn m : ℝ) :
    MonoCallback (fun e (r : ℝ × ℝ) (_ : List (Elem ℝ)) => (r.1, min r.2 (max (dist e) m))) (mn, m) := by
  intro e rng acc h
  refine ⟨⟨le_refl _, min_le_left _ _⟩, ⟨h.1, le_min h.2 (le_max_right _ _)⟩⟩

/-! ### BVH: `BVHNode.Hit` = `HitList.Hit` -/

variable {H : Type}

/-- For EVERY BVH whose node boxes cover the boxes of the primitives below them (`BInv` — in particular for
    every outcome of the random axis choice and of the unstable sort), `BVHNode.Hit` returns the same hit flag
    and the same distance as `HitList.Hit` run over the tree's primitives in leaf order, for every range.
    Geometry is abstract: all that is used of a primitive is that when its `Hit` succeeds within a range, the
    slab test accepts its box for that range; all that is used of the box test is monotonicity (`slab_mono`). -/
theorem bvh_hit_eq_list (sub : B → B → Prop) (boxH : H → B) (slab : B → K → K → Bool)
    (primHit : H → K → K → Option K)
    (hmono : ∀ a b mn mx, sub a b → slab a mn mx = true → slab b mn mx = true)
    (hprim : ∀ h mn mx d, primHit h mn mx = some d → slab (boxH h) mn mx = true)
    (t : Bvh B H) (ht : BInv sub boxH t) (mn mx : K) :
    t.hit slab primHit mn mx = listHit primHit t.leaves mn mx :=
  bvh_hit_eq_list_aux sub boxH slab primHit hmono hprim t ht mn mx

/-- the same with the real box test of `geometry.AABB` for a ray `(o, d)` -/
theorem bvh_hit_eq_list_aabb (boxH : H → Box) (o d : P3) (primHit : H → ℝ → ℝ → Option ℝ)
    (hprim : ∀ h mn mx dist, primHit h mn mx = some dist → intersectsRayInRange (boxH h) o d mn mx = true)
    (t : Bvh Box H) (ht : BInv BoxSub boxH t) (mn mx : ℝ) :
    t.hit (fun b lo hi => intersectsRayInRange b o d lo hi) primHit mn mx = listHit primHit t.leaves mn mx :=
  bvh_hit_eq_list BoxSub boxH _ primHit (fun _ _ mn mx hs ha => Tree.slab_mono hs o d mn mx ha) hprim t ht mn mx

/-- `HitList.Hit` answers the NEAREST of the individual hits (and misses only if every primitive misses),
    for primitives that report their first hit `f h` beyond `mn` exactly when it is within the range. -/
theorem hitlist_nearest [LinearOrder K] (f : H → Option K) (primHit : H → K → K → Option K) (mn : K)
    (hc : ∀ h mx, primHit h mn mx = (f h).bind (fun d => if d ≤ mx then some d else none))
    (hs : List H) (mx : K) :
    (listHit primHit hs mn mx = none → ∀ h ∈ hs, primHit h mn mx = none) ∧
    (∀ d, listHit primHit hs mn mx = some d →
      (∃ h ∈ hs, primHit h mn mx = some d) ∧ ∀ h ∈ hs, ∀ d', primHit h mn mx = some d' → d ≤ d') :=
  listHit_spec f primHit mn hc hs mx

/-- BVH against an exhaustive `HitList` in ANY order (and with any multiplicities — a one-object span stores
    the object as both children): same flag, same nearest distance. -/
theorem bvh_hit_eq_hitlist_any_order [LinearOrder K] (sub : B → B → Prop) (boxH : H → B)
    (slab : B → K → K → Bool) (f : H → K → Option K) (primHit : H → K → K → Option K)
    (hmono : ∀ a b mn mx, sub a b → slab a mn mx = true → slab b mn mx = true)
    (hprim : ∀ h mn mx d, primHit h mn mx = some d → slab (boxH h) mn mx = true)
    (hc : ∀ h mn mx, primHit h mn mx = (f h mn).bind (fun d => if d ≤ mx then some d else none))
    (t : Bvh B H) (ht : BInv sub boxH t) (objs : List H) (hobjs : ∀ h, h ∈ objs ↔ h ∈ t.leaves) (mn mx : K) :
    t.hit slab primHit mn mx = listHit primHit objs mn mx := by
  rw [bvh_hit_eq_list sub boxH slab primHit hmono hprim t ht mn mx]
  exact (listHit_congr_mem (fun h => f h mn) primHit mn (fun h mx => hc h mn mx) objs t.leaves hobjs mx).symm


/-- Nearest ray hit through the OCTREE (`rendering.Tree.Hit`, tree.go, and `rendering.Mesh.Hit2`: collect
    `ElementsIntersectingRay`, then the `HitList` loop over those): on a `Covers` tree it returns the same flag and
    distance as the `HitList` loop over ALL elements — for primitives that hit only where the slab test accepts their
    box and report their first hit exactly when it is within the range. -/
theorem octree_hit_eq_hitlist (t : Oct Box (Elem ℝ)) (ht : Covers t) (o d : P3)
    (f : Elem ℝ → ℝ → Option ℝ) (primHit : Elem ℝ → ℝ → ℝ → Option ℝ)
    (hprim : ∀ e mn mx dist, primHit e mn mx = some dist → intersectsRayInRange e.box o d mn mx = true)
    (hc : ∀ e mn mx, primHit e mn mx = (f e mn).bind (fun x => if x ≤ mx then some x else none))
    (mn mx : ℝ) :
    listHit primHit (t.pruned (fun b => !intersectsRayInRange b o d mn mx)
      (fun e => intersectsRayInRange e.box o d mn mx)) mn mx = listHit primHit t.allElems mn mx := by
  rw [pruned_eq_scan (fun (b : Box) (e : Elem ℝ) => BoxSub e.box b) _ _ _ t ht]
  · apply listHit_congr_hits (fun e => f e mn) primHit mn (fun e mx => hc e mn mx)
    intro e dist hp
    simp only [List.mem_filter, hprim e mn mx dist hp, and_true]
  · intro b e hsub hacc
    simp [Tree.slab_mono hsub o d mn mx hacc]

theorem boxSub_trans {a b c : Box} (h1 : BoxSub a b) (h2 : BoxSub b c) : BoxSub a c :=
  ⟨contains_mono h2 _ h1.1, contains_mono h2 _ h1.2⟩

/-- `NewBVHTree` (any axis choices, any outcome of the unstable sort: `reorder` is an arbitrary function returning a
    permutation) builds, for every non-empty object list, a tree whose boxes cover (`BInv`) and whose primitives
    are exactly the given objects. -/
theorem bvh_build_covers (sub : B → B → Prop) (boxH : H → B) (union : B → B → B) (reorder : List H → List H)
    (hre : ∀ l, (reorder l).Perm l) (hun : ∀ a b, sub a (union a b) ∧ sub b (union a b))
    (htrans : ∀ a b c, sub a b → sub b c → sub a c)
    (hs : List H) (hne : hs ≠ []) (hrefl : ∀ h ∈ hs, sub (boxH h) (boxH h)) :
    ∃ t, bvhBuild reorder boxH union hs.length hs = some t ∧ BInv sub boxH t ∧ (∀ h, h ∈ t.leaves ↔ h ∈ hs) := by
  obtain ⟨t, h1, h2, h3, _⟩ := bvhBuild_spec sub boxH union reorder hre hun htrans hs.length hs hne le_rfl hrefl
  exact ⟨t, h1, h2, h3⟩

/-- the box a BVH node gets: `NewEmptyAABB` + two `EncapsulateBounds` (bvh.go:108-110) -/
noncomputable def bvhUnion (a b : Box) : Box := ((NewEmptyAABB : Box).EncapsulateBounds a).EncapsulateBounds b

/-- End to end for the BVH with the real box code: for every non-empty list of primitives with well-formed boxes,
    every axis/sort outcome, every ray and range, `BVHNode.Hit` on the built tree = `HitList.Hit` on the
    original list (flag and nearest distance), for primitives that hit only inside their box and report
    their first hit exactly when it is within the range. -/
theorem bvh_built_hit_eq_hitlist (boxH : H → Box) (reorder : List H → List H) (hre : ∀ l, (reorder l).Perm l)
    (o d : P3) (f : H → ℝ → Option ℝ) (primHit : H → ℝ → ℝ → Option ℝ)
    (hprim : ∀ h mn mx dist, primHit h mn mx = some dist → intersectsRayInRange (boxH h) o d mn mx = true)
    (hc : ∀ h mn mx, primHit h mn mx = (f h mn).bind (fun x => if x ≤ mx then some x else none))
    (objs : List H) (hne : objs ≠ []) (hwf : ∀ h ∈ objs, BoxSub (boxH h) (boxH h)) (mn mx : ℝ) :
    ∃ t, bvhBuild reorder boxH bvhUnion objs.length objs = some t ∧
      t.hit (fun b lo hi => intersectsRayInRange b o d lo hi) primHit mn mx = listHit primHit objs mn mx := by
  obtain ⟨t, h1, h2, h3⟩ := bvh_build_covers BoxSub boxH bvhUnion reorder hre
    (fun a b => by
      unfold bvhUnion
      have e1 := aabb_encapsulate_contains (NewEmptyAABB : Box) a
      have e2 := aabb_encapsulate_contains ((NewEmptyAABB : Box).EncapsulateBounds a) b
      exact ⟨⟨e2.2 _ e1.1.1, e2.2 _ e1.1.2⟩, e2.1⟩)
    (fun _ _ _ => boxSub_trans) objs hne hwf
  refine ⟨t, h1, ?_⟩
  exact bvh_hit_eq_hitlist_any_order BoxSub boxH _ f primHit
    (fun _ _ mn mx hs ha => Tree.slab_mono hs o d mn mx ha) hprim hc t h2 objs (fun h => (h3 h).symm) mn mx

/-- the two primitive hypotheses of the BVH theorems (`hprim`: a hit implies the real slab test accepts the box;
    `hc`: the first hit is reported exactly when within the range) are jointly satisfiable with the real box test:
    a primitive with the unit box, hit at parameter 5 by the axis-parallel ray from (0,0,−5) along +z -/
example :
    let boxH : Unit → Box := fun _ => ⟨⟨0, 0, 0⟩, ⟨1, 1, 1⟩⟩
    let f : Unit → ℝ → Option ℝ := fun _ mn => if mn < 5 then some 5 else none
    let primHit : Unit → ℝ → ℝ → Option ℝ := fun h mn mx => (f h mn).bind (fun x => if x ≤ mx then some x else none)
    (∀ h mn mx dist, primHit h mn mx = some dist → intersectsRayInRange (boxH h) ⟨0, 0, -5⟩ ⟨0, 0, 1⟩ mn mx = true) ∧
    (∀ h mn mx, primHit h mn mx = (f h mn).bind (fun x => if x ≤ mx then some x else none)) := by
  intro boxH f primHit
  refine ⟨?_, fun _ _ _ => rfl⟩
  intro h mn mx dist hp
  simp only [primHit, f] at hp
  by_cases h5 : mn < 5
  · simp only [h5, if_true, Option.bind_some] at hp
    by_cases hm : (5 : ℝ) ≤ mx
    · refine slab_sound_aux _ _ _ mn mx 5 (lt_of_lt_of_le h5 hm) h5.le hm ?_
      rw [Tree.aabb_contains_iff]; norm_num [boxH, AABB.Min, AABB.Max, V3.Sub, V3.Add, V3.Scale]
    · simp [hm] at hp
  · simp [h5] at hp

/-- a covering BVH over two "primitives" on the integers (box = interval, slab = overlap with the range) -/
example : BInv (fun (a b : Int × Int) => b.1 ≤ a.1 ∧ a.2 ≤ b.2) (fun (h : Int × Int) => h)
    (Bvh.node (0, 9) (.leaf (0, 3)) (.leaf (5, 9))) := by
  refine BInv.node ?_ (BInv.leaf _) (BInv.leaf _)
  intro h hh
  simp [Bvh.leaves] at hh
  rcases hh with rfl | rfl <;> decide

/-- End to end for `ClosestPoint`: on the tree `NewOctreeWithDepth` builds from ANY non-empty list of points, segments,
    well-formed boxes and non-degenerate triangles (no zero-length segment), at ANY depth, `OctTree.ClosestPoint` returns the index of an input
    element that minimises the distance over the whole input, together with that element's closest point. -/
theorem octree_closest_eq_scan_of_input (ps : List (Prim ℝ)) (depth : Nat)
    (hbox : ∀ p ∈ ps, ∀ b, p = .box b → 0 ≤ b.extents.x ∧ 0 ≤ b.extents.y ∧ 0 ≤ b.extents.z)
    (htri : ∀ p ∈ ps, ∀ a b c, p = .tri a b c → 0 < ((b.Sub a).Cross (c.Sub a)).LengthSquared)
    (hseg : ∀ p ∈ ps, ∀ a b, p = .seg a b → a ≠ b)
    (t : Oct Box (Elem ℝ)) (ht : newOctreeWithDepth ps depth = some t) (v : P3) :
    ∃ i pt, closestPoint t v = some (i, pt) ∧ ∃ e ∈ mkElems ps, e.id = i ∧ pt = e.prim.closestPoint v ∧
      ∀ e' ∈ mkElems ps, pt.DistanceSquared v ≤ (e'.prim.closestPoint v).DistanceSquared v := by
  have hb := build_covers ps depth (fun p hp => prim_box_wf p (hbox p hp))
  rw [ht] at hb
  obtain ⟨hc, hp⟩ := hb
  have hprim : ∀ e ∈ t.allElems, e.box.Contains (e.prim.closestPoint v) = true := by
    intro e he
    obtain ⟨h1, h2⟩ := mem_mkElems (hp.subset he)
    rw [h2]
    exact prim_closest_in_box e.prim v (hbox _ h1) (htri _ h1) (hseg _ h1)
  have h := closest_eq_scan t hc v hprim
  revert h
  cases hcl : closestPoint t v with
  | none =>
    intro h
    simp only at h
    have : mkElems ps = [] := by
      have := hp.symm.subset
      rw [h] at this
      exact List.eq_nil_iff_forall_not_mem.mpr (fun e he => by simpa using this he)
    have hps : ps = [] := by
      simp only [mkElems, List.map_eq_nil_iff, List.zip_eq_nil_iff, List.range_eq_nil,
        List.length_eq_zero_iff, or_self] at this
      exact this
    subst hps
    simp [newOctreeWithDepth, mkElems, build] at ht
  | some r =>
    obtain ⟨i, pt⟩ := r
    intro h
    obtain ⟨e, he, hid, hpt, hmin⟩ := h
    exact ⟨i, pt, rfl, e, hp.subset he, hid, hpt, fun e' he' => hmin e' (hp.symm.subset he')⟩

/-! ### the on-face corner of the slab test, both IEEE outcomes

`intersectsRayInRange` reads a zero direction component with the origin EXACTLY on the ε-widened face as IEEE `-0`
does (reject); `intersectsRayInRangePos` reads it as `+0` does (`0·Inf = NaN` compares false: accept).  Everywhere else
the two agree.  Both readings are monotone in the box, so the tree = scan theorems hold for either. -/

/-- the `+0` reading of the slab test is monotone in the box and in the range -/
theorem slab_mono_posZero {a b : Box} (h : BoxSub a b) (o d : P3) (mn mx : ℝ)
    (ha : intersectsRayInRangePos a o d mn mx = true) : intersectsRayInRangePos b o d mn mx = true :=
  slabPos_mono_range h o d mn mx mn mx le_rfl le_rfl ha

/-- the `+0` reading accepts whatever the `-0` reading accepts (they differ only on the faces) -/
theorem slab_posZero_of_negZero (b : Box) (o d : P3) (mn mx : ℝ) (h : intersectsRayInRange b o d mn mx = true) :
    intersectsRayInRangePos b o d mn mx = true := slabPos_of_slab b o d mn mx h

/-- `ElementsIntersectingRay` = exhaustive scan under the `+0` reading as well -/
theorem rayElements_eq_scan_posZero (t : Oct Box (Elem ℝ)) (ht : Covers t) (o d : P3) (mn mx : ℝ) :
    t.pruned (fun b => !intersectsRayInRangePos b o d mn mx) (fun e => intersectsRayInRangePos e.box o d mn mx) =
      t.allElems.filter (fun e => intersectsRayInRangePos e.box o d mn mx) := by
  refine pruned_eq_scan (fun (b : Box) (e : Elem ℝ) => BoxSub e.box b) _ _ ?_ t ht
  intro b e hsub hacc
  simp [slab_mono_posZero hsub o d mn mx hacc]

/-- on the face itself the two readings do differ: one axis, zero direction component, origin `1 + 1e-10` on the
    widened upper face of the slab `[0 - 1e-10, 1 + 1e-10]`, range `[0, 100]` -/
example : (slabComponentPos (1 + (kEps : ℝ)) 0 0 100 (0 - (kEps : ℝ)) (1 + (kEps : ℝ))).1 = false ∧
    (slabComponent (1 + (kEps : ℝ)) 0 0 100 (0 - (kEps : ℝ)) (1 + (kEps : ℝ))).1 = true := by
  have keps : (0 : ℝ) < kEps := by simp [kEps]
  constructor
  · have h : (-(kEps : ℝ) ≤ 1 + (kEps : ℝ)) := by linarith
    simp only [slabComponentPos, if_true, zero_sub, le_refl, and_true, h]
    norm_num
  · exact slabComponent_zero_out _ _ _ _ _ (by intro h; exact lt_irrefl _ h.2)

/-- a tree satisfying `Covers` in which pruning actually matters (two leaves under one root) -/
noncomputable def exTree : Oct Box (Elem ℝ) :=
  .node ⟨⟨1, 0, 0⟩, ⟨2, 1, 1⟩⟩ []
    [.node ⟨⟨0, 0, 0⟩, ⟨1, 1, 1⟩⟩ [⟨.point ⟨0, 0, 0⟩, ⟨⟨0, 0, 0⟩, ⟨1, 1, 1⟩⟩, 0⟩] [],
     .node ⟨⟨2, 0, 0⟩, ⟨1, 1, 1⟩⟩ [⟨.point ⟨2, 0, 0⟩, ⟨⟨2, 0, 0⟩, ⟨1, 1, 1⟩⟩, 1⟩] []]

example : Covers exTree := by
  have sub : ∀ a b : Box, (b.Min.x ≤ a.Min.x ∧ b.Min.y ≤ a.Min.y ∧ b.Min.z ≤ a.Min.z ∧ a.Min.x ≤ b.Max.x ∧ a.Min.y ≤ b.Max.y ∧ a.Min.z ≤ b.Max.z) →
      (b.Min.x ≤ a.Max.x ∧ b.Min.y ≤ a.Max.y ∧ b.Min.z ≤ a.Max.z ∧ a.Max.x ≤ b.Max.x ∧ a.Max.y ≤ b.Max.y ∧ a.Max.z ≤ b.Max.z) → BoxSub a b := by
    intro a b h1 h2; exact ⟨(Tree.aabb_contains_iff _ _).mpr h1, (Tree.aabb_contains_iff _ _).mpr h2⟩
  unfold Covers exTree
  refine Inv.node ?_ ?_
  · intro e he
    simp [Oct.allElems] at he
    rcases he with rfl | rfl <;> apply sub <;> norm_num [AABB.Min, AABB.Max, V3.Sub, V3.Add]
  · intro c hc
    simp at hc
    rcases hc with rfl | rfl <;> refine Inv.node ?_ (by simp) <;> intro e he <;> simp [Oct.allElems] at he <;>
      subst he <;> apply sub <;> norm_num [AABB.Min, AABB.Max, V3.Sub, V3.Add]

end C16
end PolyVerif
