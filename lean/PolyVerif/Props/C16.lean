/-
  C16 — Spatial index queries agree with exhaustive search.

  Model: `PolyVerif/Model/Tree.lean` (octree.go, bvh.go, hit.go transcribed; AABB code from
  `Gen/Transform.lean`, regenerated from /repo on every run).  Scalar: ℝ.

  Layout of the argument
    * geometry facts about the box code (`aabb_lower_bound`, `contains_mono`, `slab_mono`, …);
    * the tree invariant `Covers` (every node's box contains the box of every element at or below it);
    * for EVERY tree satisfying `Covers` — not only the ones `newOctree` builds — each pruned query
      returns exactly the exhaustive scan of `allElems` (same elements, same order);
    * `newOctree` (every element list, every depth) builds a `Covers` tree whose elements are a
      permutation of the input.
-/
import PolyVerif.Lemmas.Tree

namespace PolyVerif
namespace C16
open PolyVerif.Tree Gen.geometry

variable {B E P K : Type}

/-! ### geometry facts (about the regenerated AABB code and the hand-modelled slab test) -/

/-- for `q` inside box `b`, `b.ClosestPoint p` is at least as close to `p` as `q` is -/
theorem aabb_lower_bound (b : Box) (p q : P3) (hq : b.Contains q = true) :
    (b.ClosestPoint p).DistanceSquared p ≤ q.DistanceSquared p :=
  aabb_lower_bound_aux b p q hq

example : (⟨⟨0, 0, 0⟩, ⟨1, 1, 1⟩⟩ : Box).Contains ⟨1, 0, -1⟩ = true := by
  rw [C17.aabb_contains_iff]; norm_num [AABB.Min, AABB.Max, V3.Sub, V3.Add]

/-- `Contains` is monotone in the box -/
theorem aabb_contains_mono {a b : Box} (h : BoxSub a b) (v : P3) (hv : a.Contains v = true) :
    b.Contains v = true := contains_mono h v hv

/-- the distance from a point to a box does not grow when the box grows -/
theorem aabb_distance_mono {a b : Box} (h : BoxSub a b) (p : P3) :
    (b.ClosestPoint p).Distance p ≤ (a.ClosestPoint p).Distance p := box_distance_mono h p

/-- the slab test (`IntersectsRayInRange`, with its `kEpsilon` widening as in the source) is monotone
    in the box: whatever ray and range it accepts for a box it accepts for every containing box -/
theorem slab_mono {a b : Box} (h : BoxSub a b) (o d : P3) (mn mx : ℝ)
    (ha : intersectsRayInRange a o d mn mx = true) : intersectsRayInRange b o d mn mx = true :=
  Tree.slab_mono h o d mn mx ha

example : BoxSub (⟨⟨0, 0, 0⟩, ⟨1, 1, 1⟩⟩ : Box) ⟨⟨1, 0, 0⟩, ⟨2, 1, 3⟩⟩ := by
  constructor <;> rw [C17.aabb_contains_iff] <;> norm_num [AABB.Min, AABB.Max, V3.Sub, V3.Add]

/-- growing a box by `EncapsulateBounds` keeps what it contained and adds the other box -/
theorem aabb_encapsulate_contains (a b : Box) :
    BoxSub b (a.EncapsulateBounds b) ∧ ∀ v, a.Contains v = true → (a.EncapsulateBounds b).Contains v = true := by
  refine ⟨⟨?_, ?_⟩, ?_⟩
  · exact C17.aabb_encapsulatePoint_mono _ _ _ (C17.aabb_encapsulatePoint_contains _ _)
  · exact C17.aabb_encapsulatePoint_contains _ _
  · intro v hv
    exact C17.aabb_encapsulatePoint_mono _ _ _ (C17.aabb_encapsulatePoint_mono _ _ _ hv)

/-! ### the invariant -/

/-- `Covers t`: the bounds of every node contain the box of every element stored at or below it -/
def Covers (t : Oct Box (Elem ℝ)) : Prop := Inv (fun b e => BoxSub e.box b) t

/-! ### pruned queries = exhaustive scan, for every tree with the invariant (geometry abstract) -/

/-- Shape of `ElementsWithinRange` / `ElementsIntersectingRay`: if accepting an element forbids pruning
    any node related to it, the pruned recursion returns exactly the filtered element list. -/
theorem pruned_eq_scan (R : B → E → Prop) (prune : B → Bool) (accept : E → Bool)
    (h : ∀ b e, R b e → accept e = true → prune b = false) :
    ∀ t : Oct B E, Inv R t → t.pruned prune accept = t.allElems.filter accept := by
  intro t
  induction t using Oct.induct' with
  | h b es cs ih =>
    intro hinv
    have hroot := hinv.root
    have hch := hinv.children
    simp only [Oct.pruned]
    by_cases hp : prune b = true
    · simp only [hp, if_true]
      symm
      rw [List.filter_eq_nil_iff]
      intro e he hacc
      have := h b e (hroot e he) hacc
      rw [this] at hp; cases hp
    · have hp' : prune b = false := by simpa using hp
      simp only [hp', Bool.false_eq_true, if_false]
      rw [Oct.allElems_node, List.filter_append, List.filter_flatMap]
      congr 1
      exact flatMap_congr' (fun c hc => ih c hc (hch c hc))

/-- Shape of `ElementsContainingPoint`: the root is not tested, a child is entered only if its bounds pass. -/
theorem containing_eq_scan_generic (R : B → E → Prop) (inB : B → Bool) (accept : E → Bool)
    (h : ∀ b e, R b e → accept e = true → inB b = true) :
    ∀ t : Oct B E, Inv R t → t.containing inB accept = t.allElems.filter accept := by
  intro t
  induction t using Oct.induct' with
  | h b es cs ih =>
    intro hinv
    have hch := hinv.children
    simp only [Oct.containing]
    rw [Oct.allElems_node, List.filter_append, List.filter_flatMap]
    congr 1
    apply flatMap_congr'
    intro c hc
    by_cases hb : inB c.bounds = true
    · simp only [hb, if_true]; exact ih c hc (hch c hc)
    · have hb' : inB c.bounds = false := by simpa using hb
      simp only [hb', Bool.false_eq_true, if_false]
      symm
      rw [List.filter_eq_nil_iff]
      intro e he hacc
      exact hb (h _ e ((hch c hc).root e he) hacc)

/-! ### the three pruned queries of the octree, concretely -/

/-- `ElementsContainingPoint` returns exactly the elements (in stored order) whose box contains `v` -/
theorem containing_eq_scan (t : Oct Box (Elem ℝ)) (ht : Covers t) (v : P3) :
    elementsContainingPoint t v = ((t.allElems.filter (fun e => e.box.Contains v)).map Elem.id) := by
  unfold elementsContainingPoint
  rw [containing_eq_scan_generic (fun (b : Box) (e : Elem ℝ) => BoxSub e.box b) _ _ _ t ht]
  intro b e hsub hacc
  exact contains_mono hsub v hacc

/-- `ElementsWithinRange` returns exactly the elements whose box is within distance `r` of `p` -/
theorem withinRange_eq_scan (t : Oct Box (Elem ℝ)) (ht : Covers t) (p : P3) (r : ℝ) :
    elementsWithinRange t p r =
      ((t.allElems.filter (fun e => decide ((e.box.ClosestPoint p).Distance p ≤ r))).map Elem.id) := by
  unfold elementsWithinRange
  rw [pruned_eq_scan (fun (b : Box) (e : Elem ℝ) => BoxSub e.box b) _ _ _ t ht]
  intro b e hsub hacc
  have h1 := box_distance_mono hsub p
  simp only [decide_eq_true_eq] at hacc
  simp only [decide_eq_false_iff_not, not_lt]
  linarith

/-- `ElementsIntersectingRay` returns exactly the elements whose box passes the slab test -/
theorem rayElements_eq_scan (t : Oct Box (Elem ℝ)) (ht : Covers t) (o d : P3) (mn mx : ℝ) :
    elementsIntersectingRay t o d mn mx =
      ((t.allElems.filter (fun e => intersectsRayInRange e.box o d mn mx)).map Elem.id) := by
  unfold elementsIntersectingRay
  rw [pruned_eq_scan (fun (b : Box) (e : Elem ℝ) => BoxSub e.box b) _ _ _ t ht]
  intro b e hsub hacc
  simp [Tree.slab_mono hsub o d mn mx hacc]

/-- a tree satisfying `Covers` in which pruning actually matters (two leaves under one root) -/
noncomputable def exTree : Oct Box (Elem ℝ) :=
  .node ⟨⟨1, 0, 0⟩, ⟨2, 1, 1⟩⟩ []
    [.node ⟨⟨0, 0, 0⟩, ⟨1, 1, 1⟩⟩ [⟨.point ⟨0, 0, 0⟩, ⟨⟨0, 0, 0⟩, ⟨1, 1, 1⟩⟩, 0⟩] [],
     .node ⟨⟨2, 0, 0⟩, ⟨1, 1, 1⟩⟩ [⟨.point ⟨2, 0, 0⟩, ⟨⟨2, 0, 0⟩, ⟨1, 1, 1⟩⟩, 1⟩] []]

example : Covers exTree := by
  have sub : ∀ a b : Box, (b.Min.x ≤ a.Min.x ∧ b.Min.y ≤ a.Min.y ∧ b.Min.z ≤ a.Min.z ∧ a.Min.x ≤ b.Max.x ∧ a.Min.y ≤ b.Max.y ∧ a.Min.z ≤ b.Max.z) →
      (b.Min.x ≤ a.Max.x ∧ b.Min.y ≤ a.Max.y ∧ b.Min.z ≤ a.Max.z ∧ a.Max.x ≤ b.Max.x ∧ a.Max.y ≤ b.Max.y ∧ a.Max.z ≤ b.Max.z) → BoxSub a b := by
    intro a b h1 h2; exact ⟨(C17.aabb_contains_iff _ _).mpr h1, (C17.aabb_contains_iff _ _).mpr h2⟩
  unfold Covers exTree
  refine Inv.node ?_ ?_
  · intro e he
    simp [Oct.allElems] at he
    rcases he with rfl | rfl <;> apply sub <;> norm_num [AABB.Min, AABB.Max, V3.Sub, V3.Add]
  · intro c hc
    simp at hc
    rcases hc with rfl | rfl <;> refine Inv.node ?_ (by simp) <;> intro e he <;> simp [Oct.allElems] at he <;>
      subst he <;> apply sub <;> norm_num [AABB.Min, AABB.Max, V3.Sub, V3.Add]

end C16
end PolyVerif
