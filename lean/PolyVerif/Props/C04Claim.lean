/-
  C04 — the CLAIM STAGE derived from a header-level guard; the binary round trip from file bytes WITHOUT a claim hypothesis.

  `MeshReader.Read` decides from the header alone which property readers it builds (reader.go:386-440, 458-512;
  reader_vector{1..4}.go `build{Binary,Ascii}`): model `Ply.buildAll`.  The composed round-trip theorems of
  `C04Compose` / `C04Header` took the outcome of that stage as witnesses (`ClaimOK`) or as a certificate run on the
  concrete header (`claimCheck`).  Here it is a THEOREM for every writer configuration and every mesh inside
  `Ply.claimGuard (selectWriters cfg m)` — a decidable predicate on the property NAMES the writers emit, grouped by
  writer, that does not run the claim function (Model/PlyClaim.lean):

  1. every entry of `defaultReader.Properties` is predictable: a vector reader either has ALL its names written by ONE
     writer, or (IgnorableW: `red green blue [alpha]`, `r g b [a]`, `diffuse_*`) its first three names written by one
     writer with the fourth name harmless — absent from the header, or written LATER with ANOTHER type (the reader then
     falls back to the 3-vector, fix 8c2f8cb) —, or a name it needs is absent from the header;
  2. no two predicted claims land on the same (dimension, attribute);
  3. no property is named like the attribute of a claimed scalar reader (`Opacity` next to `opacity`).
  What the guard excludes is exactly the known-finding classes: a recognised group completed by properties of several
  writers (C04-w-name-before-group-other-type, C04-w-name-captured-by-group, user scalars `px py pz` …) and two writers
  for one attribute.  Tie: the driver evaluates `Ply.claimAgrees` — these very definitions — on the header of every
  file the real writer emits (oracle `c04.holds.claim_ok`).
-/
import PolyVerif.Model.Ply
import PolyVerif.Model.PlyClaim
import PolyVerif.Lemmas.Ply
import PolyVerif.Lemmas.PlyCompose
import PolyVerif.Lemmas.PlyNames
import PolyVerif.Lemmas.PlyClaim
import PolyVerif.Props.C04Compose
import PolyVerif.Props.C04Header

namespace PolyVerif
namespace C04
open Ply PlyLemmas PlyHeader PlyCompose PlyClaim

variable {α : Type}

/-- the reader list `buildAll` produces on the written header, each reader paired with the header positions of its names -/
def claimedOf (cfg : WriterCfg) (m : MeshVal α) : List (Built × List Nat) :=
  (buildAll true (headerProps (selectWriters cfg m)) defaultReaders true).map
    (fun b => (b, b.names.map (posOf (headerProps (selectWriters cfg m)))))

/-- ONE DEFAULT READER, inside the guard: `PropertyReader.build*` on the header of the writers `ws` builds exactly the
predicted reader (`expectNames`): all names of one writer / the first three names of an IgnorableW group whose fourth name
is absent / the scalar property / nothing — located at the byte offsets of its names' header positions, typed as the writer -/
theorem ply_reader_claims_predicted (ws : List WProp) (hnd : (wsNames ws).Nodup) (hg : claimGuard ws = true)
    (r : RProp) (hr : r ∈ defaultReaders) :
    buildReader true (wsProps ws) r =
      (expectNames ws r).map (fun p =>
        ⟨r.attr, p.1, (p.1.map (posOf (wsProps ws))).map (locOf true (wsProps ws)), some p.2⟩) := by
  obtain ⟨a, b, c⟩ := defaultReaders_shape r hr
  have := buildReader_expect true ws hnd r a b c ((claimGuard_parts ws hg).1 r hr)
  simpa [expectBuilt, tyOf] using this

/-- THE WHOLE READER LIST, inside the guard: every reader `MeshReader.Read` builds on the written header is located where
its names are (one type, byte offsets = Σ sizes before, in header order); no two built readers share a key (so no
`UpdateMesh` overwrites another); every writer whose names the reader recognises has a reader with its attribute and
exactly its names -/
theorem ply_claim_stage (ws : List WProp) (hnd : (wsNames ws).Nodup) (hg : claimGuard ws = true) :
    (∀ b ∈ buildAll true (headerProps ws) defaultReaders true,
        LocatedNamed (headerProps ws) b (b.names.map (posOf (headerProps ws)))) ∧
    ((buildAll true (headerProps ws) defaultReaders true).map Built.key).Nodup ∧
    (∀ w ∈ ws, comesBack w = true →
      ∃ b ∈ buildAll true (headerProps ws) defaultReaders true, b.attr = w.attr ∧ b.names = w.names) := by
  obtain ⟨h1, h2, h3⟩ := claim_of_guard_ws true ws hnd hg (by simp)
  exact ⟨fun b hb => located_of_good ws hnd b (h1 b hb), h2, h3⟩

/-- THE WHOLE READER LIST, EXACTLY, inside the guard: as (attribute, names, decoding type) the readers `MeshReader.Read`
builds on the written header are `claimSpec ws` — the predicted default readers in the order of
`defaultReader.Properties`, then one scalar reader per property none of them claims, in header order
(which default readers are NOT built, and the exact unclaimed-scalar list, included) -/
theorem ply_claim_stage_exact (ws : List WProp) (hnd : (wsNames ws).Nodup) (hg : claimGuard ws = true) :
    (buildAll true (wsProps ws) defaultReaders true).map (fun b => (b.attr, b.names, b.ty))
      = (claimSpec ws).map (fun x => (x.1, x.2.1, some x.2.2)) :=
  claimSpec_exact ws hnd hg

/-- the predicate of the oracle `c04.holds.claim_ok`, on the header the MODEL writer produces, for every configuration and
mesh whose write succeeds: a theorem (the driver evaluates it on the header the REAL writer produced) -/
theorem ply_claim_oracle_holds (c : Coding α) (cfg : WriterCfg) (m : MeshVal α) (body : Bytes)
    (h : writeBody c cfg m = .ok body) :
    claimAgrees (selectWriters cfg m) (headerProps (selectWriters cfg m)) = true := by
  have hnd := (names_of_writeBody_ok c cfg m body h).2
  rw [← wsProps_eq, wsProps_names] at hnd
  exact claimAgrees_of_guard _ hnd

/-- `ClaimOK` — the claim-stage hypothesis of `ply_roundtrip_binary_partial` / `_uv` / `_bytes` — FROM THE GUARD, for every
configuration and mesh whose write succeeds (a successful write makes the names distinct, writer.go:144-158) -/
theorem ply_claim_ok_from_guard (c : Coding α) (cfg : WriterCfg) (m : MeshVal α) (body : Bytes)
    (h : writeBody c cfg m = .ok body) (hg : claimGuard (selectWriters cfg m) = true) :
    ClaimOK cfg m (claimedOf cfg m) := by
  have hnd := (names_of_writeBody_ok c cfg m body h).2
  rw [← wsProps_eq, wsProps_names] at hnd
  exact claimOK_of_guard cfg m hnd hg

/-- THE COMPOSED ROUND TRIP FROM FILE BYTES, CLOSED (binary encodings): for EVERY writer configuration and every
well-formed mesh, `readMesh (writeMesh cfg m)` satisfies `RoundTrips` — no claim witnesses, no certificate.
Guards: binary format; the header-level guard `claimGuard` on the writers that fire; point clouds with the identity index
buffer (known finding C04-pointcloud-index-buffer); fewer than 2³¹ vertices; printable texture URI. -/
theorem ply_roundtrip_binary_bytes_closed [BEq α] [LawfulBEq α] (c : Coding α) (cfg : WriterCfg) (m : MeshVal α)
    (bytes : Bytes) (hf : cfg.format ≠ .ascii) (hwf : m.WF = true) (h : writeMesh c cfg m = .ok bytes)
    (hg : claimGuard (selectWriters cfg m) = true)
    (hpoint : m.topo = .point → m.indices = (List.range m.attrLen).map Int.ofNat)
    (hsize : m.attrLen ≤ 2 ^ 31) (hidx : m.indices.length < 2 ^ 63)
    (huri : ∀ u, m.texURI = some u → CommentOK (nm "TextureFile " ++ u)) :
    ∃ back, readMesh c defaultReader bytes = .ok back ∧ RoundTrips c cfg m back = true := by
  obtain ⟨body, hbody, _, _⟩ := ply_written_header_parses c cfg m bytes h huri
    (Nat.lt_of_le_of_lt hsize (by decide)) hidx
  exact ply_roundtrip_binary_bytes c cfg m bytes hf hwf h hpoint hsize hidx huri (claimedOf cfg m)
    (ply_claim_ok_from_guard c cfg m body hbody hg)

/-- the DEFAULT writer (`ply.Write`, write.go), both binary encodings, every well-formed mesh: the closed round trip,
with the guard evaluated on the writers the default configuration fires for this mesh's attributes (default groups for
Position / Normal / Color / FDC / Opacity / Scale / Rotation present in the mesh, `s t` for a point cloud's TexCoord,
`name` / `name_k` floats for everything else) -/
theorem ply_roundtrip_binary_bytes_default_closed [BEq α] [LawfulBEq α] (c : Coding α) (f : Format) (m : MeshVal α)
    (bytes : Bytes) (hf : f ≠ .ascii) (hwf : m.WF = true) (h : writeMesh c (defaultWriter f) m = .ok bytes)
    (hg : claimGuard (selectWriters (defaultWriter f) m) = true)
    (hpoint : m.topo = .point → m.indices = (List.range m.attrLen).map Int.ofNat)
    (hsize : m.attrLen ≤ 2 ^ 31) (hidx : m.indices.length < 2 ^ 63)
    (huri : ∀ u, m.texURI = some u → CommentOK (nm "TextureFile " ++ u)) :
    ∃ back, readMesh c defaultReader bytes = .ok back ∧ RoundTrips c (defaultWriter f) m back = true :=
  ply_roundtrip_binary_bytes_closed c (defaultWriter f) m bytes hf hwf h hg hpoint hsize hidx huri

/-- the parsed-header form (everything `MeshReader.Read` does after `ReadHeader`), closed -/
theorem ply_roundtrip_binary_closed [BEq α] [LawfulBEq α] (c : Coding α) (cfg : WriterCfg) (m : MeshVal α) (body : Bytes)
    (hf : cfg.format ≠ .ascii) (hwf : m.WF = true) (h : writeBody c cfg m = .ok body)
    (hg : claimGuard (selectWriters cfg m) = true)
    (hpoint : m.topo = .point → m.indices = (List.range m.attrLen).map Int.ofNat)
    (hsize : m.attrLen ≤ 2 ^ 31) :
    ∃ back, readBody c defaultReader (writeHeader cfg m) body = .ok back ∧ RoundTrips c cfg m back = true :=
  ply_roundtrip_binary_partial c cfg m body hf hwf h hpoint hsize (claimedOf cfg m)
    (ply_claim_ok_from_guard c cfg m body h hg)

/-- the statement WITHOUT the guard: every successfully written header is claimed as written.  It is FALSE of the code
(`ply_claim_full_false`): the known findings C04-w-name-… are counterexamples. -/
def ply_claim_full : Prop :=
  ∀ (cfg : WriterCfg) (m : MeshVal Nat) (body : Bytes), writeBody toyCoding cfg m = .ok body →
    ∃ bl, ClaimOK cfg m bl

/-! ### non-vacuity: the guard holds for the default writer on a coloured mesh with a user scalar, for a custom
configuration (`px py pz` doubles, renamed scalar), for a UV-mapped quad; it FAILS on the two known-finding witnesses -/

example : claimGuard (selectWriters (defaultWriter .be) exMesh) = true := by decide
example : claimGuard (selectWriters exCfg exCloud) = true := by decide
example : claimGuard (selectWriters (defaultWriter .le) exUV) = true := by decide

/-- the header of `exMesh` under the default writer: `x y z` float, `red green blue` uchar, `quality` float — the predicted
claims are Position (3 names), Color by the IgnorableW fallback (first three names), and nothing else -/
example : defaultReaders.filterMap (fun r => (expectNames (selectWriters (defaultWriter .be) exMesh) r).map (fun p => (r.attr, p.1, p.2)))
    = [(positionAttr, [nm "x", nm "y", nm "z"], .float), (colorAttr, [nm "red", nm "green", nm "blue"], .uchar)] := by decide

/-- … and the whole predicted reader list: Position, Color, then the scalar `quality` -/
example : claimSpec (selectWriters (defaultWriter .be) exMesh)
    = [(positionAttr, [nm "x", nm "y", nm "z"], .float), (colorAttr, [nm "red", nm "green", nm "blue"], .uchar),
       (nm "quality", [nm "quality"], .float)] := by decide

example : ∃ back, readMesh toyCoding defaultReader ((writeMesh toyCoding (defaultWriter .be) exMesh).toOption.getD [])
      = .ok back ∧ RoundTrips toyCoding (defaultWriter .be) exMesh back = true :=
  ply_roundtrip_binary_bytes_closed toyCoding (defaultWriter .be) exMesh _ (by decide) (by decide) (by rfl) (by decide)
    (by decide) (by decide) (by decide) (by intro u hu; simp [exMesh] at hu)

example : ∃ back, readMesh toyCoding defaultReader ((writeMesh toyCoding exCfg exCloud).toOption.getD [])
      = .ok back ∧ RoundTrips toyCoding exCfg exCloud back = true :=
  ply_roundtrip_binary_bytes_closed toyCoding exCfg exCloud _ (by decide) (by decide) (by rfl) (by decide)
    (by decide) (by decide) (by decide) (by intro u hu; simp [exCloud] at hu)

/-- INSIDE the guard: the default writer on a point cloud with Position, Color and a user scalar named `alpha` — header
`x y z` float, `red green blue` uchar, `alpha` float: the fourth name of the colour group is present, AFTER the group, with
another type; the reader falls back to the 3-vector (fix 8c2f8cb) and `alpha` comes back as a scalar -/
def exAlphaMesh : MeshVal Nat :=
  ⟨.point, [0, 1], [⟨3, positionAttr, [[1, 2, 3], [4, 5, 6]]⟩, ⟨3, colorAttr, [[0, 1, 0], [1, 1, 0]]⟩,
                    ⟨1, nm "alpha", [[5], [6]]⟩], none⟩

example : claimGuard (selectWriters (defaultWriter .le) exAlphaMesh) = true := by decide

example : claimSpec (selectWriters (defaultWriter .le) exAlphaMesh)
    = [(positionAttr, [nm "x", nm "y", nm "z"], .float), (colorAttr, [nm "red", nm "green", nm "blue"], .uchar),
       (nm "alpha", [nm "alpha"], .float)] := by decide

example : ∃ back, readMesh toyCoding defaultReader ((writeMesh toyCoding (defaultWriter .le) exAlphaMesh).toOption.getD [])
      = .ok back ∧ RoundTrips toyCoding (defaultWriter .le) exAlphaMesh back = true :=
  ply_roundtrip_binary_bytes_closed toyCoding (defaultWriter .le) exAlphaMesh _ (by decide) (by decide) (by rfl) (by decide)
    (by decide) (by decide) (by decide) (by intro u hu; simp [exAlphaMesh] at hu)

/-- known finding C04-w-name-before-group-other-type: scalar `a` (float) written before `r g b` (double) -/
def exWNameCfg : WriterCfg :=
  ⟨.le, [⟨nm "a", [nm "a"], .float⟩, ⟨colorAttr, [nm "r", nm "g", nm "b"], .double⟩,
         ⟨positionAttr, [nm "x", nm "y", nm "z"], .float⟩], false⟩

def exWNameMesh : MeshVal Nat :=
  ⟨.point, [0, 1], [⟨3, positionAttr, [[1, 2, 3], [4, 5, 6]]⟩, ⟨3, colorAttr, [[0, 1, 0], [1, 1, 0]]⟩,
                    ⟨1, nm "a", [[5], [6]]⟩], none⟩

/-- known finding C04-w-name-captured-by-group: `red green blue` float + unspecified float scalar `alpha` -/
def exCapturedCfg : WriterCfg :=
  ⟨.le, [⟨positionAttr, [nm "x", nm "y", nm "z"], .float⟩, ⟨colorAttr, [nm "red", nm "green", nm "blue"], .float⟩], true⟩

def exCapturedMesh : MeshVal Nat :=
  ⟨.point, [0, 1], [⟨3, positionAttr, [[1, 2, 3], [4, 5, 6]]⟩, ⟨3, colorAttr, [[0, 1, 0], [1, 1, 0]]⟩,
                    ⟨1, nm "alpha", [[5], [6]]⟩], none⟩

example : claimGuard (selectWriters exWNameCfg exWNameMesh) = false := by decide
example : claimGuard (selectWriters exCapturedCfg exCapturedMesh) = false := by decide

/-- … and on them the claim stage really does not claim what was written: the guard cannot be dropped -/
theorem ply_claim_full_false : ¬ ply_claim_full := by
  intro h
  obtain ⟨bl, hcl⟩ := h exCapturedCfg exCapturedMesh ((writeBody toyCoding exCapturedCfg exCapturedMesh).toOption.getD [])
    (by rfl)
  have hb : bl.map (·.1) = buildAll true (headerProps (selectWriters exCapturedCfg exCapturedMesh)) defaultReaders true :=
    hcl.built
  obtain ⟨j, hj, _, hn, _⟩ := hcl.demanded ⟨colorAttr, [nm "red", nm "green", nm "blue"], .float⟩ (by decide) (by decide)
  have hmem : bl[j].1 ∈ bl.map (·.1) := List.mem_map.mpr ⟨bl[j], List.getElem_mem hj, rfl⟩
  rw [hb] at hmem
  have hall : ∀ b ∈ buildAll true (headerProps (selectWriters exCapturedCfg exCapturedMesh)) defaultReaders true,
      b.names ≠ [nm "red", nm "green", nm "blue"] := by decide
  exact hall _ hmem hn

end C04
end PolyVerif
