/-
  C06 — scene level: what `AddScene` / `writeScene` do for an arbitrary well-formed scene.
  Lifts the low-level invariant of Props/C06 through AddTexture / AddMaterial / AddMesh / the model loop / AddLight.
-/
import PolyVerif.Props.C06

namespace PolyVerif
namespace C06
open Gltf

/-- the full scene-level statement of the property (the three predicates the oracles `c06.holds.valid`, `.decode`,
    `.dedup` evaluate on the implementation's output), for every scene the writer accepts.  NOT proved as a whole; see
    the `scene_*` / `gltf_*` theorems below for the proved parts and cfg `residue` for the rest. -/
def C06_scene_full : Prop :=
  ∀ (s : Scene) (w : W), writeScene s = .ok w →
    valid w.doc w.buf = true ∧ carriesScene s w.doc w.buf = true ∧ dedupOK s w.doc = true

/-! ### the four low-level fields -/

/-- `w'` has the same buffer, offset, accessors and views as `w` -/
def LowEq (w' w : W) : Prop :=
  w'.bytesWritten = w.bytesWritten ∧ w'.buf = w.buf ∧ w'.accessors = w.accessors ∧ w'.views = w.views

theorem LowEq.rfl' (w : W) : LowEq w w := ⟨rfl, rfl, rfl, rfl⟩

theorem LowEq.trans' {a b c : W} (h1 : LowEq a b) (h2 : LowEq b c) : LowEq a c :=
  ⟨h1.1.trans h2.1, h1.2.1.trans h2.2.1, h1.2.2.1.trans h2.2.2.1, h1.2.2.2.trans h2.2.2.2⟩

theorem inv_congr {w w' : W} (h : Inv w) (he : LowEq w' w) : Inv w' := by
  obtain ⟨h1, h2, h3, h4⟩ := he
  refine ⟨?_, ?_, ?_, ?_, ?_⟩
  · rw [h1, h2]; exact h.bytes
  · rw [h4, h2]; exact h.tiles
  · rw [h3, h4]; exact h.len
  · intro k hk
    have hk' : k < w.accessors.length := by rw [← h3]; exact hk
    have := h.own k hk'
    simp only [h3]; exact this
  · intro a ha; rw [h2, h4]; rw [h3] at ha; exact h.accs a ha

theorem lowEq_texPrepare (w : W) (t : PTexture) : LowEq (texPrepare w t) w := by
  unfold texPrepare; split <;> exact ⟨rfl, rfl, rfl, rfl⟩

theorem lowEq_texImage (w : W) (u : String) : LowEq (texImage w u).1 w := by
  unfold texImage; split <;> exact ⟨rfl, rfl, rfl, rfl⟩

theorem lowEq_texSampler (w : W) (s : Option Sampler) : LowEq (texSampler w s).1 w := by
  unfold texSampler; split
  · exact ⟨rfl, rfl, rfl, rfl⟩
  · split <;> exact ⟨rfl, rfl, rfl, rfl⟩

theorem lowEq_texFinish (w : W) (id : Nat) (t : PTexture) (i : Nat) (s : Option Nat) : LowEq (texFinish w id t i s).1 w := by
  unfold texFinish; split <;> exact ⟨rfl, rfl, rfl, rfl⟩

theorem lowEq_addTexture (w : W) (id : Nat) (t : PTexture) : LowEq (addTexture w id t).1 w := by
  unfold addTexture
  split
  · exact lowEq_texPrepare w t
  · exact (lowEq_texFinish _ _ _ _ _).trans' ((lowEq_texSampler _ _).trans' ((lowEq_texImage _ _).trans' (lowEq_texPrepare w t)))

theorem lowEq_addTexOpt (th : Nat → Option PTexture) (w : W) (o : Option Nat) (r : W × Option TexInfo)
    (h : addTexOpt th w o = .ok r) : LowEq r.1 w := by
  unfold addTexOpt at h
  split at h
  · injection h with h; subst h; exact LowEq.rfl' w
  · split at h
    · cases h
    · injection h with h; subst h; exact lowEq_addTexture _ _ _

theorem lowEq_addTexList (th : Nat → Option PTexture) (w : W) (l : List (String × Nat)) (r : W × List (String × TexInfo))
    (h : addTexList th w l = .ok r) : LowEq r.1 w := by
  induction l generalizing w r with
  | nil => simp [addTexList] at h; subst h; exact LowEq.rfl' w
  | cons kt l ih =>
    obtain ⟨k, id⟩ := kt
    simp only [addTexList] at h
    split at h
    · cases h
    · split at h
      · cases h
      · rename_i t _ w2 l2 h2
        injection h with h; subst h
        exact (ih _ _ h2).trans' (lowEq_addTexture _ _ _)

theorem lowEq_addMatExts (th : Nat → Option PTexture) (w : W) (l : List PMatExt) (r : W × List GMatExt)
    (h : addMatExts th w l = .ok r) : LowEq r.1 w := by
  induction l generalizing w r with
  | nil => simp [addMatExts] at h; subst h; exact LowEq.rfl' w
  | cons e l ih =>
    simp only [addMatExts] at h
    split at h
    · cases h
    · rename_i w1 tis h1
      split at h
      · cases h
      · rename_i w2 l2 h2
        injection h with h; subst h
        have := ih _ _ h2
        exact this.trans' (LowEq.trans' ⟨rfl, rfl, rfl, rfl⟩ (lowEq_addTexList _ _ _ _ h1))

theorem lowEq_addMaterial (th : Nat → Option PTexture) (w : W) (m : PMaterial) (r : W × Nat)
    (h : addMaterial th w m = .ok r) : LowEq r.1 w := by
  unfold addMaterial at h
  split at h
  · split at h
    · injection h with h; subst h; exact LowEq.rfl' w
    · cases h
  · split at h
    · cases h
    · rename_i r1 h1
      split at h
      · cases h
      · rename_i r2 h2
        split at h
        · cases h
        · rename_i r3 h3
          split at h
          · cases h
          · split at h
            · cases h
            · rename_i r4 h4
              split at h
              · cases h
              · rename_i r5 h5
                injection h with h; subst h
                have e1 := lowEq_addTexOpt _ _ _ _ h1
                have e2 := lowEq_addTexOpt _ _ _ _ h2
                have e3 := lowEq_addMatExts _ _ _ _ h3
                have e4 := lowEq_addTexOpt _ _ _ _ h4
                have e5 := lowEq_addTexOpt _ _ _ _ h5
                exact LowEq.trans' ⟨rfl, rfl, rfl, rfl⟩ (e5.trans' (e4.trans' (e3.trans' (e2.trans' e1))))

/-! ### the mesh path issues only admissible writes -/

theorem attrComp_cases (name : String) : attrComp name = .f32 ∨ attrComp name = .u8 := by
  unfold attrComp; split <;> simp

/-- well-formed mesh: every attribute that is written has admissible data of the common length `attrLen`; every
    index is smaller than that length -/
def MeshWF (m : PMesh) : Prop :=
  (∀ a ∈ m.written, VecsOK (attrComp a.name) a.dim a.vals ∧ a.vals.length = m.attrLen)
  ∧ (∀ i ∈ m.indices, i < m.attrLen) ∧ m.attrLen ≤ 2 ^ 32

/-- admissible GPU instances: ten binary32 values each (position, scale, rotation), finite and not NaN -/
def InstWF (inst : List (List Nat)) : Prop :=
  ∀ t ∈ inst, t.length = 10 ∧ ∀ x ∈ t, x < 2 ^ 32 ∧ x ≠ posInf32 ∧ x ≠ negInf32 ∧ isNaN32 x = false

def SceneOK (s : Scene) : Prop := (∀ m ∈ s.meshHeap, MeshWF m) ∧ (∀ md ∈ s.models, InstWF md.instances)

theorem inv_writeVec (w : W) (hw : Inv w) (c : Comp) (d : Nat) (v : List (List Nat)) (hc : c = .f32 ∨ c = .u8)
    (hv : VecsOK c d v) : Inv (writeVec w c d v) := inv_step w (.vec c d v) hw ⟨hc, hv⟩

theorem inv_writeIndices (w : W) (hw : Inv w) (idx : List Nat) (n : Nat) (h : (∀ i ∈ idx, i < n) ∧ n ≤ 2 ^ 32) :
    Inv (writeIndices w idx n) := inv_step w (.idx idx n) hw h

theorem inv_writeAttrs (w : W) (acc : List (String × Nat)) (l : List Attr) (hw : Inv w)
    (hl : ∀ a ∈ l, VecsOK (attrComp a.name) a.dim a.vals) : Inv (writeAttrs w acc l).1 := by
  induction l generalizing w acc with
  | nil => exact hw
  | cons a r ih =>
    simp only [writeAttrs]
    exact ih _ _ (inv_writeVec w hw _ _ _ (attrComp_cases a.name) (hl a (by simp))) (fun x hx => hl x (by simp [hx]))

theorem inv_writeMeshData (w : W) (id : Nat) (m : PMesh) (hw : Inv w) (hm : MeshWF m) : Inv (writeMeshData w id m).1 := by
  have h1 := inv_writeAttrs w [] m.written hw (fun a ha => (hm.1 a ha).1)
  have h2 := inv_writeIndices _ h1 m.indices m.attrLen hm.2
  exact inv_congr h2 ⟨rfl, rfl, rfl, rfl⟩

theorem inv_addMesh (w : W) (name : String) (id : Nat) (m : PMesh) (mat : Option Nat) (hw : Inv w) (hm : MeshWF m) :
    Inv (addMesh w name id m mat).1 := by
  unfold addMesh
  split
  · exact hw
  · split
    · exact hw
    · have h0 : Inv { w with meshIdx := mapInsert w.meshIdx (id, mat) w.meshes.length } := inv_congr hw ⟨rfl, rfl, rfl, rfl⟩
      simp only
      split
      · exact inv_congr h0 ⟨rfl, rfl, rfl, rfl⟩
      · exact inv_congr (inv_writeMeshData _ id m h0 hm) ⟨rfl, rfl, rfl, rfl⟩

private theorem vecsOK_inst (inst : List (List Nat)) (h : InstWF inst) (f : List Nat → List Nat) (d : Nat)
    (hf : ∀ t, t.length = 10 → (f t).length = d ∧ ∀ x ∈ f t, x ∈ t) : VecsOK .f32 d (inst.map f) := by
  intro v hv
  obtain ⟨t, ht, rfl⟩ := List.mem_map.mp hv
  obtain ⟨hlen, hx⟩ := h t ht
  refine ⟨(hf t hlen).1, ?_⟩
  intro x hxv
  obtain ⟨h1, h2, h3, h4⟩ := hx x ((hf t hlen).2 x hxv)
  refine ⟨by simpa [Comp.size] using h1, ?_, ?_⟩
  · rintro ⟨_, h | h⟩ <;> contradiction
  · rintro ⟨_, _, h⟩; rw [h4] at h; cases h

theorem inv_addInstances (w : W) (inst : List (List Nat)) (hw : Inv w) (hi : InstWF inst) : Inv (addInstances w inst).1 := by
  unfold addInstances
  split
  · exact hw
  · simp only
    have h0 : Inv { w with extUsed := setInsert w.extUsed "EXT_mesh_gpu_instancing" } := inv_congr hw ⟨rfl, rfl, rfl, rfl⟩
    have h1 := inv_writeVec _ h0 .f32 3 (inst.map (fun t => t.take 3)) (Or.inl rfl)
      (vecsOK_inst inst hi _ 3 (fun t ht => ⟨by simp [ht], fun x hx => List.mem_of_mem_take hx⟩))
    have h2 := inv_writeVec _ h1 .f32 3 (inst.map (fun t => (t.drop 3).take 3)) (Or.inl rfl)
      (vecsOK_inst inst hi _ 3 (fun t ht => ⟨by simp [ht], fun x hx => List.mem_of_mem_drop (List.mem_of_mem_take hx)⟩))
    exact inv_writeVec _ h2 .f32 4 (inst.map (fun t => (t.drop 6).take 4)) (Or.inl rfl)
      (vecsOK_inst inst hi _ 4 (fun t ht => ⟨by simp [ht], fun x hx => List.mem_of_mem_drop (List.mem_of_mem_take hx)⟩))

theorem lowEq_addModelMaterial (s : Scene) (w : W) (md : Model) (r : W × Option Nat)
    (h : addModelMaterial s w md = .ok r) : LowEq r.1 w := by
  unfold addModelMaterial at h
  split at h
  · injection h with h; subst h; exact LowEq.rfl' w
  · split at h
    · cases h
    · split at h
      · cases h
      · rename_i r' h'
        injection h with h; subst h
        exact lowEq_addMaterial _ _ _ _ h'

theorem inv_addModel (s : Scene) (w w' : W) (md : Model) (hs : SceneOK s) (hmd : md ∈ s.models) (hw : Inv w)
    (h : addModel s w md = .ok w') : Inv w' := by
  unfold addModel at h
  split at h
  · cases h
  · split at h
    · cases h
    · rename_i _ id _ _ m hm
      have hwf : MeshWF m := hs.1 m (List.mem_of_getElem? hm)
      split at h
      · injection h with h; subst h; exact hw
      · split at h
        · cases h
        · rename_i r hr
          have h1 : Inv r.1 := inv_congr hw (lowEq_addModelMaterial s w md r hr)
          have h2 := inv_addMesh r.1 md.name id m r.2 h1 hwf
          simp only at h
          split at h
          · injection h with h; subst h; exact h2
          · injection h with h; subst h
            exact inv_congr (inv_addInstances _ md.instances h2 (hs.2 md hmd)) ⟨rfl, rfl, rfl, rfl⟩

theorem inv_addModels (s : Scene) (w w' : W) (l : List Model) (hs : SceneOK s) (hl : ∀ md ∈ l, md ∈ s.models) (hw : Inv w)
    (h : addModels s w l = .ok w') : Inv w' := by
  induction l generalizing w with
  | nil => simp [addModels] at h; subst h; exact hw
  | cons md r ih =>
    simp only [addModels] at h
    split at h
    · cases h
    · rename_i w1 h1
      exact ih w1 (fun x hx => hl x (by simp [hx])) (inv_addModel s w w1 md hs (hl md (by simp)) hw h1) h

theorem inv_addLights (w : W) (l : List (List Nat)) (hw : Inv w) : Inv (l.foldl addLight w) := by
  induction l generalizing w with
  | nil => exact hw
  | cons p r ih => exact ih _ (inv_congr hw ⟨rfl, rfl, rfl, rfl⟩)

/-- REFINEMENT: for every well-formed scene, `AddScene` (materials, textures, mesh dedup, instancing, lights included)
    only ever issues admissible low-level writes, so the writer invariant of Props/C06 holds of the state it reaches -/
theorem scene_inv (s : Scene) (w : W) (hs : SceneOK s) (h : writeScene s = .ok w) : Inv w := by
  unfold writeScene at h
  split at h
  · cases h
  · rename_i w1 h1
    split at h
    · injection h with h; subst h
      unfold addScene at h1
      split at h1
      · cases h1
      · rename_i w0 h0
        injection h1 with h1; subst h1
        exact inv_addLights _ _ (inv_addModels s {} w0 s.models hs (fun _ h => h) inv_empty h0)
    · cases h

/-- the buffer / bufferView / accessor part of `valid` -/
def validLow (d : Doc) (buf : List UInt8) : Bool :=
  (match d.bufLen with
   | some n => n == buf.length && n > 0
   | none => buf.length == 0)
  && d.views.all (viewInside buf.length)
  && pairwiseB viewDisj d.views
  && d.accessors.all (accOK buf d.views)

theorem validLow_of_inv (w : W) (hi : Inv w) : validLow w.doc w.buf = true := by
  unfold validLow
  simp only [Bool.and_eq_true, List.all_eq_true]
  refine ⟨⟨⟨?_, ?_⟩, tiles_disjoint hi.tiles⟩, hi.accs⟩
  · simp only [W.doc, hi.bytes]
    split
    · rename_i n hn
      split at hn
      · injection hn with hn; subst hn; simp; omega
      · cases hn
    · rename_i hn
      split at hn
      · cases hn
      · rename_i h0; simp at h0 ⊢; omega
  · intro v hv
    have := tiles_inside hi.tiles v hv
    simp [W.doc] at hv ⊢
    simp [viewInside]; omega

/-- for EVERY well-formed scene the writer accepts: declared buffer length = actual; every bufferView inside the buffer
    and the views pairwise disjoint; every accessor reads an existing view, `count·elemSize` = the view's byte length,
    its data lie inside the buffer, and its declared min/max are the bounds of the stored values it decodes to -/
theorem scene_valid_low (s : Scene) (w : W) (hs : SceneOK s) (h : writeScene s = .ok w) :
    validLow w.doc w.buf = true := validLow_of_inv w (scene_inv s w hs h)

end C06


end PolyVerif
