/-
  C06 — scene level: what `AddScene` / `writeScene` do for an arbitrary well-formed scene.
  Lifts the low-level invariant of Props/C06 through AddTexture / AddMaterial / AddMesh / the model loop / AddLight.
-/
import PolyVerif.Props.C06

namespace PolyVerif
namespace C06
open Gltf

/-- the full scene-level statement of the property (the three predicates the oracles `c06.holds.valid`, `.decode`,
    `.dedup` evaluate on the implementation's output), for every scene the writer accepts.  NOT proved as a whole; see
    the `scene_*` / `gltf_*` theorems below for the proved parts and cfg `residue` for the rest. -/
def C06_scene_full : Prop :=
  ∀ (s : Scene) (w : W), writeScene s = .ok w →
    valid w.doc w.buf = true ∧ carriesScene s w.doc w.buf = true ∧ dedupOK s w.doc = true

/-! ### the four low-level fields -/

/-- `w'` has the same buffer, offset, accessors and views as `w` -/
def LowEq (w' w : W) : Prop :=
  w'.bytesWritten = w.bytesWritten ∧ w'.buf = w.buf ∧ w'.accessors = w.accessors ∧ w'.views = w.views

theorem LowEq.rfl' (w : W) : LowEq w w := ⟨rfl, rfl, rfl, rfl⟩

theorem LowEq.trans' {a b c : W} (h1 : LowEq a b) (h2 : LowEq b c) : LowEq a c :=
  ⟨h1.1.trans h2.1, h1.2.1.trans h2.2.1, h1.2.2.1.trans h2.2.2.1, h1.2.2.2.trans h2.2.2.2⟩

theorem inv_congr {w w' : W} (h : Inv w) (he : LowEq w' w) : Inv w' := by
  obtain ⟨h1, h2, h3, h4⟩ := he
  refine ⟨?_, ?_, ?_, ?_, ?_⟩
  · rw [h1, h2]; exact h.bytes
  · rw [h4, h2]; exact h.tiles
  · rw [h3, h4]; exact h.len
  · intro k hk
    have hk' : k < w.accessors.length := by rw [← h3]; exact hk
    have := h.own k hk'
    simp only [h3]; exact this
  · intro a ha; rw [h2, h4]; rw [h3] at ha; exact h.accs a ha

theorem lowEq_texPrepare (w : W) (t : PTexture) : LowEq (texPrepare w t) w := by
  unfold texPrepare; split <;> exact ⟨rfl, rfl, rfl, rfl⟩

theorem lowEq_texImage (w : W) (u : String) : LowEq (texImage w u).1 w := by
  unfold texImage; split <;> exact ⟨rfl, rfl, rfl, rfl⟩

theorem lowEq_texSampler (w : W) (s : Option Sampler) : LowEq (texSampler w s).1 w := by
  unfold texSampler; split
  · exact ⟨rfl, rfl, rfl, rfl⟩
  · split <;> exact ⟨rfl, rfl, rfl, rfl⟩

theorem lowEq_texFinish (w : W) (id : Nat) (t : PTexture) (i : Nat) (s : Option Nat) : LowEq (texFinish w id t i s).1 w := by
  unfold texFinish; split <;> exact ⟨rfl, rfl, rfl, rfl⟩

theorem lowEq_addTexture (w : W) (id : Nat) (t : PTexture) : LowEq (addTexture w id t).1 w := by
  unfold addTexture
  split
  · exact lowEq_texPrepare w t
  · exact (lowEq_texFinish _ _ _ _ _).trans' ((lowEq_texSampler _ _).trans' ((lowEq_texImage _ _).trans' (lowEq_texPrepare w t)))

theorem lowEq_addTexOpt (th : Nat → Option PTexture) (w : W) (o : Option Nat) (r : W × Option TexInfo)
    (h : addTexOpt th w o = .ok r) : LowEq r.1 w := by
  unfold addTexOpt at h
  split at h
  · injection h with h; subst h; exact LowEq.rfl' w
  · split at h
    · cases h
    · injection h with h; subst h; exact lowEq_addTexture _ _ _

theorem lowEq_addTexList (th : Nat → Option PTexture) (w : W) (l : List (String × Nat)) (r : W × List (String × TexInfo))
    (h : addTexList th w l = .ok r) : LowEq r.1 w := by
  induction l generalizing w r with
  | nil => simp [addTexList] at h; subst h; exact LowEq.rfl' w
  | cons kt l ih =>
    obtain ⟨k, id⟩ := kt
    simp only [addTexList] at h
    split at h
    · cases h
    · split at h
      · cases h
      · rename_i t _ w2 l2 h2
        injection h with h; subst h
        exact (ih _ _ h2).trans' (lowEq_addTexture _ _ _)

theorem lowEq_addMatExts (th : Nat → Option PTexture) (w : W) (l : List PMatExt) (r : W × List GMatExt)
    (h : addMatExts th w l = .ok r) : LowEq r.1 w := by
  induction l generalizing w r with
  | nil => simp [addMatExts] at h; subst h; exact LowEq.rfl' w
  | cons e l ih =>
    simp only [addMatExts] at h
    split at h
    · cases h
    · rename_i w1 tis h1
      split at h
      · cases h
      · rename_i w2 l2 h2
        injection h with h; subst h
        have := ih _ _ h2
        exact this.trans' (LowEq.trans' ⟨rfl, rfl, rfl, rfl⟩ (lowEq_addTexList _ _ _ _ h1))

theorem lowEq_addMaterial (th : Nat → Option PTexture) (w : W) (m : PMaterial) (r : W × Nat)
    (h : addMaterial th w m = .ok r) : LowEq r.1 w := by
  unfold addMaterial at h
  split at h
  · split at h
    · injection h with h; subst h; exact LowEq.rfl' w
    · cases h
  · split at h
    · cases h
    · rename_i r1 h1
      split at h
      · cases h
      · rename_i r2 h2
        split at h
        · cases h
        · rename_i r3 h3
          split at h
          · cases h
          · split at h
            · cases h
            · rename_i r4 h4
              split at h
              · cases h
              · rename_i r5 h5
                injection h with h; subst h
                have e1 := lowEq_addTexOpt _ _ _ _ h1
                have e2 := lowEq_addTexOpt _ _ _ _ h2
                have e3 := lowEq_addMatExts _ _ _ _ h3
                have e4 := lowEq_addTexOpt _ _ _ _ h4
                have e5 := lowEq_addTexOpt _ _ _ _ h5
                exact LowEq.trans' ⟨rfl, rfl, rfl, rfl⟩ (e5.trans' (e4.trans' (e3.trans' (e2.trans' e1))))

/-! ### the mesh path issues only admissible writes -/

theorem attrComp_cases (name : String) : attrComp name = .f32 ∨ attrComp name = .u8 := by
  unfold attrComp; split <;> simp

/-- well-formed mesh: every attribute that is written has admissible data of the common length `attrLen`; every
    index is smaller than that length -/
def MeshWF (m : PMesh) : Prop :=
  (∀ a ∈ m.written, VecsOK (attrComp a.name) a.dim a.vals ∧ a.vals.length = m.attrLen)
  ∧ (∀ i ∈ m.indices, i < m.attrLen) ∧ m.attrLen ≤ 2 ^ 32

/-- admissible GPU instances: ten binary32 values each (position, scale, rotation), none infinite, and no NaN in the
    ROTATION (a FLOAT VEC4: `encoding/json` would refuse the NaN bound); NaN in position / scale is accepted by the writer
    and skipped by its min/max loops -/
def InstWF (inst : List (List Nat)) : Prop :=
  ∀ t ∈ inst, t.length = 10 ∧ (∀ x ∈ t, x < 2 ^ 32 ∧ x ≠ posInf32 ∧ x ≠ negInf32) ∧ ∀ x ∈ t.drop 6, isNaN32 x = false

def SceneOK (s : Scene) : Prop := (∀ m ∈ s.meshHeap, MeshWF m) ∧ (∀ md ∈ s.models, InstWF md.instances)

theorem inv_writeVec (w : W) (hw : Inv w) (c : Comp) (d : Nat) (v : List (List Nat)) (hc : c = .f32 ∨ c = .u8)
    (hv : VecsOK c d v) : Inv (writeVec w c d v) := inv_step w (.vec c d v) hw ⟨hc, hv⟩

theorem inv_writeIndices (w : W) (hw : Inv w) (idx : List Nat) (n : Nat) (h : (∀ i ∈ idx, i < n) ∧ n ≤ 2 ^ 32) :
    Inv (writeIndices w idx n) := inv_step w (.idx idx n) hw h

theorem inv_writeAttrs (w : W) (acc : List (String × Nat)) (l : List Attr) (hw : Inv w)
    (hl : ∀ a ∈ l, VecsOK (attrComp a.name) a.dim a.vals) : Inv (writeAttrs w acc l).1 := by
  induction l generalizing w acc with
  | nil => exact hw
  | cons a r ih =>
    simp only [writeAttrs]
    exact ih _ _ (inv_writeVec w hw _ _ _ (attrComp_cases a.name) (hl a (by simp))) (fun x hx => hl x (by simp [hx]))

theorem inv_writeMeshData (w : W) (id : Nat) (m : PMesh) (hw : Inv w) (hm : MeshWF m) : Inv (writeMeshData w id m).1 := by
  have h1 := inv_writeAttrs w [] m.written hw (fun a ha => (hm.1 a ha).1)
  have h2 := inv_writeIndices _ h1 m.indices m.attrLen hm.2
  exact inv_congr h2 ⟨rfl, rfl, rfl, rfl⟩

theorem inv_addMesh (w : W) (name : String) (id : Nat) (m : PMesh) (mat : Option Nat) (hw : Inv w) (hm : MeshWF m) :
    Inv (addMesh w name id m mat).1 := by
  unfold addMesh
  split
  · exact hw
  · split
    · exact hw
    · have h0 : Inv { w with meshIdx := mapInsert w.meshIdx (id, mat) w.meshes.length } := inv_congr hw ⟨rfl, rfl, rfl, rfl⟩
      simp only [meshDataFor]
      split
      · exact inv_congr h0 ⟨rfl, rfl, rfl, rfl⟩
      · exact inv_congr (inv_writeMeshData _ id m h0 hm) ⟨rfl, rfl, rfl, rfl⟩

theorem vecsOK_inst (inst : List (List Nat)) (h : InstWF inst) (f : List Nat → List Nat) (d : Nat)
    (hf : ∀ t, t.length = 10 → (f t).length = d ∧ ∀ x ∈ f t, x ∈ t)
    (hn : d = 4 → ∀ t, ∀ x ∈ f t, x ∈ t.drop 6) : VecsOK .f32 d (inst.map f) := by
  intro v hv
  obtain ⟨t, ht, rfl⟩ := List.mem_map.mp hv
  obtain ⟨hlen, hx, hnan⟩ := h t ht
  refine ⟨(hf t hlen).1, ?_⟩
  intro x hxv
  obtain ⟨h1, h2, h3⟩ := hx x ((hf t hlen).2 x hxv)
  refine ⟨by simpa [Comp.size] using h1, ?_, ?_⟩
  · rintro ⟨_, h | h⟩ <;> contradiction
  · rintro ⟨_, hd, h⟩; rw [hnan x (hn hd t x hxv)] at h; cases h

theorem inv_addInstances (w : W) (inst : List (List Nat)) (hw : Inv w) (hi : InstWF inst) : Inv (addInstances w inst).1 := by
  unfold addInstances
  split
  · exact hw
  · simp only
    have h0 : Inv { w with extUsed := setInsert w.extUsed "EXT_mesh_gpu_instancing" } := inv_congr hw ⟨rfl, rfl, rfl, rfl⟩
    have h1 := inv_writeVec _ h0 .f32 3 (inst.map (fun t => t.take 3)) (Or.inl rfl)
      (vecsOK_inst inst hi _ 3 (fun t ht => ⟨by simp [ht], fun x hx => List.mem_of_mem_take hx⟩) (fun h => by cases h))
    have h2 := inv_writeVec _ h1 .f32 3 (inst.map (fun t => (t.drop 3).take 3)) (Or.inl rfl)
      (vecsOK_inst inst hi _ 3 (fun t ht => ⟨by simp [ht], fun x hx => List.mem_of_mem_drop (List.mem_of_mem_take hx)⟩) (fun h => by cases h))
    exact inv_writeVec _ h2 .f32 4 (inst.map (fun t => (t.drop 6).take 4)) (Or.inl rfl)
      (vecsOK_inst inst hi _ 4 (fun t ht => ⟨by simp [ht], fun x hx => List.mem_of_mem_drop (List.mem_of_mem_take hx)⟩)
        (fun _ t x hx => List.mem_of_mem_take hx))

theorem lowEq_addModelMaterial (s : Scene) (w : W) (md : Model) (r : W × Option Nat)
    (h : addModelMaterial s w md = .ok r) : LowEq r.1 w := by
  unfold addModelMaterial at h
  split at h
  · injection h with h; subst h; exact LowEq.rfl' w
  · split at h
    · cases h
    · split at h
      · cases h
      · rename_i r' h'
        injection h with h; subst h
        exact lowEq_addMaterial _ _ _ _ h'

theorem gate_ok (s : Scene) (w : W) (md : Model) (m : PMesh) (r : W × Option Nat) (h : addModelGate s w md m = .ok r) :
    dupFree (m.written.map (fun a => gltfAttrName a.name)) = true ∧ addModelMaterial s w md = .ok r := by
  unfold addModelGate at h
  split at h
  · rename_i hd; exact ⟨hd, h⟩
  · cases h

theorem skipped_false {m : PMesh} (h : ¬ meshSkipped m = true) : m.primitiveCount ≠ 0 ∧ m.written ≠ [] := by
  unfold meshSkipped at h
  simp only [Bool.or_eq_true, beq_iff_eq, List.isEmpty_iff, not_or] at h
  exact h

theorem inv_addModel (s : Scene) (w w' : W) (md : Model) (hs : SceneOK s) (hmd : md ∈ s.models) (hw : Inv w)
    (h : addModel s w md = .ok w') : Inv w' := by
  unfold addModel at h
  split at h
  · cases h
  · split at h
    · cases h
    · rename_i _ id _ _ m hm
      have hwf : MeshWF m := hs.1 m (List.mem_of_getElem? hm)
      split at h
      · injection h with h; subst h; exact hw
      · split at h
        · cases h
        · rename_i r hr
          have hgate := gate_ok s w md _ r hr
          have hr := hgate.2
          have h1 : Inv r.1 := inv_congr hw (lowEq_addModelMaterial s w md r hr)
          have h2 := inv_addMesh r.1 md.name id m r.2 h1 hwf
          simp only at h
          split at h
          · injection h with h; subst h; exact h2
          · injection h with h; subst h
            exact inv_congr (inv_addInstances _ md.instances h2 (hs.2 md hmd)) ⟨rfl, rfl, rfl, rfl⟩

theorem inv_addModels (s : Scene) (w w' : W) (l : List Model) (hs : SceneOK s) (hl : ∀ md ∈ l, md ∈ s.models) (hw : Inv w)
    (h : addModels s w l = .ok w') : Inv w' := by
  induction l generalizing w with
  | nil => simp [addModels] at h; subst h; exact hw
  | cons md r ih =>
    simp only [addModels] at h
    split at h
    · cases h
    · rename_i w1 h1
      exact ih w1 (fun x hx => hl x (by simp [hx])) (inv_addModel s w w1 md hs (hl md (by simp)) hw h1) h

theorem inv_addLights (w : W) (l : List (List Nat)) (hw : Inv w) : Inv (l.foldl addLight w) := by
  induction l generalizing w with
  | nil => exact hw
  | cons p r ih => exact ih _ (inv_congr hw ⟨rfl, rfl, rfl, rfl⟩)

/-- REFINEMENT: for every well-formed scene, `AddScene` (materials, textures, mesh dedup, instancing, lights included)
    only ever issues admissible low-level writes, so the writer invariant of Props/C06 holds of the state it reaches -/
theorem scene_inv (s : Scene) (w : W) (hs : SceneOK s) (h : writeScene s = .ok w) : Inv w := by
  unfold writeScene at h
  split at h
  · cases h
  · rename_i w1 h1
    split at h
    · injection h with h; subst h
      unfold addScene at h1
      split at h1
      · cases h1
      · rename_i w0 h0
        injection h1 with h1; subst h1
        exact inv_addLights _ _ (inv_addModels s {} w0 s.models hs (fun _ h => h) inv_empty h0)
    · cases h

/-- the buffer / bufferView / accessor part of `valid` -/
def validLow (d : Doc) (buf : List UInt8) : Bool :=
  (match d.bufLen with
   | some n => n == buf.length && n > 0
   | none => buf.length == 0)
  && d.views.all (viewInside buf.length)
  && pairwiseB viewDisj d.views
  && d.accessors.all (accOK buf d.views)

theorem validLow_of_inv (w : W) (hi : Inv w) : validLow w.doc w.buf = true := by
  unfold validLow
  simp only [Bool.and_eq_true, List.all_eq_true]
  refine ⟨⟨⟨?_, ?_⟩, tiles_disjoint hi.tiles⟩, hi.accs⟩
  · simp only [W.doc, hi.bytes]
    split
    · rename_i n hn
      split at hn
      · injection hn with hn; subst hn; simp; omega
      · cases hn
    · rename_i hn
      split at hn
      · cases hn
      · rename_i h0; simp at h0 ⊢; omega
  · intro v hv
    have := tiles_inside hi.tiles v hv
    simp [W.doc] at hv ⊢
    simp [viewInside]; omega

/-- for EVERY well-formed scene the writer accepts: declared buffer length = actual; every bufferView inside the buffer
    and the views pairwise disjoint; every accessor reads an existing view, `count·elemSize` = the view's byte length,
    its data lie inside the buffer, and its declared min/max are the bounds of the stored values it decodes to -/
theorem scene_valid_low (s : Scene) (w : W) (hs : SceneOK s) (h : writeScene s = .ok w) :
    validLow w.doc w.buf = true := validLow_of_inv w (scene_inv s w hs h)

/-! ### index references stay in range (`gltf_refs_in_range`) -/

/-- what the texture path (AddTexture and its callers up to, not including, the material append) leaves untouched -/
def KeepM (w' w : W) : Prop :=
  w'.matIdx = w.matIdx ∧ w'.materials = w.materials ∧ w'.meshes = w.meshes ∧ w'.written = w.written
  ∧ w'.meshIdx = w.meshIdx ∧ w'.nodes = w.nodes ∧ w'.scene = w.scene ∧ w'.accessors = w.accessors ∧ w'.lights = w.lights

theorem KeepM.rfl' (w : W) : KeepM w w := ⟨rfl, rfl, rfl, rfl, rfl, rfl, rfl, rfl, rfl⟩

theorem KeepM.trans' {a b c : W} (h1 : KeepM a b) (h2 : KeepM b c) : KeepM a c := by
  obtain ⟨a1, a2, a3, a4, a5, a6, a7, a8, a9⟩ := h1
  obtain ⟨b1, b2, b3, b4, b5, b6, b7, b8, b9⟩ := h2
  exact ⟨a1.trans b1, a2.trans b2, a3.trans b3, a4.trans b4, a5.trans b5, a6.trans b6, a7.trans b7, a8.trans b8, a9.trans b9⟩

theorem keepM_texPrepare (w : W) (t : PTexture) : KeepM (texPrepare w t) w := by
  unfold texPrepare; split <;> exact ⟨rfl, rfl, rfl, rfl, rfl, rfl, rfl, rfl, rfl⟩

theorem keepM_texImage (w : W) (u : String) : KeepM (texImage w u).1 w := by
  unfold texImage; split <;> exact ⟨rfl, rfl, rfl, rfl, rfl, rfl, rfl, rfl, rfl⟩

theorem keepM_texSampler (w : W) (s : Option Sampler) : KeepM (texSampler w s).1 w := by
  unfold texSampler; split
  · exact ⟨rfl, rfl, rfl, rfl, rfl, rfl, rfl, rfl, rfl⟩
  · split <;> exact ⟨rfl, rfl, rfl, rfl, rfl, rfl, rfl, rfl, rfl⟩

theorem keepM_texFinish (w : W) (id : Nat) (t : PTexture) (i : Nat) (s : Option Nat) : KeepM (texFinish w id t i s).1 w := by
  unfold texFinish; split <;> exact ⟨rfl, rfl, rfl, rfl, rfl, rfl, rfl, rfl, rfl⟩

theorem keepM_addTexture (w : W) (id : Nat) (t : PTexture) : KeepM (addTexture w id t).1 w := by
  unfold addTexture
  split
  · exact keepM_texPrepare w t
  · exact (keepM_texFinish _ _ _ _ _).trans' ((keepM_texSampler _ _).trans' ((keepM_texImage _ _).trans' (keepM_texPrepare w t)))

theorem keepM_addTexOpt (th : Nat → Option PTexture) (w : W) (o : Option Nat) (r : W × Option TexInfo)
    (h : addTexOpt th w o = .ok r) : KeepM r.1 w := by
  unfold addTexOpt at h
  split at h
  · injection h with h; subst h; exact KeepM.rfl' w
  · split at h
    · cases h
    · injection h with h; subst h; exact keepM_addTexture _ _ _

theorem keepM_addTexList (th : Nat → Option PTexture) (w : W) (l : List (String × Nat)) (r : W × List (String × TexInfo))
    (h : addTexList th w l = .ok r) : KeepM r.1 w := by
  induction l generalizing w r with
  | nil => simp [addTexList] at h; subst h; exact KeepM.rfl' w
  | cons kt l ih =>
    obtain ⟨k, id⟩ := kt
    simp only [addTexList] at h
    split at h
    · cases h
    · split at h
      · cases h
      · rename_i t _ w2 l2 h2
        injection h with h; subst h
        exact (ih _ _ h2).trans' (keepM_addTexture _ _ _)

theorem keepM_addMatExts (th : Nat → Option PTexture) (w : W) (l : List PMatExt) (r : W × List GMatExt)
    (h : addMatExts th w l = .ok r) : KeepM r.1 w := by
  induction l generalizing w r with
  | nil => simp [addMatExts] at h; subst h; exact KeepM.rfl' w
  | cons e l ih =>
    simp only [addMatExts] at h
    split at h
    · cases h
    · rename_i w1 tis h1
      split at h
      · cases h
      · rename_i w2 l2 h2
        injection h with h; subst h
        have := ih _ _ h2
        exact this.trans' (KeepM.trans' ⟨rfl, rfl, rfl, rfl, rfl, rfl, rfl, rfl, rfl⟩ (keepM_addTexList _ _ _ _ h1))


def PrimRefs (na nm : Nat) (p : Prim) : Prop :=
  (∀ ka ∈ p.attrs, ka.2 < na) ∧ (∀ i, p.indices = some i → i < na) ∧ (∀ m, p.material = some m → m < nm)

def NodeRefs (na nmesh nl : Nat) (n : GNode) : Prop :=
  (∀ m, n.mesh = some m → m < nmesh) ∧ (∀ ia, n.inst = some ia → ∀ ka ∈ ia, ka.2 < na) ∧ (∀ l, n.light = some l → l < nl)

/-- every stored index is smaller than the current length of the table it points into -/
structure MRefs (b : Nat) (w : W) : Prop where
  matIdx : ∀ p ∈ w.matIdx, p.2 < w.materials.length
  meshes : ∀ gm ∈ w.meshes, ∀ p ∈ gm.prims, PrimRefs w.accessors.length w.materials.length p
  written : ∀ e ∈ w.written, (∀ ka ∈ e.2.1, ka.2 < w.accessors.length) ∧ e.2.2 < w.accessors.length
  meshIdx : ∀ p ∈ w.meshIdx, p.2 < w.meshes.length + b     -- `b = 1` only inside AddMesh, between registering and appending
  nodes : ∀ n ∈ w.nodes, NodeRefs w.accessors.length w.meshes.length w.lights n
  scene : ∀ n ∈ w.scene, n < w.nodes.length

/-- tables only grow: the same lists of meshes / nodes / … are still fine when accessors, materials, lights grew -/
theorem mrefs_mono {b : Nat} {w w' : W} (h : MRefs b w) (e1 : w'.matIdx = w.matIdx) (e2 : w'.meshes = w.meshes) (e3 : w'.written = w.written)
    (e4 : w'.meshIdx = w.meshIdx) (e5 : w'.nodes = w.nodes) (e6 : w'.scene = w.scene)
    (l1 : w.accessors.length ≤ w'.accessors.length) (l2 : w.materials.length ≤ w'.materials.length) (l3 : w.lights ≤ w'.lights) :
    MRefs b w' := by
  refine ⟨?_, ?_, ?_, ?_, ?_, ?_⟩
  · intro p hp; rw [e1] at hp; have := h.matIdx p hp; omega
  · intro gm hgm p hp; rw [e2] at hgm
    obtain ⟨a, b, c⟩ := h.meshes gm hgm p hp
    exact ⟨fun ka hka => by have := a ka hka; omega, fun i hi => by have := b i hi; omega, fun m hm => by have := c m hm; omega⟩
  · intro e he; rw [e3] at he
    obtain ⟨a, b⟩ := h.written e he
    exact ⟨fun ka hka => by have := a ka hka; omega, by omega⟩
  · intro p hp; rw [e4] at hp; rw [e2]; exact h.meshIdx p hp
  · intro n hn; rw [e5] at hn
    obtain ⟨a, b, c⟩ := h.nodes n hn
    exact ⟨fun m hm => by have := a m hm; rw [e2]; exact this, fun ia hia ka hka => by have := b ia hia ka hka; omega,
      fun l hl => by have := c l hl; omega⟩
  · intro n hn; rw [e6] at hn; rw [e5]; exact h.scene n hn

theorem mrefs_keep {b : Nat} {w w' : W} (h : MRefs b w) (k : KeepM w' w) : MRefs b w' := by
  obtain ⟨k1, k2, k3, k4, k5, k6, k7, k8, k9⟩ := k
  exact mrefs_mono h k1 k3 k4 k5 k6 k7 (by rw [k8]; exact Nat.le_refl _) (by rw [k2]; exact Nat.le_refl _) (by rw [k9]; exact Nat.le_refl _)

/-- `AddMaterial` returns an index into the (possibly extended) material list and keeps every table in range -/
theorem addMaterial_refs (th : Nat → Option PTexture) (w : W) (m : PMaterial) (r : W × Nat)
    (h : addMaterial th w m = .ok r) (hw : MRefs 0 w) : MRefs 0 r.1 ∧ r.2 < r.1.materials.length := by
  unfold addMaterial at h
  split at h
  · split at h
    · rename_i e he
      injection h with h; subst h
      exact ⟨hw, hw.matIdx e (List.mem_of_getElem? he)⟩
    · cases h
  · split at h
    · cases h
    · rename_i r1 h1
      split at h
      · cases h
      · rename_i r2 h2
        split at h
        · cases h
        · rename_i r3 h3
          split at h
          · cases h
          · split at h
            · cases h
            · rename_i r4 h4
              split at h
              · cases h
              · rename_i r5 h5
                injection h with h; subst h
                have k : KeepM r5.1 w := (keepM_addTexOpt _ _ _ _ h5).trans' ((keepM_addTexOpt _ _ _ _ h4).trans'
                  ((keepM_addMatExts _ _ _ _ h3).trans' ((keepM_addTexOpt _ _ _ _ h2).trans' (keepM_addTexOpt _ _ _ _ h1))))
                have h5' := mrefs_keep hw k
                refine ⟨?_, by simp⟩
                refine ⟨?_, ?_, ?_, ?_, ?_, ?_⟩
                · intro p hp
                  simp only [List.mem_append, List.mem_singleton] at hp
                  rcases hp with hp | rfl
                  · have := h5'.matIdx p hp; simp; omega
                  · simp
                · intro gm hgm p hp
                  obtain ⟨a, b, c⟩ := h5'.meshes gm hgm p hp
                  exact ⟨a, b, fun m hm => by have := c m hm; simp; omega⟩
                · exact h5'.written
                · exact h5'.meshIdx
                · exact h5'.nodes
                · exact h5'.scene

theorem mem_mapInsert {α β} [DecidableEq α] (m : List (α × β)) (k : α) (v : β) (x : α × β)
    (h : x ∈ mapInsert m k v) : x ∈ m ∨ x = (k, v) := by
  unfold mapInsert at h
  simp only [List.mem_append, List.mem_filter, List.mem_singleton] at h
  rcases h with h | h
  · exact Or.inl h.1
  · exact Or.inr h

theorem lookup_mem {α β} [DecidableEq α] (k : α) (l : List (α × β)) (v : β) (h : lookup k l = some v) : (k, v) ∈ l := by
  induction l with
  | nil => simp [lookup] at h
  | cons p r ih =>
    obtain ⟨a, b⟩ := p
    simp only [lookup] at h
    split at h
    · rename_i hab; injection h with h; subst h; subst hab; simp
    · simp [ih h]

/-- what the low-level writes leave untouched -/
def KeepA (w' w : W) : Prop :=
  w'.matIdx = w.matIdx ∧ w'.meshes = w.meshes ∧ w'.written = w.written ∧ w'.meshIdx = w.meshIdx ∧ w'.nodes = w.nodes
  ∧ w'.scene = w.scene ∧ w'.materials = w.materials ∧ w'.lights = w.lights ∧ w.accessors.length ≤ w'.accessors.length

theorem KeepA.trans' {a b c : W} (h1 : KeepA a b) (h2 : KeepA b c) : KeepA a c := by
  obtain ⟨a1, a2, a3, a4, a5, a6, a7, a8, a9⟩ := h1
  obtain ⟨b1, b2, b3, b4, b5, b6, b7, b8, b9⟩ := h2
  exact ⟨a1.trans b1, a2.trans b2, a3.trans b3, a4.trans b4, a5.trans b5, a6.trans b6, a7.trans b7, a8.trans b8, Nat.le_trans b9 a9⟩

theorem mrefs_keepA {b : Nat} {w w' : W} (h : MRefs b w) (k : KeepA w' w) : MRefs b w' := by
  obtain ⟨k1, k2, k3, k4, k5, k6, k7, k8, k9⟩ := k
  exact mrefs_mono h k1 k2 k3 k4 k5 k6 k9 (by rw [k7]; exact Nat.le_refl _) (by rw [k8]; exact Nat.le_refl _)

theorem keepA_writeVec (w : W) (c : Comp) (d : Nat) (v : List (List Nat)) : KeepA (writeVec w c d v) w :=
  ⟨rfl, rfl, rfl, rfl, rfl, rfl, rfl, rfl, by simp [writeVec]⟩

theorem keepA_writeIndices (w : W) (i : List Nat) (n : Nat) : KeepA (writeIndices w i n) w :=
  ⟨rfl, rfl, rfl, rfl, rfl, rfl, rfl, rfl, by simp [writeIndices]⟩

theorem writeAttrs_refs (w : W) (acc : List (String × Nat)) (l : List Attr) (hacc : ∀ ka ∈ acc, ka.2 < w.accessors.length) :
    KeepA (writeAttrs w acc l).1 w ∧ ∀ ka ∈ (writeAttrs w acc l).2, ka.2 < (writeAttrs w acc l).1.accessors.length := by
  induction l generalizing w acc with
  | nil => exact ⟨⟨rfl, rfl, rfl, rfl, rfl, rfl, rfl, rfl, Nat.le_refl _⟩, hacc⟩
  | cons a r ih =>
    simp only [writeAttrs]
    have hacc' : ∀ ka ∈ mapInsert acc (gltfAttrName a.name) w.accessors.length,
        ka.2 < (writeVec w (attrComp a.name) a.dim a.vals).accessors.length := by
      intro ka hka
      have hl : (writeVec w (attrComp a.name) a.dim a.vals).accessors.length = w.accessors.length + 1 := by simp [writeVec]
      rcases mem_mapInsert _ _ _ _ hka with h | h
      · have := hacc ka h; omega
      · subst h; simp [hl]
    obtain ⟨k, hk⟩ := ih _ _ hacc'
    exact ⟨k.trans' (keepA_writeVec _ _ _ _), hk⟩

theorem writeMeshData_refs {b : Nat} (w : W) (id : Nat) (m : PMesh) (hw : MRefs b w) :
    MRefs b (writeMeshData w id m).1
    ∧ (∀ ka ∈ (writeMeshData w id m).2.1, ka.2 < (writeMeshData w id m).1.accessors.length)
    ∧ (writeMeshData w id m).2.2 < (writeMeshData w id m).1.accessors.length
    ∧ (writeMeshData w id m).1.meshes = w.meshes ∧ (writeMeshData w id m).1.materials = w.materials := by
  obtain ⟨k, hk⟩ := writeAttrs_refs w [] m.written (by simp)
  have k2 := (keepA_writeIndices (writeAttrs w [] m.written).1 m.indices m.attrLen).trans' k
  have h2 := mrefs_keepA hw k2
  have hlen : (writeIndices (writeAttrs w [] m.written).1 m.indices m.attrLen).accessors.length
      = (writeAttrs w [] m.written).1.accessors.length + 1 := by simp [writeIndices]
  refine ⟨⟨h2.matIdx, h2.meshes, ?_, h2.meshIdx, h2.nodes, h2.scene⟩, ?_, ?_, k2.2.1, k2.2.2.2.2.2.2.1⟩
  · intro e he
    rcases mem_mapInsert _ _ _ _ he with h | h
    · exact h2.written e h
    · subst h
      refine ⟨fun ka hka => ?_, ?_⟩
      · have := hk ka hka
        show ka.2 < (writeIndices (writeAttrs w [] m.written).1 m.indices m.attrLen).accessors.length
        omega
      · show (writeAttrs w [] m.written).1.accessors.length < (writeIndices (writeAttrs w [] m.written).1 m.indices m.attrLen).accessors.length
        omega
  · intro ka hka
    have := hk ka hka
    show ka.2 < (writeIndices (writeAttrs w [] m.written).1 m.indices m.attrLen).accessors.length
    omega
  · show (writeAttrs w [] m.written).1.accessors.length < (writeIndices (writeAttrs w [] m.written).1 m.indices m.attrLen).accessors.length
    omega

theorem mrefs_appendMesh (w : W) (h : MRefs 1 w) (name : String) (p : Prim)
    (hp : PrimRefs w.accessors.length w.materials.length p) :
    MRefs 0 { w with meshes := w.meshes ++ [{ name := name, prims := [p] }] } := by
  refine ⟨h.matIdx, ?_, h.written, ?_, ?_, h.scene⟩
  · intro gm hgm q hq
    simp only [List.mem_append, List.mem_singleton] at hgm
    rcases hgm with hgm | rfl
    · exact h.meshes gm hgm q hq
    · simp only [List.mem_singleton] at hq; subst hq; exact hp
  · intro q hq
    have := h.meshIdx q hq
    simp only [List.length_append, List.length_singleton]; omega
  · intro n hn
    obtain ⟨a, b, c⟩ := h.nodes n hn
    refine ⟨fun m hm => ?_, b, c⟩
    have := a m hm
    simp only [List.length_append, List.length_singleton]; omega

/-- `AddMesh`: every table stays in range and the returned mesh index is valid -/
theorem addMesh_refs (w : W) (name : String) (id : Nat) (m : PMesh) (mat : Option Nat) (hw : MRefs 0 w)
    (hmat : ∀ k, mat = some k → k < w.materials.length) :
    MRefs 0 (addMesh w name id m mat).1
    ∧ ∀ mi, (addMesh w name id m mat).2 = some mi → mi < (addMesh w name id m mat).1.meshes.length := by
  unfold addMesh
  split
  · exact ⟨hw, by simp⟩
  · split
    · rename_i i hi
      refine ⟨hw, fun mi h => ?_⟩
      injection h with h; subst h
      have := hw.meshIdx _ (lookup_mem _ _ _ hi)
      simpa using this
    · have h0 : MRefs 1 { w with meshIdx := mapInsert w.meshIdx (id, mat) w.meshes.length } := by
        refine ⟨hw.matIdx, hw.meshes, hw.written, ?_, hw.nodes, hw.scene⟩
        intro p hp
        rcases mem_mapInsert _ _ _ _ hp with h | h
        · have := hw.meshIdx p h; simp at this ⊢; omega
        · subst h; simp
      simp only [meshDataFor]
      split
      · rename_i attrs idx hl
        obtain ⟨ha, hi⟩ := h0.written _ (lookup_mem _ _ _ hl)
        exact ⟨mrefs_appendMesh _ h0 name _ ⟨ha, fun i h => by injection h with h; subst h; exact hi, hmat⟩, fun mi h => by
          injection h with h; subst h; simp⟩
      · obtain ⟨h1, ha, hi, hme, hma⟩ := writeMeshData_refs _ id m h0
        refine ⟨mrefs_appendMesh _ h1 name _ ⟨ha, fun i h => by injection h with h; subst h; exact hi, ?_⟩, fun mi h => by
          injection h with h; subst h; simp [hme]⟩
        intro k hk
        rw [hma]; exact hmat k hk

theorem addInstances_refs (w : W) (inst : List (List Nat)) :
    KeepA (addInstances w inst).1 w
    ∧ ∀ ia, (addInstances w inst).2 = some ia → ∀ ka ∈ ia, ka.2 < (addInstances w inst).1.accessors.length := by
  unfold addInstances
  split
  · exact ⟨⟨rfl, rfl, rfl, rfl, rfl, rfl, rfl, rfl, Nat.le_refl _⟩, by simp⟩
  · simp only
    refine ⟨?_, ?_⟩
    · exact (keepA_writeVec _ _ _ _).trans' ((keepA_writeVec _ _ _ _).trans' ((keepA_writeVec _ _ _ _).trans'
        ⟨rfl, rfl, rfl, rfl, rfl, rfl, rfl, rfl, Nat.le_refl _⟩))
    · intro ia hia ka hka
      injection hia with hia; subst hia
      rcases mem_mapInsert _ _ _ _ hka with h | h
      · rcases mem_mapInsert _ _ _ _ h with h | h
        · rcases mem_mapInsert _ _ _ _ h with h | h
          · cases h
          · subst h; simp [writeVec]
        · subst h; simp [writeVec]
      · subst h; simp [writeVec]

theorem addModelMaterial_refs (s : Scene) (w : W) (md : Model) (r : W × Option Nat)
    (h : addModelMaterial s w md = .ok r) (hw : MRefs 0 w) : MRefs 0 r.1 ∧ ∀ k, r.2 = some k → k < r.1.materials.length := by
  unfold addModelMaterial at h
  split at h
  · injection h with h; subst h; exact ⟨hw, by simp⟩
  · split at h
    · cases h
    · split at h
      · cases h
      · rename_i r' h'
        injection h with h; subst h
        obtain ⟨h1, h2⟩ := addMaterial_refs _ _ _ _ h' hw
        exact ⟨h1, fun k hk => by injection hk with hk; subst hk; exact h2⟩

theorem addModel_refs (s : Scene) (w w' : W) (md : Model) (hw : MRefs 0 w) (h : addModel s w md = .ok w') : MRefs 0 w' := by
  unfold addModel at h
  split at h
  · cases h
  · split at h
    · cases h
    · rename_i _ id _ _ m hm
      split at h
      · injection h with h; subst h; exact hw
      · split at h
        · cases h
        · rename_i r hr
          have hgate := gate_ok s w md _ r hr
          have hr := hgate.2
          obtain ⟨h1, hmat⟩ := addModelMaterial_refs s w md r hr hw
          obtain ⟨h2, hmi⟩ := addMesh_refs r.1 md.name id m r.2 h1 hmat
          simp only at h
          split at h
          · injection h with h; subst h; exact h2
          · rename_i meshIndex hidx
            injection h with h; subst h
            obtain ⟨k, hinst⟩ := addInstances_refs (addMesh r.1 md.name id m r.2).1 md.instances
            have h3 := mrefs_keepA h2 k
            have hmesh := hmi meshIndex hidx
            refine ⟨h3.matIdx, h3.meshes, h3.written, h3.meshIdx, ?_, ?_⟩
            · intro n hn
              simp only [List.mem_append, List.mem_singleton] at hn
              rcases hn with hn | rfl
              · exact h3.nodes n hn
              · refine ⟨fun mm hmm => ?_, fun ia hia => hinst ia hia, fun l hl => by simp [modelNode] at hl⟩
                simp only [modelNode] at hmm
                injection hmm with hmm; subst hmm
                rw [k.2.1]; exact hmesh
            · intro n hn
              simp only [List.mem_append, List.mem_singleton] at hn
              simp only [List.length_append, List.length_singleton]
              rcases hn with hn | rfl
              · have := h3.scene n hn; omega
              · rw [k.2.2.2.2.1]; omega

theorem addModels_refs (s : Scene) (w w' : W) (l : List Model) (hw : MRefs 0 w) (h : addModels s w l = .ok w') : MRefs 0 w' := by
  induction l generalizing w with
  | nil => simp [addModels] at h; subst h; exact hw
  | cons md r ih =>
    simp only [addModels] at h
    split at h
    · cases h
    · rename_i w1 h1
      exact ih w1 (addModel_refs s w w1 md hw h1) h

theorem addLight_refs (w : W) (p : List Nat) (hw : MRefs 0 w) : MRefs 0 (addLight w p) := by
  refine ⟨hw.matIdx, hw.meshes, hw.written, hw.meshIdx, ?_, ?_⟩
  · intro n hn
    simp only [addLight, List.mem_append, List.mem_singleton] at hn
    rcases hn with hn | rfl
    · obtain ⟨a, b, c⟩ := hw.nodes n hn
      exact ⟨a, b, fun l hl => by have := c l hl; simp only [addLight]; omega⟩
    · exact ⟨by simp, by simp, fun l hl => by injection hl with hl; subst hl; simp [addLight]⟩
  · intro n hn
    simp only [addLight, List.mem_append, List.mem_singleton] at hn
    simp only [addLight, List.length_append, List.length_singleton]
    rcases hn with hn | rfl
    · have := hw.scene n hn; omega
    · omega

theorem addLights_refs (w : W) (l : List (List Nat)) (hw : MRefs 0 w) : MRefs 0 (l.foldl addLight w) := by
  induction l generalizing w with
  | nil => exact hw
  | cons p r ih => exact ih _ (addLight_refs w p hw)

/-- INDEX REFERENCES, for every scene the writer accepts (no well-formedness needed): every primitive's attribute and
    index accessor and its material exist; every node's mesh, instancing accessors and light exist; the scene lists
    existing nodes; the dedup tables (material tracker, mesh table, written-mesh table) only hold valid indices.
    (accessor → bufferView is `scene_valid_low`; material → texture → image / sampler: see residue.) -/
theorem gltf_refs_in_range_partial (s : Scene) (w : W) (h : writeScene s = .ok w) : MRefs 0 w := by
  unfold writeScene at h
  split at h
  · cases h
  · rename_i w1 h1
    split at h
    · injection h with h; subst h
      unfold addScene at h1
      split at h1
      · cases h1
      · rename_i w0 h0
        injection h1 with h1; subst h1
        exact addLights_refs _ _ (addModels_refs s {} w0 s.models
          ⟨by simp, by simp, by simp, by simp, by simp, by simp⟩ h0)
    · cases h

/-! ### node transforms -/

theorem addMesh_nodes (w : W) (name : String) (id : Nat) (m : PMesh) (mat : Option Nat) :
    (addMesh w name id m mat).1.nodes = w.nodes := by
  unfold addMesh
  split
  · rfl
  · split
    · rfl
    · simp only [meshDataFor]
      split
      · rfl
      · obtain ⟨k, _⟩ := writeAttrs_refs { w with meshIdx := mapInsert w.meshIdx (id, mat) w.meshes.length } [] m.written (by simp)
        exact k.2.2.2.2.1

/-- NODE TRS: one iteration of the model loop either adds no node (empty mesh) or appends exactly one node whose name,
    translation, rotation and scale are the model's own values, bit for bit, and lists it in the scene -/
theorem gltf_node_trs (s : Scene) (w w' : W) (md : Model) (h : addModel s w md = .ok w') :
    w'.nodes = w.nodes
    ∨ ∃ mi inst, w'.nodes = w.nodes ++ [{ name := md.name, mesh := some mi, translation := md.translation,
                                          rotation := md.rotation, scale := md.scale, inst := inst }] := by
  unfold addModel at h
  split at h
  · cases h
  · split at h
    · cases h
    · rename_i _ id _ _ m hm
      split at h
      · injection h with h; subst h; exact Or.inl rfl
      · split at h
        · cases h
        · rename_i r hr
          have hgate := gate_ok s w md _ r hr
          have hr := hgate.2
          have e1 : r.1.nodes = w.nodes := by
            unfold addModelMaterial at hr
            split at hr
            · injection hr with hr; subst hr; rfl
            · split at hr
              · cases hr
              · split at hr
                · cases hr
                · rename_i r' h'
                  injection hr with hr; subst hr
                  unfold addMaterial at h'
                  split at h'
                  · split at h'
                    · injection h' with h'; subst h'; rfl
                    · cases h'
                  · split at h'
                    · cases h'
                    · rename_i r1 h1
                      split at h'
                      · cases h'
                      · rename_i r2 h2
                        split at h'
                        · cases h'
                        · rename_i r3 h3
                          split at h'
                          · cases h'
                          · split at h'
                            · cases h'
                            · rename_i r4 h4
                              split at h'
                              · cases h'
                              · rename_i r5 h5
                                injection h' with h'; subst h'
                                exact ((keepM_addTexOpt _ _ _ _ h5).trans' ((keepM_addTexOpt _ _ _ _ h4).trans'
                                  ((keepM_addMatExts _ _ _ _ h3).trans' ((keepM_addTexOpt _ _ _ _ h2).trans'
                                  (keepM_addTexOpt _ _ _ _ h1))))).2.2.2.2.2.1
          have e2 := addMesh_nodes r.1 md.name id m r.2
          simp only at h
          split at h
          · injection h with h; subst h; exact Or.inl (e2.trans e1)
          · rename_i meshIndex hidx
            injection h with h; subst h
            obtain ⟨k, _⟩ := addInstances_refs (addMesh r.1 md.name id m r.2).1 md.instances
            refine Or.inr ⟨meshIndex, (addInstances (addMesh r.1 md.name id m r.2).1 md.instances).2, ?_⟩
            simp only [modelNode]
            rw [k.2.2.2.2.1, e2, e1]

end C06


end PolyVerif
