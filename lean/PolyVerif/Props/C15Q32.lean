/-
  C15 — "exact float32 positions", with the float32 conversion SPECIFIED instead of opaque.

  The .splat theorems keep `E.to32` / `E.of32` (Go's `math.Float32bits(float32(x))` / `float64(math.Float32frombits(w))`) as
  fields of the environment.  Here they are instantiated with the specification of C07 round 2: `B32.roundMag` (round to
  nearest, ties to even; Model/Binary32.lean, tied to Go's `float32()` by `c07.q32spec`) on the exact value of the
  coordinate — every finite float64 is a ratio `n/d` of naturals — and the binary32 value `± num/2^150` of a stored word
  (`C07.binary32_finite`).  Tie on the C15 side: the driver's `E.to32` (Lean `Float.toFloat32`) is compared with Go's
  conversion bit for bit on every `c15.splat.write` line; no new stream.
-/
import PolyVerif.Props.C15
import PolyVerif.Lemmas.Binary32

set_option exponentiation.threshold 300

namespace PolyVerif
namespace C15
open Splat B32

/-- the value of a stored float32 word whose exponent field is not all ones: `± num/2^150` -/
noncomputable def decode32 (w : UInt32) : ℝ :=
  (if 2147483648 ≤ w.toNat then -1 else 1) * val (w.toNat % 2147483648)

open Classical in
/-- `float32(x)` by the specification, on a real that is a ratio of naturals up to sign (every finite float64): sign bit
    plus `roundMag n d` for SOME `n/d = |x|` (the theorems below hold for whichever representation is chosen) -/
noncomputable def q32R (x : ℝ) : UInt32 :=
  if h : ∃ n d : ℕ, 0 < d ∧ |x| = (n : ℝ) / d then
    UInt32.ofNat ((if x < 0 then 2147483648 else 0) + roundMag (choose h) (choose (choose_spec h)))
  else 0

/-- the codec environment with the float32 conversions specified -/
noncomputable def specEnv (E : Env ℝ) : Env ℝ := { E with to32 := q32R, of32 := decode32 }

theorem q32_core_aux (x : ℝ) (n d : ℕ) (hd : 0 < d) (he : |x| = (n : ℝ) / d)
    (hlo : (2 : ℝ) ^ 24 / 2 ^ 150 ≤ |x|) (hhi : |x| < (thrNum : ℝ) / 2 ^ 150) :
    |decode32 (UInt32.ofNat ((if x < 0 then 2147483648 else 0) + roundMag n d)) - x| ≤ |x| / 2 ^ 24 := by
  have hdR : (0 : ℝ) < d := by exact_mod_cast hd
  have h1 : n * 2 ^ 150 < thrNum * d := by
    rw [he, div_lt_div_iff₀ hdR (by positivity)] at hhi
    exact_mod_cast hhi
  have h2 : 2 ^ 24 * d ≤ n * 2 ^ 150 := by
    rw [he, div_le_div_iff₀ (by positivity) hdR] at hlo
    exact_mod_cast hlo
  have hfl : n * 2 ^ 150 / d < 2 ^ 278 := by
    rw [Nat.div_lt_iff_lt_mul hd]
    exact lt_of_lt_of_le h1 (Nat.mul_le_mul_right d thr_le)
  obtain ⟨e, h0, hB⟩ := roundMag_bracket n d hd hfl
  have hrel := bracket_relative hd hB h2
  have hfin := roundMag_finite n d hd h1
  unfold infPat at hfin
  rw [← he] at hrel
  by_cases hneg : x < 0
  · have hw : (UInt32.ofNat ((if x < 0 then 2147483648 else 0) + roundMag n d)).toNat = 2147483648 + roundMag n d := by
      rw [if_pos hneg, UInt32.toNat_ofNat']; omega
    unfold decode32
    rw [hw, if_pos (by omega), show (2147483648 + roundMag n d) % 2147483648 = roundMag n d by omega]
    have : -1 * val (roundMag n d) - x = -(val (roundMag n d) - |x|) := by rw [abs_of_neg hneg]; ring
    rw [this, abs_neg]; exact hrel
  · have hw : (UInt32.ofNat ((if x < 0 then 2147483648 else 0) + roundMag n d)).toNat = roundMag n d := by
      rw [if_neg hneg, UInt32.toNat_ofNat']; omega
    unfold decode32
    rw [hw, if_neg (by omega), show roundMag n d % 2147483648 = roundMag n d by omega, one_mul]
    have : |x| = x := abs_of_nonneg (not_lt.mp hneg)
    rw [this] at hrel ⊢; exact hrel

/-- the specified conversion in the NORMAL range `2^−126 ≤ |x| < (2^25 − 1)·2^103` (= max finite + half ulp), written
    over `2^150`: the stored word decodes to a value within relative `2^−24` of `x` -/
theorem q32R_relative (x : ℝ) (hx : ∃ n d : ℕ, 0 < d ∧ |x| = (n : ℝ) / d)
    (hlo : (2 : ℝ) ^ 24 / 2 ^ 150 ≤ |x|) (hhi : |x| < (thrNum : ℝ) / 2 ^ 150) :
    |decode32 (q32R x) - x| ≤ |x| / 2 ^ 24 := by
  classical
  unfold q32R
  rw [dif_pos hx]
  have hs := Classical.choose_spec (Classical.choose_spec hx)
  exact q32_core_aux x _ _ hs.1 hs.2 hlo hhi

/-- EXACT FLOAT32 POSITIONS: with the conversions specified, the x position read back from the record of a splat is
    the binary32 value of the word `float32(x)` by the specification, and it is within relative `2^−24` of the
    coordinate — for every coordinate that is a ratio of naturals up to sign (every finite float64) in the normal
    float32 range.  (`py`, `pz`: the same statement, the fields are treated alike.) -/
theorem splat_position_q32spec (E : Env ℝ) (s : Splat ℝ) (hx : ∃ n d : ℕ, 0 < d ∧ |s.px| = (n : ℝ) / d)
    (hlo : (2 : ℝ) ^ 24 / 2 ^ 150 ≤ |s.px|) (hhi : |s.px| < (thrNum : ℝ) / 2 ^ 150) :
    (decSplat (specEnv E) (encSplat (specEnv E) s)).px = decode32 (q32R s.px) ∧
    |(decSplat (specEnv E) (encSplat (specEnv E) s)).px - s.px| ≤ |s.px| / 2 ^ 24 :=
  ⟨rfl, q32R_relative s.px hx hlo hhi⟩

/-- SCALES "up to float32 rounding of exp/log": the scale read back is `log` of the binary32 value of `float32(exp s)`,
    which is within relative `2^−24` of `exp s` when that (a float64 in the code) is a ratio of naturals in the normal
    range; `exp`/`log` stay the environment's -/
theorem splat_scale_q32spec (E : Env ℝ) (s : Splat ℝ) (hx : ∃ n d : ℕ, 0 < d ∧ |E.exp s.sx| = (n : ℝ) / d)
    (hlo : (2 : ℝ) ^ 24 / 2 ^ 150 ≤ |E.exp s.sx|) (hhi : |E.exp s.sx| < (thrNum : ℝ) / 2 ^ 150) :
    (decSplat (specEnv E) (encSplat (specEnv E) s)).sx = E.log (decode32 (q32R (E.exp s.sx))) ∧
    |decode32 (q32R (E.exp s.sx)) - E.exp s.sx| ≤ |E.exp s.sx| / 2 ^ 24 :=
  ⟨rfl, q32R_relative _ hx hlo hhi⟩

/-- non-vacuity: 3/2 is a ratio of naturals inside the normal range -/
example : (∃ n d : ℕ, 0 < d ∧ |(3 / 2 : ℝ)| = (n : ℝ) / d) ∧ (2 : ℝ) ^ 24 / 2 ^ 150 ≤ |(3 / 2 : ℝ)| ∧
    |(3 / 2 : ℝ)| < (thrNum : ℝ) / 2 ^ 150 := by
  rw [abs_of_pos (by norm_num)]
  refine ⟨⟨3, 2, by norm_num, by norm_num⟩, ?_, ?_⟩
  · rw [div_le_div_iff₀ (by positivity) (by norm_num)]; norm_num
  · rw [div_lt_div_iff₀ (by norm_num) (by positivity)]; unfold thrNum; norm_num

end C15
end PolyVerif
