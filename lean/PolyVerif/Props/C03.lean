/-
  C03 — Mesh operations do what they say and nothing else.

  Property theorems only.  Contracts are the decidable predicates of `PolyVerif/Model/MeshSpec.lean`
  (the driver evaluates the same predicates on the implementation's output); models in
  `PolyVerif/Model/MeshOps.lean`; supporting lemmas in `PolyVerif/Lemmas/MeshCorners.lean`.
  Layout theorems hold for every payload type `α`.
-/
import PolyVerif.Lemmas.MeshCorners

namespace PolyVerif.C03
open PolyVerif.Mesh PolyVerif.Mesh.MeshVal

variable {α : Type}

/-- a concrete well-formed mesh with shared, duplicated and unreferenced vertices (non-vacuity) -/
def sample : MeshVal Nat :=
  ⟨.triangle, [0, 2, 1, 2, 0, 3], [⟨2, 7⟩], [(⟨3, "Position"⟩, [10, 11, 12, 13, 14]), (⟨1, "Class"⟩, [20, 21, 22, 23, 24])]⟩

example : WF sample := by decide

/-! ## Unweld -/

/-- Unweld keeps every corner's attribute tuple, in order; indices become `0..k-1`; topology and
    materials are untouched. -/
theorem unweld_spec [DecidableEq α] {m : MeshVal α} (h : WF m) : UnweldSpec m m.unweld :=
  ⟨⟨rfl, rfl⟩, rfl, unweld_corners h⟩

/-- Unweld is idempotent. -/
theorem unweld_idem {m : MeshVal α} (h : WF m) : m.unweld.unweld = m.unweld := unweld_unweld h

example : sample.unweld.indices = [0, 1, 2, 3, 4, 5] ∧ sample.unweld.attrLen = 6 := by decide

/-! ## RemovedUnreferencedVertices -/

/-- Removing unreferenced vertices keeps every corner's attribute tuple, in order. -/
theorem removeUnreferenced_spec [DecidableEq α] {m : MeshVal α} (h : WF m) :
    RemoveUnrefSpec m m.removeUnreferenced :=
  ⟨⟨rfl, rfl⟩, removeUnreferenced_corners h⟩

example : sample.removeUnreferenced.attrLen = 4 := by decide

/-! ## FlipTriangleWinding -/

/-- Flip swaps the first two corners of every triangle and touches nothing else. -/
theorem flip_spec [DecidableEq α] {m m' : MeshVal α} (hf : m.flip = some m') : FlipSpec m m' := by
  refine ⟨?_, ?_, flip_corners hf⟩ <;>
  · unfold MeshVal.flip at hf; split at hf <;> cases hf <;> simp [SameFrame, setIndices]

/-- Flipping twice gives the mesh back. -/
theorem flip_flip {m m' : MeshVal α} (h : WF m) (hf : m.flip = some m') : m'.flip = some m :=
  MeshVal.flip_flip h hf

/-- Flip rejects exactly the non-triangle meshes. -/
theorem flip_rejects (m : MeshVal α) : m.flip = none ↔ m.topology ≠ .triangle := by
  unfold MeshVal.flip; split <;> simp_all

example : ∃ m', sample.flip = some m' ∧ m'.indices = [2, 0, 1, 0, 2, 3] := ⟨_, rfl, by decide⟩

/-! ## ToPointCloud -/

theorem toPointCloud_spec [DecidableEq α] (m : MeshVal α) : ToPointCloudSpec m m.toPointCloud := by
  unfold ToPointCloudSpec toPointCloud
  split <;> simp_all

end PolyVerif.C03
