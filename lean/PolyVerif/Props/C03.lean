/-
  C03 — Mesh operations do what they say and nothing else.

  Property theorems only.  Contracts are the decidable predicates of `PolyVerif/Model/MeshSpec.lean`
  (the driver evaluates the same predicates on the implementation's output); models in
  `PolyVerif/Model/MeshOps.lean`; supporting lemmas in `PolyVerif/Lemmas/MeshCorners.lean`.
  Layout theorems hold for every payload type `α`.
-/
import PolyVerif.Lemmas.MeshFrame
import PolyVerif.Lemmas.MeshCorners2
import PolyVerif.Lemmas.MeshAppend
import PolyVerif.Lemmas.MeshWeld
import PolyVerif.Lemmas.MeshAllRef
import PolyVerif.Lemmas.MeshSplit
import PolyVerif.Lemmas.MeshWeldFull
import PolyVerif.Lemmas.MeshRepeat
import PolyVerif.Lemmas.MeshTransformsWF

namespace PolyVerif.C03
open PolyVerif.Mesh PolyVerif.Mesh.MeshVal

variable {α : Type}

/-- a concrete well-formed mesh with shared, duplicated and unreferenced vertices (non-vacuity) -/
def sample : MeshVal Nat :=
  ⟨.triangle, [0, 2, 1, 2, 0, 3], [⟨2, 7⟩], [(⟨3, "Position"⟩, [10, 11, 12, 13, 14]), (⟨1, "Class"⟩, [20, 21, 22, 23, 24])]⟩

example : WF sample := by decide

/-! ## Unweld -/

/-- Unweld keeps every corner's attribute tuple, in order; indices become `0..k-1`; topology and
    materials are untouched. -/
theorem unweld_spec [DecidableEq α] {m : MeshVal α} (h : WF m) : UnweldSpec m m.unweld :=
  ⟨⟨rfl, rfl⟩, rfl, unweld_attrLen h, unweld_corners h⟩

/-- Unweld is idempotent. -/
theorem unweld_idem {m : MeshVal α} (h : WF m) : m.unweld.unweld = m.unweld := unweld_unweld h

example : sample.unweld.indices = [0, 1, 2, 3, 4, 5] ∧ sample.unweld.attrLen = 6 := by decide

/-! ## RemovedUnreferencedVertices -/

/-- Removing unreferenced vertices keeps every corner's attribute tuple, in order. -/
theorem removeUnreferenced_spec [DecidableEq α] {m : MeshVal α} (h : WF m) :
    RemoveUnrefSpec m m.removeUnreferenced :=
  ⟨⟨rfl, rfl⟩, removeUnreferenced_corners h⟩

/-- … and afterwards every vertex is referenced by some index. -/
theorem removeUnreferenced_allReferenced [DecidableEq α] {m : MeshVal α} (h : WF m) :
    AllReferenced m.removeUnreferenced := MeshVal.removeUnreferenced_allReferenced h

/-- the attribute filters end with the same clean-up: every vertex of the result is referenced -/
theorem filterAttr_allReferenced [DecidableEq α] {m m' : MeshVal α} (h : WF m) {k : AttrKey} {p : α → Bool}
    (hm : m.filterAttr k p = some m') : AllReferenced m' := by
  unfold filterAttr at hm
  split at hm
  · rename_i ht
    split at hm
    · cases hm
    · cases hm
      apply MeshVal.removeUnreferenced_allReferenced
      refine MeshVal.setIndices_wf h _ (fun i hi => h.2.1 i (List.mem_filter.mp hi).1) ?_
      rw [ht]; trivial
  · cases hm

example : sample.removeUnreferenced.attrLen = 4 := by decide

/-! ## FlipTriangleWinding -/

/-- Flip swaps the first two corners of every triangle and touches nothing else. -/
theorem flip_spec [DecidableEq α] {m m' : MeshVal α} (hf : m.flip = some m') : FlipSpec m m' := by
  refine ⟨?_, ?_, flip_corners hf⟩ <;>
  · unfold MeshVal.flip at hf; split at hf <;> cases hf <;> simp [SameFrame, setIndices]

/-- Flipping twice gives the mesh back. -/
theorem flip_flip {m m' : MeshVal α} (h : WF m) (hf : m.flip = some m') : m'.flip = some m :=
  MeshVal.flip_flip h hf

/-- Flip rejects exactly the non-triangle meshes. -/
theorem flip_rejects (m : MeshVal α) : m.flip = none ↔ m.topology ≠ .triangle := by
  unfold MeshVal.flip; split <;> simp_all

example : ∃ m', sample.flip = some m' ∧ m'.indices = [2, 0, 1, 0, 2, 3] := ⟨_, rfl, by decide⟩

/-! ## ToPointCloud -/

theorem toPointCloud_spec [DecidableEq α] (m : MeshVal α) : ToPointCloudSpec m m.toPointCloud := by
  unfold ToPointCloudSpec toPointCloud
  split <;> simp_all

/-! ## Append -/

/-- Append: the corners of `a` followed by the corners of `b`, attribute by attribute; an attribute
    present on one side only reads as zeros on the other; no other attribute appears; materials are
    concatenated. -/
theorem append_spec [DecidableEq α] {zero : Nat → α} {a b m : MeshVal α} (ha : WF a) (hb : WF b)
    (h : append zero a b = some m) : AppendSpec zero a b m := by
  refine ⟨?_, ?_, append_keys h, fun k hk => append_cornersOf ha hb h k hk⟩ <;>
  · unfold append at h; split at h <;> cases h; rfl

/-- Append rejects exactly the pairs with different topologies. -/
theorem append_rejects (zero : Nat → α) (a b : MeshVal α) : append zero a b = none ↔ a.topology ≠ b.topology := by
  unfold append; split <;> simp_all

example : ∃ m, append (fun _ => 0) sample (sample.setAttr ⟨1, "Class"⟩ []) = some m ∧
    m.cornersOf ⟨1, "Class"⟩ = some [some 20, some 22, some 21, some 22, some 20, some 23,
                                      some 0, some 0, some 0, some 0, some 0, some 0] := ⟨_, rfl, by decide⟩

/-- Append, for every key at once: corner list (zeros where absent) of the result = the two lists concatenated. -/
theorem append_cornersOrZero [DecidableEq α] {zero : Nat → α} {a b m : MeshVal α} (ha : WF a) (hb : WF b)
    (h : append zero a b = some m) (k : AttrKey) :
    cornersOrZero zero m k = cornersOrZero zero a k ++ cornersOrZero zero b k :=
  MeshVal.append_cornersOrZero ha hb h k

/-- `repeat.Mesh(mesh, transforms)`: for every attribute the corners of the result are the corners of
    the transformed copies (`mesh` with Position mapped by each transform), one copy after another. -/
theorem repeatMesh_corners [DecidableEq α] {zero : Nat → α} {pos : AttrKey} {m r : MeshVal α} (h : WF m)
    (ts : List (α → α)) (hr : repeatMesh zero pos m ts = some r) (k : AttrKey) :
    cornersOrZero zero r k = ts.flatMap (copyCorners zero pos m k) := MeshVal.repeatMesh_corners h ts hr k

example : ∃ r, repeatMesh (fun _ => 0) ⟨3, "Position"⟩ sample [(· + 100), (· + 200)] = some r ∧
    cornersOrZero (fun _ => 0) r ⟨3, "Position"⟩ =
      [some 110, some 112, some 111, some 112, some 110, some 113,
       some 210, some 212, some 211, some 212, some 210, some 213] := ⟨_, rfl, by decide⟩

/-! ## Weld -/

section weld
variable {K : Type} [DecidableEq K]

/-- Weld = re-point every corner of every surviving triangle at the representative of its key class
    (`weldRepIdx`), drop the vertices no longer referenced, clear the materials — and nothing else:
    per corner, every attribute is the representative's. Holds for every key function. -/
theorem weld_corners {m m' : MeshVal α} (h : WF m) {k : AttrKey} {key : α → K} (hw : m.weld k key = some m') :
    ∃ d, m.attr? k = some d ∧ m'.topology = m.topology ∧ m'.materials = [] ∧
      m'.corners = (m.setIndices (weldRepIdx key d m.indices)).corners := MeshVal.weld_corners h hw

/-- The representative of a key class has that key (so the welded attribute stays within its
    rounding cell) and is the first vertex with it. -/
theorem weld_representative (key : α → K) (d : List α) : ∀ c ∈ firsts key d,
    (∃ x, d[c.2]? = some x ∧ key x = c.1) ∧ ∀ j, j < c.2 → ∀ y, d[j]? = some y → key y ≠ c.1 :=
  firsts_spec key d

/-- A triangle survives exactly when its three corners have pairwise distinct keys. -/
theorem weld_survivors (key : α → K) (d : List α) (t : Nat × Nat × Nat) {x y z : α}
    (hx : d[t.1]? = some x) (hy : d[t.2.1]? = some y) (hz : d[t.2.2]? = some z) :
    (weldTri key d (firsts key d) t).isSome ↔ (key x ≠ key y ∧ key x ≠ key z ∧ key y ≠ key z) :=
  weldTri_isSome_iff key d t hx hy hz

/-- **The whole weld contract**, algorithm-independent (`WeldSpec`, the predicate the oracle
    `c03.holds.weld_spec` evaluates on every implementation output): the surviving triangles are exactly
    those with three pairwise distinct keys, in order; every surviving corner carries the attribute
    tuple of the first vertex of its key class; every vertex of the result is referenced; materials
    are cleared; topology kept. For every key function and payload type. -/
theorem weld_spec [DecidableEq α] {m m' : MeshVal α} (h : WF m) {k : AttrKey} {key : α → K}
    (hw : m.weld k key = some m') : WeldSpec k key m m' := MeshVal.weld_spec h hw

example : ∃ m', sample.weld ⟨3, "Position"⟩ (· % 3) = some m' ∧ WeldSpec ⟨3, "Position"⟩ (· % 3) sample m' :=
  ⟨_, rfl, by decide⟩

end weld

/-! ## SplitOnUniqueMaterials -/

/-- With fewer than two material ranges the mesh is returned as it is. -/
theorem split_single (m : MeshVal α) (h : m.materials.length < 2) : m.splitOnMaterials = some [m] := by
  unfold splitOnMaterials
  cases hm : m.materials with
  | nil => rfl
  | cons a t =>
    cases t with
    | nil => rfl
    | cons b t' => rw [hm] at h; simp at h; omega

/-- With two or more ranges only triangle meshes are accepted. -/
theorem split_rejects_non_triangle (m : MeshVal α) (h : 2 ≤ m.materials.length) (ht : m.topology ≠ .triangle) :
    m.splitOnMaterials = none := by
  unfold splitOnMaterials
  split
  · rename_i hm; rw [hm] at h; simp at h
  · rename_i hm; rw [hm] at h; simp at h
  · simp [ht]

/-- **Split partitions the triangles by material.** With two or more ranges, when the split succeeds:
    the ranges, written out one after another, cover every triangle (`assign` = material of each
    triangle); every part is exactly the sub-mesh of the triangles of one material — in order, every
    corner's attributes kept, under one range counting them — and every material that occurs has
    its part. (If the ranges run out the model returns `none`, where the Go loop panics.) -/
theorem split_partition [DecidableEq α] {m : MeshVal α} {parts : List (MeshVal α)} (h : WF m)
    (h2 : 2 ≤ m.materials.length) (hs : m.splitOnMaterials = some parts) :
    ((matOfTris m.materials).take (triples m.indices).length).length = (triples m.indices).length ∧
    (∀ p ∈ parts, ∃ μ, PartSpec m ((matOfTris m.materials).take (triples m.indices).length) p μ) ∧
    (∀ μ ∈ (matOfTris m.materials).take (triples m.indices).length,
        ∃ p ∈ parts, PartSpec m ((matOfTris m.materials).take (triples m.indices).length) p μ) := by
  obtain ⟨assign, ha, hl, h1, h2'⟩ := split_parts h h2 hs
  have := assignLoop_eq_take ha
  subst this
  exact ⟨hl, h1, h2'⟩

/-- **The whole split contract** (`SplitSpec`, the predicate the oracle `c03.holds.split_spec`
    evaluates on every implementation output): with fewer than two ranges the mesh itself; otherwise
    the written-out ranges cover every triangle, there is exactly one part per distinct material *in
    order of first appearance* (the first range's material first, even when it has no triangle), and
    part `i` is exactly the sub-mesh of the triangles of material `i` (`PartSpec`). -/
theorem split_spec [DecidableEq α] {m : MeshVal α} {parts : List (MeshVal α)} (h : WF m)
    (hs : m.splitOnMaterials = some parts) : SplitSpec m parts := MeshVal.split_spec h hs

def sample3 : MeshVal Nat :=
  ⟨.triangle, [0, 2, 1, 2, 0, 3, 4, 4, 0], [⟨1, 7⟩, ⟨0, 9⟩, ⟨1, 8⟩, ⟨1, 7⟩],
   [(⟨3, "Position"⟩, [10, 11, 12, 13, 14]), (⟨1, "Class"⟩, [20, 21, 22, 23, 24])]⟩

example : ∃ ps, sample3.splitOnMaterials = some ps ∧ ps.length = 2 ∧ SplitSpec sample3 ps := ⟨_, rfl, by decide⟩

/-! ## Attribute filters, crop, degenerate-face removal -/

def cloud : MeshVal Nat :=
  ⟨.point, [3, 0, 0, 2], [], [(⟨3, "Position"⟩, [10, 11, 12, 13, 14]), (⟨1, "Class"⟩, [20, 21, 22, 23, 24])]⟩
def cloudId : MeshVal Nat :=
  ⟨.point, [0, 1, 2, 3, 4], [], [(⟨3, "Position"⟩, [10, 11, 12, 13, 14]), (⟨1, "Class"⟩, [20, 21, 22, 23, 24])]⟩

/-- FilterFloatN keeps exactly the points whose vertex passes the predicate, in order, every
    attribute carried along; nothing else changes. -/
theorem filterAttr_spec [DecidableEq α] {m m' : MeshVal α} (h : WF m) {k : AttrKey} {p : α → Bool}
    (hm : m.filterAttr k p = some m') : FilterSpec k p m m' := by
  refine ⟨?_, filterAttr_corners h hm⟩
  unfold filterAttr at hm
  split at hm
  · split at hm
    · cases hm
    · cases hm; exact ⟨rfl, rfl⟩
  · cases hm

example : ∃ m', cloud.filterAttr ⟨1, "Class"⟩ (· < 23) = some m' ∧
    m'.corners = [(⟨3, "Position"⟩, [some 10, some 10, some 12]), (⟨1, "Class"⟩, [some 20, some 20, some 22])] :=
  ⟨_, rfl, by decide⟩

/-- CropFloat3Attribute on an identity-indexed point cloud (what `NewPointCloud` / `ToPointCloud`
    produce) keeps exactly the points inside, in order, every attribute carried along. -/
theorem crop_spec [DecidableEq α] {m m' : MeshVal α} (h : WF m) (hid : m.indices = List.range m.attrLen)
    {k : AttrKey} {inside : α → Bool} (hm : m.crop k inside = some m') : CropSpec k inside m m' := by
  obtain ⟨hi, hc⟩ := crop_corners h hid hm
  refine ⟨?_, ?_, hi, hc⟩ <;>
  · unfold crop at hm
    split at hm
    · split at hm
      · cases hm
      · cases hm; rfl
    · cases hm

example : WF cloudId ∧ cloudId.indices = List.range cloudId.attrLen := by decide
example : ∃ m', cloudId.crop ⟨3, "Position"⟩ (· > 11) = some m' ∧
    m'.corners = [(⟨3, "Position"⟩, [some 12, some 13, some 14]), (⟨1, "Class"⟩, [some 22, some 23, some 24])] :=
  ⟨_, rfl, by decide⟩

/-- Observation (not a contract): on a cloud whose indices are not the identity, crop ignores them —
    the duplicated point 0 of `cloud` disappears and the unreferenced vertices 1 and 4 become points. -/
example : ∃ m', cloud.crop ⟨3, "Position"⟩ (fun _ => true) = some m' ∧ m'.indices = [0, 1, 2, 3, 4] :=
  ⟨_, rfl, by decide⟩

/-- RemoveNullFaces3D keeps exactly the triangles the predicate keeps, in order, with all their
    corner attributes; when nothing is removed the very same mesh is returned. -/
theorem removeNullFaces_spec [DecidableEq α] {m m' : MeshVal α} (h : WF m) {k : AttrKey}
    {keep : Nat → Nat → Nat → Bool} (hm : m.removeNullFaces k keep = some m') : RemoveNullFacesSpec keep m m' := by
  refine ⟨?_, removeNullFaces_corners h hm⟩
  unfold removeNullFaces at hm
  split at hm
  · dsimp only at hm
    split at hm
    · cases hm; exact ⟨rfl, rfl⟩
    · cases hm; exact ⟨rfl, rfl⟩
  · cases hm

example : ∃ m', sample.removeNullFaces ⟨3, "Position"⟩ (fun a _ _ => a == 2) = some m' ∧
    m'.corners = [(⟨3, "Position"⟩, [some 12, some 10, some 13]), (⟨1, "Class"⟩, [some 22, some 20, some 23])] :=
  ⟨_, rfl, by decide⟩

/-! ## What is rejected (error branches) -/

/-- the filters reject exactly: not a point cloud, or the attribute is missing -/
theorem filterAttr_rejects (m : MeshVal α) (k : AttrKey) (p : α → Bool) :
    m.filterAttr k p = none ↔ (m.topology ≠ .point ∨ m.attr? k = none) := by
  unfold filterAttr
  split
  · split <;> simp_all
  · simp_all

/-- crop rejects exactly: not a point cloud, or the attribute is missing -/
theorem crop_rejects (m : MeshVal α) (k : AttrKey) (inside : α → Bool) :
    m.crop k inside = none ↔ (m.topology ≠ .point ∨ m.attr? k = none) := by
  unfold crop
  split
  · split <;> simp_all
  · simp_all

/-- degenerate-face removal rejects exactly: not a triangle mesh, or the attribute is missing -/
theorem removeNullFaces_rejects (m : MeshVal α) (k : AttrKey) (keep : Nat → Nat → Nat → Bool) :
    m.removeNullFaces k keep = none ↔ (m.topology ≠ .triangle ∨ m.hasAttr k = false) := by
  unfold removeNullFaces
  split
  · rename_i h
    dsimp only
    split <;> simp [h.1, h.2]
  · rename_i h
    simp only [true_iff]
    by_cases ht : m.topology = .triangle
    · right
      cases hh : m.hasAttr k
      · rfl
      · exact absurd ⟨ht, hh⟩ h
    · exact Or.inl ht

/-- weld rejects exactly: not a triangle mesh, or the attribute is missing -/
theorem weld_rejects {K : Type} [DecidableEq K] (m : MeshVal α) (k : AttrKey) (key : α → K) :
    m.weld k key = none ↔ (m.topology ≠ .triangle ∨ m.attr? k = none) := by
  unfold weld
  split
  · split <;> simp_all
  · simp_all

/-! ## Attribute transforms: exactly one attribute changes, by the stated function

`Translate`, `Scale`, `Rotate`, `ApplyTRS`, `ModifyFloatNAttribute`, meshops `TranslateAttribute3D`,
`ScaleAttribute3D/2D`, `ScaleAttributeAlongNormal`, `RotateAttribute3D`, `CenterFloat3Attribute`,
`NormalizeAttribute3D/2D`, `LaplacianSmooth` are all `modifyAttr k f`; `SmoothNormals`, `FlatNormals`
are `setAttr Normal (f positions)`. -/

/-- `SetFloatNAttribute(k, data)`: topology, indices, materials and every other attribute array are
    untouched; attribute `k` reads back as `data` (or is absent when `data` is empty — the Go code
    deletes the key then). -/
theorem setAttr_spec [DecidableEq α] (m : MeshVal α) (k : AttrKey) (data : List α) :
    FrameSpec k m (m.setAttr k data) ∧
    (m.setAttr k data).attr? k = (if data.isEmpty then none else some data) :=
  ⟨⟨⟨rfl, rfl⟩, rfl, fun _ _ hne => setAttr_attr?_ne m data hne⟩, setAttr_attr?_self m k data⟩

/-- a transform of attribute `k` by `f`: everything else untouched, and `k` is exactly `f` of the old array -/
theorem modifyAttr_spec [DecidableEq α] {m m' : MeshVal α} {k : AttrKey} {f : List α → List α}
    (hm : m.modifyAttr k f = some m') :
    FrameSpec k m m' ∧ ∃ d, m.attr? k = some d ∧ m'.attr? k = (if (f d).isEmpty then none else some (f d)) := by
  unfold modifyAttr at hm
  split at hm
  · cases hm
  · rename_i d hd
    cases hm
    exact ⟨(setAttr_spec m k (f d)).1, d, hd, (setAttr_spec m k (f d)).2⟩

/-- element-wise transform by `φ` (translate, scale, rotate, TRS): attribute `k` becomes `map φ` -/
theorem mapAttr_spec [DecidableEq α] {m m' : MeshVal α} {k : AttrKey} {φ : α → α}
    (hm : m.mapAttr k φ = some m') :
    FrameSpec k m m' ∧ ∃ d, m.attr? k = some d ∧ m'.attr? k = (if d.isEmpty then none else some (d.map φ)) := by
  obtain ⟨hf, d, hd, hk⟩ := modifyAttr_spec hm
  exact ⟨hf, d, hd, by simpa using hk⟩

/-- a transform is rejected exactly when the attribute is missing -/
theorem modifyAttr_rejects (m : MeshVal α) (k : AttrKey) (f : List α → List α) :
    m.modifyAttr k f = none ↔ m.attr? k = none := by
  unfold modifyAttr; split <;> simp_all

example : ∃ m', sample.mapAttr ⟨3, "Position"⟩ (· + 100) = some m' ∧
    m'.attr? ⟨3, "Position"⟩ = some [110, 111, 112, 113, 114] ∧ m'.attr? ⟨1, "Class"⟩ = sample.attr? ⟨1, "Class"⟩ :=
  ⟨_, rfl, by decide, by decide⟩

/-! ### the concrete transforms (`Model/MeshTransforms.lean`), each with its stated map

`Changed k f m m'`: topology, indices, materials and every attribute other than `k` are untouched and
attribute `k` of `m'` is `f` applied to attribute `k` of `m` (absent if that is empty). -/

section transforms
open PolyVerif PolyVerif.Gen
variable {s : Type} [Scalar s] [DecidableEq s]

def Changed (k : AttrKey) (f : List (List s) → List (List s)) (m m' : MeshVal (List s)) : Prop :=
  FrameSpec k m m' ∧ ∃ d, m.attr? k = some d ∧ m'.attr? k = (if (f d).isEmpty then none else some (f d))

/-- `Translate` / `TranslateAttribute3D`: `v ↦ v + t` -/
theorem translate_spec {m m' : MeshVal (List s)} {n : String} {t : V3 s} (hm : m.translate n t = some m') :
    Changed ⟨3, n⟩ (List.map (liftV3 fun v => v.Add t)) m m' := modifyAttr_spec hm

/-- `ScaleAttribute3D`: `v ↦ o + (v - o) ∘ a` -/
theorem scaleAbout_spec {m m' : MeshVal (List s)} {n : String} {o a : V3 s} (hm : m.scaleAbout n o a = some m') :
    Changed ⟨3, n⟩ (List.map (liftV3 fun v => o.Add ((v.Sub o).MultByVector a))) m m' := modifyAttr_spec hm

/-- `Mesh.Scale`: `v ↦ v ∘ a` on Position -/
theorem scaleMesh_spec {m m' : MeshVal (List s)} {a : V3 s} (hm : m.scaleMesh a = some m') :
    Changed posKey (List.map (liftV3 fun v => v.MultByVector a)) m m' := modifyAttr_spec hm

/-- `Rotate` / `RotateAttribute3D`: `v ↦ q.Rotate v` (the function proved a rotation in C17) -/
theorem rotate_spec {m m' : MeshVal (List s)} {n : String} {q : quaternion.Quaternion s} (hm : m.rotate n q = some m') :
    Changed ⟨3, n⟩ (List.map (liftV3 fun v => q.Rotate v)) m m' := modifyAttr_spec hm

/-- `ApplyTRS`: `v ↦ trs.Transform v` on Position -/
theorem applyTRS_spec {m m' : MeshVal (List s)} {t : trs.TRS s} (hm : m.applyTRS t = some m') :
    Changed posKey (List.map (liftV3 fun v => t.Transform v)) m m' := modifyAttr_spec hm

/-- `CenterFloat3Attribute`: `v ↦ v - centre(box of the array)` -/
theorem center_spec {m m' : MeshVal (List s)} {mn mx : s → s → s} {n : String}
    (hm : MeshVal.center mn mx m n = some m') :
    Changed ⟨3, n⟩ (fun d => d.map (liftV3 fun v => v.Sub (centerOf mn mx (d.filterMap v3?)))) m m' := modifyAttr_spec hm

/-- `NormalizeAttribute3D`: `v ↦ v / (longest length in the array)` -/
theorem normalize_spec {m m' : MeshVal (List s)} {init : s} {mx : s → s → s} {n : String}
    (hm : MeshVal.normalize init mx m n = some m') :
    Changed ⟨3, n⟩ (fun d => d.map (liftV3 fun v =>
      v.DivByConstant ((d.filterMap v3?).foldl (fun acc v => mx acc v.Length) init))) m m' := modifyAttr_spec hm

/-- `LaplacianSmooth`: only the smoothed attribute changes (by the in-place sequential sweep `lapIter`) -/
theorem laplacian_frame {m m' : MeshVal (List s)} {n : String} {iters : Nat} {factor : s}
    (hm : m.laplacian n iters factor = some m') : FrameSpec ⟨3, n⟩ m m' := by
  unfold laplacian at hm
  split at hm
  · cases hm
  · exact (modifyAttr_spec hm).1

/-- `SmoothNormals`: only Normal changes (it is computed from Position by `smoothAccum`) -/
theorem smoothNormals_frame {m m' : MeshVal (List s)} (hm : m.smoothNormals = some m') : FrameSpec normalKey m m' := by
  unfold smoothNormals at hm
  split at hm
  · split at hm
    · cases hm
    · cases hm; exact (setAttr_spec m _ _).1
  · cases hm

/-- `FlatNormals`: only Normal changes -/
theorem flatNormals_frame {m m' : MeshVal (List s)} (hm : m.flatNormals = some m') : FrameSpec normalKey m m' := by
  unfold flatNormals at hm
  split at hm
  · split at hm
    · cases hm
    · cases hm; exact (setAttr_spec m _ _).1
  · cases hm

end transforms

end PolyVerif.C03
