/-
  C12 — sessions that load a saved graph into the RUNNING application (the editor's `POST /graph`) and go on editing.

  Model: `PolyVerif.Model.GraphSession` (`SEv` = edit | load, `evStep`: a load is `decode (current header) file`,
  `runEv`).  The driver answers the `c12.edit` / `c12.save` / `c12.reload` lines of such sessions with exactly these
  definitions (event `L <file>`), so the theorems below are about what the correspondence ties to
  `App.ApplySchema` / `ApplyAppSchema` on a non-fresh application.
-/
import PolyVerif.Model.GraphSession
import PolyVerif.Lemmas.GraphIO
import PolyVerif.Props.C12

namespace PolyVerif
namespace C12
open GraphIO

variable {V J : Type}

/-! ### a load resets the state: only what follows the LAST load matters -/

theorem runEv_edits (E : Env V J) (g : Graph V) (ops : List (Op J)) : runEv E g (edits ops) = run E g ops := by
  induction ops generalizing g with
  | nil => rfl
  | cons op ops ih =>
    simp only [edits, List.map_cons, runEv, List.foldl_cons, run] at ih ⊢
    exact ih _

/-- **State := decode(file).**  A session `pre ++ [load s] ++ post` whose `post` part contains no further load ends in
    the state reached by the editing operations `post` from the graph the load left: nothing of `pre` (the earlier edits,
    the earlier loads, whatever ids they resolved) is visible except through the header the file is merged into. -/
theorem session_after_last_load (E : Env V J) (g : Graph V) (pre : List (SEv J)) (s : Schema J) (post : List (Op J)) :
    runEv E g (pre ++ SEv.load s :: edits post) = run E (loaded E (runEv E g pre) s) post := by
  rw [← runEv_edits]
  simp only [runEv, List.foldl_append, List.foldl_cons, loaded]

/-- loading into a running application differs from loading into a fresh one in the header merge only -/
theorem decode_into_running (E : Env V J) (h : Hdr) (s : Schema J) :
    (decode E h s : Except Err (Graph V)) =
      (decode E Hdr.empty s).map (fun g => { g with hdr := applyHdr h s.hdr }) := by
  unfold decode
  simp only [bind, Except.bind]
  cases decodeNodes E s.nodes s.nodes with
  | error e => rfl
  | ok ns =>
    cases decodeProds E s.nodes s.prods with
    | error e => rfl
    | ok ps => rfl

/-! ### files the application saved -/

/-- `s` is a file some application saved from a well-formed graph (with a fitting comparator, at most one binary payload) -/
def SavedFile (E : Env V J) (s : Schema J) : Prop :=
  ∃ (cmp : Name → Name → Bool) (g0 : Graph V), WF E g0 ∧
    (∀ n ∈ g0.nodes, ∀ T, E.types n.ty = some T → CmpOK cmp T n) ∧ FilePayloadLast E g0 ∧ s = encode E cmp g0

/-- loading a saved file into a running application: the state IS the saved graph (`norm`: applied value := `Value()`),
    under the merged header — whatever the application held before -/
theorem load_saved {E : Env V J} (hE : EnvOK E) {cmp : Name → Name → Bool} {g0 : Graph V} (hw : WF E g0)
    (hc : ∀ n ∈ g0.nodes, ∀ T, E.types n.ty = some T → CmpOK cmp T n) (hf : FilePayloadLast E g0) (g : Graph V) :
    loaded E g (encode E cmp g0) = { g0.norm with hdr := applyHdr g.hdr g0.hdr } := by
  simp only [loaded, evTotal, evStep]
  rw [decode_into_running, decode_encode hE hw hc hf]
  rfl

theorem refOK_of_nodes {E : Env V J} {g g' : Graph V} (f : Node V → Node V) (hid : ∀ n, (f n).id = n.id)
    (hty : ∀ n, (f n).ty = n.ty) (hn : g'.nodes = g.nodes.map f) {t : VTy} {r : Ref} (h : RefOK E g t r) :
    RefOK E g' t r := by
  obtain ⟨hp, s, hs, hsid, Ts, hT, ho⟩ := h
  refine ⟨hp, f s, ?_, (hid s).trans hsid, Ts, (hty s) ▸ hT, ho⟩
  rw [hn]; exact List.mem_map_of_mem hs

theorem paramOK_norm {E : Env V J} {ty : TyName} {k : PKind} {p : Param V} (h : ParamOK E ty k p) :
    ParamOK E ty k p.norm := by
  obtain ⟨h1, h2, h3, h4⟩ := h
  refine ⟨?_, h2, h3, h4⟩
  intro v hv
  simp only [Param.norm, Param.value] at hv
  cases hc : p.cur with
  | some c => rw [hc] at hv; exact h1 v (hc.trans hv)
  | none => rw [hc] at hv; exact h2 v hv

/-- a reload's normalisation and the header merge keep well-formedness -/
theorem wf_norm_hdr {E : Env V J} {g : Graph V} (hw : WF E g) (h : Hdr) : WF E { g.norm with hdr := h } := by
  have hn : ({ g.norm with hdr := h } : Graph V).nodes = g.nodes.map Node.norm := rfl
  have href : ∀ {t r}, RefOK E g t r → RefOK E { g.norm with hdr := h } t r :=
    fun hr => refOK_of_nodes Node.norm (fun _ => rfl) (fun _ => rfl) hn hr
  refine ⟨?_, ?_, hw.prodsNodup, fun kv hkv => href (hw.prods kv hkv)⟩
  · show ((g.nodes.map Node.norm).map (·.id)).Nodup
    rw [List.map_map]; exact hw.nodup
  · intro n hn'
    rw [hn] at hn'
    obtain ⟨m, hm, rfl⟩ := List.mem_map.1 hn'
    obtain ⟨hid, T, hT, hs, ha, hp⟩ := hw.nodes m hm
    refine ⟨hid, T, hT, ?_, ?_, ?_⟩
    · intro p r hr
      obtain ⟨t, ht, hr'⟩ := hs p r hr
      exact ⟨t, ht, href hr'⟩
    · intro p r hr
      obtain ⟨t, ht, hr'⟩ := ha p r hr
      exact ⟨t, ht, href hr'⟩
    · show (match T.param, m.par.map Param.norm with
        | some k, some p => ParamOK E m.ty k p
        | none, none => True
        | _, _ => False)
      cases hk : T.param <;> cases hpar : m.par <;> simp only [hk, hpar, Option.map] at hp ⊢
      · exact paramOK_norm hp

/-! ### "after any sequence": sessions with loads -/

/-- **Sessions with mid-session loads stay well-formed.**  After ANY session — editing operations (failing ones
    included) interleaved with loads, into the running application, of files some application saved — ids are unique
    and non-empty, types registered, every wiring / producer reference resolves with a matching type, payloads
    re-readable: the hypothesis `decode_encode` needs for the final save. -/
theorem session_wf {E : Env V J} (hE : EnvOK E) {g : Graph V} (hw : WF E g) (evs : List (SEv J))
    (hl : ∀ s, SEv.load s ∈ evs → SavedFile (V := V) E s) : WF E (runEv E g evs) := by
  induction evs generalizing g with
  | nil => exact hw
  | cons ev evs ih =>
    simp only [runEv, List.foldl_cons]
    refine ih ?_ (fun s hs => hl s (List.mem_cons_of_mem _ hs))
    cases ev with
    | edit op => exact run_wf hE [op] hw
    | load s =>
      obtain ⟨cmp, g0, hw0, hc0, hf0, rfl⟩ := hl s List.mem_cons_self
      have := load_saved hE hw0 hc0 hf0 g
      simp only [loaded] at this
      rw [this]
      exact wf_norm_hdr hw0 _

/-- **The property's save → load clause for sessions that contain loads** (the code as it is: `dependencyNameLess`):
    the graph reached by any such session, saved and loaded into a FRESH application, comes back as itself. -/
theorem session_decode_encode {E : Env V J} (hE : EnvOK E) (hP : ∀ ty T, E.types ty = some T → PortsOK T)
    (h : Hdr) (evs : List (SEv J)) (hl : ∀ s, SEv.load s ∈ evs → SavedFile (V := V) E s)
    (hlen : ∀ n ∈ (runEv E (Graph.init h) evs).nodes, ∀ p, (n.arrs p).length ≤ 2 ^ 63)
    (hf : FilePayloadLast E (runEv E (Graph.init h) evs)) :
    decode E Hdr.empty (encode E depLess (runEv E (Graph.init h) evs)) = .ok (runEv E (Graph.init h) evs).norm :=
  decode_encode hE (session_wf hE (init_wf h) evs hl)
    (fun n hn T hT => natural_order_ok hE hT (hP _ T hT) n (hlen n hn)) hf

/-- the session state after re-opening the application's OWN save: the graph as it was (normalised), the header
    merged into itself; the rest of the session is an ordinary edit history from there
    (`edit_history_wf_from`, `decode_encode`, and — from a well-formed start — the artifact theorems apply) -/
theorem reopen_own_save {E : Env V J} (hE : EnvOK E) {cmp : Name → Name → Bool} {g : Graph V} (hw : WF E g)
    (hc : ∀ n ∈ g.nodes, ∀ T, E.types n.ty = some T → CmpOK cmp T n) (hf : FilePayloadLast E g) (post : List (Op J)) :
    runEv E g (SEv.load (encode E cmp g) :: edits post) = run E { g.norm with hdr := applyHdr g.hdr g.hdr } post := by
  have := session_after_last_load E g [] (encode E cmp g) post
  simp only [List.nil_append] at this
  rw [this]
  congr 1
  exact load_saved hE hw hc hf g

/-! ### non-vacuity: a session over the witness environment of `Props/C12` that loads its own save and goes on -/

example : SavedFile (V := Nat) wEnv (encode wEnv depLess (Graph.init Hdr.empty)) :=
  ⟨depLess, Graph.init Hdr.empty, init_wf _, by simp [Graph.init], by simp [FilePayloadLast, Graph.init], rfl⟩

example : ((runEv wEnv (Graph.init Hdr.empty : Graph Nat)
    [.edit (.create "P"), .edit (.setValue "Node-0" 7), .load (encode wEnv depLess (Graph.init Hdr.empty)),
     .edit (.create "P"), .edit (.setValue "Node-0" 9)]).nodes.map (fun n => (n.id, n.par.bind Param.value))) =
    [("Node-0", some 9)] := by decide

end C12
end PolyVerif
