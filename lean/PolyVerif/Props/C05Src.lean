/-
  C05 — engine F: the printed face line of the model IS the (interpretation of the) face writers of
  /repo/formats/obj/writer.go, regenerated on every run into `PolyVerif/Gen/ObjText.lean` (go/facts mode `c05.text`):
  the sequence of `txt.Writer` calls of the four `writeFace…` loop bodies, the shift definitions
  (`shift := 1 + offset`, `uvShift := uvOffset - offset`, `normalShift := normalOffset - offset`, checked by the
  extractor) and the `if / else if / else` chain of `WriteMeshes` that picks the writer.
  A changed separator, a swapped uv / normal slot, a corner printed twice, a different selection order or another
  shift in the Go source changes the regenerated data and breaks `face_line_from_source`.
-/
import PolyVerif.Gen.ObjText
import PolyVerif.Model.ObjLex

namespace PolyVerif
namespace C05
open Obj ObjText Gen.ObjText

/-- the integer handed to `out.Int`, computed as the Go code does: `p := idx + shift` with `shift := 1 + offset`;
    `p + uvShift` with `uvShift := uvOffset - offset` (an intermediate that may be negative); likewise normals -/
def slotVal (vo to no i : Nat) : Slot → Int
  | .pos => (i : Int) + (1 + (vo : Int))
  | .uv => ((i : Int) + (1 + (vo : Int))) + ((to : Int) - (vo : Int))
  | .nrm => ((i : Int) + (1 + (vo : Int))) + ((no : Int) - (vo : Int))

/-- the text a face writer's loop body emits for the index triple `idx 1, idx 2, idx 3` (`out.Int` = `strconv.AppendInt`) -/
def render (vo to no : Nat) (idx : Nat → Nat) : List Tok → List Char
  | [] => []
  | .lit cs :: r => cs ++ render vo to no idx r
  | .int k s :: r => showIntL (slotVal vo to no (idx k) s) ++ render vo to no idx r
  | .nl :: r => '\n' :: render vo to no idx r

/-- the `if / else if / else` chain: the first row whose tested attributes are present -/
def pick (hasN hasT : Bool) : List (Option (Bool × Bool) × List Tok) → List Tok
  | [] => []
  | (none, w) :: _ => w
  | (some (n, t), w) :: r => if (!n || hasN) && (!t || hasT) then w else pick hasN hasT r

theorem slotVal_pos (vo to no i : Nat) : slotVal vo to no i .pos = ((i + 1 + vo : Nat) : Int) := by
  simp only [slotVal]; omega
theorem slotVal_uv (vo to no i : Nat) : slotVal vo to no i .uv = ((i + 1 + to : Nat) : Int) := by
  simp only [slotVal]; omega
theorem slotVal_nrm (vo to no i : Nat) : slotVal vo to no i .nrm = ((i + 1 + no : Nat) : Int) := by
  simp only [slotVal]; omega
theorem showIntL_natCast (n : Nat) : showIntL ((n : Nat) : Int) = showNat n := rfl
theorem showIntL_sum (i o : Nat) : showIntL ((i : Int) + 1 + (o : Int)) = showNat (i + 1 + o) := by
  have h : (i : Int) + 1 + (o : Int) = ((i + 1 + o : Nat) : Int) := by omega
  rw [h]; rfl

/-- **The printed face line, from the source.**  For every attribute combination, running offsets and index triple:
    the text produced by the face writer that `WriteMeshes` selects (regenerated call sequence, Go's shift
    arithmetic over the integers) is the model's printed face line `printFaceL` of the three corners `mkCorner`
    (`i + 1 + vo`, `i + 1 + to`, `i + 1 + no` — each pool with its own offset), followed by the line break. -/
theorem face_line_from_source (hasUv hasN : Bool) (vo to no a b c : Nat) :
    render vo to no (fun k => if k = 1 then a else if k = 2 then b else c) (pick hasN hasUv writerChain) =
      printFaceL (mkCorner hasUv hasN vo to no a) (mkCorner hasUv hasN vo to no b) (mkCorner hasUv hasN vo to no c)
        ++ ['\n'] := by
  cases hasUv <;> cases hasN <;>
    simp [pick, writerChain, faceVerts, faceVertsUvs, faceVertsNormals, faceVertsUvsNormals, render, slotVal_pos,
      slotVal_uv, slotVal_nrm, showIntL_sum, printFaceL, showCornerL, mkCorner]

/-- the chain has exactly the four writers, most specific first (the regenerated table, pinned) -/
theorem writer_chain_from_source :
    writerChain = [(some (true, true), faceVertsUvsNormals), (some (true, false), faceVertsNormals),
      (some (false, true), faceVertsUvs), (none, faceVerts)] := rfl

/-- **The lexer's keyword table, from the source**: the first fields the driver's lexer acts on (`ObjText.lexKeywords`;
    every other line is `.other`, ignored) are exactly the case labels of `switch components[0]` in `ReadMesh`, which has
    no default clause (the extractor fails on one). -/
theorem lexKeywords_from_source : ∀ k : String, k ∈ lexKeywords ↔ k ∈ readerKeywords := by
  intro k
  simp only [lexKeywords, readerKeywords, List.mem_cons, List.not_mem_nil, or_false]
  constructor <;> (intro h; rcases h with h | h | h | h | h | h | h <;> simp [h])

theorem lexKeywords_count_from_source : lexKeywords.length = readerKeywords.length ∧ lexKeywords.Nodup := by
  refine ⟨rfl, by decide⟩

end C05
end PolyVerif
