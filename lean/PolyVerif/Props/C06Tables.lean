/-
  C06 — scene level, tables: material → texture → image / sampler references, extensions declared, dedup consistency.
-/
import PolyVerif.Props.C06Scene

namespace PolyVerif
namespace C06
open Gltf

/-! ### (2) material → texture → image / sampler references -/

structure TRefs (w : W) : Prop where
  tex : ∀ t ∈ w.textures, textureOK w.images.length w.samplers.length t = true
  texIdx : ∀ p ∈ w.texIdx, p.2 < w.textures.length
  mats : ∀ g ∈ w.materials, materialOK w.textures.length g = true

theorem findIdx_lt {α} (p : α → Bool) (l : List α) (k i : Nat) (h : findIdx p l k = some i) : k ≤ i ∧ i < k + l.length := by
  induction l generalizing k with
  | nil => simp [findIdx] at h
  | cons a r ih =>
    simp only [findIdx] at h
    split at h
    · injection h with h; subst h; simp
    · have := ih (k + 1) h; simp only [List.length_cons]; omega

theorem textureOK_mono {a b a' b' : Nat} {t : GTexture} (h : textureOK a b t = true) (ha : a ≤ a') (hb : b ≤ b') :
    textureOK a' b' t = true := by
  unfold textureOK at h ⊢
  simp only [Bool.and_eq_true] at h ⊢
  refine ⟨?_, ?_⟩
  · have h1 := h.1
    split <;> simp_all <;> omega
  · have h2 := h.2
    split <;> simp_all <;> omega

theorem materialOK_mono {n n' : Nat} {g : GMaterial} (h : materialOK n g = true) (hn : n ≤ n') : materialOK n' g = true := by
  unfold materialOK at h ⊢
  simp only [List.all_eq_true, texInfoOK, decide_eq_true_eq] at h ⊢
  intro t ht; have := h t ht; omega

/-- the texture-side part of the state -/
def texPart (w : W) := (w.textures, w.images, w.samplers, w.texIdx, w.materials)

theorem trefs_of_texPart {w w' : W} (h : TRefs w) (e : texPart w' = texPart w) : TRefs w' := by
  simp only [texPart, Prod.mk.injEq] at e
  obtain ⟨e1, e2, e3, e4, e5⟩ := e
  exact ⟨by rw [e1, e2, e3]; exact h.tex, by rw [e4, e1]; exact h.texIdx, by rw [e5, e1]; exact h.mats⟩

theorem texPart_texPrepare (w : W) (t : PTexture) : texPart (texPrepare w t) = texPart w := by
  unfold texPrepare; split <;> rfl

/-- `AddTexture`: tables stay in range, the returned texture index is valid, tables only grow, materials untouched -/
theorem addTexture_trefs (w : W) (id : Nat) (t : PTexture) (hw : TRefs w) :
    TRefs (addTexture w id t).1 ∧ (addTexture w id t).2.index < (addTexture w id t).1.textures.length
    ∧ w.textures.length ≤ (addTexture w id t).1.textures.length ∧ (addTexture w id t).1.materials = w.materials := by
  have h0 : TRefs (texPrepare w t) := trefs_of_texPart hw (texPart_texPrepare w t)
  have e0 := texPart_texPrepare w t
  simp only [texPart, Prod.mk.injEq] at e0
  obtain ⟨e1, e2, e3, e4, e5⟩ := e0
  unfold addTexture
  split
  · rename_i i hi
    refine ⟨h0, ?_, by rw [e1]; exact Nat.le_refl _, e5⟩
    exact h0.texIdx _ (lookup_mem _ _ _ hi)
  · -- image
    have hA : TRefs (texImage (texPrepare w t) t.uri).1
        ∧ (texImage (texPrepare w t) t.uri).2 < (texImage (texPrepare w t) t.uri).1.images.length
        ∧ (texImage (texPrepare w t) t.uri).1.textures = (texPrepare w t).textures
        ∧ (texImage (texPrepare w t) t.uri).1.materials = (texPrepare w t).materials := by
      unfold texImage
      split
      · rename_i i hi
        have := findIdx_lt _ _ _ _ hi
        exact ⟨h0, by simpa using this.2, rfl, rfl⟩
      · refine ⟨⟨?_, h0.texIdx, h0.mats⟩, by simp, rfl, rfl⟩
        intro x hx
        exact textureOK_mono (h0.tex x hx) (by simp) (Nat.le_refl _)
    obtain ⟨hA1, hA2, hA3, hA4⟩ := hA
    generalize texImage (texPrepare w t) t.uri = A at hA1 hA2 hA3 hA4 ⊢
    -- sampler
    have hB : TRefs (texSampler A.1 t.sampler).1
        ∧ (∀ i, (texSampler A.1 t.sampler).2 = some i → i < (texSampler A.1 t.sampler).1.samplers.length)
        ∧ (texSampler A.1 t.sampler).1.textures = A.1.textures ∧ (texSampler A.1 t.sampler).1.images = A.1.images
        ∧ (texSampler A.1 t.sampler).1.materials = A.1.materials := by
      unfold texSampler
      split
      · exact ⟨hA1, by simp, rfl, rfl, rfl⟩
      · split
        · rename_i i hi
          have := findIdx_lt _ _ _ _ hi
          exact ⟨hA1, fun j hj => by injection hj with hj; subst hj; simpa using this.2, rfl, rfl, rfl⟩
        · refine ⟨⟨?_, hA1.texIdx, hA1.mats⟩, fun j hj => by injection hj with hj; subst hj; simp, rfl, rfl, rfl⟩
          intro x hx
          exact textureOK_mono (hA1.tex x hx) (Nat.le_refl _) (by simp)
    obtain ⟨hB1, hB2, hB3, hB4, hB5⟩ := hB
    generalize texSampler A.1 t.sampler = B at hB1 hB2 hB3 hB4 hB5 ⊢
    have himg : A.2 < B.1.images.length := by rw [hB4]; exact hA2
    have hlen : w.textures.length = B.1.textures.length := by rw [hB3, hA3, e1]
    have hmat : B.1.materials = w.materials := by rw [hB5, hA4, e5]
    unfold texFinish
    split
    · rename_i i hi
      have := findIdx_lt _ _ _ _ hi
      exact ⟨hB1, by simpa using this.2, by rw [hlen]; exact Nat.le_refl _, hmat⟩
    · refine ⟨⟨?_, ?_, ?_⟩, by simp, by simp [hlen], hmat⟩
      · intro x hx
        simp only [List.mem_append, List.mem_singleton] at hx
        rcases hx with hx | rfl
        · exact hB1.tex x hx
        · unfold textureOK
          simp only [Bool.and_eq_true, decide_eq_true_eq]
          refine ⟨himg, ?_⟩
          cases hs : B.2 with
          | none => rfl
          | some j => simpa using hB2 j hs
      · intro p hp
        simp only [List.length_append, List.length_singleton]
        rcases mem_mapInsert _ _ _ _ hp with h | h
        · have := hB1.texIdx p h; omega
        · subst h; simp
      · intro g hg
        exact materialOK_mono (hB1.mats g hg) (by simp)

theorem addTexOpt_trefs (th : Nat → Option PTexture) (w : W) (o : Option Nat) (r : W × Option TexInfo)
    (h : addTexOpt th w o = .ok r) (hw : TRefs w) :
    TRefs r.1 ∧ (∀ ti, r.2 = some ti → ti.index < r.1.textures.length) ∧ w.textures.length ≤ r.1.textures.length
    ∧ r.1.materials = w.materials := by
  unfold addTexOpt at h
  split at h
  · injection h with h; subst h; exact ⟨hw, by simp, Nat.le_refl _, rfl⟩
  · split at h
    · cases h
    · injection h with h; subst h
      obtain ⟨h1, h2, h3, h4⟩ := addTexture_trefs w _ _ hw
      exact ⟨h1, fun ti hti => by injection hti with hti; subst hti; exact h2, h3, h4⟩

theorem addTexList_trefs (th : Nat → Option PTexture) (w : W) (l : List (String × Nat)) (r : W × List (String × TexInfo))
    (h : addTexList th w l = .ok r) (hw : TRefs w) :
    TRefs r.1 ∧ (∀ kt ∈ r.2, kt.2.index < r.1.textures.length) ∧ w.textures.length ≤ r.1.textures.length
    ∧ r.1.materials = w.materials := by
  induction l generalizing w r with
  | nil => simp [addTexList] at h; subst h; exact ⟨hw, by simp, Nat.le_refl _, rfl⟩
  | cons kt l ih =>
    obtain ⟨k, id⟩ := kt
    simp only [addTexList] at h
    split at h
    · cases h
    · split at h
      · cases h
      · rename_i _ t _ _ w2 l2 h2
        injection h with h; subst h
        obtain ⟨a1, a2, a3, a4⟩ := addTexture_trefs w id t hw
        obtain ⟨b1, b2, b3, b4⟩ := ih _ _ h2 a1
        refine ⟨b1, ?_, Nat.le_trans a3 b3, b4.trans a4⟩
        intro x hx
        simp only [List.mem_cons] at hx
        rcases hx with rfl | hx
        · exact Nat.lt_of_lt_of_le a2 b3
        · exact b2 x hx

theorem addMatExts_trefs (th : Nat → Option PTexture) (w : W) (l : List PMatExt) (r : W × List GMatExt)
    (h : addMatExts th w l = .ok r) (hw : TRefs w) :
    TRefs r.1 ∧ (∀ e ∈ r.2, ∀ kt ∈ e.texs, kt.2.index < r.1.textures.length) ∧ w.textures.length ≤ r.1.textures.length
    ∧ r.1.materials = w.materials := by
  induction l generalizing w r with
  | nil => simp [addMatExts] at h; subst h; exact ⟨hw, by simp, Nat.le_refl _, rfl⟩
  | cons e l ih =>
    simp only [addMatExts] at h
    split at h
    · cases h
    · rename_i w1 tis h1
      split at h
      · cases h
      · rename_i w2 l2 h2
        injection h with h; subst h
        obtain ⟨a1, a2, a3, a4⟩ := addTexList_trefs th w e.texs _ h1 hw
        have a1' : TRefs { w1 with extUsed := setInsert w1.extUsed e.id } := trefs_of_texPart a1 rfl
        obtain ⟨b1, b2, b3, b4⟩ := ih _ _ h2 a1'
        refine ⟨b1, ?_, Nat.le_trans a3 b3, b4.trans a4⟩
        intro x hx kt hkt
        simp only [List.mem_cons] at hx
        rcases hx with rfl | hx
        · exact Nat.lt_of_lt_of_le (a2 kt hkt) b3
        · exact b2 x hx kt hkt

theorem mem_texInfos_build (m : PMaterial) (bct mrt : Option TexInfo) (exts : List GMatExt) (nt ot : Option TexInfo)
    (t : TexInfo) (h : t ∈ (buildMaterial m bct mrt exts nt ot).texInfos) :
    bct = some t ∨ mrt = some t ∨ nt = some t ∨ ot = some t ∨ ∃ e ∈ exts, ∃ kt ∈ e.texs, kt.2 = t := by
  unfold GMaterial.texInfos buildMaterial at h
  simp only [List.mem_append, Option.mem_toList, List.mem_flatMap, List.mem_map] at h
  rcases h with (((h | h) | h) | h) | h
  · exact Or.inl h
  · exact Or.inr (Or.inl h)
  · refine Or.inr (Or.inr (Or.inl ?_))
    cases nt <;> cases hm : m.normalTex <;> simp_all
  · refine Or.inr (Or.inr (Or.inr (Or.inl ?_)))
    cases ot <;> cases hm : m.occlusionTex <;> simp_all
  · obtain ⟨e, he, kt, hkt, rfl⟩ := h
    exact Or.inr (Or.inr (Or.inr (Or.inr ⟨e, he, kt, hkt, rfl⟩)))

/-- `AddMaterial`: every texture reference of the appended material is valid; tables stay in range -/
theorem addMaterial_trefs (th : Nat → Option PTexture) (w : W) (m : PMaterial) (r : W × Nat)
    (h : addMaterial th w m = .ok r) (hw : TRefs w) : TRefs r.1 := by
  unfold addMaterial at h
  split at h
  · split at h
    · injection h with h; subst h; exact hw
    · cases h
  · split at h
    · cases h
    · rename_i r1 h1
      split at h
      · cases h
      · rename_i r2 h2
        split at h
        · cases h
        · rename_i r3 h3
          split at h
          · cases h
          · split at h
            · cases h
            · rename_i r4 h4
              split at h
              · cases h
              · rename_i r5 h5
                injection h with h; subst h
                obtain ⟨a1, a2, a3, a4⟩ := addTexOpt_trefs _ _ _ _ h1 hw
                obtain ⟨b1, b2, b3, b4⟩ := addTexOpt_trefs _ _ _ _ h2 a1
                obtain ⟨c1, c2, c3, c4⟩ := addMatExts_trefs _ _ _ _ h3 b1
                obtain ⟨d1, d2, d3, d4⟩ := addTexOpt_trefs _ _ _ _ h4 c1
                obtain ⟨e1, e2, e3, e4⟩ := addTexOpt_trefs _ _ _ _ h5 d1
                refine ⟨e1.tex, e1.texIdx, ?_⟩
                intro g hg
                simp only [List.mem_append, List.mem_singleton] at hg
                rcases hg with hg | rfl
                · exact e1.mats g hg
                · unfold materialOK
                  simp only [List.all_eq_true, texInfoOK, decide_eq_true_eq]
                  intro t ht
                  rcases mem_texInfos_build _ _ _ _ _ _ t ht with h | h | h | h | ⟨e, he, kt, hkt, rfl⟩
                  · have := a2 t h; omega
                  · have := b2 t h; omega
                  · have := d2 t h; omega
                  · exact e2 t h
                  · have := c2 e he kt hkt; omega

theorem texPart_writeAttrs (w : W) (acc : List (String × Nat)) (l : List Attr) :
    texPart (writeAttrs w acc l).1 = texPart w := by
  induction l generalizing w acc with
  | nil => rfl
  | cons a r ih => simp only [writeAttrs]; rw [ih]; rfl

theorem texPart_writeMeshData (w : W) (id : Nat) (m : PMesh) : texPart (writeMeshData w id m).1 = texPart w := by
  have := texPart_writeAttrs w [] m.written
  simp only [texPart, Prod.mk.injEq] at this ⊢
  exact this

theorem texPart_addMesh (w : W) (name : String) (id : Nat) (m : PMesh) (mat : Option Nat) :
    texPart (addMesh w name id m mat).1 = texPart w := by
  unfold addMesh
  split
  · rfl
  · split
    · rfl
    · simp only [meshDataFor]
      split
      · rfl
      · have := texPart_writeMeshData { w with meshIdx := mapInsert w.meshIdx (id, mat) w.meshes.length } id m
        simp only [texPart, Prod.mk.injEq] at this ⊢
        exact this

theorem texPart_addInstances (w : W) (inst : List (List Nat)) : texPart (addInstances w inst).1 = texPart w := by
  unfold addInstances
  split <;> rfl

theorem addModel_trefs (s : Scene) (w w' : W) (md : Model) (hw : TRefs w) (h : addModel s w md = .ok w') : TRefs w' := by
  unfold addModel at h
  split at h
  · cases h
  · split at h
    · cases h
    · rename_i _ id _ _ m hm
      split at h
      · injection h with h; subst h; exact hw
      · split at h
        · cases h
        · rename_i r hr
          have hgate := gate_ok s w md _ r hr
          have hr := hgate.2
          have h1 : TRefs r.1 := by
            unfold addModelMaterial at hr
            split at hr
            · injection hr with hr; subst hr; exact hw
            · split at hr
              · cases hr
              · split at hr
                · cases hr
                · rename_i r' h'
                  injection hr with hr; subst hr
                  exact addMaterial_trefs _ _ _ _ h' hw
          have h2 : TRefs (addMesh r.1 md.name id m r.2).1 := trefs_of_texPart h1 (texPart_addMesh _ _ _ _ _)
          simp only at h
          split at h
          · injection h with h; subst h; exact h2
          · injection h with h; subst h
            exact trefs_of_texPart (trefs_of_texPart h2 (texPart_addInstances _ _)) rfl

theorem addModels_trefs (s : Scene) (w w' : W) (l : List Model) (hw : TRefs w) (h : addModels s w l = .ok w') : TRefs w' := by
  induction l generalizing w with
  | nil => simp [addModels] at h; subst h; exact hw
  | cons md r ih =>
    simp only [addModels] at h
    split at h
    · cases h
    · rename_i w1 h1
      exact ih w1 (addModel_trefs s w w1 md hw h1) h

theorem addLights_trefs (w : W) (l : List (List Nat)) (hw : TRefs w) : TRefs (l.foldl addLight w) := by
  induction l generalizing w with
  | nil => exact hw
  | cons p r ih => exact ih _ (trefs_of_texPart hw rfl)

theorem scene_trefs (s : Scene) (w : W) (h : writeScene s = .ok w) : TRefs w := by
  unfold writeScene at h
  split at h
  · cases h
  · rename_i w1 h1
    split at h
    · injection h with h; subst h
      unfold addScene at h1
      split at h1
      · cases h1
      · rename_i w0 h0
        injection h1 with h1; subst h1
        exact addLights_trefs _ _ (addModels_trefs s {} w0 s.models ⟨by simp, by simp, by simp⟩ h0)
    · cases h

/-- INDEX REFERENCES, complete, for every scene the writer accepts (no well-formedness needed): primitive → attribute /
    index accessors and material; node → mesh, instancing accessors, light; scene → nodes; material → textures (base
    colour, metallic-roughness, normal, occlusion, extension textures); texture → image and sampler; and all dedup
    tables (material tracker, mesh table, written-mesh table, texture table) only hold valid indices.
    (accessor → bufferView and bufferView → buffer ranges: `scene_valid_low`.) -/
theorem gltf_refs_in_range (s : Scene) (w : W) (h : writeScene s = .ok w) : MRefs 0 w ∧ TRefs w :=
  ⟨gltf_refs_in_range_partial s w h, scene_trefs s w h⟩

/-- the same as Bools on the document: the node / scene / material / texture conjuncts of `valid` -/
theorem scene_refs_ok (s : Scene) (w : W) (h : writeScene s = .ok w) :
    w.scene.all (fun n => decide (n < w.nodes.length)) = true
    ∧ w.materials.all (materialOK w.textures.length) = true
    ∧ w.textures.all (textureOK w.images.length w.samplers.length) = true := by
  obtain ⟨hm, ht⟩ := gltf_refs_in_range s w h
  simp only [List.all_eq_true, decide_eq_true_eq]
  exact ⟨hm.scene, ht.mats, ht.tex⟩

end C06
end PolyVerif
