/-
  C12, artifact clause — "for nodes that are deterministic functions of their inputs, artifacts with identical content".

  The saved-graph model (`PolyVerif.Model.GraphIO`) is abstracted to the evaluation model of C11
  (`PolyVerif.Model.Nodes`): nodes are numbered by their position in the node list, parameters become
  `param` nodes carrying the value their payload denotes, struct nodes become `struct` nodes whose `Process()` is the
  processor REGISTERED FOR THE NODE TYPE (`Procs.proc ty` — a Lean function, i.e. deterministic by assumption, exactly
  the property's guard), wired through the type's ports in the type's port order, array order included, and never
  processed (`remembered = none`: a fresh application).  `reload_same_artifacts` combines `decode_encode` with C11's
  `read_fresh`.  Property theorems only; helpers are named `*_aux`.
-/
import PolyVerif.Props.C12
import PolyVerif.Props.C11
import PolyVerif.Lemmas.GraphEval
import PolyVerif.Lemmas.GraphSim

namespace PolyVerif
namespace C12
open GraphIO

variable {V J W : Type}

/-- **Artifacts**, relative to a runtime state that holds the edited graph.  Hypotheses, all named:
    * `hE`, `hw`, `hc`, `hf` — those of `decode_encode`;
    * DETERMINISTIC PROCESSORS — `P : Procs V W` (functions of the wiring shape and the pulled values);
    * the ORIGINAL application — a C11 runtime state reached from a never-processed state `g0` by any history `ops`
      of C11 calls that keeps the graph ACYCLIC (`h0`, `hv`: the Go API has no cycle check and a cycle makes evaluation
      diverge) and that HOLDS the edited graph `g` under some numbering `σ` of its nodes (`hG`;
      `edit_simulation` below shows that the runtime reached by the editing operations does).
    Then loading the saved file into a fresh application succeeds, that application is never-processed and acyclic,
    and reading ANY node `n` of the graph — a producer in particular — returns in the reloaded application exactly what
    it returns in the original one: the from-scratch value of the edited graph. -/
theorem reload_same_artifacts {E : Env V J} (hE : EnvOK E) {cmp : Name → Name → Bool} {g : Graph V} (hw : WF E g)
    (hc : ∀ n ∈ g.nodes, ∀ T, E.types n.ty = some T → CmpOK cmp T n) (hf : FilePayloadLast E g)
    (P : Procs V W) {F : Nat} (g0 : Nodes.Graph W) (h0 : Nodes.Init F g0) (ops : List (Nodes.Op W))
    (hv : Nodes.Valid F g0 ops) (σ : Id → Nat) (hG : Holds P E σ (Nodes.run F g0 ops).1 g)
    (n : GraphIO.Node V) (hn : n ∈ g.nodes) :
    ∃ g', decode E Hdr.empty (encode E cmp g) = .ok g' ∧ Nodes.Init F (absGraph P E g') ∧
      Nodes.val (Nodes.step F (absGraph P E g') (.read (idxOf g' n.id))).1 (idxOf g' n.id) =
        Nodes.Spec F (absGraph P E g) (idxOf g n.id) ∧
      Nodes.val (Nodes.step F (Nodes.run F g0 ops).1 (.read (σ n.id))).1 (σ n.id) =
        Nodes.Spec F (absGraph P E g) (idxOf g n.id) := by
  obtain ⟨rank, hr⟩ := (C11.reachable_inv g0 h0 ops hv).wf
  have hr2 := absGraph_ranked hw hG hr
  have hinit : Nodes.Init F (absGraph P E g) := ⟨⟨_, hr2⟩, absGraph_unprocessed P E g⟩
  have hidx : idxOf g.norm n.id = idxOf g n.id := by
    simp only [idxOf, Graph.norm, findIdx_map_aux]; congr 1
  refine ⟨g.norm, decode_encode hE hw hc hf, ?_, ?_, ?_⟩
  · rw [absGraph_norm]; exact hinit
  · rw [absGraph_norm, hidx]
    exact C11.read_fresh (absGraph P E g) hinit [] trivial _
  · rw [C11.read_fresh g0 h0 ops hv (σ n.id)]
    exact spec_corr hw hG (absGraph_holds P E hw.nodup) hr hr2 n hn

/-! ### the editing session on the runtime (Lemmas/GraphSim: how each editing operation acts on C11's graph) -/

/-- the editing operations of a session, reads dropped -/
def editsOf : List (Ev J) → List (Op J)
  | [] => []
  | .edit op :: r => op :: editsOf r
  | .read _ :: r => editsOf r

/-- the edited graph of a session is the C12 `run` of its editing operations (reads do not edit) -/
theorem session_graph (P : Procs V W) (E : Env V J) (s : Sim V) (evs : List (Ev J)) :
    (simRun P E s evs).1.g = run E s.g (editsOf evs) := by
  induction evs generalizing s with
  | nil => rfl
  | cons ev evs ih =>
    simp only [simRun]
    rw [ih]
    cases ev with
    | read id =>
      have : (simStep P E s (.read id)).1 = s := by simp only [simStep]; split <;> rfl
      rw [this]; rfl
    | edit op =>
      have : (simStep P E s (.edit op)).1.g = stepTotal E s.g op := by
        simp only [simStep, stepTotal]
        split <;> simp_all
      rw [this]; rfl

/-- **The simulation.**  For EVERY session — any interleaving of editing operations (failing ones included) and reads of
    arbitrary nodes — started in a new application: the C11 runtime graph reached by the C11 calls the session makes
    (`simRun … .2`: connect / disconnect / set value as `setInput`, `arrayAdd`, `arrayRemove`, `setParam`; reads as
    `read`; create / delete / names / producers / metadata make no call), started from the graph in which the nodes the
    session will create already sit unwired in their slots, HOLDS the edited graph `run E (Graph.init h) (editsOf evs)`
    under the session's slot numbering: every node of the edited graph has, at its slot, a runtime node with its
    parameter value, resp. its type's processor and exactly its wiring (array order included) — whatever the caches,
    versions and flags have become.  The edited graph is well-formed, slots are distinct. -/
theorem edit_simulation {E : Env V J} (hE : EnvOK E) (P : Procs V W) {F : Nat} (h : Hdr) (evs : List (Ev J)) :
    let r := simRun P E (Sim.init h) evs
    Holds P E r.1.σ (Nodes.run F (preGraph P E (createdTys P E (Sim.init h) evs)) r.2).1 r.1.g ∧
      r.1.g = run E (Graph.init h) (editsOf evs) ∧ WF E r.1.g ∧
      (∀ n ∈ r.1.g.nodes, ∀ m ∈ r.1.g.nodes, r.1.σ n.id = r.1.σ m.id → n.id = m.id) := by
  have hI := sim_run hE (F := F) evs (simInv_init P E h (createdTys P E (Sim.init h) evs))
  exact ⟨hI.holds, session_graph P E _ evs, hI.wf, hI.inj⟩

/-- **Artifacts, for every reachable state** (no `HoldsGraph` hypothesis left).  Environmental hypotheses only:
    `hE` (registered types sane, payload law), the comparator fit `hc` and at most one binary payload `hf` on the graph
    that is saved (those of `decode_encode`), DETERMINISTIC PROCESSORS `P`, and ACYCLICITY of the session `hv` (the graph
    is acyclic after every C11 call: the Go API does not reject cycles — `ConnectNodes` has no check — and a cycle
    makes evaluation diverge).  Then for every node `n` of the edited graph — a producer in particular: the saved file
    loads into a fresh application and reading `n` there returns exactly what reading `n` returns in the application
    that was edited (and read) all along. -/
theorem reload_same_artifacts_reachable {E : Env V J} (hE : EnvOK E) {cmp : Name → Name → Bool} (P : Procs V W)
    {F : Nat} (hF : 0 < F) (h : Hdr) (evs : List (Ev J))
    (hv : Nodes.Valid F (preGraph P E (createdTys P E (Sim.init h) evs)) (simRun P E (Sim.init h) evs).2)
    (hc : ∀ n ∈ (simRun P E (Sim.init h) evs).1.g.nodes, ∀ T, E.types n.ty = some T → CmpOK cmp T n)
    (hf : FilePayloadLast E (simRun P E (Sim.init h) evs).1.g)
    (n : GraphIO.Node V) (hn : n ∈ (simRun P E (Sim.init h) evs).1.g.nodes) :
    ∃ g', decode E Hdr.empty (encode E cmp (simRun P E (Sim.init h) evs).1.g) = .ok g' ∧
      Nodes.val (Nodes.step F (absGraph P E g') (.read (idxOf g' n.id))).1 (idxOf g' n.id) =
      Nodes.val (Nodes.step F (Nodes.run F (preGraph P E (createdTys P E (Sim.init h) evs))
          (simRun P E (Sim.init h) evs).2).1 (.read ((simRun P E (Sim.init h) evs).1.σ n.id))).1
        ((simRun P E (Sim.init h) evs).1.σ n.id) := by
  obtain ⟨hH, _, hw, _⟩ := edit_simulation hE P (F := F) h evs
  obtain ⟨g', hd, _, h1, h2⟩ := reload_same_artifacts hE hw hc hf P _ (preGraph_init P E _ hF) _ hv _ hH n hn
  exact ⟨g', hd, h1.trans h2.symm⟩

/-! ### an instance: a text producer over a title and an ordered array of parts -/

/-- `P`: a value parameter (output type 1); `T`: a struct with scalar input `Title` and array input `Parts`, producing an
    artifact (output type `artTy`) -/
def aEnv : Env Nat Nat :=
  { types := fun t => if t = "P" then some { out := 1, scal := [], arrs := [], param := some .value }
                      else if t = "T" then some { out := artTy, scal := [("Title".toList, 1)], arrs := [("Parts".toList, 1)], param := none }
                      else none,
    dflt := fun _ => some 0, toJ := id, fromJ := fun _ j => some j, cat := fun a b => a + b }

/-- create `T`, three parameters with values 5, 6, 7; title ← 5, parts ← [6, 7]; `T` is the producer of out.txt -/
def aGraph : Graph Nat :=
  run aEnv (Graph.init Hdr.empty)
    [.create "T", .create "P", .create "P", .create "P",
     .setValue "Node-1" 5, .setValue "Node-2" 6, .setValue "Node-3" 7,
     .connect "Node-1" "Out" "Node-0" "Title".toList,
     .connect "Node-2" "Out" "Node-0" "Parts.0".toList, .connect "Node-3" "Out" "Node-0" "Parts.1".toList,
     .setProducer "Node-0" "out.txt"]

/-- the artifact of `T` is the list of the values it pulled, in dependency order (title, then the parts in order) -/
def aProcs : Procs Nat (List Nat) :=
  { proc := fun _ _ _ vals => vals.flatMap (fun v => v.getD []),
    next := fun _ _ _ es => Nodes.nextAll es,
    paramVal := fun _ v => [v.getD 0],
    idle := [] }

def aRank (i : Nat) : Nat := if i = 0 then 1 else 0

def depsAt (G : Nodes.Graph (List Nat)) (i : Nat) : Option (List Nat) :=
  match G i with
  | .struct s => some s.deps
  | .param _ _ => none

theorem aGraph_ranked : Nodes.Ranked aRank 2 (absGraph aProcs aEnv aGraph) := by
  refine ⟨fun i => by unfold aRank; split <;> omega, ?_⟩
  intro i s hs d hd
  have key : ∀ j, depsAt (absGraph aProcs aEnv aGraph) j = if j = 0 then some [1, 2, 3] else none := by
    intro j
    match j with
    | 0 => decide
    | 1 => decide
    | 2 => decide
    | 3 => decide
    | j + 4 =>
      have hlen : aGraph.nodes.length = 4 := by decide
      have : aGraph.nodes[j + 4]? = none := List.getElem?_eq_none (by omega)
      simp [depsAt, absGraph, this]
  have hk := key i
  simp only [depsAt, hs] at hk
  by_cases hi : i = 0
  · subst hi
    simp only [if_true, Option.some.injEq] at hk
    rw [hk] at hd
    simp only [List.mem_cons, List.not_mem_nil, or_false] at hd
    rcases hd with rfl | rfl | rfl <;> decide
  · simp [hi] at hk

/-- the hypotheses of `reload_same_artifacts` are satisfiable with a non-trivial graph (the original application being,
    e.g., the never-read one) and the common artifact is the title followed by the parts IN ORDER -/
example :
    Nodes.Init 2 (absGraph aProcs aEnv aGraph) ∧ FilePayloadLast aEnv aGraph ∧ aGraph.prods = [("out.txt", ⟨"Node-0", "Out"⟩)] ∧
    Holds aProcs aEnv (idxOf aGraph) (Nodes.run 2 (absGraph aProcs aEnv aGraph) []).1 aGraph ∧
    Nodes.val (Nodes.step 2 (absGraph aProcs aEnv aGraph) (.read (idxOf aGraph "Node-0"))).1 (idxOf aGraph "Node-0") = [5, 6, 7] := by
  refine ⟨⟨⟨aRank, aGraph_ranked⟩, absGraph_unprocessed _ _ _⟩, by decide, by decide, ?_, by decide⟩
  exact absGraph_holds _ _ (by decide)

/-- a session with a delete, an id that is not a list position, and reads in the middle: two parameters are created,
    the first is deleted, a text node is created (id `Node-2`, slot 2, list position 1), wired, read, edited, read -/
def aSession : List (Ev Nat) :=
  [.edit (.create "P"), .edit (.create "P"), .edit (.delete "Node-0"), .edit (.create "T"),
   .edit (.setValue "Node-1" 6), .edit (.connect "Node-1" "Out" "Node-2" "Parts.0".toList), .read "Node-2",
   .edit (.create "P"), .edit (.setValue "Node-3" 7), .edit (.connect "Node-3" "Out" "Node-2" "Parts.5".toList),
   .edit (.connect "Node-3" "Out" "Node-2" "NoSuchPort".toList), .read "Node-9", .read "Node-2"]

def aSessionRank (i : Nat) : Nat := if i = 2 then 1 else 0

theorem aSession_ops : (simRun aProcs aEnv (Sim.init Hdr.empty) aSession).2 =
    [.setParam 1 [6], .arrayAdd 2 0 1, .read 2, .setParam 3 [7], .arrayAdd 2 0 3, .read 2] := by
  rfl

/-- the hypotheses of `reload_same_artifacts_reachable` hold for this session, and both applications read `[6, 7]` -/
example :
    Nodes.Valid 2 (preGraph aProcs aEnv (createdTys aProcs aEnv (Sim.init Hdr.empty) aSession))
      (simRun aProcs aEnv (Sim.init Hdr.empty) aSession).2 ∧
    FilePayloadLast aEnv (simRun aProcs aEnv (Sim.init Hdr.empty) aSession).1.g ∧
    (simRun aProcs aEnv (Sim.init Hdr.empty) aSession).1.g.nodes.map (·.id) = ["Node-1", "Node-2", "Node-3"] ∧
    (simRun aProcs aEnv (Sim.init Hdr.empty) aSession).1.σ "Node-2" = 2 ∧
    idxOf (simRun aProcs aEnv (Sim.init Hdr.empty) aSession).1.g "Node-2" = 1 ∧
    Nodes.val (Nodes.step 2 (absGraph aProcs aEnv (simRun aProcs aEnv (Sim.init Hdr.empty) aSession).1.g) (.read 1)).1 1 = [6, 7] := by
  refine ⟨?_, by decide, by decide, by decide, by decide, by decide⟩
  rw [aSession_ops]
  apply C11.valid_fixed_numbering aSessionRank _ (preGraph_ranked _ _ _ aSessionRank (by intro i; unfold aSessionRank; split <;> omega))
  intro op hop
  simp only [List.mem_cons, List.not_mem_nil, or_false] at hop
  rcases hop with rfl | rfl | rfl | rfl | rfl | rfl <;> simp [Nodes.opRanked, aSessionRank]

end C12
end PolyVerif
