/-
  C12, artifact clause — "for nodes that are deterministic functions of their inputs, artifacts with identical content".

  The saved-graph model (`PolyVerif.Model.GraphIO`) is abstracted to the evaluation model of C11
  (`PolyVerif.Model.Nodes`): nodes are numbered by their position in the node list, parameters become
  `param` nodes carrying the value their payload denotes, struct nodes become `struct` nodes whose `Process()` is the
  processor REGISTERED FOR THE NODE TYPE (`Procs.proc ty` — a Lean function, i.e. deterministic by assumption, exactly
  the property's guard), wired through the type's ports in the type's port order, array order included, and never
  processed (`remembered = none`: a fresh application).  `reload_same_artifacts` combines `decode_encode` with C11's
  `read_fresh`.  Property theorems only; helpers are named `*_aux`.
-/
import PolyVerif.Props.C12
import PolyVerif.Props.C11
import PolyVerif.Lemmas.GraphEval

namespace PolyVerif
namespace C12
open GraphIO

variable {V J W : Type}

/-- **Artifacts**, relative to a runtime state that holds the edited graph.  Hypotheses, all named:
    * `hE`, `hw`, `hc`, `hf` — those of `decode_encode`;
    * DETERMINISTIC PROCESSORS — `P : Procs V W` (functions of the wiring shape and the pulled values);
    * the ORIGINAL application — a C11 runtime state reached from a never-processed state `g0` by any history `ops`
      of C11 calls that keeps the graph ACYCLIC (`h0`, `hv`: the Go API has no cycle check and a cycle makes evaluation
      diverge) and that HOLDS the edited graph `g` under some numbering `σ` of its nodes (`hG`;
      `edit_simulation` below shows that the runtime reached by the editing operations does).
    Then loading the saved file into a fresh application succeeds, that application is never-processed and acyclic,
    and reading ANY node `n` of the graph — a producer in particular — returns in the reloaded application exactly what
    it returns in the original one: the from-scratch value of the edited graph. -/
theorem reload_same_artifacts {E : Env V J} (hE : EnvOK E) {cmp : Name → Name → Bool} {g : Graph V} (hw : WF E g)
    (hc : ∀ n ∈ g.nodes, ∀ T, E.types n.ty = some T → CmpOK cmp T n) (hf : FilePayloadLast E g)
    (P : Procs V W) {F : Nat} (g0 : Nodes.Graph W) (h0 : Nodes.Init F g0) (ops : List (Nodes.Op W))
    (hv : Nodes.Valid F g0 ops) (σ : Id → Nat) (hG : Holds P E σ (Nodes.run F g0 ops).1 g)
    (n : GraphIO.Node V) (hn : n ∈ g.nodes) :
    ∃ g', decode E Hdr.empty (encode E cmp g) = .ok g' ∧ Nodes.Init F (absGraph P E g') ∧
      Nodes.val (Nodes.step F (absGraph P E g') (.read (idxOf g' n.id))).1 (idxOf g' n.id) =
        Nodes.Spec F (absGraph P E g) (idxOf g n.id) ∧
      Nodes.val (Nodes.step F (Nodes.run F g0 ops).1 (.read (σ n.id))).1 (σ n.id) =
        Nodes.Spec F (absGraph P E g) (idxOf g n.id) := by
  obtain ⟨rank, hr⟩ := (C11.reachable_inv g0 h0 ops hv).wf
  have hr2 := absGraph_ranked hw hG hr
  have hinit : Nodes.Init F (absGraph P E g) := ⟨⟨_, hr2⟩, absGraph_unprocessed P E g⟩
  have hidx : idxOf g.norm n.id = idxOf g n.id := by
    simp only [idxOf, Graph.norm, findIdx_map_aux]; congr 1
  refine ⟨g.norm, decode_encode hE hw hc hf, ?_, ?_, ?_⟩
  · rw [absGraph_norm]; exact hinit
  · rw [absGraph_norm, hidx]
    exact C11.read_fresh (absGraph P E g) hinit [] trivial _
  · rw [C11.read_fresh g0 h0 ops hv (σ n.id)]
    exact spec_corr hw hG (absGraph_holds P E hw.nodup) hr hr2 n hn

/-! ### an instance: a text producer over a title and an ordered array of parts -/

/-- `P`: a value parameter (output type 1); `T`: a struct with scalar input `Title` and array input `Parts`, producing an
    artifact (output type `artTy`) -/
def aEnv : Env Nat Nat :=
  { types := fun t => if t = "P" then some { out := 1, scal := [], arrs := [], param := some .value }
                      else if t = "T" then some { out := artTy, scal := [("Title".toList, 1)], arrs := [("Parts".toList, 1)], param := none }
                      else none,
    dflt := fun _ => some 0, toJ := id, fromJ := fun _ j => some j, cat := fun a b => a + b }

/-- create `T`, three parameters with values 5, 6, 7; title ← 5, parts ← [6, 7]; `T` is the producer of out.txt -/
def aGraph : Graph Nat :=
  run aEnv (Graph.init Hdr.empty)
    [.create "T", .create "P", .create "P", .create "P",
     .setValue "Node-1" 5, .setValue "Node-2" 6, .setValue "Node-3" 7,
     .connect "Node-1" "Out" "Node-0" "Title".toList,
     .connect "Node-2" "Out" "Node-0" "Parts.0".toList, .connect "Node-3" "Out" "Node-0" "Parts.1".toList,
     .setProducer "Node-0" "out.txt"]

/-- the artifact of `T` is the list of the values it pulled, in dependency order (title, then the parts in order) -/
def aProcs : Procs Nat (List Nat) :=
  { proc := fun _ _ _ vals => vals.flatMap (fun v => v.getD []),
    next := fun _ _ _ es => Nodes.nextAll es,
    paramVal := fun _ v => [v.getD 0],
    idle := [] }

def aRank (i : Nat) : Nat := if i = 0 then 1 else 0

def depsAt (G : Nodes.Graph (List Nat)) (i : Nat) : Option (List Nat) :=
  match G i with
  | .struct s => some s.deps
  | .param _ _ => none

theorem aGraph_ranked : Nodes.Ranked aRank 2 (absGraph aProcs aEnv aGraph) := by
  refine ⟨fun i => by unfold aRank; split <;> omega, ?_⟩
  intro i s hs d hd
  have key : ∀ j, depsAt (absGraph aProcs aEnv aGraph) j = if j = 0 then some [1, 2, 3] else none := by
    intro j
    match j with
    | 0 => decide
    | 1 => decide
    | 2 => decide
    | 3 => decide
    | j + 4 =>
      have hlen : aGraph.nodes.length = 4 := by decide
      have : aGraph.nodes[j + 4]? = none := List.getElem?_eq_none (by omega)
      simp [depsAt, absGraph, this]
  have hk := key i
  simp only [depsAt, hs] at hk
  by_cases hi : i = 0
  · subst hi
    simp only [if_true, Option.some.injEq] at hk
    rw [hk] at hd
    simp only [List.mem_cons, List.not_mem_nil, or_false] at hd
    rcases hd with rfl | rfl | rfl <;> decide
  · simp [hi] at hk

/-- the hypotheses of `reload_same_artifacts` are satisfiable with a non-trivial graph (the original application being,
    e.g., the never-read one) and the common artifact is the title followed by the parts IN ORDER -/
example :
    Nodes.Init 2 (absGraph aProcs aEnv aGraph) ∧ FilePayloadLast aEnv aGraph ∧ aGraph.prods = [("out.txt", ⟨"Node-0", "Out"⟩)] ∧
    Holds aProcs aEnv (idxOf aGraph) (Nodes.run 2 (absGraph aProcs aEnv aGraph) []).1 aGraph ∧
    Nodes.val (Nodes.step 2 (absGraph aProcs aEnv aGraph) (.read (idxOf aGraph "Node-0"))).1 (idxOf aGraph "Node-0") = [5, 6, 7] := by
  refine ⟨⟨⟨aRank, aGraph_ranked⟩, absGraph_unprocessed _ _ _⟩, by decide, by decide, ?_, by decide⟩
  exact absGraph_holds _ _ (by decide)

end C12
end PolyVerif
