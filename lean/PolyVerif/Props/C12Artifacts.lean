/-
  C12, artifact clause — "for nodes that are deterministic functions of their inputs, artifacts with identical content".

  The saved-graph model (`PolyVerif.Model.GraphIO`) is abstracted to the evaluation model of C11
  (`PolyVerif.Model.Nodes`): nodes are numbered by their position in the node list, parameters become
  `param` nodes carrying the value their payload denotes, struct nodes become `struct` nodes whose `Process()` is the
  processor REGISTERED FOR THE NODE TYPE (`Procs.proc ty` — a Lean function, i.e. deterministic by assumption, exactly
  the property's guard), wired through the type's ports in the type's port order, array order included, and never
  processed (`remembered = none`: a fresh application).  `reload_same_artifacts` combines `decode_encode` with C11's
  `read_fresh`.  Property theorems only; helpers are named `*_aux`.
-/
import PolyVerif.Props.C12
import PolyVerif.Props.C11

namespace PolyVerif
namespace C12
open GraphIO

variable {V J W : Type}

/-- what evaluation needs beyond the saved graph: per node TYPE its `Process()` as a function of the wiring and of the
    pulled input values (C11's `SNode.fn` — deterministic because it is a function), which inputs it pulls
    (`SNode.reads`), the value a parameter node of a type outputs for its payload, and the content of a cache nobody
    has filled yet -/
structure Procs (V W : Type) where
  proc : TyName → List (Option Nat) → List (List Nat) → List (Option W) → W
  reads : TyName → List (Option W) → Bool
  paramVal : TyName → Option V → W
  idle : W

/-- the number of node `id`: its position in the node list -/
def idxOf (g : Graph V) (id : Id) : Nat := g.nodes.findIdx (fun n => n.id = id)

/-- one node as C11 sees it in a FRESH application -/
def absNode (P : Procs V W) (E : Env V J) (g : Graph V) (n : GraphIO.Node V) : Nodes.Node W :=
  match E.types n.ty with
  | none => .param P.idle 0
  | some T =>
    match T.param with
    | some _ => .param (P.paramVal n.ty (n.par.bind Param.value)) 0
    | none =>
      .struct { fn := P.proc n.ty, reads := P.reads n.ty,
                scalars := T.scal.map (fun p => (n.scal p.1).map (fun r => idxOf g r.node)),
                arrays := T.arrs.map (fun p => (n.arrs p.1).map (fun r => idxOf g r.node)),
                cache := P.idle, version := 0, remembered := none, flag := true }

/-- the saved-graph model seen as a C11 graph (a total map; positions past the end are idle parameters) -/
def absGraph (P : Procs V W) (E : Env V J) (g : Graph V) : Nodes.Graph W := fun i =>
  match g.nodes[i]? with
  | some n => absNode P E g n
  | none => .param P.idle 0

/-- two runtime nodes with the same static content: parameter value, resp. processor and wiring (array order included);
    caches, versions, remembered versions and flags may differ -/
def staticEq : Nodes.Node W → Nodes.Node W → Prop
  | .param x _, .param y _ => x = y
  | .struct s, .struct t => s.fn = t.fn ∧ s.reads = t.reads ∧ s.scalars = t.scalars ∧ s.arrays = t.arrays
  | _, _ => False

/-- the runtime state `G` of an application HOLDS the graph `H`: node by node the same static content -/
def HoldsGraph (G H : Nodes.Graph W) : Prop := ∀ i, staticEq (G i) (H i)

theorem specPull_congr_aux {ev ev' : Nat → W} (reads : List (Option W) → Bool) (ds : List Nat) (acc : List (Option W))
    (h : ∀ d ∈ ds, ev d = ev' d) : Nodes.specPull ev reads ds acc = Nodes.specPull ev' reads ds acc := by
  induction ds generalizing acc with
  | nil => rfl
  | cons d ds ih =>
    simp only [Nodes.specPull]
    rw [h d List.mem_cons_self]
    split <;> exact ih _ (fun d' hd' => h d' (List.mem_cons_of_mem _ hd'))

theorem ranked_of_holds_aux {F : Nat} {rank : Nat → Nat} {G H : Nodes.Graph W} (hh : HoldsGraph G H)
    (hr : Nodes.Ranked rank F H) : Nodes.Ranked rank F G := by
  refine ⟨hr.1, ?_⟩
  intro i s hs d hd
  have := hh i
  rw [hs] at this
  cases hH : H i with
  | param x v => simp [hH, staticEq] at this
  | struct t =>
    simp only [hH, staticEq] at this
    apply hr.2 i t hH d
    simpa [Nodes.SNode.deps, this.2.2.1, this.2.2.2] using hd

/-- the from-scratch value depends only on the static content -/
theorem spec_static_aux {F : Nat} {rank : Nat → Nat} {G H : Nodes.Graph W} (hh : HoldsGraph G H)
    (hr : Nodes.Ranked rank F H) (i : Nat) : Nodes.Spec F G i = Nodes.Spec F H i := by
  have hrG := ranked_of_holds_aux hh hr
  induction hk : rank i using Nat.strongRecOn generalizing i with
  | _ k ih =>
    rw [Nodes.Spec_eq G hrG i, Nodes.Spec_eq H hr i]
    have := hh i
    cases hG : G i with
    | param x v =>
      cases hH : H i with
      | param y w => simpa [hG, hH, staticEq] using this
      | struct t => simp [hG, hH, staticEq] at this
    | struct s =>
      cases hH : H i with
      | param y w => simp [hG, hH, staticEq] at this
      | struct t =>
        simp only [hG, hH, staticEq] at this
        obtain ⟨h1, h2, h3, h4⟩ := this
        have hdeps : s.deps = t.deps := by simp [Nodes.SNode.deps, h3, h4]
        simp only
        rw [h1, h2, h3, h4, hdeps]
        congr 1
        apply specPull_congr_aux
        intro d hd
        exact ih (rank d) (hk ▸ hr.2 i t hH d hd) d rfl

theorem findIdx_map_aux {α β : Type} (f : α → β) (p : β → Bool) (l : List α) :
    (l.map f).findIdx p = l.findIdx (p ∘ f) := by
  induction l with
  | nil => rfl
  | cons a as ih => simp [List.findIdx_cons, ih]

/-- `norm` (what a reload changes) is invisible to evaluation -/
theorem absGraph_norm (P : Procs V W) (E : Env V J) (g : Graph V) : absGraph P E g.norm = absGraph P E g := by
  have hidx : ∀ id, idxOf g.norm id = idxOf g id := by
    intro id
    simp only [idxOf, Graph.norm, findIdx_map_aux]
    congr 1
  funext i
  simp only [absGraph, Graph.norm, List.getElem?_map]
  cases hn : g.nodes[i]? with
  | none => rfl
  | some n =>
    simp only [Option.map_some, absNode, Node.norm]
    cases hT : E.types n.ty with
    | none => rfl
    | some T =>
      simp only
      cases hk : T.param with
      | some k =>
        simp only
        congr 2
        cases n.par with
        | none => rfl
        | some p => simp [Param.norm_value]
      | none =>
        simp only
        congr 2
        · congr 1; funext p; congr 1; funext r; exact hidx r.node
        · congr 1; funext p; congr 1; funext r; exact hidx r.node

theorem absGraph_init_aux {F : Nat} (P : Procs V W) (E : Env V J) (g : Graph V)
    (hac : Nodes.Acyclic F (absGraph P E g)) : Nodes.Init F (absGraph P E g) := by
  refine ⟨hac, ?_⟩
  intro i s hs
  simp only [absGraph] at hs
  cases hn : g.nodes[i]? with
  | none => simp [hn] at hs
  | some n =>
    simp only [hn, absNode] at hs
    split at hs
    · cases hs
    · split at hs
      · cases hs
      · cases hs; rfl

/-- **Artifacts.**  Hypotheses, all named:
    * `hE`, `hw`, `hc`, `hf` — those of `decode_encode` (registered types sane, the graph well-formed — every graph
      reachable by editing is, `edit_history_wf` —, the comparator fit, at most one File/Image payload);
    * DETERMINISTIC PROCESSORS — `P : Procs V W`: each node type's `Process()` is a function of its wiring and inputs;
    * ACYCLIC — `hac : Acyclic F (absGraph P E g)` (the Go API has no cycle check and a cycle makes evaluation diverge);
    * the ORIGINAL application — any C11 runtime state reached from a never-processed state `g0` by any history `ops`
      of parameter updates, re-wirings and reads (`h0`, `hv`) that HOLDS the edited graph `g` (`hG`: same parameter
      values, processors and wiring; arbitrary caches, versions and flags).
    Then loading the saved file into a fresh application succeeds; that application is in a never-processed state; and
    reading ANY node `i` there — in particular a producer — returns the from-scratch value `Spec` of the edited graph,
    which is also exactly what the original application returns for it. -/
theorem reload_same_artifacts {E : Env V J} (hE : EnvOK E) {cmp : Name → Name → Bool} {g : Graph V} (hw : WF E g)
    (hc : ∀ n ∈ g.nodes, ∀ T, E.types n.ty = some T → CmpOK cmp T n) (hf : FilePayloadLast E g)
    (P : Procs V W) {F : Nat} (hac : Nodes.Acyclic F (absGraph P E g))
    (g0 : Nodes.Graph W) (h0 : Nodes.Init F g0) (ops : List (Nodes.Op W)) (hv : Nodes.Valid F g0 ops)
    (hG : HoldsGraph (Nodes.run F g0 ops).1 (absGraph P E g)) (i : Nat) :
    ∃ g', decode E Hdr.empty (encode E cmp g) = .ok g' ∧ Nodes.Init F (absGraph P E g') ∧
      Nodes.val (Nodes.step F (absGraph P E g') (.read i)).1 i = Nodes.Spec F (absGraph P E g) i ∧
      Nodes.val (Nodes.step F (Nodes.run F g0 ops).1 (.read i)).1 i = Nodes.Spec F (absGraph P E g) i := by
  refine ⟨g.norm, decode_encode hE hw hc hf, ?_, ?_, ?_⟩
  · rw [absGraph_norm]; exact absGraph_init_aux P E g hac
  · have h := C11.read_fresh (absGraph P E g) (absGraph_init_aux P E g hac) [] trivial i
    rw [absGraph_norm]
    exact h
  · obtain ⟨rank, hr⟩ := hac
    rw [C11.read_fresh g0 h0 ops hv i]
    exact spec_static_aux hG hr i

/-! ### an instance: a text producer over a title and an ordered array of parts -/

/-- `P`: a value parameter (output type 1); `T`: a struct with scalar input `Title` and array input `Parts`, producing an
    artifact (output type `artTy`) -/
def aEnv : Env Nat Nat :=
  { types := fun t => if t = "P" then some { out := 1, scal := [], arrs := [], param := some .value }
                      else if t = "T" then some { out := artTy, scal := [("Title".toList, 1)], arrs := [("Parts".toList, 1)], param := none }
                      else none,
    dflt := fun _ => some 0, toJ := id, fromJ := fun _ j => some j, cat := fun a b => a + b }

/-- create `T`, three parameters with values 5, 6, 7; title ← 5, parts ← [6, 7]; `T` is the producer of out.txt -/
def aGraph : Graph Nat :=
  run aEnv (Graph.init Hdr.empty)
    [.create "T", .create "P", .create "P", .create "P",
     .setValue "Node-1" 5, .setValue "Node-2" 6, .setValue "Node-3" 7,
     .connect "Node-1" "Out" "Node-0" "Title".toList,
     .connect "Node-2" "Out" "Node-0" "Parts.0".toList, .connect "Node-3" "Out" "Node-0" "Parts.1".toList,
     .setProducer "Node-0" "out.txt"]

/-- the artifact of `T` is the list of the values it pulled, in dependency order (title, then the parts in order) -/
def aProcs : Procs Nat (List Nat) :=
  { proc := fun _ _ _ vals => vals.flatMap (fun v => v.getD []),
    reads := fun _ _ => true,
    paramVal := fun _ v => [v.getD 0],
    idle := [] }

def aRank (i : Nat) : Nat := if i = 0 then 1 else 0

def depsAt (G : Nodes.Graph (List Nat)) (i : Nat) : Option (List Nat) :=
  match G i with
  | .struct s => some s.deps
  | .param _ _ => none

theorem aGraph_ranked : Nodes.Ranked aRank 2 (absGraph aProcs aEnv aGraph) := by
  refine ⟨fun i => by unfold aRank; split <;> omega, ?_⟩
  intro i s hs d hd
  have key : ∀ j, depsAt (absGraph aProcs aEnv aGraph) j = if j = 0 then some [1, 2, 3] else none := by
    intro j
    match j with
    | 0 => decide
    | 1 => decide
    | 2 => decide
    | 3 => decide
    | j + 4 =>
      have hlen : aGraph.nodes.length = 4 := by decide
      have : aGraph.nodes[j + 4]? = none := List.getElem?_eq_none (by omega)
      simp [depsAt, absGraph, this]
  have hk := key i
  simp only [depsAt, hs] at hk
  by_cases hi : i = 0
  · subst hi
    simp only [if_true, Option.some.injEq] at hk
    rw [hk] at hd
    simp only [List.mem_cons, List.not_mem_nil, or_false] at hd
    rcases hd with rfl | rfl | rfl <;> decide
  · simp [hi] at hk

/-- the hypotheses of `reload_same_artifacts` are satisfiable with a non-trivial graph (the original application being,
    e.g., the never-read one) and the common artifact is the title followed by the parts IN ORDER -/
example :
    Nodes.Acyclic 2 (absGraph aProcs aEnv aGraph) ∧ FilePayloadLast aEnv aGraph ∧ aGraph.prods = [("out.txt", ⟨"Node-0", "Out"⟩)] ∧
    HoldsGraph (Nodes.run 2 (absGraph aProcs aEnv aGraph) []).1 (absGraph aProcs aEnv aGraph) ∧
    Nodes.val (Nodes.step 2 (absGraph aProcs aEnv aGraph) (.read (idxOf aGraph "Node-0"))).1 (idxOf aGraph "Node-0") = [5, 6, 7] := by
  refine ⟨⟨aRank, aGraph_ranked⟩, by decide, by decide, ?_, by decide⟩
  intro i
  show staticEq (absGraph aProcs aEnv aGraph i) (absGraph aProcs aEnv aGraph i)
  cases absGraph aProcs aEnv aGraph i with
  | param x v => rfl
  | struct s => exact ⟨rfl, rfl, rfl, rfl⟩

end C12
end PolyVerif
