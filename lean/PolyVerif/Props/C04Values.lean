/-
  C04 / C08 — the VALUE CONVERSIONS of the PLY scalar codec in the hand model ARE those of the source (engine F tie,
  regenerated on every run).

  `PolyVerif/Gen/PlyValues.lean` is regenerated from /repo/formats/ply/writer_vector1.go and reader_vector1.go (go/facts mode
  c04.values; a small expression translator over go/ast, any unknown statement or expression shape is an error): per `case`
  of the type switches, the store and the expression written for a component `v` (binary and ASCII), and the expression read
  back from the bytes at the reader's offset; the bit size of the ASCII `ParseFloat` and its conditional `/= 255`.
  The model (`PolyVerif/Model/Ply.lean`) is stated over the parameter bundle `Coding α`; `binStore`, `asciiPrint`, `binLoad`
  below are the READING of each Go expression as the bundle primitive it denotes (`u8 v` IS
  `byte(math.Round(math.Max(0, math.Min(1, v)) * 255))`, `f32 v` IS `math.Float32bits(float32(v))`, …: what the driver's
  `Coding Float` computes and every `c04.write` / `c04.read` line corresponds).  The theorems prove the model's per-type
  functions `encScalarBin`, `encScalarAscii`, `decScalarBin` (scalar readers) and `Built.readAscii` equal to the regenerated
  tables: a changed branch (Float written with `Float64bits`, Int read without `int32(·)`, a dropped clamp, another
  divisor, another `ParseFloat` bit size, a type moved to another `case`) breaks a named theorem or the extractor before any
  sample runs.  Covered: the Vector1 (scalar property) writer and reader, binary and ASCII; the 2-, 3- and 4-vector
  writers (binary and ASCII, `fallthrough` included) and binary readers.  the ASCII 2- / 3- / 4-vector readers.  NOT covered
  (listed in notes/C04.md): the list readers.  (Core Lean only.)
-/
import PolyVerif.Model.Ply
import PolyVerif.Gen.PlyValues
import PolyVerif.Props.C04Types
import PolyVerif.Lemmas.Ply

namespace PolyVerif
namespace C04
open Ply
open PolyVerif.Gen

variable {α : Type}

/-- the row of a type-switch table whose `case` lists the constant of `t` (`none`: the panicking default) -/
def rowOf {β : Type} (tbl : List (List String × β)) (t : SType) : Option β :=
  (tbl.find? (fun r => r.1.contains (constOf t))).map (·.2)

/-- reading of the binary writer's stores: store kind and Go expression in the component `v` ↦ bytes, via `Coding` -/
def binStore (c : Coding α) (e : Endian) (v : α) : String × String → Option Bytes
  | ("store8", "(byte (math.Round (* (math.Max 0 (math.Min 1 v)) 255)))") => some [c.u8 v]
  | ("put32", "(uint32 v)") => some (put32 e (c.i32 v))
  | ("put32", "(math.Float32bits (float32 v))") => some (put32 e (c.f32 v))
  | ("put64", "(math.Float64bits v)") => some (put64 e (c.f64 v))
  -- 2- / 3- / 4-vector writers: the vector-library chain `.Clamp(0, 1).Scale(255).RoundToInt()` / `.ToFloat32()`, componentwise
  | ("store8", "(byte (RoundToInt (Scale 255 (Clamp 0 1 v))))") => some [c.u8 v]
  | ("put32", "(math.Float32bits (ToFloat32 v))") => some (put32 e (c.f32 v))
  | _ => none

/-- reading of the ASCII writer's prints: strconv call (with its format arguments) and the expression printed -/
def asciiPrint (c : Coding α) (v : α) : String × String → Option Bytes
  | ("AppendInt 10", "(int64 (math.Round (* (math.Max 0 (math.Min 1 v)) 255)))") => some (showNat (c.u8 v).toNat)
  | ("AppendInt 10", "(int64 v)") => some (c.showI v)
  | ("AppendFloat 'f' -1 64", "v") => some (c.showF v)
  -- 2- / 3- / 4-vector ASCII writers: `.Clamp(0, 1).Scale(255).Round()`, componentwise
  | ("AppendInt 10", "(int64 (Round (Scale 255 (Clamp 0 1 v))))") => some (showNat (c.u8 v).toNat)
  | _ => none

/-- reading of the binary scalar reader's loads: Go expression in the bytes `wire` at the reader's offset -/
def binLoad (c : Coding α) (e : Endian) (dim : Nat) (buf : Bytes) (off : Nat) : String → Option (R α)
  | "(/ (float64 (byte wire)) 255)" =>
      some (match buf[off]? with | some b => .ok (c.div255 (c.ofInt b.toNat)) | none => .error .panic)
  | "(float64 (int32 (u32 wire)))" =>
      some (match get32 e (buf.drop off) with | some u => .ok (c.ofInt (toInt32 u)) | none => .error .panic)
  | "(float64 (math.Float32frombits (u32 wire)))" =>
      some (match get32 e (buf.drop off) with | some u => .ok (c.unf32 u) | none => .error .panic)
  | "(math.Float64frombits (u64 wire))" =>
      some (match get64 e (buf.drop off) with | some u => .ok (c.unf64 u) | none => .error .panic)
  -- 2- / 3- / 4-vector readers: `vectorN.New(…).DivByConstant(255)` / `.ToFloat64()`, componentwise; `DivByConstant` of
  -- vector3 / vector4 divides, that of vector2 multiplies by the reciprocal: `Coding.norm8 dim`
  | "(DivByConstant 255 (float64 (byte wire)))" =>
      some (match buf[off]? with | some b => .ok (c.norm8 dim (c.ofInt b.toNat)) | none => .error .panic)
  | "(ToFloat64 (int32 (u32 wire)))" =>
      some (match get32 e (buf.drop off) with | some u => .ok (c.ofInt (toInt32 u)) | none => .error .panic)
  | "(ToFloat64 (math.Float32frombits (u32 wire)))" =>
      some (match get32 e (buf.drop off) with | some u => .ok (c.unf32 u) | none => .error .panic)
  | _ => none

/-- `encScalarBin` (what the round-trip theorems are about) is `builtVector1PropertyWriter.Write`, case by case -/
theorem encScalarBin_from_source (c : Coding α) (e : Endian) (t : SType) (v : α) :
    encScalarBin c e t v =
      match (rowOf PlyValues.v1BinWrite t).bind (binStore c e v) with
      | some bs => .ok bs
      | none => .error .panic := by
  cases t <;> rfl

/-- `encScalarAscii` is `asciiVector1PropertyWriter.Write`, case by case -/
theorem encScalarAscii_from_source (c : Coding α) (t : SType) (v : α) :
    encScalarAscii c t v =
      match (rowOf PlyValues.v1AsciiWrite t).bind (asciiPrint c v) with
      | some bs => .ok bs
      | none => .error .panic := by
  cases t <;> rfl

/-- `decScalarBin` at dimension 1 is `builtVector1PropertyReader.Read`, case by case -/
theorem decScalarBin_from_source (c : Coding α) (e : Endian) (t : SType) (buf : Bytes) (off : Nat) :
    decScalarBin c e 1 t buf off =
      match (rowOf PlyValues.v1BinRead t).bind (binLoad c e 1 buf off) with
      | some r => r
      | none => .error .panic := by
  cases t <;> rfl

/-- every table row is read (no row falls into the `none` of a reading) and lists only known constants -/
theorem value_tables_read_from_source :
    (∀ r ∈ PlyValues.v1BinWrite, (∀ n ∈ r.1, n ∈ allSTypes.map constOf) ∧ (binStore PlyLemmas.toyCoding .le 0 r.2).isSome) ∧
    (∀ r ∈ PlyValues.v1AsciiWrite, (∀ n ∈ r.1, n ∈ allSTypes.map constOf) ∧ (asciiPrint PlyLemmas.toyCoding 0 r.2).isSome) ∧
    (∀ r ∈ PlyValues.v1BinRead, (∀ n ∈ r.1, n ∈ allSTypes.map constOf) ∧ (binLoad PlyLemmas.toyCoding .le 1 [] 0 r.2).isSome) := by
  decide

/-! ### the 2-, 3- and 4-vector writers and readers (`writer_vector{2,3,4}.go`, `reader_vector{2,3,4}.go`)

The model writes and reads a vector property component by component with the SAME per-type functions as a scalar
(`encRecordBin` / `encRecordAscii` over `writerTypes`, `Built.readBin` over the component offsets).  The regenerated tables
list, per `case`, one store / print / load per component; vector-library methods (`Clamp`, `Scale`, `RoundToInt`, `Round`,
`ToFloat32`, `ToFloat64`, `DivByConstant`) are read componentwise by name (their bodies live in the vector library, outside
/repo: trusted as named, corresponded by the driver). -/

def compsOf (n : Nat) : List String := ["X", "Y", "Z", "W"].take n

/-- binary 2- / 3- / 4-vector writers: for every type, component `k` (X, Y, Z[, W] in this order) is stored at byte offset
`k · size` of the record buffer with exactly the bytes `encScalarBin` produces; unimplemented types panic -/
theorem vecBinWrite_from_source (c : Coding α) (e : Endian) (t : SType) (v : α) :
    ∀ p ∈ [(2, PlyValues.v2BinWrite), (3, PlyValues.v3BinWrite), (4, PlyValues.v4BinWrite)],
      (rowOf p.2 t).map (fun st => st.map (fun s => (s.1, s.2.1, binStore c e v (s.2.2.1, s.2.2.2))))
        = match encScalarBin c e t v with
          | .ok bs => some ((compsOf p.1).zipIdx.map (fun x => (x.2 * t.size, x.1, some bs)))
          | .error _ => none := by
  intro p hp
  simp only [List.mem_cons, List.not_mem_nil, or_false] at hp
  rcases hp with rfl | rfl | rfl <;> cases t <;> rfl

/-- ASCII 2- / 3- / 4-vector writers (the `UChar` case falls through into the integer prints after rescaling): every component
is printed with exactly the text `encScalarAscii` produces, components separated by one blank -/
theorem vecAsciiWrite_from_source (c : Coding α) (t : SType) (v : α) :
    ∀ p ∈ [(2, PlyValues.v2AsciiWrite), (3, PlyValues.v3AsciiWrite), (4, PlyValues.v4AsciiWrite)],
      (rowOf p.2 t).map (fun pr => pr.map (fun s => (s.1, asciiPrint c v (s.2.1, s.2.2))))
        = match encScalarAscii c t v with
          | .ok bs => some ((compsOf p.1).map (fun cn => (cn, some bs)))
          | .error _ => none := by
  intro p hp
  simp only [List.mem_cons, List.not_mem_nil, or_false] at hp
  rcases hp with rfl | rfl | rfl <;> cases t <;> rfl

/-- binary 2- / 3- / 4-vector readers: every component is decoded, at its own offset field, by `decScalarBin` at that dimension
(`uchar`: `/ 255`); the types without a `case` panic in the source and are errors of `decScalarBin` -/
theorem vecBinRead_from_source (c : Coding α) (e : Endian) (t : SType) (buf : Bytes) (off : Nat) :
    ∀ p ∈ [(2, PlyValues.v2BinRead), (3, PlyValues.v3BinRead), (4, PlyValues.v4BinRead)],
      (rowOf p.2 t).map (fun ld => ld.map (fun s => (s.1, binLoad c e p.1 buf off s.2)))
        = match t with
          | .uchar | .int | .float | .double =>
            some ((compsOf p.1).map (fun cn => (cn, some (decScalarBin c e p.1 t buf off))))
          | _ => none := by
  intro p hp
  simp only [List.mem_cons, List.not_mem_nil, or_false] at hp
  rcases hp with rfl | rfl | rfl <;> cases t <;> rfl

theorem decScalarBin_unimplemented (c : Coding α) (e : Endian) (dim : Nat) (t : SType) (buf : Bytes) (off : Nat)
    (h : t ∉ [SType.uchar, .int, .float, .double]) : decScalarBin c e dim t buf off = .error .panic := by
  cases t <;> simp_all [decScalarBin]

/-- one component of an ASCII reader: the token at column `o`, parsed with `parseF` (= `strconv.ParseFloat(·, 32)`) -/
def tokRead (c : Coding α) (toks : List Bytes) (o : Nat) : R α :=
  match toks[o]? with
  | none => .error .panic
  | some t => match c.parseF t with | none => .error .err | some v => .ok v

/-- ASCII 2- / 3- / 4-vector readers: every component is `ParseFloat(token at that component's offset field, 32)` — the
model's `parseF` —, components in the order X, Y, Z[, W]; then `DivByConstant(255)` exactly when `scalarType == UChar`
(`Built.readAscii`: one `parseF` per offset in order, then `norm8 dim` on every component iff `b.ty = some .uchar`) -/
theorem vecAsciiRead_from_source :
    (∀ p ∈ [(2, PlyValues.v2AsciiRead, PlyValues.v2AsciiReadPost), (3, PlyValues.v3AsciiRead, PlyValues.v3AsciiReadPost),
            (4, PlyValues.v4AsciiRead, PlyValues.v4AsciiReadPost)],
      p.2.1 = ((compsOf p.1).zip (["xOffset", "yOffset", "zOffset", "wOffset"].take p.1)).map (fun x => (x.1, x.2, 32)) ∧
      p.2.2 = [(constOf .uchar, "(DivByConstant 255 v)")]) ∧
    (∀ (c : Coding α) (b : Built) (toks : List Bytes) (vals : List α),
      b.offs.mapM (tokRead c toks) = .ok vals →
      b.readAscii c toks = .ok (if b.ty = some .uchar then vals.map (c.norm8 b.names.length) else vals)) := by
  refine ⟨by decide, ?_⟩
  intro c b toks vals h
  have e : b.readAscii c toks = (do
      let vals ← b.offs.mapM (tokRead c toks)
      pure (if b.ty = some .uchar then vals.map (c.norm8 b.names.length) else vals)) := rfl
  rw [e, h]; rfl

/-- the ASCII scalar reader: `ParseFloat(token, 32)` — the model's `parseF` is the 32-bit parse — then `/ 255` exactly when
its `scalarType` is `UChar` (`Built.readAscii` normalises iff `b.ty = some .uchar`; dimension 1: `div255`) -/
theorem readAscii_from_source :
    PlyValues.v1AsciiReadBits = 32 ∧ PlyValues.v1AsciiReadPost = [(constOf .uchar, "(/ v 255)")] ∧
    (∀ (c : Coding α) (b : Built) (toks : List Bytes) (o : Nat) (tok : Bytes) (x : α), b.names.length = 1 → b.offs = [o] →
      toks[o]? = some tok → c.parseF tok = some x →
      b.readAscii c toks = .ok [if b.ty = some .uchar then c.div255 x else x]) := by
  refine ⟨by decide, by decide, ?_⟩
  intro c b toks o tok x hn ho ht hp
  simp only [Built.readAscii, ho, List.mapM_cons, List.mapM_nil, ht, hp, bind, Except.bind, pure, Except.pure, hn]
  split <;> simp [Coding.norm8]

end C04
end PolyVerif
