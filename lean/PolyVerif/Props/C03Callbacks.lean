/-
  C03 — the scan / modify callback family: a scan changes NOTHING, a modify changes exactly one attribute by the
  callback applied index-wise and nothing else.  (Model: `Model/MeshCallbacks.lean`.)
-/
import PolyVerif.Props.C03
import PolyVerif.Model.MeshCallbacks

namespace PolyVerif.C03
open PolyVerif.Mesh PolyVerif.Mesh.MeshVal
variable {α : Type}

/-- **ScanFloatNAttribute** (sequential, Parallel, ParallelWithPoolSize): the returned mesh IS the receiver; it is
    rejected exactly when the attribute is missing or the pool size is < 1 -/
theorem scanAttr_spec (m : MeshVal α) (k : AttrKey) (pool : Nat) :
    (∀ m', m.scanAttr k pool = some m' → m' = m) ∧
    (m.scanAttr k pool = none ↔ (m.attr? k = none ∨ pool < 1)) := by
  unfold scanAttr
  constructor
  · intro m' h; split at h <;> simp_all
  · split
    · rename_i h; simp only [reduceCtorEq, false_iff, not_or]
      refine ⟨?_, by omega⟩
      have := h.1; simp only [hasAttr, Option.isSome_iff_exists] at this
      obtain ⟨d, hd⟩ := this; simp [attr?, hd]
    · rename_i h
      simp only [true_iff]
      by_cases hp : 1 ≤ pool
      · left
        have : ¬ m.hasAttr k = true := fun hh => h ⟨hh, hp⟩
        simp only [hasAttr, Bool.not_eq_true, Option.isSome_eq_false_iff, Option.isNone_iff_eq_none] at this
        exact this
      · right; omega

/-- the sequential scan calls the callback exactly once per vertex, in index order, with that vertex's value -/
theorem scanVisits_spec {m : MeshVal α} {k : AttrKey} {d : List α} (hd : m.attr? k = some d) :
    ∃ vs, m.scanVisits k = some vs ∧ vs.map (·.1) = List.range d.length ∧ vs.map (·.2) = d ∧
      ∀ i x, (i, x) ∈ vs → d[i]? = some x := by
  refine ⟨(List.range d.length).zip d, by simp [scanVisits, hd], ?_, ?_, ?_⟩
  · rw [List.map_fst_zip]; simp
  · rw [List.map_snd_zip]; simp
  · intro i x hx
    obtain ⟨j, hj, hget⟩ := List.getElem_of_mem hx
    simp only [List.getElem_zip, List.getElem_range, Prod.mk.injEq] at hget
    obtain ⟨rfl, rfl⟩ := hget
    simp only [List.length_zip, List.length_range, Nat.min_self] at hj
    simp [hj]

/-- **ScanPrimitives**: the returned mesh is the receiver; rejected exactly for topologies without a primitive scan
    (quad, line, line loop) or a pool size < 1 -/
theorem scanPrimitives_spec (m : MeshVal α) (pool : Nat) :
    (∀ m', m.scanPrimitives pool = some m' → m' = m) ∧
    (m.scanPrimitives pool = none ↔
      ((m.topology ≠ .triangle ∧ m.topology ≠ .point ∧ m.topology ≠ .lineStrip) ∨ pool < 1)) := by
  unfold scanPrimitives
  constructor
  · intro m' h; split at h <;> simp_all
  · split
    · rename_i h; simp only [reduceCtorEq, false_iff]; rcases h with ⟨h1, h2⟩; intro h'; rcases h' with h' | h'
      · rcases h1 with h1 | h1 | h1 <;> simp_all
      · omega
    · rename_i h
      simp only [true_iff]
      by_cases hp : 1 ≤ pool
      · left
        refine ⟨fun h1 => h ⟨Or.inl h1, hp⟩, fun h1 => h ⟨Or.inr (Or.inl h1), hp⟩, fun h1 => h ⟨Or.inr (Or.inr h1), hp⟩⟩
      · right; omega

/-- **ModifyFloatNAttribute** (every variant): topology, indices, materials and every other attribute array are
    untouched; attribute `k` is exactly `d.mapIdx f` (absent when `d` is empty — the Go setter deletes an empty array);
    well-formedness is kept -/
theorem modifyAttrIdx_spec [DecidableEq α] {m m' : MeshVal α} {k : AttrKey} {pool : Nat} {f : Nat → α → α}
    (hm : m.modifyAttrIdx k pool f = some m') :
    FrameSpec k m m' ∧
    (∃ d, m.attr? k = some d ∧ m'.attr? k = (if d.isEmpty then none else some (d.mapIdx f))) ∧
    (WF m → WF m') := by
  unfold modifyAttrIdx at hm
  split at hm
  · obtain ⟨hf, d, hd, hk⟩ := modifyAttr_spec hm
    refine ⟨hf, ⟨d, hd, by simpa using hk⟩, fun h => MeshVal.modifyAttr_wf h (fun d => by simp) hm⟩
  · cases hm

theorem modifyAttrIdx_rejects (m : MeshVal α) (k : AttrKey) (pool : Nat) (f : Nat → α → α) :
    m.modifyAttrIdx k pool f = none ↔ (m.attr? k = none ∨ pool < 1) := by
  unfold modifyAttrIdx
  split
  · rw [modifyAttr_rejects]; constructor
    · intro h; exact Or.inl h
    · rintro (h | h)
      · exact h
      · omega
  · simp only [true_iff]; right; omega

example : ∃ m', sample.modifyAttrIdx ⟨1, "Class"⟩ 4 (fun i x => x + 100 * i) = some m' ∧
    m'.attr? ⟨1, "Class"⟩ = some [20, 121, 222, 323, 424] ∧ m'.attr? ⟨3, "Position"⟩ = sample.attr? ⟨3, "Position"⟩ :=
  ⟨_, rfl, by decide, by decide⟩
example : sample.scanVisits ⟨1, "Class"⟩ = some [(0, 20), (1, 21), (2, 22), (3, 23), (4, 24)] := by decide

end PolyVerif.C03
