/-
  C06 (round 2) — the text container's data URI: standard base64 (Model/Base64.lean) round-trips through a strict
  reader, has length 4·⌈n/3⌉, carries padding only in its last quantum (the statement seeded change C06-m17 violated:
  block-wise encoding put `==` in the middle), and the URI of the model's document decodes to exactly the buffer.
  Tie: the driver answers `c06.uri` (the buffer URI of small scenes, compared exactly with the real WriteText output) with
  `dataURI`, and evaluates `parseDataURI` on the implementation's URI (`c06.holds.uridecode`).
-/
import PolyVerif.Props.C06DocMode
import PolyVerif.Model.Base64

namespace PolyVerif
namespace C06
open Gltf Base64

theorem val_ch : ∀ n : Fin 64, val (ch n.val) = some n.val := by decide +kernel

theorem ch_ne_pad : ∀ n : Fin 64, ch n.val ≠ pad := by decide +kernel

theorem val_ch' (n : Nat) (h : n < 64) : val (ch n) = some n := val_ch ⟨n, h⟩
theorem ch_ne_pad' (n : Nat) (h : n < 64) : (ch n = pad) = False := eq_false (ch_ne_pad ⟨n, h⟩)

/-- one full quantum decodes to its three bytes -/
theorem decodeQuad_full (a b c : UInt8) (last : Bool) :
    decodeQuad (ch (a.toNat / 4)) (ch (a.toNat % 4 * 16 + b.toNat / 16)) (ch (b.toNat % 16 * 4 + c.toNat / 64))
      (ch (c.toNat % 64)) last = some [a, b, c] := by
  have ha := a.toNat_lt; have hb := b.toNat_lt; have hc := c.toNat_lt
  unfold decodeQuad
  rw [val_ch' _ (by omega), val_ch' _ (by omega)]
  simp only [ch_ne_pad' _ (show b.toNat % 16 * 4 + c.toNat / 64 < 64 by omega), if_false,
    val_ch' _ (show b.toNat % 16 * 4 + c.toNat / 64 < 64 by omega),
    ch_ne_pad' _ (show c.toNat % 64 < 64 by omega), val_ch' _ (show c.toNat % 64 < 64 by omega)]
  have e0 : a.toNat / 4 * 4 + (a.toNat % 4 * 16 + b.toNat / 16) / 16 = a.toNat := by omega
  have e1 : (a.toNat % 4 * 16 + b.toNat / 16) % 16 * 16 + (b.toNat % 16 * 4 + c.toNat / 64) / 4 = b.toNat := by omega
  have e2 : (b.toNat % 16 * 4 + c.toNat / 64) % 4 * 64 + c.toNat % 64 = c.toNat := by omega
  rw [e0, e1, e2]
  simp

/-- DECODE ∘ ENCODE: the strict reader recovers every byte list -/
theorem b64_decode_encode : ∀ bs : List UInt8, decode (encode bs) = some bs
  | [] => rfl
  | [a] => by
    have ha := a.toNat_lt
    simp only [encode, decode, decodeQuad, List.isEmpty_nil]
    rw [val_ch' _ (by omega), val_ch' _ (by omega)]
    have e0 : a.toNat / 4 * 4 + a.toNat % 4 * 16 / 16 = a.toNat := by omega
    have e1 : a.toNat % 4 * 16 % 16 = 0 := by omega
    dsimp only
    rw [e0, e1]
    simp
  | [a, b] => by
    have ha := a.toNat_lt; have hb := b.toNat_lt
    simp only [encode, decode, decodeQuad, List.isEmpty_nil]
    rw [val_ch' _ (by omega), val_ch' _ (by omega)]
    simp only [ch_ne_pad' _ (show b.toNat % 16 * 4 < 64 by omega), if_false, val_ch' _ (show b.toNat % 16 * 4 < 64 by omega)]
    have e0 : a.toNat / 4 * 4 + (a.toNat % 4 * 16 + b.toNat / 16) / 16 = a.toNat := by omega
    have e1 : (a.toNat % 4 * 16 + b.toNat / 16) % 16 * 16 + b.toNat % 16 * 4 / 4 = b.toNat := by omega
    have e2 : b.toNat % 16 * 4 % 4 = 0 := by omega
    rw [e0, e1, e2]
    simp
  | a :: b :: c :: r => by
    simp only [encode, decode, decodeQuad_full, b64_decode_encode r]
    simp

/-- LENGTH: four characters per started group of three bytes -/
theorem b64_encode_length : ∀ bs : List UInt8, (encode bs).length = 4 * ((bs.length + 2) / 3)
  | [] => by simp [encode]
  | [_] => by simp [encode]
  | [_, _] => by simp [encode]
  | _ :: _ :: _ :: r => by
    simp only [encode, List.length_cons, b64_encode_length r]
    omega

/-- PADDING ONLY AT THE END: the encoding is a body without any padding character followed by at most one quantum (the only
    place where `=` may occur).  Block-wise encoding with a block size that is not a multiple of three breaks exactly this. -/
theorem b64_padding_only_at_end : ∀ bs : List UInt8,
    ∃ body tail, encode bs = body ++ tail ∧ tail.length ≤ 4 ∧ ∀ c ∈ body, c ≠ pad
  | [] => ⟨[], [], rfl, by simp, by simp⟩
  | [a] => ⟨[], _, rfl, by simp, by simp⟩
  | [a, b] => ⟨[], _, rfl, by simp, by simp⟩
  | a :: b :: c :: r => by
    obtain ⟨body, tail, h1, h2, h3⟩ := b64_padding_only_at_end r
    have ha := a.toNat_lt; have hb := b.toNat_lt; have hc := c.toNat_lt
    refine ⟨ch (a.toNat / 4) :: ch (a.toNat % 4 * 16 + b.toNat / 16) :: ch (b.toNat % 16 * 4 + c.toNat / 64)
      :: ch (c.toNat % 64) :: body, tail, by simp [encode, h1], h2, ?_⟩
    intro x hx
    simp only [List.mem_cons] at hx
    rcases hx with rfl | rfl | rfl | rfl | hx
    · exact ch_ne_pad ⟨_, by omega⟩
    · exact ch_ne_pad ⟨_, by omega⟩
    · exact ch_ne_pad ⟨_, by omega⟩
    · exact ch_ne_pad ⟨_, by omega⟩
    · exact h3 x hx

/-- the same as a statement about positions: no padding character before the last four characters -/
theorem b64_no_padding_before_last_quantum (bs : List UInt8) :
    ∀ c ∈ (encode bs).take ((encode bs).length - 4), c ≠ pad := by
  obtain ⟨body, tail, h1, h2, h3⟩ := b64_padding_only_at_end bs
  intro c hc
  rw [h1] at hc
  have : (body ++ tail).take ((body ++ tail).length - 4) = body.take ((body ++ tail).length - 4) := by
    rw [List.take_append_of_le_length (by simp; omega)]
  rw [this] at hc
  exact h3 c (List.mem_of_mem_take hc)

theorem parse_dataURI (buf : List UInt8) : parseDataURI (dataURI buf) = some buf := by
  unfold parseDataURI dataURI
  rw [if_pos (by simp [List.isPrefixOf_iff_prefix]), List.drop_left' rfl]
  exact b64_decode_encode buf

/-- WriteText END TO END (the text analogue of `glb_carries_buffer`).  For every well-formed scene the writer accepts: a
    strict reader of the document's buffer URI gets back exactly the buffer all accessor statements (`valid`,
    `carriesScene`) are about, whose length is the declared `buffers[0].byteLength`; the URI has 37 + 4·⌈n/3⌉ characters and
    padding only in its last quantum. -/
theorem gltf_text_carries_buffer (s : Scene) (w : W) (hs : SceneOK s) (h : writeScene s = .ok w) :
    parseDataURI (dataURI w.buf) = some w.buf
    ∧ (match w.doc.bufLen with
       | some n => n = w.buf.length
       | none => w.buf = [])
    ∧ (dataURI w.buf).length = 37 + 4 * ((w.buf.length + 2) / 3)
    ∧ (∀ c ∈ (encode w.buf).take ((encode w.buf).length - 4), c ≠ pad) := by
  have hb := (scene_inv s w hs h).bytes
  refine ⟨parse_dataURI w.buf, ?_, ?_, b64_no_padding_before_last_quantum w.buf⟩
  · show (match (if w.bytesWritten > 0 then some w.bytesWritten else none) with
         | some n => _
         | none => _)
    by_cases hp : w.bytesWritten > 0
    · rw [if_pos hp]; exact hb
    · rw [if_neg hp]; exact List.eq_nil_of_length_eq_zero (by omega)
  · unfold dataURI
    rw [List.length_append, b64_encode_length]
    rfl

/-- non-vacuity / known vectors (RFC 4648 §10) -/
example : String.ofList (encode "foobar".toUTF8.toList) = "Zm9vYmFy" ∧ String.ofList (encode "fooba".toUTF8.toList) = "Zm9vYmE="
    ∧ String.ofList (encode "foob".toUTF8.toList) = "Zm9vYg==" ∧ decode "Zm9vYg==Zm9v".toList = none
    ∧ decode "Zm9vYh==".toList = none ∧ decode "Zm9v Zg==".toList = none := by decide +kernel

end C06
end PolyVerif
