/-
  C19 — capsule (`sdf.Line`): the exact-distance clause, attained direction, and the Minkowski-sum
  reading of the rounded box.

  `Props/C19.lean` proves for the capsule: sign set, zero set, 1-Lipschitz and the lower bound
  `|f p| ≤ dist(p, s)` for every surface point `s` (`line_exact_le`).  This file adds the other
  direction for EVERY point `p` (outside, on the surface, inside, on the axis): some surface point
  is at distance exactly `|f p|`, so `|f p|` IS the Euclidean distance from `p` to the surface, as
  the property states for the capsule.

  The definitions are the regenerated `Gen.sdf.Line` / `Gen.geometry.Line3D.ClosestPointOnLine`.
-/
import PolyVerif.Props.C19

namespace PolyVerif
namespace C19
open Gen Gen.sdf Gen.geometry

/-! ### the projection onto the segment: variational inequality -/

/-- `(p - c)·(x - c) ≤ 0` for the returned closest point `c` and every segment point `x`
    (first-order optimality of the clamped projection) -/
theorem closestPoint_variational (a b p : P3) (hab : a ≠ b) (s : ℝ) (hs0 : 0 ≤ s) (hs1 : s ≤ 1) :
    (p.Sub (segPoint a b (segParam a b p))).Dot ((segPoint a b s).Sub (segPoint a b (segParam a b p))) ≤ 0 := by
  have hN := dot_self_pos hab
  have key : (p.Sub (segPoint a b (segParam a b p))).Dot ((segPoint a b s).Sub (segPoint a b (segParam a b p)))
      = (s - segParam a b p) * ((p.Sub a).Dot (b.Sub a) - segParam a b p * (b.Sub a).Dot (b.Sub a)) := by
    simp only [segPoint, V3.Add, V3.Sub, V3.Scale, V3.Dot]; ring
  rw [key]
  set N := (b.Sub a).Dot (b.Sub a)
  set W := (p.Sub a).Dot (b.Sub a)
  unfold segParam
  by_cases h1 : 1 ≤ W / N
  · rw [min_eq_left h1, max_eq_right (by norm_num)]
    have hW : N ≤ W := by rwa [le_div_iff₀ hN, one_mul] at h1
    nlinarith [mul_nonneg (sub_nonneg.mpr hs1) (sub_nonneg.mpr hW)]
  · by_cases h0 : W / N ≤ 0
    · rw [min_eq_right (le_of_not_ge h1), max_eq_left h0]
      have hW : W ≤ 0 := by
        rcases le_or_gt W 0 with h | h
        · exact h
        · exact absurd (div_pos h hN) (not_lt.mpr h0)
      nlinarith [mul_nonneg hs0 (neg_nonneg.mpr hW)]
    · rw [min_eq_right (le_of_not_ge h1), max_eq_right (le_of_not_ge h0)]
      have hW : W / N * N = W := by field_simp
      rw [hW]; simp

/-- squared distance from a point `c + v` to `x`, expanded around `c` -/
theorem distSq_expand (c v x : P3) :
    (c.Add v).DistanceSquared x = v.Dot v - 2 * v.Dot (x.Sub c) + (x.Sub c).Dot (x.Sub c) := by
  simp only [V3.DistanceSquared, V3.Add, V3.Sub, V3.Dot]; ring

theorem distSq_self_add (c v : P3) : (c.Add v).DistanceSquared c = v.Dot v := by
  simp only [V3.DistanceSquared, V3.Add, V3.Dot]; ring

theorem dot_self_nonneg (v : P3) : 0 ≤ v.Dot v := by
  simp only [V3.Dot]; nlinarith [mul_self_nonneg v.x, mul_self_nonneg v.y, mul_self_nonneg v.z]

/-- a point `q = c + v` whose offset `v` makes a non-acute angle with every direction into the
    segment has the same closest segment point distance as its distance to `c` -/
theorem line_at_offset (a b : P3) (hab : a ≠ b) (r : ℝ) (t : ℝ) (ht0 : 0 ≤ t) (ht1 : t ≤ 1) (v : P3)
    (hv : ∀ s, 0 ≤ s → s ≤ 1 → v.Dot ((segPoint a b s).Sub (segPoint a b t)) ≤ 0) :
    Line a b r ((segPoint a b t).Add v) = Real.sqrt (v.Dot v) - r := by
  rw [line_eq]
  congr 1
  set c := segPoint a b t with hc
  set q := c.Add v with hq
  apply le_antisymm
  · have h := closestPoint_minimises a b q hab t ht0 ht1
    rw [← hc] at h
    calc _ ≤ q.Distance c := h
      _ = Real.sqrt (v.Dot v) := by rw [distance_eq_sqrt, hq, distSq_self_add]
  · rw [closestPoint_eq a b q hab, distance_eq_sqrt]
    apply Real.sqrt_le_sqrt
    have hm := segParam_mem a b q
    have h := hv _ hm.1 hm.2
    rw [hq, distSq_expand]
    have h2 := dot_self_nonneg ((segPoint a b (segParam a b (c.Add v))).Sub c)
    rw [← hq]
    rw [← hq] at h2
    linarith

/-! ### a unit vector perpendicular to a non-zero vector -/

theorem exists_perp_unit (v : P3) : ∃ u : P3, u.Dot u = 1 ∧ u.Dot v = 0 := by
  by_cases hxy : v.x = 0 ∧ v.y = 0
  · -- v = (0,0,z), z ≠ 0: take the x axis
    refine ⟨⟨1, 0, 0⟩, by simp [V3.Dot], ?_⟩
    simp [V3.Dot, hxy.1]
  · -- (−y, x, 0) normalised
    have hpos : 0 < v.x * v.x + v.y * v.y := by
      have h0 : 0 ≤ v.x * v.x + v.y * v.y := by nlinarith [mul_self_nonneg v.x, mul_self_nonneg v.y]
      rcases h0.lt_or_eq with h | h
      · exact h
      · exfalso; apply hxy
        constructor <;> nlinarith [mul_self_nonneg v.x, mul_self_nonneg v.y]
    set L := Real.sqrt (v.x * v.x + v.y * v.y) with hL
    have hLL : L * L = v.x * v.x + v.y * v.y := Real.mul_self_sqrt hpos.le
    have hL0 : L ≠ 0 := by
      intro h; rw [h] at hLL; linarith
    refine ⟨⟨-v.y / L, v.x / L, 0⟩, ?_, ?_⟩
    · simp only [V3.Dot]
      field_simp
      nlinarith
    · simp only [V3.Dot]
      field_simp
      ring

/-! ### exact distance, attained -/

/-- capsule: for every point `p` some surface point is at distance exactly `|f p|`
    (radius `r ≥ 0`, non-degenerate segment).  With `line_exact_le` this says `|f p|` is the
    Euclidean distance from `p` to the surface `{f = 0}`. -/
theorem line_exact_attained (a b : P3) (hab : a ≠ b) (r : ℝ) (hr : 0 ≤ r) (p : P3) :
    ∃ s : P3, Line a b r s = 0 ∧ p.Distance s = |Line a b r p| := by
  set t := segParam a b p with ht
  have htm := segParam_mem a b p
  set c := segPoint a b t with hc
  -- offset of p from its closest point
  set w := p.Sub c with hw
  have hpw : p = c.Add w := by
    ext <;> simp [hw, V3.Add, V3.Sub]
  have hvar : ∀ s, 0 ≤ s → s ≤ 1 → w.Dot ((segPoint a b s).Sub c) ≤ 0 := fun s h0 h1 =>
    closestPoint_variational a b p hab s h0 h1
  set d := Real.sqrt (w.Dot w) with hd
  have hfp : Line a b r p = d - r := by
    have := line_at_offset a b hab r t htm.1 htm.2 w hvar
    rw [← hc, ← hpw] at this; exact this
  have hd0 : 0 ≤ d := Real.sqrt_nonneg _
  rcases hd0.lt_or_eq with hdpos | hdz
  · -- p off the axis: move along the ray from c through p to distance r
    have hdd : d * d = w.Dot w := Real.mul_self_sqrt (dot_self_nonneg w)
    set v := w.Scale (r / d) with hv
    have hvv : v.Dot v = r * r := by
      have : v.Dot v = (r / d) * (r / d) * (w.Dot w) := by
        simp only [hv, V3.Scale, V3.Dot]; ring
      rw [this, ← hdd]; field_simp
    have hvvar : ∀ s, 0 ≤ s → s ≤ 1 → v.Dot ((segPoint a b s).Sub c) ≤ 0 := by
      intro s h0 h1
      have h := hvar s h0 h1
      have e : v.Dot ((segPoint a b s).Sub c) = (r / d) * w.Dot ((segPoint a b s).Sub c) := by
        simp only [hv, V3.Scale, V3.Dot]; ring
      rw [e]
      exact mul_nonpos_of_nonneg_of_nonpos (div_nonneg hr hdpos.le) h
    refine ⟨c.Add v, ?_, ?_⟩
    · rw [line_at_offset a b hab r t htm.1 htm.2 v hvvar, hvv, Real.sqrt_mul_self hr, sub_self]
    · rw [hfp, distance_eq_sqrt]
      have e : p.DistanceSquared (c.Add v) = (d - r) * (d - r) := by
        have e1 : p.DistanceSquared (c.Add v) = (1 - r / d) * (1 - r / d) * (w.Dot w) := by
          rw [hpw]
          simp only [hv, V3.DistanceSquared, V3.Add, V3.Scale, V3.Dot]; ring
        rw [e1, ← hdd]; field_simp
      rw [e, Real.sqrt_mul_self_eq_abs]
  · -- p on the axis: step r in a direction perpendicular to the segment
    have hw0 : w.Dot w = 0 := by
      have h := Real.sqrt_eq_zero'.mp hdz.symm
      exact le_antisymm h (dot_self_nonneg w)
    obtain ⟨u, huu, hub⟩ := exists_perp_unit (b.Sub a)
    set v := u.Scale r with hv
    have hvv : v.Dot v = r * r := by
      have : v.Dot v = r * r * (u.Dot u) := by simp only [hv, V3.Scale, V3.Dot]; ring
      rw [this, huu, mul_one]
    have hvvar : ∀ s, 0 ≤ s → s ≤ 1 → v.Dot ((segPoint a b s).Sub c) ≤ 0 := by
      intro s _ _
      have e : v.Dot ((segPoint a b s).Sub c) = r * (s - t) * (u.Dot (b.Sub a)) := by
        simp only [hv, hc, segPoint, V3.Scale, V3.Dot, V3.Add, V3.Sub]; ring
      rw [e, hub, mul_zero]
    have hwz : w = ⟨0, 0, 0⟩ := by
      simp only [V3.Dot] at hw0
      have hx : w.x = 0 := by nlinarith [mul_self_nonneg w.x, mul_self_nonneg w.y, mul_self_nonneg w.z]
      have hy : w.y = 0 := by nlinarith [mul_self_nonneg w.x, mul_self_nonneg w.y, mul_self_nonneg w.z]
      have hz : w.z = 0 := by nlinarith [mul_self_nonneg w.x, mul_self_nonneg w.y, mul_self_nonneg w.z]
      ext <;> assumption
    refine ⟨c.Add v, ?_, ?_⟩
    · rw [line_at_offset a b hab r t htm.1 htm.2 v hvvar, hvv, Real.sqrt_mul_self hr, sub_self]
    · rw [hfp, ← hdz, zero_sub, abs_neg, abs_of_nonneg hr, distance_eq_sqrt]
      have e : p.DistanceSquared (c.Add v) = r * r := by
        rw [hpw, hwz, ← hvv]
        simp only [V3.DistanceSquared, V3.Add, V3.Dot]; ring
      rw [e, Real.sqrt_mul_self hr]

/-- capsule: `|f p|` is exactly the distance to the surface — both directions in one statement -/
theorem line_exact (a b : P3) (hab : a ≠ b) (r : ℝ) (hr : 0 ≤ r) (p : P3) :
    (∀ s : P3, Line a b r s = 0 → |Line a b r p| ≤ p.Distance s) ∧
    (∃ s : P3, Line a b r s = 0 ∧ p.Distance s = |Line a b r p|) :=
  ⟨fun s hs => line_exact_le a b hab r p s hs, line_exact_attained a b hab r hr p⟩

/-! ### rounded box = Minkowski sum of the box with a ball -/

/-- the rounded box (`Box - r`) is negative exactly at the points closer than `r` to the closed box
    `{Box ≤ 0}`: it is the Minkowski sum of the box and the open ball of radius `r` -/
theorem roundedBox_neg_iff_minkowski (c b : P3) (hx : 0 ≤ b.x) (hy : 0 ≤ b.y) (hz : 0 ≤ b.z) (r : ℝ) (hr : 0 < r)
    (p : P3) : RoundedBox c b r p < 0 ↔ ∃ q : P3, Box c b q ≤ 0 ∧ p.Distance q < r := by
  rw [roundedBox_neg_iff]
  constructor
  · intro h
    rcases le_or_gt (Box c b p) 0 with hp | hp
    · refine ⟨p, hp, ?_⟩
      have : p.Distance p = 0 := V3.distance_eq_zero.mpr rfl
      rw [this]; exact hr
    · obtain ⟨s, hs0, hsd⟩ := box_exact_attained c b p hx hy hz
      refine ⟨s, hs0.le, ?_⟩
      rw [hsd, abs_of_pos hp]; exact h
  · rintro ⟨q, hq, hd⟩
    have hl := box_lipschitz c b p q
    have := (abs_le.mp hl).2
    linarith

/-! ### rounded cylinder = Minkowski sum of its core cylinder with a ball -/

/-- the core of the rounded cylinder: the solid cylinder of radius `2·ra − rb` about the vertical axis through
    `pos`, of half height `h` (the source doubles `radius`, as Quilez' formula does) -/
def InCoreCyl (pos : P3) (ra rb h : ℝ) (q : P3) : Prop :=
  Real.sqrt ((q.x - pos.x) ^ 2 + (q.z - pos.z) ^ 2) ≤ 2 * ra - rb ∧ |q.y - pos.y| ≤ h

theorem roundedCylinder_core_le (pos : P3) (ra rb h : ℝ) (q : P3) (hq : InCoreCyl pos ra rb h q) :
    RoundedCylinder pos ra rb h q ≤ -rb := by
  rw [roundedCylinder_eq]
  have hs : sup2 (cylD pos ra rb h q) ≤ 0 := by
    apply max_le
    · simp [cylD]; linarith [hq.1]
    · simp [cylD]; linarith [hq.2]
  rw [G2_of_nonpos hs]; linarith

/-- the rounded cylinder is negative exactly at the points closer than the rounding radius `rb` to its core
    cylinder: the shape is the Minkowski sum of the core with the open ball of radius `rb` -/
theorem roundedCylinder_neg_iff_minkowski (pos : P3) (ra rb h : ℝ) (hR : 0 ≤ 2 * ra - rb) (hh : 0 ≤ h) (hrb : 0 < rb)
    (p : P3) : RoundedCylinder pos ra rb h p < 0 ↔ ∃ q : P3, InCoreCyl pos ra rb h q ∧ p.Distance q < rb := by
  constructor
  · intro hneg
    rw [roundedCylinder_eq] at hneg
    set D := cylD pos ra rb h p with hD
    set ρ := Real.sqrt ((p.x - pos.x) ^ 2 + (p.z - pos.z) ^ 2) with hρ
    have hρ0 : 0 ≤ ρ := Real.sqrt_nonneg _
    have hρρ : ρ * ρ = (p.x - pos.x) ^ 2 + (p.z - pos.z) ^ 2 := Real.mul_self_sqrt (by positivity)
    have d0 : D 0 = ρ - (2 * ra - rb) := by simp [hD, cylD, hρ]; ring
    have d1 : D 1 = |p.y - pos.y| - h := by simp [hD, cylD]
    rcases le_or_gt (sup2 D) 0 with hs | hs
    · -- p itself is in the core
      refine ⟨p, ⟨?_, ?_⟩, ?_⟩
      · have : D 0 ≤ 0 := (le_max_left _ _).trans hs
        rw [d0] at this; linarith
      · have : D 1 ≤ 0 := (le_max_right _ _).trans hs
        rw [d1] at this; linarith
      · have : p.Distance p = 0 := V3.distance_eq_zero.mpr rfl
        rw [this]; exact hrb
    · -- clamp radially and axially into the core
      rw [G2_of_nonneg hs.le] at hneg
      set R := 2 * ra - rb with hRdef
      set lam : ℝ := if ρ ≤ R then 1 else R / ρ with hlam
      set cy := max (-h) (min (p.y - pos.y) h) with hcy
      have hlam0 : 0 ≤ lam := by
        rw [hlam]; split
        · norm_num
        · exact div_nonneg hR hρ0
      have hlamρ : lam * ρ = min ρ R := by
        rw [hlam]; split
        · rename_i hle; rw [one_mul, min_eq_left hle]
        · rename_i hgt
          have hgt' : R < ρ := not_le.mp hgt
          have hne : ρ ≠ 0 := by linarith [hgt', hR]
          rw [min_eq_right hgt'.le]; field_simp
      refine ⟨⟨pos.x + lam * (p.x - pos.x), pos.y + cy, pos.z + lam * (p.z - pos.z)⟩, ⟨?_, ?_⟩, ?_⟩
      · -- radial distance of q is lam·ρ = min ρ R ≤ R
        have e : (pos.x + lam * (p.x - pos.x) - pos.x) ^ 2 + (pos.z + lam * (p.z - pos.z) - pos.z) ^ 2 = (lam * ρ) ^ 2 := by
          rw [mul_pow, sq ρ, hρρ]; ring
        show Real.sqrt ((pos.x + lam * (p.x - pos.x) - pos.x) ^ 2 + (pos.z + lam * (p.z - pos.z) - pos.z) ^ 2) ≤ R
        rw [e, Real.sqrt_sq (mul_nonneg hlam0 hρ0), hlamρ]
        exact min_le_right _ _
      · show |pos.y + cy - pos.y| ≤ h
        rw [add_sub_cancel_left, hcy, abs_le]
        constructor
        · exact le_max_left _ _
        · exact max_le (by linarith) (min_le_right _ _)
      · -- the distance to q is the norm of the positive part of the profile
        have hdist : p.DistanceSquared ⟨pos.x + lam * (p.x - pos.x), pos.y + cy, pos.z + lam * (p.z - pos.z)⟩
            = (max (D 0) 0) ^ 2 + (max (D 1) 0) ^ 2 := by
          have hr : (1 - lam) * ρ = max (D 0) 0 := by
            rw [d0, sub_mul, one_mul, hlamρ]
            rcases le_total ρ R with h1 | h1
            · rw [min_eq_left h1, max_eq_right (by linarith)]; ring
            · rw [min_eq_right h1, max_eq_left (by linarith)]
          have ha : |p.y - pos.y - cy| = max (D 1) 0 := by
            rw [d1, hcy]; exact clamp_dist _ _ hh
          rw [← hr, ← ha, sq_abs]
          simp only [V3.DistanceSquared]
          have : ((1 - lam) * ρ) ^ 2 = (1 - lam) ^ 2 * ((p.x - pos.x) ^ 2 + (p.z - pos.z) ^ 2) := by
            rw [mul_pow, sq ρ, hρρ]
          rw [this]; ring
        rw [distance_eq_sqrt, hdist]
        have hn : ‖pos2 D‖ = Real.sqrt ((max (D 0) 0) ^ 2 + (max (D 1) 0) ^ 2) := by
          rw [EuclideanSpace.norm_eq]; simp [pos2, Fin.sum_univ_two]
        rw [← hn]; linarith [hneg]
  · rintro ⟨q, hq, hd⟩
    have hl := roundedCylinder_lipschitz pos ra rb h p q
    have h1 := (abs_le.mp hl).2
    have h2 := roundedCylinder_core_le pos ra rb h q hq
    linarith

/-! ### non-vacuity -/

example : InCoreCyl (⟨0, 0, 0⟩ : P3) 1 (1/2) 1 ⟨1, 0, 0⟩ := by
  constructor
  · rw [show ((1 : ℝ) - 0) ^ 2 + ((0 : ℝ) - 0) ^ 2 = 1 by norm_num, Real.sqrt_one]; norm_num
  · simp

example : ∃ s : P3, Line (⟨0, 0, 0⟩ : P3) ⟨1, 0, 0⟩ 1 s = 0 ∧
    (⟨1/2, 0, 0⟩ : P3).Distance s = |Line (⟨0, 0, 0⟩ : P3) ⟨1, 0, 0⟩ 1 ⟨1/2, 0, 0⟩| :=
  line_exact_attained _ _ (by intro h; have := congrArg V3.x h; simp at this) 1 (by norm_num) _

end C19
end PolyVerif
