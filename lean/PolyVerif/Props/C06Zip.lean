/-
  C06 — pairing two lists position by position (a Prop-valued `allZip`).
-/
import PolyVerif.Model.GltfSpec

namespace PolyVerif
namespace C06
open Gltf

/-! ### pairing two lists -/

def Zip {α β} (R : α → β → Prop) : List α → List β → Prop
  | [], [] => True
  | a :: l, b :: r => R a b ∧ Zip R l r
  | _, _ => False

theorem zip_imp {α β} {R R' : α → β → Prop} (h : ∀ a b, R a b → R' a b) : ∀ {l : List α} {r : List β}, Zip R l r → Zip R' l r
  | [], [], _ => trivial
  | _ :: _, _ :: _, hz => ⟨h _ _ hz.1, zip_imp h hz.2⟩
  | [], _ :: _, hz => hz.elim
  | _ :: _, [], hz => hz.elim

theorem zip_snoc {α β} {R : α → β → Prop} : ∀ {l : List α} {r : List β} {a : α} {b : β}, Zip R l r → R a b → Zip R (l ++ [a]) (r ++ [b])
  | [], [], _, _, _, hab => ⟨hab, trivial⟩
  | _ :: _, _ :: _, _, _, hz, hab => ⟨hz.1, zip_snoc hz.2 hab⟩
  | [], _ :: _, _, _, hz, _ => hz.elim
  | _ :: _, [], _, _, hz, _ => hz.elim

theorem zip_length {α β} {R : α → β → Prop} : ∀ {l : List α} {r : List β}, Zip R l r → l.length = r.length
  | [], [], _ => rfl
  | _ :: _, _ :: _, hz => by simp [zip_length hz.2]
  | [], _ :: _, hz => hz.elim
  | _ :: _, [], hz => hz.elim

theorem allZip_of_zip {α β} {R : α → β → Prop} {p : α → β → Bool} (h : ∀ a b, R a b → p a b = true) :
    ∀ {l : List α} {r : List β}, Zip R l r → allZip p l r = true
  | [], [], _ => rfl
  | _ :: _, _ :: _, hz => by simp [allZip, h _ _ hz.1, allZip_of_zip h hz.2]
  | [], _ :: _, hz => hz.elim
  | _ :: _, [], hz => hz.elim

theorem zip_mem_right {α β} {R : α → β → Prop} : ∀ {l : List α} {r : List β}, Zip R l r → ∀ b ∈ r, ∃ a, R a b
  | [], [], _, b, hb => by cases hb
  | _ :: _, _ :: _, hz, b, hb => by
    simp only [List.mem_cons] at hb
    rcases hb with rfl | hb
    · exact ⟨_, hz.1⟩
    · exact zip_mem_right hz.2 b hb
  | [], _ :: _, hz, _, _ => hz.elim
  | _ :: _, [], hz, _, _ => hz.elim


theorem zip_of_forall_map {α β} {R : α → β → Prop} : ∀ (L : List (α × β)), (∀ p ∈ L, R p.1 p.2) → Zip R (L.map Prod.fst) (L.map Prod.snd)
  | [], _ => trivial
  | p :: L, h => ⟨h p (by simp), zip_of_forall_map L (fun q hq => h q (by simp [hq]))⟩

theorem zip_mem_zip {α β} {R : α → β → Prop} : ∀ {l : List α} {r : List β}, Zip R l r → ∀ p ∈ l.zip r, R p.1 p.2
  | [], [], _, p, hp => by cases hp
  | _ :: _, _ :: _, hz, p, hp => by
    simp only [List.zip_cons_cons, List.mem_cons] at hp
    rcases hp with rfl | hp
    · exact hz.1
    · exact zip_mem_zip hz.2 p hp
  | [], _ :: _, hz, _, _ => hz.elim
  | _ :: _, [], hz, _, _ => hz.elim

/-- sorting both sides by keys that agree on related elements keeps them related position by position -/
theorem zip_mergeSort {α β} {R : α → β → Prop} (ka : α → String) (kb : β → String) (hk : ∀ a b, R a b → ka a = kb b)
    {l : List α} {r : List β} (hz : Zip R l r) :
    Zip R (l.mergeSort (fun x y => !(ka y < ka x))) (r.mergeSort (fun x y => !(kb y < kb x))) := by
  have hlen := zip_length hz
  have hmem := zip_mem_zip hz
  have e1 : (l.zip r).map Prod.fst = l := List.map_fst_zip (by omega)
  have e2 : (l.zip r).map Prod.snd = r := List.map_snd_zip (by omega)
  have s1 : ((l.zip r).mergeSort (fun p q => !(ka q.1 < ka p.1))).map Prod.fst = l.mergeSort (fun x y => !(ka y < ka x)) := by
    rw [List.map_mergeSort (s := fun x y => !(ka y < ka x)) (fun _ _ _ _ => rfl), e1]
  have s2 : ((l.zip r).mergeSort (fun p q => !(ka q.1 < ka p.1))).map Prod.snd = r.mergeSort (fun x y => !(kb y < kb x)) := by
    rw [List.map_mergeSort (s := fun x y => !(kb y < kb x)) (fun p hp q hq => by rw [hk _ _ (hmem p hp), hk _ _ (hmem q hq)]), e2]
  rw [← s1, ← s2]
  exact zip_of_forall_map _ (fun p hp => hmem p (List.mem_mergeSort.mp hp))

end C06
end PolyVerif
