/-
  C06 (round 2) — every topology and nil texture literals INSIDE the quantifier; after the repair
  "fix: gltf writer sets the primitive mode of line meshes and rejects quad meshes" the topology clause is a THEOREM.

  `writeSceneT` (Model/GltfTopo.lean) is the writer with a three-valued outcome: a file written from a state `w`, an error
  (incl. `.quad`: a quad mesh, rejected right after the nil-mesh check), or a panic (`PrimitiveCount()` on an undeclared
  topology value; `AddTexture(nil)` for a `PolyformNormal{}` / `PolyformOcclusion{}` literal).  In the last two cases nothing
  is written — `Outcome.err` / `Outcome.panic` carry no state.

  * `writeSceneT_ok_iff`: accepted ⇔ the base model `writeScene` accepts AND every model's mesh is a triangle, point, line,
    line-strip or line-loop mesh (`TopoAccepted`).
  * `gltf_topo_full : C06_topo_full`: for EVERY accepted scene with well-formed meshes / instances and congruent extension
    values the mode of every model's primitive IS the glTF mode of the model's topology (`topoCarried`), and the number of
    indices fits the written mode (`modeIndexOK`, and `docModeCountOK` on the document alone) exactly when the model's own index
    count fits its topology (`PMesh.indexCountFits`: 3k for triangles, 2k for lines, ≥ 2 for loops / strips) — a property of
    the INPUT; `gltf_topo_full_wf`: under `IndexCountsWF` all three hold.
  * `gltf_scene_topo_full`: file ⇒ valid ∧ carriesScene ∧ dedupOK ∧ the above; otherwise error / panic, nothing written.
  * `gltf_line_written_as_lines`, `gltf_quad_rejected_instance`: the former counterexample scene (LINE mesh, indices [0, 1]) is
    now written with mode 1 LINES and satisfies every predicate; a quad scene is rejected.
    (Before the repair the line scene was written without a mode = TRIANGLES with two indices: known finding, fixed.)
-/
import PolyVerif.Props.C06Full
import PolyVerif.Model.GltfTopo

namespace PolyVerif
namespace C06
open Gltf

/-! ### the node list pairs with the visible models (no hypothesis on the topology) -/

/-- the first `|visible|` nodes of the written document carry the visible models, position by position (`Carries`:
    name / TRS verbatim, the node's mesh is the glTF mesh written for the model's heap mesh — one primitive, data read back,
    `mode` from the topology —, instancing accessors decode to the instance transforms) -/
theorem scene_zip_carries (s : Scene) (w : W) (hs : SceneOK s) (h : writeScene s = .ok w) :
    Zip (Carries s w) s.visible (w.nodes.take s.visible.length) := by
  unfold writeScene at h
  split at h
  · cases h
  · rename_i w1 h1
    split at h
    · injection h with h; subst h
      unfold addScene at h1
      split at h1
      · cases h1
      · rename_i w0 h0
        injection h1 with h1; subst h1
        obtain ⟨hn, hd⟩ := addModels_carries s hs s.models {} w0 [] ⟨inv_empty, by simp, by simp, by simp⟩
          ⟨trivial, rfl, rfl, rfl⟩ (fun _ h => h) h0
        simp only [List.nil_append] at hn
        obtain ⟨ln, e1, e2, e3, e4, e5, e6, e7⟩ := addLights_carries s.lights w0 hn.scene
        have hg : Grow w0 (s.lights.foldl addLight w0) := ⟨ext_of_lowEq e6, [], by simp [e7]⟩
        have hz := zip_imp (fun a b hab => carries_mono hab hg) hn.zip
        have hlen : s.visible.length = w0.nodes.length := by rw [visible_eq]; exact zip_length hn.zip
        have : (s.lights.foldl addLight w0).nodes.take s.visible.length = w0.nodes := by
          rw [e1, hlen, List.take_left' rfl]
        rw [this, visible_eq]
        exact hz
    · cases h

/-- `gltf_carries_scene` never used its topology hypothesis: `carriesScene` (whose mode clause is `mode = 0 ⇔ point`) holds
    for every topology.  What `carriesScene` does NOT say is that the mode renders the topology: see `topoCarried`. -/
theorem gltf_carries_scene_anytopo (s : Scene) (w : W) (hs : SceneOK s) (h : writeScene s = .ok w) :
    carriesScene s w.doc w.buf = true := by
  unfold writeScene at h
  split at h
  · cases h
  · rename_i w1 h1
    split at h
    · injection h with h; subst h
      unfold addScene at h1
      split at h1
      · cases h1
      · rename_i w0 h0
        injection h1 with h1; subst h1
        obtain ⟨hn, hd⟩ := addModels_carries s hs s.models {} w0 [] ⟨inv_empty, by simp, by simp, by simp⟩
          ⟨trivial, rfl, rfl, rfl⟩ (fun _ h => h) h0
        simp only [List.nil_append] at hn
        obtain ⟨ln, e1, e2, e3, e4, e5, e6, e7⟩ := addLights_carries s.lights w0 hn.scene
        have hg : Grow w0 (s.lights.foldl addLight w0) := ⟨ext_of_lowEq e6, [], by simp [e7]⟩
        have hz := zip_imp (fun a b hab => carries_of_Carries s _ a b (carries_mono hab hg)) hn.zip
        have hlen : s.visible.length = w0.nodes.length := by rw [visible_eq]; exact zip_length hn.zip
        unfold carriesScene
        simp only [Bool.and_eq_true]
        refine ⟨⟨⟨⟨?_, ?_⟩, ?_⟩, ?_⟩, ?_⟩
        · have : (s.lights.foldl addLight w0).doc.nodes.take s.visible.length = w0.nodes := by
            show (s.lights.foldl addLight w0).nodes.take _ = _
            rw [e1, hlen, List.take_left' rfl]
          rw [this, visible_eq]
          exact allZip_of_zip (fun a b hab => hab) hz
        · have : (s.lights.foldl addLight w0).doc.nodes.drop s.visible.length = ln := by
            show (s.lights.foldl addLight w0).nodes.drop _ = _
            rw [e1, hlen, List.drop_left' rfl]
          rw [this]
          exact allZip_of_zip (fun l n hln => by obtain ⟨x, y, _⟩ := hln; simp [x, y]) e2
        · show ((s.lights.foldl addLight w0).scene == List.range (s.lights.foldl addLight w0).nodes.length) = true
          rw [e3]; simp
        · show ((s.lights.foldl addLight w0).lights == s.lights.length) = true
          rw [e4, hn.lights]; simp
        · show ((s.lights.foldl addLight w0).lightData == s.lights.map (fun l => lightOut (l.drop 3))) = true
          rw [e5, hn.lightData]; simp
    · cases h

/-! ### the three-valued outcome against the base model -/

/-- the topologies the writer accepts: triangle, point, line, line-strip, line-loop -/
def TopoAccepted (m : PMesh) : Prop := m.topo ≤ 5 ∧ m.topo ≠ 2

theorem liftOutcome_ok {r : Except Err W} {w : W} : liftOutcome r = .ok w ↔ r = .ok w := by
  cases r with
  | ok w' => simp [liftOutcome]
  | error e => cases e <;> simp [liftOutcome]

theorem addModelT_ok {s : Scene} {w w' : W} {md : Model} :
    addModelT s w md = .ok w' ↔ addModel s w md = .ok w' ∧ ∀ m, s.meshOf md = some m → TopoAccepted m := by
  unfold addModelT TopoAccepted
  cases hm : s.meshOf md with
  | none => simp [liftOutcome_ok]
  | some m =>
    by_cases hk : m.topo ≤ 5
    · by_cases hq : m.topo = 2
      · simp [PMesh.topoKnown, hq]
      · simp [PMesh.topoKnown, hk, hq, liftOutcome_ok]
    · simp [PMesh.topoKnown, hk]

theorem addModelsT_ok (s : Scene) : ∀ (l : List Model) (w w' : W),
    addModelsT s w l = .ok w' ↔ addModels s w l = .ok w' ∧ ∀ md ∈ l, ∀ m, s.meshOf md = some m → TopoAccepted m
  | [], w, w' => by simp [addModelsT, addModels]
  | md :: r, w, w' => by
    simp only [addModelsT, addModels]
    cases hT : addModelT s w md with
    | ok w1 =>
      obtain ⟨h1, h2⟩ := addModelT_ok.mp hT
      simp only [h1, addModelsT_ok s r w1 w', List.mem_cons, forall_eq_or_imp]
      exact ⟨fun ⟨a, b⟩ => ⟨a, h2, b⟩, fun ⟨a, _, b⟩ => ⟨a, b⟩⟩
    | err e =>
      simp only [reduceCtorEq, false_iff, not_and]
      intro hok
      cases hA : addModel s w md with
      | error x => rw [hA] at hok; cases hok
      | ok w1 =>
        intro hall
        have := addModelT_ok.mpr ⟨hA, hall md (by simp)⟩
        rw [hT] at this; cases this
    | panic =>
      simp only [reduceCtorEq, false_iff, not_and]
      intro hok
      cases hA : addModel s w md with
      | error x => rw [hA] at hok; cases hok
      | ok w1 =>
        intro hall
        have := addModelT_ok.mpr ⟨hA, hall md (by simp)⟩
        rw [hT] at this; cases this

/-- ACCEPTANCE, exactly: `writeSceneT` writes a file from `w` iff the base model does and every model's mesh is a triangle,
    point, line, line-strip or line-loop mesh (a quad mesh is rejected with an error, an undeclared topology value makes
    `PrimitiveCount()` panic when that model is reached, or an earlier model is rejected: either way nothing is written). -/
theorem writeSceneT_ok_iff (s : Scene) (w : W) :
    writeSceneT s = .ok w ↔ writeScene s = .ok w ∧ ∀ md ∈ s.models, ∀ m, s.meshOf md = some m → TopoAccepted m := by
  unfold writeSceneT writeScene addScene
  cases hT : addModelsT s {} s.models with
  | ok w1 =>
    obtain ⟨h1, h2⟩ := (addModelsT_ok s s.models {} w1).mp hT
    simp only [h1]
    by_cases hm : marshalOK (s.lights.foldl addLight w1) = true
    · simp only [hm, if_true]
      constructor
      · intro h; injection h with h; subst h; exact ⟨rfl, h2⟩
      · intro h; injection h.1 with h; subst h; rfl
    · simp [hm]
  | err e =>
    simp only [reduceCtorEq, false_iff, not_and]
    intro hok hall
    cases hA : addModels s {} s.models with
    | error x => rw [hA] at hok; cases hok
    | ok w1 =>
      have := (addModelsT_ok s s.models {} w1).mpr ⟨hA, hall⟩
      rw [hT] at this; cases this
  | panic =>
    simp only [reduceCtorEq, false_iff, not_and]
    intro hok hall
    cases hA : addModels s {} s.models with
    | error x => rw [hA] at hok; cases hok
    | ok w1 =>
      have := (addModelsT_ok s s.models {} w1).mpr ⟨hA, hall⟩
      rw [hT] at this; cases this

/-- REJECTION of an undeclared topology value: nothing is written for a scene one of whose models has such a mesh -/
theorem gltf_unknown_topology_rejected (s : Scene) (md : Model) (m : PMesh) (hmd : md ∈ s.models)
    (hm : s.meshOf md = some m) (ht : 5 < m.topo) : ∀ w, writeSceneT s ≠ .ok w := by
  intro w h
  have := (((writeSceneT_ok_iff s w).mp h).2 md hmd m hm).1
  omega

/-- REJECTION of quad meshes (glTF has no quad mode): nothing is written for a scene one of whose models has a quad mesh -/
theorem gltf_quad_rejected (s : Scene) (md : Model) (m : PMesh) (hmd : md ∈ s.models)
    (hm : s.meshOf md = some m) (ht : m.topo = 2) : ∀ w, writeSceneT s ≠ .ok w := by
  intro w h
  exact (((writeSceneT_ok_iff s w).mp h).2 md hmd m hm).2 ht

/-! ### the drawing mode, characterised -/

theorem zip_allZip_iff {α β} {R : α → β → Prop} {q : α → β → Bool} {P : α → Prop}
    (h : ∀ a b, R a b → (q a b = true ↔ P a)) :
    ∀ {l : List α} {r : List β}, Zip R l r → (allZip q l r = true ↔ ∀ a ∈ l, P a)
  | [], [], _ => by simp [allZip]
  | a :: l, b :: r, hz => by
    simp only [allZip, Bool.and_eq_true, List.mem_cons, forall_eq_or_imp, h a b hz.1, zip_allZip_iff h hz.2]
  | [], _ :: _, hz => hz.elim
  | _ :: _, [], hz => hz.elim

/-- what `Carries` says about the primitive a node references -/
theorem carries_nodePrim {s : Scene} {w : W} {md : Model} {n : GNode} (h : Carries s w md n) :
    ∃ m p idx, s.meshOf md = some m ∧ nodePrim s w.doc md n = some (m, p)
      ∧ p.mode = modeOfTopo m.topo ∧ p.indices = some idx
      ∧ decodeAt w.doc w.buf idx = some m.indices
      ∧ (∃ x, w.doc.accessors[idx]? = some x ∧ x.count = m.indices.length)
      ∧ (∃ gm ∈ w.doc.meshes, gm.prims = [p]) := by
  obtain ⟨_, _, _, _, ⟨id, mi, gm, mat, a1, a2, a3, ⟨m, p, idx, b1, b2, b3, b4, b5, b6, _, _⟩, _⟩, _⟩ := h
  have hm : s.meshOf md = some m := by simp [Scene.meshOf, a1, b1]
  refine ⟨m, p, idx, hm, ?_, b5, b4, decodeAt_of_accIs b6.2.2, ?_, ?_⟩
  · have : w.doc.meshes[mi]? = some gm := a3
    simp [nodePrim, hm, a2, this, b2]
  · obtain ⟨x, h1, _, _, h4, _⟩ := b6.2.2
    exact ⟨x, h1, h4⟩
  · exact ⟨gm, List.mem_of_getElem? a3, b2⟩

theorem expectedMode_written (t : Nat) :
    (expectedMode t == some (modeOfTopo t)) = true ↔ (t ≤ 5 ∧ t ≠ 2) := by
  match t with
  | 0 => simp [expectedMode, modeOfTopo]
  | 1 => simp [expectedMode, modeOfTopo]
  | 2 => simp [expectedMode, modeOfTopo]
  | 3 => simp [expectedMode, modeOfTopo]
  | 4 => simp [expectedMode, modeOfTopo]
  | 5 => simp [expectedMode, modeOfTopo]
  | n + 6 => simp [expectedMode]

/-- THE MODE RENDERS THE TOPOLOGY: for every well-formed scene the base model accepts, `topoCarried` holds iff every visible
    model's mesh has an accepted topology (triangle, point, line, line-strip, line-loop).  (`writeSceneT` only accepts such
    scenes: `gltf_topo_full`.) -/
theorem gltf_topo_carried_iff (s : Scene) (w : W) (hs : SceneOK s) (h : writeScene s = .ok w) :
    topoCarried s w.doc = true ↔ ∀ md ∈ s.visible, ∀ m, s.meshOf md = some m → TopoAccepted m := by
  unfold topoCarried
  refine zip_allZip_iff (R := Carries s w) ?_ (scene_zip_carries s w hs h)
  intro md n hc
  obtain ⟨m, p, idx, hm, hp, hmode, _, _, _, _⟩ := carries_nodePrim hc
  simp only [hp, hmode, hm, Option.some.injEq, forall_eq', expectedMode_written, TopoAccepted]

/-- THE INDEX COUNT FITS THE MODE exactly when every visible model's own index count fits its topology -/
theorem gltf_mode_index_iff (s : Scene) (w : W) (hs : SceneOK s) (h : writeScene s = .ok w) :
    modeIndexOK s w.doc w.buf = true ↔
      ∀ md ∈ s.visible, ∀ m, s.meshOf md = some m → m.indexCountFits = true := by
  unfold modeIndexOK
  refine zip_allZip_iff (R := Carries s w) ?_ (scene_zip_carries s w hs h)
  intro md n hc
  obtain ⟨m, p, idx, hm, hp, hmode, hidx, hdec, _, _⟩ := carries_nodePrim hc
  simp only [hp, hmode, hm, hidx, hdec, Option.some.injEq, forall_eq', PMesh.indexCountFits]

/-- DOCUMENT LEVEL (what a validator sees, without the scene): if every indexed primitive of the written document has an
    index count compatible with its mode, then every visible model's own index count fits its topology. -/
theorem gltf_doc_mode_count_imp (s : Scene) (w : W) (hs : SceneOK s) (h : writeScene s = .ok w)
    (hd : docModeCountOK w.doc = true) :
    ∀ md ∈ s.visible, ∀ m, s.meshOf md = some m → m.indexCountFits = true := by
  refine (gltf_mode_index_iff s w hs h).mp ?_
  unfold modeIndexOK
  refine allZip_of_zip (R := Carries s w) ?_ (scene_zip_carries s w hs h)
  intro md n hc
  obtain ⟨m, p, idx, hm, hp, hmode, hidx, hdec, ⟨x, hx, hcount⟩, gm, hgm, hprims⟩ := carries_nodePrim hc
  simp only [hp, hidx, hdec]
  unfold docModeCountOK at hd
  have h1 := List.all_eq_true.mp hd gm hgm
  have h2 := List.all_eq_true.mp h1 p (by rw [hprims]; simp)
  simp only [hidx, hx] at h2
  rw [← hcount]; exact h2

/-- DOCUMENT LEVEL, sufficient condition over the heap meshes (every glTF mesh of the document was written for a heap
    mesh: `scene_dinv`). -/
theorem gltf_doc_mode_count_of (s : Scene) (w : W) (hs : SceneOK s) (h : writeScene s = .ok w)
    (hall : ∀ m ∈ s.meshHeap, m.indexCountFits = true) : docModeCountOK w.doc = true := by
  have hd := scene_dinv s w hs h
  unfold docModeCountOK
  rw [List.all_eq_true]
  intro gm hgm
  obtain ⟨id, mat, m, p, idx, h1, h2, _, h4, h5, h6, _, _⟩ := hd.meshes gm hgm
  obtain ⟨x, hx, _, _, hcount, _⟩ := h6.2.2
  have hx' : w.doc.accessors[idx]? = some x := hx
  rw [h2]
  simp only [List.all_cons, List.all_nil, Bool.and_true, h4, hx', h5, hcount]
  exact hall m (List.mem_of_getElem? h1)

/-! ### the scene-level statement with every topology inside the quantifier -/

/-- scene hypotheses WITHOUT a topology clause: well-formed meshes and instances, congruent extension values -/
def SceneWFT (s : Scene) : Prop := SceneOK s ∧ ExtCongr s

/-- THE TOPOLOGY CLAUSE: for every accepted scene the mode of every model's primitive renders the model's topology, and the
    index count fits the written mode exactly when the model's own index count fits its topology -/
def C06_topo_full : Prop :=
  ∀ s w, SceneWFT s → writeSceneT s = .ok w →
    topoCarried s w.doc = true
    ∧ (modeIndexOK s w.doc w.buf = true ↔ ∀ md ∈ s.visible, ∀ m, s.meshOf md = some m → m.indexCountFits = true)

/-- `C06_topo_full` IS A THEOREM of the repaired writer (it was false before: a LINE mesh came out as TRIANGLES). -/
theorem gltf_topo_full : C06_topo_full := by
  intro s w hs hT
  obtain ⟨h, hk⟩ := (writeSceneT_ok_iff s w).mp hT
  refine ⟨(gltf_topo_carried_iff s w hs.1 h).mpr ?_, gltf_mode_index_iff s w hs.1 h⟩
  intro md hmd m hm
  exact hk md (List.mem_filter.mp hmd).1 m hm

/-- index counts of the INPUT fit the topologies: 3k indices for a triangle mesh, 2k for a line mesh, at least two for a
    line loop / strip (points: any) -/
def IndexCountsWF (s : Scene) : Prop := ∀ m ∈ s.meshHeap, m.indexCountFits = true

/-- with well-formed index counts: mode faithful, index counts fit the mode, also on the document alone -/
theorem gltf_topo_full_wf (s : Scene) (w : W) (hs : SceneWFT s) (hi : IndexCountsWF s) (hT : writeSceneT s = .ok w) :
    topoCarried s w.doc = true ∧ modeIndexOK s w.doc w.buf = true ∧ docModeCountOK w.doc = true := by
  obtain ⟨h, _⟩ := (writeSceneT_ok_iff s w).mp hT
  obtain ⟨h1, h2⟩ := gltf_topo_full s w hs hT
  refine ⟨h1, h2.mpr ?_, gltf_doc_mode_count_of s w hs.1 h hi⟩
  intro md _ m hm
  refine hi m ?_
  unfold Scene.meshOf at hm
  split at hm
  · cases hm
  · exact List.mem_of_getElem? hm

/-- full statement for one accepted scene -/
def C06_topo_full_for (s : Scene) (w : W) : Prop :=
  valid w.doc w.buf = true ∧ carriesScene s w.doc w.buf = true ∧ dedupOK s w.doc = true
  ∧ topoCarried s w.doc = true
  ∧ (modeIndexOK s w.doc w.buf = true ↔ ∀ md ∈ s.visible, ∀ m, s.meshOf md = some m → m.indexCountFits = true)

/-- EVERY TOPOLOGY INSIDE THE QUANTIFIER.  For every scene with well-formed meshes / instances and congruent extension
    values — whatever the topology values and texture ids — either `writeSceneT` writes nothing (error, incl. quad meshes, or
    panic: the outcome carries no state), or it writes a file that is `valid`, carries the scene (`carriesScene`), is
    deduplicated (`dedupOK`), every mesh has an accepted topology, and the drawing mode renders the topology. -/
theorem gltf_scene_topo_full (s : Scene) (hs : SceneWFT s) :
    (∃ w, writeSceneT s = .ok w ∧ C06_topo_full_for s w ∧ ∀ md ∈ s.models, ∀ m, s.meshOf md = some m → TopoAccepted m)
    ∨ (∃ e, writeSceneT s = .err e) ∨ writeSceneT s = .panic := by
  cases hT : writeSceneT s with
  | err e => exact Or.inr (Or.inl ⟨e, rfl⟩)
  | panic => exact Or.inr (Or.inr rfl)
  | ok w =>
    obtain ⟨h, hk⟩ := (writeSceneT_ok_iff s w).mp hT
    obtain ⟨h1, h2⟩ := gltf_topo_full s w hs hT
    exact Or.inl ⟨w, rfl, ⟨gltf_scene_valid s w hs.1 h, gltf_carries_scene_anytopo s w hs.1 h, gltf_dedup_ok s w hs.1 hs.2 h,
      h1, h2⟩, hk⟩

/-! ### witnesses -/

def lineMesh : PMesh :=
  { topo := 3, indices := [0, 1],
    attrs := [{ name := "Position", dim := 3, vals := [[0, 0, 0], [0x3f800000, 0, 0]] }] }

def lineScene : Scene :=
  { meshHeap := [lineMesh], texHeap := [], matHeap := [],
    models := [{ name := "l", mesh := some 0, material := none, translation := none, rotation := none, scale := none,
                 instances := [] }],
    lights := [] }

theorem lineMesh_written : lineMesh.written = [{ name := "Position", dim := 3, vals := [[0, 0, 0], [0x3f800000, 0, 0]] }] := by
  simp [lineMesh, PMesh.written, attrsOfDim, sortByName]

theorem lineMesh_attrLen : lineMesh.attrLen = 2 := by
  simp [lineMesh, PMesh.attrLen, attrsOfDim, sortByName]

theorem lineMesh_wf : MeshWF lineMesh := by
  refine ⟨?_, ?_, ?_⟩
  · rw [lineMesh_written, lineMesh_attrLen]
    intro a ha
    simp only [List.mem_singleton] at ha
    subst ha
    simp [VecsOK, attrComp, Comp.size, posInf32, negInf32, isNaN32]
  · rw [lineMesh_attrLen]; simp [lineMesh]
  · rw [lineMesh_attrLen]; decide

theorem lineScene_wf : SceneWFT lineScene := by
  unfold lineScene
  refine ⟨⟨?_, ?_⟩, ?_⟩
  · intro m hm; simp only [List.mem_singleton] at hm; subst hm; exact lineMesh_wf
  · intro md hmd
    simp only [List.mem_singleton] at hmd; subst hmd
    intro t ht; cases ht
  · intro a ha; simp at ha

theorem lineScene_observed : (match writeSceneT lineScene with
    | .ok w => (w.meshes.map (fun gm => gm.prims.map (fun p => (p.mode, p.indices))), w.accessors.map (·.count),
                valid w.doc w.buf, topoCarried lineScene w.doc, modeIndexOK lineScene w.doc w.buf, docModeCountOK w.doc)
    | _ => ([], [], false, false, false, false)) = ([[(some 1, some 1)]], [2, 2], true, true, true, true) := by
  decide +kernel

/-- the former counterexample (known finding, fixed): the LINE mesh with two vertices and indices [0, 1] is accepted and written
    with `mode = 1` LINES; the file is valid, the mode renders the topology and the two indices fit the mode -/
theorem gltf_line_written_as_lines : ∃ w, writeSceneT lineScene = .ok w ∧ SceneWFT lineScene ∧ IndexCountsWF lineScene
    ∧ topoCarried lineScene w.doc = true ∧ modeIndexOK lineScene w.doc w.buf = true ∧ docModeCountOK w.doc = true := by
  have hobs := lineScene_observed
  have hi : IndexCountsWF lineScene := by
    intro m hm; simp only [lineScene, List.mem_singleton] at hm; subst hm; decide
  cases hT : writeSceneT lineScene with
  | err e => rw [hT] at hobs; simp at hobs
  | panic => rw [hT] at hobs; simp at hobs
  | ok w => exact ⟨w, rfl, lineScene_wf, hi, gltf_topo_full_wf lineScene w lineScene_wf hi hT⟩

/-- non-vacuity of `gltf_scene_topo_full` on a non-triangle, non-point scene: the line scene is accepted -/
theorem lineScene_ok : ∃ w, writeSceneT lineScene = .ok w ∧ SceneWFT lineScene ∧ C06_topo_full_for lineScene w := by
  rcases gltf_scene_topo_full lineScene lineScene_wf with ⟨w, h, hf, _⟩ | ⟨e, he⟩ | hp
  · exact ⟨w, h, lineScene_wf, hf⟩
  · have hobs := lineScene_observed; rw [he] at hobs; simp at hobs
  · have hobs := lineScene_observed; rw [hp] at hobs; simp at hobs

/-- a quad mesh (four vertices, four indices): rejected with an error, nothing written -/
theorem gltf_quad_rejected_instance :
    (match writeSceneT { lineScene with meshHeap := [{ lineMesh with topo := 2, indices := [0, 1, 0, 1] }] } with
    | .err .quad => true
    | _ => false) = true := by decide +kernel

/-! ### nil texture literal -/

/-- a material whose `NormalTexture` is `&PolyformNormal{}` (embedded texture pointer nil = id outside the heap) -/
def nilNormalMat : PMaterial :=
  { name := "m", alphaMode := none, alphaCutoff := none, hasPbr := false, baseColor := none, metallic := none, roughness := none,
    baseColorTex := none, metalRoughTex := none, emissive := none, normalTex := some (0, none), occlusionTex := none, exts := [] }

def nilNormalScene : Scene :=
  { meshHeap := [exMesh], texHeap := [], matHeap := [nilNormalMat],
    models := [{ name := "a", mesh := some 0, material := some 0, translation := none, rotation := none, scale := none,
                 instances := [] }],
    lights := [] }

/-- the `PolyformNormal{}` literal: representable, and the writer panics (nothing written) -/
theorem gltf_nil_normal_rejected : Representable nilNormalScene = true ∧ (match writeSceneT nilNormalScene with
    | .panic => true
    | _ => false) = true := by
  constructor <;> decide +kernel

/-- an undeclared topology value: panic -/
theorem gltf_unknown_topology_panics :
    (match writeSceneT { lineScene with meshHeap := [{ lineMesh with topo := 6 }] } with
    | .panic => true
    | _ => false) = true := by decide +kernel

end C06
end PolyVerif
