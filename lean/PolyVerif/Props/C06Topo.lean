/-
  C06 (round 2) — every topology and nil texture literals INSIDE the quantifier.

  `writeSceneT` (Model/GltfTopo.lean) is the writer with a three-valued outcome: a file written from a state `w`, an error,
  or a panic (`PrimitiveCount()` on an undeclared topology value; `AddTexture(nil)` for a `PolyformNormal{}` /
  `PolyformOcclusion{}` literal).  In the last two cases nothing is written — `Outcome.err` / `Outcome.panic` carry no state.

  * `writeSceneT_ok_iff`: accepted ⇔ the base model `writeScene` accepts AND every model's mesh has a declared topology.
  * `gltf_scene_topo_full`: for EVERY scene with well-formed meshes / instances and congruent extension values — no
    hypothesis on the topology — that `writeSceneT` accepts: valid ∧ carriesScene ∧ dedupOK, and the drawing mode is
    characterised exactly:
      `topoCarried` (mode = the glTF mode of the model's topology) ⇔ every visible model is a triangle or point mesh,
      `modeIndexOK` (number of indices compatible with the written mode) ⇔ every visible model is a point mesh or has a
      multiple of three indices.
  * `gltf_line_written_as_triangles`: a LINE mesh with two vertices and indices [0, 1] is accepted, the file is `valid`,
    but its primitive has no `mode` (TRIANGLES) and two indices: `topoCarried`, `modeIndexOK`, `docModeCountOK` are all false.
    CANDIDATE DEFECT of formats/gltf/writer.go:524-528 (only PointTopology sets `mode`).
  * `gltf_unknown_topology_rejected`, `gltf_nil_normal_rejected`: nothing is written for such scenes.
-/
import PolyVerif.Props.C06Full
import PolyVerif.Model.GltfTopo

namespace PolyVerif
namespace C06
open Gltf

/-! ### the node list pairs with the visible models (no hypothesis on the topology) -/

/-- the first `|visible|` nodes of the written document carry the visible models, position by position (`Carries`:
    name / TRS verbatim, the node's mesh is the glTF mesh written for the model's heap mesh — one primitive, data read back,
    `mode = 0` iff point topology —, instancing accessors decode to the instance transforms) -/
theorem scene_zip_carries (s : Scene) (w : W) (hs : SceneOK s) (h : writeScene s = .ok w) :
    Zip (Carries s w) s.visible (w.nodes.take s.visible.length) := by
  unfold writeScene at h
  split at h
  · cases h
  · rename_i w1 h1
    split at h
    · injection h with h; subst h
      unfold addScene at h1
      split at h1
      · cases h1
      · rename_i w0 h0
        injection h1 with h1; subst h1
        obtain ⟨hn, hd⟩ := addModels_carries s hs s.models {} w0 [] ⟨inv_empty, by simp, by simp, by simp⟩
          ⟨trivial, rfl, rfl, rfl⟩ (fun _ h => h) h0
        simp only [List.nil_append] at hn
        obtain ⟨ln, e1, e2, e3, e4, e5, e6, e7⟩ := addLights_carries s.lights w0 hn.scene
        have hg : Grow w0 (s.lights.foldl addLight w0) := ⟨ext_of_lowEq e6, [], by simp [e7]⟩
        have hz := zip_imp (fun a b hab => carries_mono hab hg) hn.zip
        have hlen : s.visible.length = w0.nodes.length := by rw [visible_eq]; exact zip_length hn.zip
        have : (s.lights.foldl addLight w0).nodes.take s.visible.length = w0.nodes := by
          rw [e1, hlen, List.take_left' rfl]
        rw [this, visible_eq]
        exact hz
    · cases h

/-- `gltf_carries_scene` never used its topology hypothesis: `carriesScene` (whose mode clause is `mode = 0 ⇔ point`) holds
    for every topology.  What `carriesScene` does NOT say is that the mode renders the topology: see `topoCarried`. -/
theorem gltf_carries_scene_anytopo (s : Scene) (w : W) (hs : SceneOK s) (h : writeScene s = .ok w) :
    carriesScene s w.doc w.buf = true := by
  unfold writeScene at h
  split at h
  · cases h
  · rename_i w1 h1
    split at h
    · injection h with h; subst h
      unfold addScene at h1
      split at h1
      · cases h1
      · rename_i w0 h0
        injection h1 with h1; subst h1
        obtain ⟨hn, hd⟩ := addModels_carries s hs s.models {} w0 [] ⟨inv_empty, by simp, by simp, by simp⟩
          ⟨trivial, rfl, rfl, rfl⟩ (fun _ h => h) h0
        simp only [List.nil_append] at hn
        obtain ⟨ln, e1, e2, e3, e4, e5, e6, e7⟩ := addLights_carries s.lights w0 hn.scene
        have hg : Grow w0 (s.lights.foldl addLight w0) := ⟨ext_of_lowEq e6, [], by simp [e7]⟩
        have hz := zip_imp (fun a b hab => carries_of_Carries s _ a b (carries_mono hab hg)) hn.zip
        have hlen : s.visible.length = w0.nodes.length := by rw [visible_eq]; exact zip_length hn.zip
        unfold carriesScene
        simp only [Bool.and_eq_true]
        refine ⟨⟨⟨⟨?_, ?_⟩, ?_⟩, ?_⟩, ?_⟩
        · have : (s.lights.foldl addLight w0).doc.nodes.take s.visible.length = w0.nodes := by
            show (s.lights.foldl addLight w0).nodes.take _ = _
            rw [e1, hlen, List.take_left' rfl]
          rw [this, visible_eq]
          exact allZip_of_zip (fun a b hab => hab) hz
        · have : (s.lights.foldl addLight w0).doc.nodes.drop s.visible.length = ln := by
            show (s.lights.foldl addLight w0).nodes.drop _ = _
            rw [e1, hlen, List.drop_left' rfl]
          rw [this]
          exact allZip_of_zip (fun l n hln => by obtain ⟨x, y, _⟩ := hln; simp [x, y]) e2
        · show ((s.lights.foldl addLight w0).scene == List.range (s.lights.foldl addLight w0).nodes.length) = true
          rw [e3]; simp
        · show ((s.lights.foldl addLight w0).lights == s.lights.length) = true
          rw [e4, hn.lights]; simp
        · show ((s.lights.foldl addLight w0).lightData == s.lights.map (fun l => lightOut (l.drop 3))) = true
          rw [e5, hn.lightData]; simp
    · cases h

/-! ### the three-valued outcome against the base model -/

theorem liftOutcome_ok {r : Except Err W} {w : W} : liftOutcome r = .ok w ↔ r = .ok w := by
  cases r with
  | ok w' => simp [liftOutcome]
  | error e => cases e <;> simp [liftOutcome]

theorem addModelT_ok {s : Scene} {w w' : W} {md : Model} :
    addModelT s w md = .ok w' ↔ addModel s w md = .ok w' ∧ ∀ m, s.meshOf md = some m → m.topo ≤ 5 := by
  unfold addModelT
  cases hm : s.meshOf md with
  | none => simp [liftOutcome_ok]
  | some m =>
    by_cases hk : m.topo ≤ 5
    · simp [PMesh.topoKnown, hk, liftOutcome_ok]
    · simp [PMesh.topoKnown, hk]

theorem addModelsT_ok (s : Scene) : ∀ (l : List Model) (w w' : W),
    addModelsT s w l = .ok w' ↔ addModels s w l = .ok w' ∧ ∀ md ∈ l, ∀ m, s.meshOf md = some m → m.topo ≤ 5
  | [], w, w' => by simp [addModelsT, addModels]
  | md :: r, w, w' => by
    simp only [addModelsT, addModels]
    cases hT : addModelT s w md with
    | ok w1 =>
      obtain ⟨h1, h2⟩ := addModelT_ok.mp hT
      simp only [h1, addModelsT_ok s r w1 w', List.mem_cons, forall_eq_or_imp]
      exact ⟨fun ⟨a, b⟩ => ⟨a, h2, b⟩, fun ⟨a, _, b⟩ => ⟨a, b⟩⟩
    | err e =>
      simp only [reduceCtorEq, false_iff, not_and]
      intro hok
      cases hA : addModel s w md with
      | error x => rw [hA] at hok; cases hok
      | ok w1 =>
        intro hall
        have := addModelT_ok.mpr ⟨hA, hall md (by simp)⟩
        rw [hT] at this; cases this
    | panic =>
      simp only [reduceCtorEq, false_iff, not_and]
      intro hok
      cases hA : addModel s w md with
      | error x => rw [hA] at hok; cases hok
      | ok w1 =>
        intro hall
        have := addModelT_ok.mpr ⟨hA, hall md (by simp)⟩
        rw [hT] at this; cases this

/-- ACCEPTANCE, exactly: `writeSceneT` writes a file from `w` iff the base model does and every model's mesh has one of
    the six declared topologies (otherwise `PrimitiveCount()` panics when that model is reached, or an earlier model is
    rejected: either way nothing is written). -/
theorem writeSceneT_ok_iff (s : Scene) (w : W) :
    writeSceneT s = .ok w ↔ writeScene s = .ok w ∧ ∀ md ∈ s.models, ∀ m, s.meshOf md = some m → m.topo ≤ 5 := by
  unfold writeSceneT writeScene addScene
  cases hT : addModelsT s {} s.models with
  | ok w1 =>
    obtain ⟨h1, h2⟩ := (addModelsT_ok s s.models {} w1).mp hT
    simp only [h1]
    by_cases hm : marshalOK (s.lights.foldl addLight w1) = true
    · simp only [hm, if_true]
      constructor
      · intro h; injection h with h; subst h; exact ⟨rfl, h2⟩
      · intro h; injection h.1 with h; subst h; rfl
    · simp [hm]
  | err e =>
    simp only [reduceCtorEq, false_iff, not_and]
    intro hok hall
    cases hA : addModels s {} s.models with
    | error x => rw [hA] at hok; cases hok
    | ok w1 =>
      have := (addModelsT_ok s s.models {} w1).mpr ⟨hA, hall⟩
      rw [hT] at this; cases this
  | panic =>
    simp only [reduceCtorEq, false_iff, not_and]
    intro hok hall
    cases hA : addModels s {} s.models with
    | error x => rw [hA] at hok; cases hok
    | ok w1 =>
      have := (addModelsT_ok s s.models {} w1).mpr ⟨hA, hall⟩
      rw [hT] at this; cases this

/-- REJECTION of an undeclared topology value: nothing is written for a scene one of whose models has such a mesh -/
theorem gltf_unknown_topology_rejected (s : Scene) (md : Model) (m : PMesh) (hmd : md ∈ s.models)
    (hm : s.meshOf md = some m) (ht : 5 < m.topo) : ∀ w, writeSceneT s ≠ .ok w := by
  intro w h
  have := ((writeSceneT_ok_iff s w).mp h).2 md hmd m hm
  omega

/-! ### the drawing mode, characterised -/

theorem zip_allZip_iff {α β} {R : α → β → Prop} {q : α → β → Bool} {P : α → Prop}
    (h : ∀ a b, R a b → (q a b = true ↔ P a)) :
    ∀ {l : List α} {r : List β}, Zip R l r → (allZip q l r = true ↔ ∀ a ∈ l, P a)
  | [], [], _ => by simp [allZip]
  | a :: l, b :: r, hz => by
    simp only [allZip, Bool.and_eq_true, List.mem_cons, forall_eq_or_imp, h a b hz.1, zip_allZip_iff h hz.2]
  | [], _ :: _, hz => hz.elim
  | _ :: _, [], hz => hz.elim

/-- what `Carries` says about the primitive a node references -/
theorem carries_nodePrim {s : Scene} {w : W} {md : Model} {n : GNode} (h : Carries s w md n) :
    ∃ m p idx, s.meshOf md = some m ∧ nodePrim s w.doc md n = some (m, p)
      ∧ p.mode = (if m.topo = 1 then some 0 else none) ∧ p.indices = some idx
      ∧ decodeAt w.doc w.buf idx = some m.indices
      ∧ (∃ x, w.doc.accessors[idx]? = some x ∧ x.count = m.indices.length)
      ∧ (∃ gm ∈ w.doc.meshes, gm.prims = [p]) := by
  obtain ⟨_, _, _, _, ⟨id, mi, gm, mat, a1, a2, a3, ⟨m, p, idx, b1, b2, b3, b4, b5, b6, _, _⟩, _⟩, _⟩ := h
  have hm : s.meshOf md = some m := by simp [Scene.meshOf, a1, b1]
  refine ⟨m, p, idx, hm, ?_, b5, b4, decodeAt_of_accIs b6.2.2, ?_, ?_⟩
  · have : w.doc.meshes[mi]? = some gm := a3
    simp [nodePrim, hm, a2, this, b2]
  · obtain ⟨x, h1, _, _, h4, _⟩ := b6.2.2
    exact ⟨x, h1, h4⟩
  · exact ⟨gm, List.mem_of_getElem? a3, b2⟩

theorem expectedMode_written (t : Nat) :
    (expectedMode t == some (if t = 1 then some 0 else none)) = true ↔ (t = 0 ∨ t = 1) := by
  match t with
  | 0 => simp [expectedMode]
  | 1 => simp [expectedMode]
  | 2 => simp [expectedMode]
  | 3 => simp [expectedMode]
  | 4 => simp [expectedMode]
  | 5 => simp [expectedMode]
  | n + 6 => simp [expectedMode]

theorem modeCountOK_written (t n : Nat) :
    modeCountOK (if t = 1 then some 0 else none) n = true ↔ (t = 1 ∨ n % 3 = 0) := by
  by_cases h : t = 1
  · simp [h, modeCountOK]
  · simp [h, modeCountOK]

/-- THE MODE RENDERS THE TOPOLOGY exactly for triangle and point meshes: for every well-formed scene the base model
    accepts, `topoCarried` holds iff every visible model's mesh is a triangle (0) or point (1) mesh.  Quad, line,
    line-strip and line-loop meshes are accepted and written without a mode, i.e. as TRIANGLES. -/
theorem gltf_topo_carried_iff (s : Scene) (w : W) (hs : SceneOK s) (h : writeScene s = .ok w) :
    topoCarried s w.doc = true ↔ ∀ md ∈ s.visible, ∀ m, s.meshOf md = some m → (m.topo = 0 ∨ m.topo = 1) := by
  unfold topoCarried
  refine zip_allZip_iff (R := Carries s w) ?_ (scene_zip_carries s w hs h)
  intro md n hc
  obtain ⟨m, p, idx, hm, hp, hmode, _, _, _, _⟩ := carries_nodePrim hc
  simp only [hp, hmode, hm, Option.some.injEq, forall_eq', expectedMode_written]

/-- THE INDEX COUNT FITS THE MODE exactly when every visible model is a point mesh or has a multiple of three indices -/
theorem gltf_mode_index_iff (s : Scene) (w : W) (hs : SceneOK s) (h : writeScene s = .ok w) :
    modeIndexOK s w.doc w.buf = true ↔
      ∀ md ∈ s.visible, ∀ m, s.meshOf md = some m → (m.topo = 1 ∨ m.indices.length % 3 = 0) := by
  unfold modeIndexOK
  refine zip_allZip_iff (R := Carries s w) ?_ (scene_zip_carries s w hs h)
  intro md n hc
  obtain ⟨m, p, idx, hm, hp, hmode, hidx, hdec, _, _⟩ := carries_nodePrim hc
  simp only [hp, hmode, hm, hidx, hdec, Option.some.injEq, forall_eq', modeCountOK_written]

/-- DOCUMENT LEVEL (what a validator sees, without the scene): if every indexed primitive of the written document has an
    index count compatible with its mode, then every visible model is a point mesh or has a multiple of three indices.
    Contrapositive: ONE visible quad / line / line-strip / line-loop (or ill-formed triangle) mesh whose index count is not
    a multiple of three makes the written document fail the mode / index-count check. -/
theorem gltf_doc_mode_count_imp (s : Scene) (w : W) (hs : SceneOK s) (h : writeScene s = .ok w)
    (hd : docModeCountOK w.doc = true) :
    ∀ md ∈ s.visible, ∀ m, s.meshOf md = some m → (m.topo = 1 ∨ m.indices.length % 3 = 0) := by
  refine (gltf_mode_index_iff s w hs h).mp ?_
  unfold modeIndexOK
  refine allZip_of_zip (R := Carries s w) ?_ (scene_zip_carries s w hs h)
  intro md n hc
  obtain ⟨m, p, idx, hm, hp, hmode, hidx, hdec, ⟨x, hx, hcount⟩, gm, hgm, hprims⟩ := carries_nodePrim hc
  simp only [hp, hidx, hdec]
  unfold docModeCountOK at hd
  have h1 := List.all_eq_true.mp hd gm hgm
  have h2 := List.all_eq_true.mp h1 p (by rw [hprims]; simp)
  simp only [hidx, hx] at h2
  rw [← hcount]; exact h2

/-- DOCUMENT LEVEL, sufficient condition: when every heap mesh is a point mesh or has a multiple of three indices, every
    indexed primitive of the written document has an index count compatible with its mode (every glTF mesh of the document
    was written for a heap mesh: `scene_dinv`). -/
theorem gltf_doc_mode_count_of (s : Scene) (w : W) (hs : SceneOK s) (h : writeScene s = .ok w)
    (hall : ∀ m ∈ s.meshHeap, m.topo = 1 ∨ m.indices.length % 3 = 0) : docModeCountOK w.doc = true := by
  have hd := scene_dinv s w hs h
  unfold docModeCountOK
  rw [List.all_eq_true]
  intro gm hgm
  obtain ⟨id, mat, m, p, idx, h1, h2, _, h4, h5, h6, _, _⟩ := hd.meshes gm hgm
  obtain ⟨x, hx, _, _, hcount, _⟩ := h6.2.2
  have hx' : w.doc.accessors[idx]? = some x := hx
  rw [h2]
  simp only [List.all_cons, List.all_nil, Bool.and_true, h4, hx', h5, hcount]
  exact (modeCountOK_written m.topo m.indices.length).mpr (hall m (List.mem_of_getElem? h1))

/-! ### the scene-level statement with every topology inside the quantifier -/

/-- scene hypotheses WITHOUT a topology clause: well-formed meshes and instances, congruent extension values -/
def SceneWFT (s : Scene) : Prop := SceneOK s ∧ ExtCongr s

/-- full statement for one accepted scene -/
def C06_topo_full_for (s : Scene) (w : W) : Prop :=
  valid w.doc w.buf = true ∧ carriesScene s w.doc w.buf = true ∧ dedupOK s w.doc = true
  ∧ (topoCarried s w.doc = true ↔ ∀ md ∈ s.visible, ∀ m, s.meshOf md = some m → (m.topo = 0 ∨ m.topo = 1))
  ∧ (modeIndexOK s w.doc w.buf = true ↔
      ∀ md ∈ s.visible, ∀ m, s.meshOf md = some m → (m.topo = 1 ∨ m.indices.length % 3 = 0))

/-- EVERY TOPOLOGY INSIDE THE QUANTIFIER.  For every scene with well-formed meshes / instances and congruent extension
    values — whatever the topology values and texture ids — either `writeSceneT` writes nothing (error or panic: the outcome
    carries no state), or it writes a file that is `valid`, carries the scene (`carriesScene`), is deduplicated (`dedupOK`),
    every mesh has a declared topology, and the drawing mode is right exactly for triangle / point meshes. -/
theorem gltf_scene_topo_full (s : Scene) (hs : SceneWFT s) :
    (∃ w, writeSceneT s = .ok w ∧ C06_topo_full_for s w ∧ ∀ md ∈ s.models, ∀ m, s.meshOf md = some m → m.topo ≤ 5)
    ∨ (∃ e, writeSceneT s = .err e) ∨ writeSceneT s = .panic := by
  cases hT : writeSceneT s with
  | err e => exact Or.inr (Or.inl ⟨e, rfl⟩)
  | panic => exact Or.inr (Or.inr rfl)
  | ok w =>
    obtain ⟨h, hk⟩ := (writeSceneT_ok_iff s w).mp hT
    exact Or.inl ⟨w, rfl, ⟨gltf_scene_valid s w hs.1 h, gltf_carries_scene_anytopo s w hs.1 h, gltf_dedup_ok s w hs.1 hs.2 h,
      gltf_topo_carried_iff s w hs.1 h, gltf_mode_index_iff s w hs.1 h⟩, hk⟩

/-- the UNCONDITIONAL topology clause ("the mode of every written primitive renders its model's topology and fits its
    index count") — false of the code, see `gltf_line_written_as_triangles` -/
def C06_topo_full : Prop :=
  ∀ s w, SceneWFT s → writeSceneT s = .ok w → topoCarried s w.doc = true ∧ modeIndexOK s w.doc w.buf = true

/-! ### witnesses -/

def lineMesh : PMesh :=
  { topo := 3, indices := [0, 1],
    attrs := [{ name := "Position", dim := 3, vals := [[0, 0, 0], [0x3f800000, 0, 0]] }] }

def lineScene : Scene :=
  { meshHeap := [lineMesh], texHeap := [], matHeap := [],
    models := [{ name := "l", mesh := some 0, material := none, translation := none, rotation := none, scale := none,
                 instances := [] }],
    lights := [] }

theorem lineMesh_written : lineMesh.written = [{ name := "Position", dim := 3, vals := [[0, 0, 0], [0x3f800000, 0, 0]] }] := by
  simp [lineMesh, PMesh.written, attrsOfDim, sortByName]

theorem lineMesh_attrLen : lineMesh.attrLen = 2 := by
  simp [lineMesh, PMesh.attrLen, attrsOfDim, sortByName]

theorem lineMesh_wf : MeshWF lineMesh := by
  refine ⟨?_, ?_, ?_⟩
  · rw [lineMesh_written, lineMesh_attrLen]
    intro a ha
    simp only [List.mem_singleton] at ha
    subst ha
    simp [VecsOK, attrComp, Comp.size, posInf32, negInf32, isNaN32]
  · rw [lineMesh_attrLen]; simp [lineMesh]
  · rw [lineMesh_attrLen]; decide

theorem lineScene_wf : SceneWFT lineScene := by
  unfold lineScene
  refine ⟨⟨?_, ?_⟩, ?_⟩
  · intro m hm; simp only [List.mem_singleton] at hm; subst hm; exact lineMesh_wf
  · intro md hmd
    simp only [List.mem_singleton] at hmd; subst hmd
    intro t ht; cases ht
  · intro a ha; simp at ha

theorem lineScene_observed : (match writeSceneT lineScene with
    | .ok w => (w.meshes.map (fun gm => gm.prims.map (fun p => (p.mode, p.indices))), w.accessors.map (·.count),
                valid w.doc w.buf, topoCarried lineScene w.doc, modeIndexOK lineScene w.doc w.buf, docModeCountOK w.doc)
    | _ => ([], [], false, false, false, false)) = ([[(none, some 1)]], [2, 2], true, false, false, false) := by
  decide +kernel

/-- CANDIDATE DEFECT (formats/gltf/writer.go:524-528).  A LINE mesh (two vertices, indices [0, 1]) satisfies the scene
    hypotheses and is accepted; the written file is `valid`, but the primitive has no `mode` (= TRIANGLES) and an index
    accessor with two indices: the mode does not render the topology and the index count does not fit the mode.
    Hence `C06_topo_full` is false. -/
theorem gltf_line_written_as_triangles : ¬ C06_topo_full := by
  intro hfull
  have hobs := lineScene_observed
  cases hT : writeSceneT lineScene with
  | err e => rw [hT] at hobs; simp at hobs
  | panic => rw [hT] at hobs; simp at hobs
  | ok w =>
    rw [hT] at hobs
    have := (hfull lineScene w lineScene_wf hT).1
    simp only [Prod.mk.injEq] at hobs
    rw [hobs.2.2.2.1] at this
    cases this

/-- non-vacuity of `gltf_scene_topo_full` on a non-triangle, non-point scene: the line scene is accepted -/
theorem lineScene_ok : ∃ w, writeSceneT lineScene = .ok w ∧ SceneWFT lineScene ∧ C06_topo_full_for lineScene w := by
  rcases gltf_scene_topo_full lineScene lineScene_wf with ⟨w, h, hf, _⟩ | ⟨e, he⟩ | hp
  · exact ⟨w, h, lineScene_wf, hf⟩
  · have hobs := lineScene_observed; rw [he] at hobs; simp at hobs
  · have hobs := lineScene_observed; rw [hp] at hobs; simp at hobs

/-! ### nil texture literal -/

/-- a material whose `NormalTexture` is `&PolyformNormal{}` (embedded texture pointer nil = id outside the heap) -/
def nilNormalMat : PMaterial :=
  { name := "m", alphaMode := none, alphaCutoff := none, hasPbr := false, baseColor := none, metallic := none, roughness := none,
    baseColorTex := none, metalRoughTex := none, emissive := none, normalTex := some (0, none), occlusionTex := none, exts := [] }

def nilNormalScene : Scene :=
  { meshHeap := [exMesh], texHeap := [], matHeap := [nilNormalMat],
    models := [{ name := "a", mesh := some 0, material := some 0, translation := none, rotation := none, scale := none,
                 instances := [] }],
    lights := [] }

/-- the `PolyformNormal{}` literal: representable, and the writer panics (nothing written) -/
theorem gltf_nil_normal_rejected : Representable nilNormalScene = true ∧ (match writeSceneT nilNormalScene with
    | .panic => true
    | _ => false) = true := by
  constructor <;> decide +kernel

/-- an undeclared topology value: panic -/
theorem gltf_unknown_topology_panics :
    (match writeSceneT { lineScene with meshHeap := [{ lineMesh with topo := 6 }] } with
    | .panic => true
    | _ => false) = true := by decide +kernel

end C06
end PolyVerif
