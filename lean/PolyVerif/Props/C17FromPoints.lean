/-
  C17 (round 2) — `geometry.NewAABBFromPoints`, REGENERATED from math/geometry/aabb.go:52 by engine T
  (`Gen.geometry.NewAABBFromPoints`, including the `math.Inf(±1)` start values and the `for range` loop, which the
  translator now emits as `ScalarInf.posInf / negInf` and a `List.foldl` over the pair `(max, min)`).

  ℝ has no infinities, so the theorems quantify over EVERY instance `I : ScalarInf ℝ` (every choice of the two start
  values) that bounds the FIRST point of the list (`Bounds I p`): the only property of IEEE ±Inf the loop uses on
  finite inputs is `min v (+Inf) = v` and `max v (-Inf) = v`.  Under that hypothesis the regenerated function equals
  the fold seeded with the first point (the former hand model `C17.fromPoints`, now only a specification), its
  Min / Max are the componentwise minimum / maximum, it contains every point and is the least such box.

  Tie: the driver answers `c17.aabb.frompoints` (empty list included) by running this very generated definition at
  `Float` with the IEEE instance of `ScalarInf`; bit for bit against `geometry.NewAABBFromPoints`.
-/
import PolyVerif.Props.C17

namespace PolyVerif
namespace C17
open Gen Gen.geometry

/-- componentwise running minimum / maximum: one iteration of the Go loop on `min` / `max` -/
def stepMin (m v : P3) : P3 := ⟨min v.x m.x, min v.y m.y, min v.z m.z⟩
def stepMax (m v : P3) : P3 := ⟨max v.x m.x, max v.y m.y, max v.z m.z⟩

/-- the start values bound the point `p`: `negInf ≤ p.c ≤ posInf` for the three coordinates
    (true of IEEE ±Inf and every non-NaN `p`) -/
def Bounds (I : ScalarInf ℝ) (p : P3) : Prop :=
  (p.x ≤ I.posInf ∧ p.y ≤ I.posInf ∧ p.z ≤ I.posInf) ∧ (I.negInf ≤ p.x ∧ I.negInf ≤ p.y ∧ I.negInf ≤ p.z)

private theorem foldl_pair {β γ δ : Type} (f : β × γ → δ → β × γ) (g : β → δ → β) (h : γ → δ → γ)
    (hf : ∀ a b v, f (a, b) v = (g a v, h b v)) (l : List δ) (a : β) (b : γ) :
    l.foldl f (a, b) = (l.foldl g a, l.foldl h b) := by
  induction l generalizing a b with
  | nil => rfl
  | cons v vs ih => simp only [List.foldl_cons, hf, ih]

/-- the regenerated loop, for EVERY list (the empty one included) and EVERY pair of start values: the box's corners
    are the folds of the componentwise min / max over the points, started at `(posInf)³` / `(negInf)³`.
    (For the empty list this says Min = (posInf)³, Max = (negInf)³ over ℝ; at Float the centre of that box is
    `(-Inf + +Inf)/…` = NaN, which has no counterpart over ℝ — the empty list is tied by correspondence only.) -/
theorem aabb_newFromPoints_fold (I : ScalarInf ℝ) (pts : List P3) :
    (NewAABBFromPoints pts).Min = pts.foldl stepMin ⟨I.posInf, I.posInf, I.posInf⟩ ∧
    (NewAABBFromPoints pts).Max = pts.foldl stepMax ⟨I.negInf, I.negInf, I.negInf⟩ := by
  unfold NewAABBFromPoints
  simp only [V3.New]
  rw [foldl_pair _ stepMax stepMin (fun _ _ _ => rfl)]
  constructor <;> ext <;>
    simp [geometry.NewAABB, AABB.Min, AABB.Max, V3.Sub, V3.Add, V3.Scale] <;> ring

private theorem stepMin_seed (I : ScalarInf ℝ) (p : P3) (h : Bounds I p) :
    stepMin ⟨I.posInf, I.posInf, I.posInf⟩ p = p := by
  obtain ⟨⟨h1, h2, h3⟩, _⟩ := h
  ext <;> simp [stepMin, *]

private theorem stepMax_seed (I : ScalarInf ℝ) (p : P3) (h : Bounds I p) :
    stepMax ⟨I.negInf, I.negInf, I.negInf⟩ p = p := by
  obtain ⟨_, ⟨h1, h2, h3⟩⟩ := h
  ext <;> simp [stepMax, *]

/-- Min of the regenerated function on a non-empty list = running minimum started at the first point -/
theorem aabb_newFromPoints_min (I : ScalarInf ℝ) (p : P3) (ps : List P3) (h : Bounds I p) :
    (NewAABBFromPoints (p :: ps)).Min = fromPointsMin p ps := by
  rw [(aabb_newFromPoints_fold I (p :: ps)).1, List.foldl_cons, stepMin_seed I p h]; rfl

/-- Max of the regenerated function on a non-empty list = running maximum started at the first point -/
theorem aabb_newFromPoints_max (I : ScalarInf ℝ) (p : P3) (ps : List P3) (h : Bounds I p) :
    (NewAABBFromPoints (p :: ps)).Max = fromPointsMax p ps := by
  rw [(aabb_newFromPoints_fold I (p :: ps)).2, List.foldl_cons, stepMax_seed I p h]; rfl

private theorem aabb_ext_minmax (a b : AABB ℝ) (h1 : a.Min = b.Min) (h2 : a.Max = b.Max) : a = b := by
  obtain ⟨⟨cx, cy, cz⟩, ⟨ex, ey, ez⟩⟩ := a
  obtain ⟨⟨dx, dy, dz⟩, ⟨fx, fy, fz⟩⟩ := b
  simp only [AABB.Min, AABB.Max, V3.Sub, V3.Add, V3.mk.injEq] at h1 h2
  obtain ⟨a1, a2, a3⟩ := h1
  obtain ⟨b1, b2, b3⟩ := h2
  have : cx = dx := by linarith
  have : cy = dy := by linarith
  have : cz = dz := by linarith
  have : ex = fx := by linarith
  have : ey = fy := by linarith
  have : ez = fz := by linarith
  subst_vars; rfl

/-- the regenerated function IS the round-1 hand model (fold seeded with the first point) on non-empty lists -/
theorem aabb_newFromPoints_eq_model (I : ScalarInf ℝ) (p : P3) (ps : List P3) (h : Bounds I p) :
    NewAABBFromPoints (p :: ps) = fromPoints p ps :=
  aabb_ext_minmax _ _
    ((aabb_newFromPoints_min I p ps h).trans (aabb_fromPoints_min p ps).symm)
    ((aabb_newFromPoints_max I p ps h).trans (aabb_fromPoints_max p ps).symm)

/-- the box built by the regenerated `NewAABBFromPoints` from a non-empty list contains every point of the list -/
theorem aabb_newFromPoints_contains_all (I : ScalarInf ℝ) (p : P3) (ps : List P3) (h : Bounds I p)
    (q : P3) (hq : q ∈ p :: ps) : (NewAABBFromPoints (p :: ps)).Contains q = true := by
  rw [aabb_newFromPoints_eq_model I p ps h]
  exact aabb_fromPoints_contains_all p ps q hq

private theorem foldl_stepMin_attained (p : P3) (ps : List P3) :
    (∃ q ∈ p :: ps, (ps.foldl stepMin p).x = q.x) ∧ (∃ q ∈ p :: ps, (ps.foldl stepMin p).y = q.y) ∧
    (∃ q ∈ p :: ps, (ps.foldl stepMin p).z = q.z) := by
  induction ps generalizing p with
  | nil => exact ⟨⟨p, by simp, rfl⟩, ⟨p, by simp, rfl⟩, ⟨p, by simp, rfl⟩⟩
  | cons v vs ih =>
    simp only [List.foldl_cons]
    obtain ⟨⟨qx, hqx, ex⟩, ⟨qy, hqy, ey⟩, ⟨qz, hqz, ez⟩⟩ := ih (stepMin p v)
    refine ⟨?_, ?_, ?_⟩
    · rcases List.mem_cons.mp hqx with rfl | hm
      · rcases min_choice v.x p.x with hc | hc
        · exact ⟨v, by simp, by rw [ex]; simpa [stepMin] using hc⟩
        · exact ⟨p, by simp, by rw [ex]; simpa [stepMin] using hc⟩
      · exact ⟨qx, by simp [hm], ex⟩
    · rcases List.mem_cons.mp hqy with rfl | hm
      · rcases min_choice v.y p.y with hc | hc
        · exact ⟨v, by simp, by rw [ey]; simpa [stepMin] using hc⟩
        · exact ⟨p, by simp, by rw [ey]; simpa [stepMin] using hc⟩
      · exact ⟨qy, by simp [hm], ey⟩
    · rcases List.mem_cons.mp hqz with rfl | hm
      · rcases min_choice v.z p.z with hc | hc
        · exact ⟨v, by simp, by rw [ez]; simpa [stepMin] using hc⟩
        · exact ⟨p, by simp, by rw [ez]; simpa [stepMin] using hc⟩
      · exact ⟨qz, by simp [hm], ez⟩

private theorem foldl_stepMax_attained (p : P3) (ps : List P3) :
    (∃ q ∈ p :: ps, (ps.foldl stepMax p).x = q.x) ∧ (∃ q ∈ p :: ps, (ps.foldl stepMax p).y = q.y) ∧
    (∃ q ∈ p :: ps, (ps.foldl stepMax p).z = q.z) := by
  induction ps generalizing p with
  | nil => exact ⟨⟨p, by simp, rfl⟩, ⟨p, by simp, rfl⟩, ⟨p, by simp, rfl⟩⟩
  | cons v vs ih =>
    simp only [List.foldl_cons]
    obtain ⟨⟨qx, hqx, ex⟩, ⟨qy, hqy, ey⟩, ⟨qz, hqz, ez⟩⟩ := ih (stepMax p v)
    refine ⟨?_, ?_, ?_⟩
    · rcases List.mem_cons.mp hqx with rfl | hm
      · rcases max_choice v.x p.x with hc | hc
        · exact ⟨v, by simp, by rw [ex]; simpa [stepMax] using hc⟩
        · exact ⟨p, by simp, by rw [ex]; simpa [stepMax] using hc⟩
      · exact ⟨qx, by simp [hm], ex⟩
    · rcases List.mem_cons.mp hqy with rfl | hm
      · rcases max_choice v.y p.y with hc | hc
        · exact ⟨v, by simp, by rw [ey]; simpa [stepMax] using hc⟩
        · exact ⟨p, by simp, by rw [ey]; simpa [stepMax] using hc⟩
      · exact ⟨qy, by simp [hm], ey⟩
    · rcases List.mem_cons.mp hqz with rfl | hm
      · rcases max_choice v.z p.z with hc | hc
        · exact ⟨v, by simp, by rw [ez]; simpa [stepMax] using hc⟩
        · exact ⟨p, by simp, by rw [ez]; simpa [stepMax] using hc⟩
      · exact ⟨qz, by simp [hm], ez⟩

/-- tightness: every face of the regenerated box passes through one of the points — each coordinate of Min and of Max
    is that coordinate of some point of the list -/
theorem aabb_newFromPoints_tight (I : ScalarInf ℝ) (p : P3) (ps : List P3) (h : Bounds I p) :
    let b := NewAABBFromPoints (p :: ps)
    ((∃ q ∈ p :: ps, b.Min.x = q.x) ∧ (∃ q ∈ p :: ps, b.Min.y = q.y) ∧ (∃ q ∈ p :: ps, b.Min.z = q.z)) ∧
    ((∃ q ∈ p :: ps, b.Max.x = q.x) ∧ (∃ q ∈ p :: ps, b.Max.y = q.y) ∧ (∃ q ∈ p :: ps, b.Max.z = q.z)) := by
  intro b
  have hmin : b.Min = ps.foldl stepMin p := aabb_newFromPoints_min I p ps h
  have hmax : b.Max = ps.foldl stepMax p := aabb_newFromPoints_max I p ps h
  rw [hmin, hmax]
  exact ⟨foldl_stepMin_attained p ps, foldl_stepMax_attained p ps⟩

/-- … hence it is the LEAST box containing the points: any box `c` that contains every point of the list contains
    both corners of the regenerated box -/
theorem aabb_newFromPoints_least (I : ScalarInf ℝ) (p : P3) (ps : List P3) (h : Bounds I p) (c : AABB ℝ)
    (hc : ∀ q ∈ p :: ps, c.Contains q = true) :
    c.Contains (NewAABBFromPoints (p :: ps)).Min = true ∧ c.Contains (NewAABBFromPoints (p :: ps)).Max = true := by
  obtain ⟨⟨⟨q1, m1, e1⟩, ⟨q2, m2, e2⟩, ⟨q3, m3, e3⟩⟩, ⟨⟨r1, n1, f1⟩, ⟨r2, n2, f2⟩, ⟨r3, n3, f3⟩⟩⟩ :=
    aabb_newFromPoints_tight I p ps h
  have k1 := (aabb_contains_iff c q1).mp (hc q1 m1)
  have k2 := (aabb_contains_iff c q2).mp (hc q2 m2)
  have k3 := (aabb_contains_iff c q3).mp (hc q3 m3)
  have l1 := (aabb_contains_iff c r1).mp (hc r1 n1)
  have l2 := (aabb_contains_iff c r2).mp (hc r2 n2)
  have l3 := (aabb_contains_iff c r3).mp (hc r3 n3)
  have hmM : ∀ q ∈ p :: ps, (NewAABBFromPoints (p :: ps)).Min.x ≤ q.x ∧ (NewAABBFromPoints (p :: ps)).Min.y ≤ q.y ∧
      (NewAABBFromPoints (p :: ps)).Min.z ≤ q.z ∧ q.x ≤ (NewAABBFromPoints (p :: ps)).Max.x ∧
      q.y ≤ (NewAABBFromPoints (p :: ps)).Max.y ∧ q.z ≤ (NewAABBFromPoints (p :: ps)).Max.z :=
    fun q hq => (aabb_contains_iff _ q).mp (aabb_newFromPoints_contains_all I p ps h q hq)
  have a1 := hmM r1 n1; have a2 := hmM r2 n2; have a3 := hmM r3 n3
  have b1 := hmM q1 m1; have b2 := hmM q2 m2; have b3 := hmM q3 m3
  constructor
  · rw [aabb_contains_iff]
    refine ⟨by rw [e1]; exact k1.1, by rw [e2]; exact k2.2.1, by rw [e3]; exact k3.2.2.1,
      by rw [e1]; exact k1.2.2.2.1, by rw [e2]; exact k2.2.2.2.2.1, by rw [e3]; exact k3.2.2.2.2.2⟩
  · rw [aabb_contains_iff]
    refine ⟨by rw [f1]; exact l1.1, by rw [f2]; exact l2.2.1, by rw [f3]; exact l3.2.2.1,
      by rw [f1]; exact l1.2.2.2.1, by rw [f2]; exact l2.2.2.2.2.1, by rw [f3]; exact l3.2.2.2.2.2⟩

/-! non-vacuity: a concrete pair of start values bounding a concrete first point; and the general statement is not
    empty either: with those start values the box of `[(1,2,3), (-4,5,0)]` has the expected corners -/
example : Bounds ⟨10, -10⟩ (⟨1, 2, 3⟩ : P3) := by
  refine ⟨⟨?_, ?_, ?_⟩, ⟨?_, ?_, ?_⟩⟩ <;> norm_num
example : (@NewAABBFromPoints ℝ _ ⟨10, -10⟩ [⟨1, 2, 3⟩, ⟨-4, 5, 0⟩]).Min = ⟨-4, 2, 0⟩ := by
  rw [aabb_newFromPoints_min ⟨10, -10⟩ _ _ (by refine ⟨⟨?_, ?_, ?_⟩, ⟨?_, ?_, ?_⟩⟩ <;> norm_num)]
  simp [fromPointsMin]; norm_num

end C17
end PolyVerif
