/-
  C18 (round 2) — the primitives are ONE surface: FACE connectedness for all parameters.

  `Props/C18.lean` has, per primitive, `*_oneUmbrella*` (the link of every vertex is one cycle) and `*_connected*`
  (every vertex is reached from vertex 0 along edges).  Here the statement about the TRIANGLES: any triangle of the index
  buffer is reached from any other one (in particular from triangle 0) by repeatedly crossing an edge that the two
  triangles traverse in opposite directions — for the seamed / unwelded primitives on the RAW index triangles, with edges
  compared after the merge map (`FaceConnectedMod`).  It follows from one general theorem
  (`faceConnected_of_oneUmbrella_and_reach`): walk round the umbrella of each vertex of a vertex path.

  Tie: the lists are the same `uvSphereTris`, `hemisphereTris`, `uvSphereUnweldedTris`, `cylinderTris`, `cubeWeldedTris`,
  `cubeQuadsTris` that `*_indices_from_source` / `quadTris_eq_table` (Props/C18.lean) prove equal to the loop programs and
  tables regenerated from sphere.go, hemisphere.go, circle.go, cylinder.go, cube.go on every run, and that the driver
  prints for the exact correspondence lines `c18.tris.*`.  `connected_checker_sound` +
  `manifold_oracle_implies_faceConnected` say what an accepted oracle line `c18.holds.manifold` (evaluated on the
  IMPLEMENTATION's mesh) means.
-/
import PolyVerif.Props.C18
import PolyVerif.Lemmas.SolidsConnected

namespace PolyVerif
namespace C18
open Solids Relation

/-- **general**: if every used vertex has one umbrella and every used vertex is reached from a root vertex along edges,
    then any two triangles are joined by a chain of triangles crossing shared edges -/
theorem faceConnected_of_oneUmbrella_and_reach {β : Type} (ts : List (β × β × β)) (v0 : β)
    (hU : ∀ v ∈ cornersOf ts, UmbrellaCycle ts v)
    (hR : ∀ v ∈ cornersOf ts, ReflTransGen (fun a b => (a, b) ∈ edges ts) v0 v) : FaceConnected ts :=
  faceConnected_of_umbrellas_reach ts v0 hU hR

/-- the executable `Connected` (what `c18.holds.manifold` evaluates, what the box theorems decide) is SOUND: whenever it
    accepts, every used vertex is reached from the first corner of the list along directed edges -/
theorem connected_checker_sound {β : Type} [DecidableEq β] (ts : List (β × β × β)) (h : Connected ts) (v0 : β)
    (h0 : (cornersOf ts).head? = some v0) :
    ∀ v ∈ cornersOf ts, ReflTransGen (fun a b => (a, b) ∈ edges ts) v0 v :=
  connected_sound ts h v0 h0

/-- hence a mesh accepted by the oracle's two predicates is face-connected -/
theorem manifold_oracle_implies_faceConnected {β : Type} [DecidableEq β] (ts : List (β × β × β))
    (hv : VertexManifold ts) (hc : Connected ts) : FaceConnected ts :=
  faceConnected_of_checks ts hv hc

/-- **welded UV sphere, all sizes**: any two triangles of the index buffer are joined across shared edges -/
theorem uvSphere_faceConnected {rows cols : Nat} (hR : 2 ≤ rows) (hC : 3 ≤ cols) :
    FaceConnected (uvSphereTris rows cols) := by
  rw [uvSphereTris_eq_map hR]
  exact (sphereL_faceConnected hR hC).map _

/-- **hemisphere (cap fan + dome), all sizes** -/
theorem hemisphere_faceConnected {rows cols : Nat} (hR : 2 ≤ rows) (hC : 3 ≤ cols) :
    FaceConnected (hemisphereTris rows cols) := by
  rw [hemisphereTris_eq_flip]
  exact (uvSphere_faceConnected hR hC).flip

/-- **unwelded UV sphere, all sizes**: on the RAW triangles (every triangle has its own three vertices), with edges
    compared after the copy map -/
theorem uvSphereUnwelded_faceConnected_mod_merge {rows cols : Nat} (hR : 2 ≤ rows) (hC : 3 ≤ cols) :
    FaceConnectedMod (uvUnweldedSrc rows cols) (uvSphereUnweldedTris rows cols) := by
  have e : (uvSphereUnweldedTris rows cols).map (tm (uvUnweldedSrc rows cols)) = uvSphereTris rows cols :=
    uvUnwelded_map_src rows cols
  refine FaceConnectedMod.of_map _ ?_ ?_
  · rw [e]; exact uvSphere_closed hR hC
  · rw [e]; exact uvSphere_faceConnected hR hC

/-- **capped cylinder, all side counts `≥ 3`**: on the RAW triangles of side strip + top cap + bottom cap, with edges
    compared after the merge map (seam column, cap rims): the two caps and the wall are ONE surface -/
theorem cylinder_faceConnected_mod_merge {sides : Nat} (hS : 3 ≤ sides) :
    FaceConnectedMod (cylinderPt sides) (cylinderTris sides false false) := by
  have e : (cylinderTris sides false false).map (tm (cylinderPt sides)) = cylL sides := cylinder_map_pt (by omega)
  refine FaceConnectedMod.of_map _ ?_ ?_
  · rw [e]; exact cylL_closed hS
  · rw [e]; exact cylL_faceConnected hS

/-- the welded box (regenerated `cubeVertIndices`) -/
theorem cubeWelded_faceConnected : FaceConnected cubeWeldedTris :=
  faceConnected_of_checks _ cubeWelded_vm cubeWelded_conn

/-- the six-quad box: on the RAW triangles of the six quads, edges compared after the corner merge map -/
theorem cubeQuads_faceConnected_mod_merge : FaceConnectedMod cubeQuadsPt cubeQuadsTris :=
  FaceConnectedMod.of_map _ cubeQuads_closed_mod_merge (faceConnected_of_checks _ cubeQuads_vm cubeQuads_conn)

/-! non-vacuity / discrimination -/

example : uvSphereTris 2 3 ≠ [] := by decide
example : cylinderTris 3 false false ≠ [] := by decide
/-- e.g. triangle 0 (first wall triangle) of the 5-sided cylinder and its last triangle (bottom cap) are joined -/
example : ReflTransGen (FaceAdjMod (cylinderPt 5) (cylinderTris 5 false false)) (1, 0, 2) (22, 23, 18) :=
  cylinder_faceConnected_mod_merge (by decide) _ (by decide) _ (by decide)
/-- two triangles without a common edge are NOT face-connected -/
example : ¬ FaceConnected [((0 : Nat), 1, 2), (3, 4, 5)] := by
  intro h
  have h' := h (0, 1, 2) (by simp) (3, 4, 5) (by simp)
  rcases ReflTransGen.cases_head h' with h0 | ⟨c, ⟨-, hc, a, b, h1, h2⟩, -⟩
  · simp at h0
  · simp only [List.mem_cons, List.not_mem_nil, or_false] at hc
    rcases hc with rfl | rfl <;>
      simp only [triEdges, List.mem_cons, Prod.mk.injEq, List.not_mem_nil, or_false] at h1 h2 <;> omega

end C18
end PolyVerif
