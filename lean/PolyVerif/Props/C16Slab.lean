/-
  C16 (round 2, by the C17 builder) — the ray/box slab test `AABB.IntersectsRayInRange` and its helper
  `intersectsRayInRangeComponent` (math/geometry/aabb.go:189-228) are now REGENERATED (Gen/Render.lean; translator:
  a store `*p = e` through a `*float64` PARAMETER rebinds `p`, the function returns `(result, p…)`, and an if-condition
  that is a call with `&local` arguments binds the triple and rebinds the locals).

  Here: C16's hand model (Model/Tree.lean) against the regenerated definitions, at EVERY scalar:
    * `slabArith_eq_gen`      — the hand arithmetic of one slab IS the regenerated component function;
    * `slabFold_eq_gen`       — the regenerated three-axis test is the three-stage composition of `slabArith` with the
                                 source's own `kEpsilon` (the float64 constant, `genEps`);
    * `intersectsRayInRange_eq_slabFold` — the hand model of the whole test is the same composition with `kEps`, when no
                                 direction component is zero (for a zero component the hand model spells out the IEEE outcome of
                                 `1/±0`, which the real-number reading of the source expression cannot express);
    * `intersectsRayInRange_eq_gen` — hence hand model = regenerated function whenever `genEps = kEps` (true at Float: both
                                 are the double nearest 1e-10; over ℝ they differ by < 1e-26).
-/
import PolyVerif.Model.Tree
import PolyVerif.Gen.Render

namespace PolyVerif
namespace Tree
open Gen Gen.geometry Scalar
variable {α : Type} [Scalar α]

/-- `kEpsilon` as the translator reads it from the source: the float64 value of `0.0000000001` -/
@[inline] def genEps : α := lit 7737125245533627 77371252455336267181195264

/-- one slab: the hand arithmetic is the regenerated `intersectsRayInRangeComponent` (which ignores its receiver) -/
theorem slabArith_eq_gen (b : AABB α) (origin dir tmin tmax boxMin boxMax : α) :
    slabArith origin dir tmin tmax boxMin boxMax =
      AABB.intersectsRayInRangeComponent b origin dir tmin tmax boxMin boxMax := by
  unfold slabArith AABB.intersectsRayInRangeComponent
  by_cases h : (boxMax - origin) * (((1 : Nat) : α) / dir) < (boxMin - origin) * (((1 : Nat) : α) / dir) <;>
    simp [h]

/-- the three-axis composition of `slabArith` with widening `eps` -/
def slabFold (eps : α) (b : AABB α) (o d : V3 α) (mn mx : α) : Bool :=
  let boxMin := b.Min
  let boxMax := b.Max
  let rx := slabArith o.x d.x mn mx (boxMin.x - eps) (boxMax.x + eps)
  if rx.1 then false else
  let ry := slabArith o.y d.y rx.2.1 rx.2.2 (boxMin.y - eps) (boxMax.y + eps)
  if ry.1 then false else
  let rz := slabArith o.z d.z ry.2.1 ry.2.2 (boxMin.z - eps) (boxMax.z + eps)
  if rz.1 then false else true

/-- the regenerated `IntersectsRayInRange` is that composition with the source's constant -/
theorem slabFold_eq_gen (b : AABB α) (o d : V3 α) (mn mx : α) :
    slabFold genEps b o d mn mx = AABB.IntersectsRayInRange b ⟨o, d⟩ mn mx := by
  unfold slabFold AABB.IntersectsRayInRange
  simp only [slabArith_eq_gen b, genEps, V3.X, V3.Y, V3.Z]
  first | rfl | (repeat' split) <;> simp_all

/-- the hand model of the whole test is the composition with `kEps` when no direction component is zero -/
theorem intersectsRayInRange_eq_slabFold (b : AABB α) (o d : V3 α) (mn mx : α)
    (hx : (d.x == ((0 : Nat) : α)) = false) (hy : (d.y == ((0 : Nat) : α)) = false) (hz : (d.z == ((0 : Nat) : α)) = false) :
    intersectsRayInRange b o d mn mx = slabFold kEps b o d mn mx := by
  unfold intersectsRayInRange slabFold slabComponent
  simp only [hx, hy, hz, Bool.false_eq_true, if_false]

/-- hand model = regenerated function (no zero direction component; scalar at which the two readings of `kEpsilon` agree) -/
theorem intersectsRayInRange_eq_gen (heps : (genEps : α) = kEps) (b : AABB α) (o d : V3 α) (mn mx : α)
    (hx : (d.x == ((0 : Nat) : α)) = false) (hy : (d.y == ((0 : Nat) : α)) = false) (hz : (d.z == ((0 : Nat) : α)) = false) :
    intersectsRayInRange b o d mn mx = AABB.IntersectsRayInRange b ⟨o, d⟩ mn mx := by
  rw [intersectsRayInRange_eq_slabFold b o d mn mx hx hy hz, ← heps, slabFold_eq_gen]

end Tree
end PolyVerif
