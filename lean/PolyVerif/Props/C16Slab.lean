/-
  C16 (round 2, by the C17 builder) — the ray/box slab test `AABB.IntersectsRayInRange` and its helper
  `intersectsRayInRangeComponent` (math/geometry/aabb.go:189-228) are now REGENERATED (Gen/Render.lean; translator:
  a store `*p = e` through a `*float64` PARAMETER rebinds `p`, the function returns `(result, p…)`, and an if-condition
  that is a call with `&local` arguments binds the triple and rebinds the locals).

  Here: C16's hand model (Model/Tree.lean) against the regenerated definitions, at EVERY scalar:
    * `slabArith_eq_gen`      — the hand arithmetic of one slab IS the regenerated component function;
    * `slabFold_eq_gen`       — the regenerated three-axis test is the three-stage composition of `slabArith` with the
                                 source's own `kEpsilon` (the float64 constant, `genEps`);
    * `intersectsRayInRange_eq_slabFold` — the hand model of the whole test is the same composition with `kEps`, when no
                                 direction component is zero (for a zero component the hand model spells out the IEEE outcome of
                                 `1/±0`, which the real-number reading of the source expression cannot express);
    * `intersectsRayInRange_eq_gen` — hence hand model = regenerated function whenever `genEps = kEps` (true at Float: both
                                 are the double nearest 1e-10; over ℝ they differ by < 1e-26).
-/
import PolyVerif.Model.Tree
import PolyVerif.Gen.Render
import PolyVerif.Lemmas.Bvh

namespace PolyVerif
namespace Tree
open Gen Gen.geometry Scalar
variable {α : Type} [Scalar α]

/-- `kEpsilon` as the translator reads it from the source: the float64 value of `0.0000000001` -/
@[inline] def genEps : α := lit 7737125245533627 77371252455336267181195264

/-- one slab: the hand arithmetic is the regenerated `intersectsRayInRangeComponent` (which ignores its receiver) -/
theorem slabArith_eq_gen (b : AABB α) (origin dir tmin tmax boxMin boxMax : α) :
    slabArith origin dir tmin tmax boxMin boxMax =
      AABB.intersectsRayInRangeComponent b origin dir tmin tmax boxMin boxMax := by
  unfold slabArith AABB.intersectsRayInRangeComponent
  by_cases h : (boxMax - origin) * (((1 : Nat) : α) / dir) < (boxMin - origin) * (((1 : Nat) : α) / dir) <;>
    simp [h]

/-- the three-axis composition of `slabArith` with widening `eps` -/
def slabFold (eps : α) (b : AABB α) (o d : V3 α) (mn mx : α) : Bool :=
  let boxMin := b.Min
  let boxMax := b.Max
  let rx := slabArith o.x d.x mn mx (boxMin.x - eps) (boxMax.x + eps)
  if rx.1 then false else
  let ry := slabArith o.y d.y rx.2.1 rx.2.2 (boxMin.y - eps) (boxMax.y + eps)
  if ry.1 then false else
  let rz := slabArith o.z d.z ry.2.1 ry.2.2 (boxMin.z - eps) (boxMax.z + eps)
  if rz.1 then false else true

/-- the regenerated `IntersectsRayInRange` is that composition with the source's constant -/
theorem slabFold_eq_gen (b : AABB α) (o d : V3 α) (mn mx : α) :
    slabFold genEps b o d mn mx = AABB.IntersectsRayInRange b ⟨o, d⟩ mn mx := by
  unfold slabFold AABB.IntersectsRayInRange
  simp only [slabArith_eq_gen b, genEps, V3.X, V3.Y, V3.Z]
  rfl

/-- the hand model of the whole test is the composition with `kEps` when no direction component is zero -/
theorem intersectsRayInRange_eq_slabFold (b : AABB α) (o d : V3 α) (mn mx : α)
    (hx : (d.x == ((0 : Nat) : α)) = false) (hy : (d.y == ((0 : Nat) : α)) = false) (hz : (d.z == ((0 : Nat) : α)) = false) :
    intersectsRayInRange b o d mn mx = slabFold kEps b o d mn mx := by
  unfold intersectsRayInRange slabFold slabComponent
  simp only [hx, hy, hz, Bool.false_eq_true, if_false]

/-- hand model = regenerated function (no zero direction component; scalar at which the two readings of `kEpsilon` agree) -/
theorem intersectsRayInRange_eq_gen (heps : (genEps : α) = kEps) (b : AABB α) (o d : V3 α) (mn mx : α)
    (hx : (d.x == ((0 : Nat) : α)) = false) (hy : (d.y == ((0 : Nat) : α)) = false) (hz : (d.z == ((0 : Nat) : α)) = false) :
    intersectsRayInRange b o d mn mx = AABB.IntersectsRayInRange b ⟨o, d⟩ mn mx := by
  rw [intersectsRayInRange_eq_slabFold b o d mn mx hx hy hz, ← heps, slabFold_eq_gen]

/-! ### the ℝ slab theorems of C16, carried over to the REGENERATED test

Over ℝ the regenerated code widens the box by `genEps` — the exact rational value of the float64 constant `kEpsilon`,
`7737125245533627 / 2^86` — while the hand model widens by the decimal `kEps = 1/10^10`; `genEps - kEps ≈ 3.6e-27 > 0`.
Widening box `b` by `genEps` is widening the box `grow epsGap b` (extents + (genEps - kEps)) by `kEps`: so for rays with no zero
direction component the regenerated test on `b` IS the hand model on `grow epsGap b` (`gen_eq_hand_grow`), `grow` is monotone and
only grows, and `slab_mono` / `slab_sound` transfer.  RESIDUE (explicit): a zero direction component — there the regenerated
expression read over ℝ has `1/0 = 0`, not IEEE's `±Inf`; those rays are covered by the hand model's theorems and, at Float, by the
`c16.aabb.ray` lines on which the driver evaluates both definitions. -/

namespace SlabGen
open PolyVerif.Tree

noncomputable def epsGap : ℝ := (genEps : ℝ) - kEps

theorem epsGap_pos : 0 < epsGap := by
  simp only [epsGap, genEps, kEps, RS.lit_eq]; norm_num

/-- the box with every extent enlarged by `δ` -/
def grow (δ : ℝ) (b : Box) : Box := ⟨b.center, ⟨b.extents.x + δ, b.extents.y + δ, b.extents.z + δ⟩⟩

theorem slabFold_grow (b : Box) (o d : P3) (mn mx : ℝ) :
    slabFold (genEps : ℝ) b o d mn mx = slabFold kEps (grow epsGap b) o d mn mx := by
  have h1 : (grow epsGap b).Min.x - kEps = b.Min.x - genEps := by simp [grow, AABB.Min, V3.Sub, epsGap]; ring
  have h2 : (grow epsGap b).Min.y - kEps = b.Min.y - genEps := by simp [grow, AABB.Min, V3.Sub, epsGap]; ring
  have h3 : (grow epsGap b).Min.z - kEps = b.Min.z - genEps := by simp [grow, AABB.Min, V3.Sub, epsGap]; ring
  have h4 : (grow epsGap b).Max.x + kEps = b.Max.x + genEps := by simp [grow, AABB.Max, V3.Add, epsGap]; ring
  have h5 : (grow epsGap b).Max.y + kEps = b.Max.y + genEps := by simp [grow, AABB.Max, V3.Add, epsGap]; ring
  have h6 : (grow epsGap b).Max.z + kEps = b.Max.z + genEps := by simp [grow, AABB.Max, V3.Add, epsGap]; ring
  unfold slabFold
  simp only [h1, h2, h3, h4, h5, h6]

/-- no zero direction component: the regenerated test on `b` is the hand model on `grow epsGap b` -/
theorem gen_eq_hand_grow (b : Box) (o d : P3) (mn mx : ℝ) (hx : d.x ≠ 0) (hy : d.y ≠ 0) (hz : d.z ≠ 0) :
    AABB.IntersectsRayInRange b ⟨o, d⟩ mn mx = intersectsRayInRange (grow epsGap b) o d mn mx := by
  rw [← slabFold_eq_gen, slabFold_grow,
    ← intersectsRayInRange_eq_slabFold _ _ _ _ _ (by simp [hx]) (by simp [hy]) (by simp [hz])]

theorem boxSub_grow {a b : Box} (h : BoxSub a b) {δ : ℝ} (hδ : 0 ≤ δ) : BoxSub (grow δ a) (grow δ b) := by
  obtain ⟨h1, h2⟩ := h
  rw [aabb_contains_iff] at h1 h2
  constructor <;> rw [aabb_contains_iff] <;>
    simp only [grow, AABB.Min, AABB.Max, V3.Sub, V3.Add] at * <;>
    (refine ⟨?_, ?_, ?_, ?_, ?_, ?_⟩ <;> linarith [h1.1, h1.2.1, h1.2.2.1, h1.2.2.2.1, h1.2.2.2.2.1, h1.2.2.2.2.2,
      h2.1, h2.2.1, h2.2.2.1, h2.2.2.2.1, h2.2.2.2.2.1, h2.2.2.2.2.2])

theorem contains_grow (a : Box) (v : P3) {δ : ℝ} (hδ : 0 ≤ δ) (h : a.Contains v = true) : (grow δ a).Contains v = true := by
  rw [aabb_contains_iff] at *
  simp only [grow, AABB.Min, AABB.Max, V3.Sub, V3.Add] at *
  obtain ⟨h1, h2, h3, h4, h5, h6⟩ := h
  refine ⟨?_, ?_, ?_, ?_, ?_, ?_⟩ <;> linarith

/-- `slab_mono` for the regenerated `IntersectsRayInRange` (rays without a zero direction component) -/
theorem slab_mono_gen {a b : Box} (h : BoxSub a b) (o d : P3) (mn mx : ℝ) (hx : d.x ≠ 0) (hy : d.y ≠ 0) (hz : d.z ≠ 0)
    (ha : AABB.IntersectsRayInRange a ⟨o, d⟩ mn mx = true) : AABB.IntersectsRayInRange b ⟨o, d⟩ mn mx = true := by
  rw [gen_eq_hand_grow _ _ _ _ _ hx hy hz] at *
  exact Tree.slab_mono (boxSub_grow h (le_of_lt epsGap_pos)) o d mn mx ha

/-- `slab_sound` for the regenerated `IntersectsRayInRange`: a ray (no zero direction component) that is inside box `a` at some
    parameter of a non-empty range is accepted by the regenerated test for every box containing `a` -/
theorem slab_sound_gen (a b : Box) (hab : BoxSub a b) (o d : P3) (mn mx t : ℝ) (hx : d.x ≠ 0) (hy : d.y ≠ 0) (hz : d.z ≠ 0)
    (hr : mn < mx) (h1 : mn ≤ t) (h2 : t ≤ mx) (hin : a.Contains (o.Add (d.Scale t)) = true) :
    AABB.IntersectsRayInRange b ⟨o, d⟩ mn mx = true := by
  rw [gen_eq_hand_grow _ _ _ _ _ hx hy hz]
  exact Tree.slab_mono (boxSub_grow hab (le_of_lt epsGap_pos)) o d mn mx
    (slab_sound_aux _ o d mn mx t hr h1 h2 (contains_grow a _ (le_of_lt epsGap_pos) hin))

/-- non-vacuity: a diagonal ray through the unit box is accepted by the regenerated test -/
example : AABB.IntersectsRayInRange (⟨⟨0, 0, 0⟩, ⟨1, 1, 1⟩⟩ : Box) ⟨⟨-3, -3, -3⟩, ⟨1, 1, 1⟩⟩ 0 100 = true := by
  refine slab_sound_gen ⟨⟨0, 0, 0⟩, ⟨1, 1, 1⟩⟩ _ ⟨?_, ?_⟩ _ _ 0 100 3 (by norm_num) (by norm_num) (by norm_num)
    (by norm_num) (by norm_num) (by norm_num) ?_ <;>
  · rw [aabb_contains_iff]; norm_num [AABB.Min, AABB.Max, V3.Sub, V3.Add, V3.Scale]

end SlabGen

end Tree
end PolyVerif
