/-
  C04 — "the header always describes the body that follows", ASCII encoding, as a theorem of its own
  (the binary clause is `ply_header_describes_body_binary`).
-/
import PolyVerif.Lemmas.PlyAscii
import PolyVerif.Lemmas.PlyAsciiDescribes
import PolyVerif.Props.C04Header
import PolyVerif.Props.C04Ascii

namespace PolyVerif
namespace C04
open Ply PlyLemmas PlyHeader PlyCompose PlyAscii

variable {α : Type}

/-- without faces the token count of a face line is irrelevant -/
theorem asciiBodyDescribed_nf0 (body : Bytes) (p nv ft ft' : Nat) (h : asciiBodyDescribed body p nv 0 ft = true) :
    asciiBodyDescribed body p nv 0 ft' = true := by
  simp only [asciiBodyDescribed, Bool.and_eq_true, decide_eq_true_eq, List.all_eq_true] at h ⊢
  obtain ⟨⟨h1, h2⟩, _⟩ := h
  refine ⟨⟨h1, h2⟩, ?_⟩
  intro l hl
  rw [List.drop_eq_nil_of_le (by omega)] at hl
  simp at hl

/-- THE HEADER DESCRIBES THE BODY (ASCII), parsed-header form: what `MeshWriter.Write` prints after the header is exactly
`attrLen` vertex lines — none if the vertex element lists no property — each holding one white-space-free token per
property the header lists, then exactly `triCount` face lines of `1 + 3` tokens (`+ 1 + 6` with per-corner texture
coordinates).  Uses only the token part of the law bundle (`AppendFloat` / `AppendInt` print single words). -/
theorem ply_header_describes_body_ascii (c : Coding α) (L : GoFloatText c) (cfg : WriterCfg) (m : MeshVal α)
    (body : Bytes) (hf : cfg.format = .ascii) (hwf : m.WF = true) (h : writeBody c cfg m = .ok body)
    (hsize : m.attrLen ≤ 2 ^ 31) :
    asciiBodyDescribed body (writerTypes (selectWriters cfg m)).length m.attrLen
      (if m.topo = .triangle then triCount m else 0) (if hasTexCoord m then 11 else 4) = true :=
  header_describes_ascii c L cfg m body hf hwf h hsize

/-- … FROM FILE BYTES: `HeaderDescribes` — the predicate the oracle `c04.holds.header_describes` evaluates on every
written file — holds for the ASCII file `MeshWriter.Write` produces: the header parses, declares `attrLen` vertices and
`triCount` faces, and the body has the line / token structure the declared elements and properties describe -/
theorem ply_header_describes_ascii_bytes (c : Coding α) (L : GoFloatText c) (cfg : WriterCfg) (m : MeshVal α)
    (bytes : Bytes) (hf : cfg.format = .ascii) (hwf : m.WF = true) (h : writeMesh c cfg m = .ok bytes)
    (hsize : m.attrLen ≤ 2 ^ 31) (hidx : m.indices.length < 2 ^ 63)
    (huri : ∀ u, m.texURI = some u → CommentOK (nm "TextureFile " ++ u)) :
    HeaderDescribes bytes m.attrLen (if m.topo = .triangle then triCount m else 0) (decide (m.topo = .triangle)) = true := by
  obtain ⟨body, hbody, _, hparse⟩ := ply_written_header_parses c cfg m bytes h huri
    (Nat.lt_of_le_of_lt hsize (by decide)) hidx
  have hd := header_describes_ascii c L cfg m body hf hwf hbody hsize
  have hfmt : (writeHeader cfg m).format = .ascii := hf
  have hpl : (headerProps (selectWriters cfg m)).length = (writerTypes (selectWriters cfg m)).length := by
    rw [← headerProps_types]; simp
  simp only [HeaderDescribes, hparse, findElement_vertex, scalarProps_headerProps, findElement_face, hfmt, hpl]
  by_cases ht : m.topo = .triangle
  · simp only [ht, if_true] at hd ⊢
    have hft : faceToksTri (wlp (hasTexCoord m)) = if hasTexCoord m then 11 else 4 := by
      cases hasTexCoord m <;> rfl
    simp [listProps_faceProps, hft, hd]
  · simp only [ht, if_false] at hd ⊢
    have hd0 := asciiBodyDescribed_nf0 body _ _ _ 0 hd
    simp [hd0]

/-- non-vacuity: the ASCII file of the coloured welded mesh of `C04Compose` (default writer), every hypothesis discharged -/
example : HeaderDescribes ((writeMesh toyCodingA (defaultWriter .ascii) exMesh).toOption.getD []) exMesh.attrLen
    (if exMesh.topo = .triangle then triCount exMesh else 0) (decide (exMesh.topo = .triangle)) = true :=
  ply_header_describes_ascii_bytes toyCodingA toyLaw (defaultWriter .ascii) exMesh _ rfl (by decide) (by rfl)
    (by decide) (by decide) (by intro u hu; simp [exMesh] at hu)

end C04
end PolyVerif
