/-
  C06 — scene level: extensions declared, node consistency, and the assembled `valid` predicate.
-/
import PolyVerif.Props.C06Carry
import PolyVerif.Props.C06Tables

namespace PolyVerif
namespace C06
open Gltf

/-! ### (5) extensions in use are declared -/

theorem mem_setInsert (s : List String) (k e : String) : e ∈ setInsert s k ↔ e ∈ s ∨ e = k := by
  unfold setInsert
  split
  · rename_i h; constructor
    · exact Or.inl
    · rintro (h' | rfl); exact h'; exact h
  · simp

structure XInv (w : W) : Prop where
  inst : ∀ n ∈ w.nodes, n.inst.isSome = true → "EXT_mesh_gpu_instancing" ∈ w.extUsed
  lightNodes : ∀ n ∈ w.nodes, n.light.isSome = true → "KHR_lights_punctual" ∈ w.extUsed
  lights : w.lights > 0 → "KHR_lights_punctual" ∈ w.extUsed
  matExts : ∀ g ∈ w.materials, ∀ e ∈ g.exts, e.id ∈ w.extUsed
  xform : ∀ g ∈ w.materials, ∀ t ∈ g.texInfos, t.xform.isSome = true → "KHR_texture_transform" ∈ w.extUsed
  required : ∀ e ∈ w.extRequired, e ∈ w.extUsed

def xPart (w : W) := (w.extUsed, w.extRequired, w.nodes, w.materials, w.lights)

theorem xinv_of_xPart {w w' : W} (h : XInv w) (e : xPart w' = xPart w) : XInv w' := by
  simp only [xPart, Prod.mk.injEq] at e
  obtain ⟨e1, e2, e3, e4, e5⟩ := e
  exact ⟨by rw [e3, e1]; exact h.inst, by rw [e3, e1]; exact h.lightNodes, by rw [e5, e1]; exact h.lights,
    by rw [e4, e1]; exact h.matExts, by rw [e4, e1]; exact h.xform, by rw [e2, e1]; exact h.required⟩

/-- only `extensionsUsed` grew (and `extensionsRequired` stays inside it) -/
theorem xinv_grow {w w' : W} (h : XInv w) (hsub : ∀ e ∈ w.extUsed, e ∈ w'.extUsed) (hreq : ∀ e ∈ w'.extRequired, e ∈ w'.extUsed)
    (e3 : w'.nodes = w.nodes) (e4 : w'.materials = w.materials) (e5 : w'.lights = w.lights) : XInv w' :=
  ⟨by rw [e3]; exact fun n hn hi => hsub _ (h.inst n hn hi), by rw [e3]; exact fun n hn hi => hsub _ (h.lightNodes n hn hi),
   by rw [e5]; exact fun hl => hsub _ (h.lights hl), by rw [e4]; exact fun g hg e he => hsub _ (h.matExts g hg e he),
   by rw [e4]; exact fun g hg t ht hx => hsub _ (h.xform g hg t ht hx), hreq⟩

theorem xPart_addTexture (w : W) (id : Nat) (t : PTexture) : xPart (addTexture w id t).1 = xPart (texPrepare w t) := by
  unfold addTexture
  split
  · rfl
  · unfold texFinish texSampler texImage
    repeat' split
    all_goals rfl

theorem addTexture_xinv (w : W) (id : Nat) (t : PTexture) (hw : XInv w) :
    XInv (addTexture w id t).1 ∧ (∀ e ∈ w.extUsed, e ∈ (addTexture w id t).1.extUsed)
    ∧ ((addTexture w id t).2.xform.isSome = true → "KHR_texture_transform" ∈ (addTexture w id t).1.extUsed)
    ∧ (addTexture w id t).1.nodes = w.nodes ∧ (addTexture w id t).1.materials = w.materials
    ∧ (addTexture w id t).1.lights = w.lights := by
  have hx : (addTexture w id t).2.xform = t.xform := by
    unfold addTexture; split
    · rfl
    · unfold texFinish; split <;> rfl
  have hp := xPart_addTexture w id t
  simp only [xPart, Prod.mk.injEq] at hp
  obtain ⟨p1, p2, p3, p4, p5⟩ := hp
  rw [hx, p1, p3, p4, p5]
  have hprep : XInv (texPrepare w t) ∧ (∀ e ∈ w.extUsed, e ∈ (texPrepare w t).extUsed)
      ∧ (t.xform.isSome = true → "KHR_texture_transform" ∈ (texPrepare w t).extUsed)
      ∧ (texPrepare w t).nodes = w.nodes ∧ (texPrepare w t).materials = w.materials ∧ (texPrepare w t).lights = w.lights := by
    unfold texPrepare
    split
    · rename_i x hx'
      refine ⟨?_, fun e he => (mem_setInsert _ _ _).mpr (Or.inl he), fun _ => (mem_setInsert _ _ _).mpr (Or.inr rfl), rfl, rfl, rfl⟩
      refine xinv_grow hw (fun e he => (mem_setInsert _ _ _).mpr (Or.inl he)) ?_ rfl rfl rfl
      intro e he
      simp only at he ⊢
      split at he
      · rcases (mem_setInsert _ _ _).mp he with h | rfl
        · exact (mem_setInsert _ _ _).mpr (Or.inl (hw.required e h))
        · exact (mem_setInsert _ _ _).mpr (Or.inr rfl)
      · exact (mem_setInsert _ _ _).mpr (Or.inl (hw.required e he))
    · rename_i hx'
      refine ⟨hw, fun e he => he, ?_, rfl, rfl, rfl⟩
      intro h; rw [hx'] at h; cases h
  obtain ⟨q1, q2, q3, q4, q5, q6⟩ := hprep
  exact ⟨xinv_of_xPart q1 (by simp only [xPart, Prod.mk.injEq]; exact ⟨p1, p2, p3, p4, p5⟩), q2, q3, q4, q5, q6⟩

def XStep (w w' : W) : Prop :=
  XInv w' ∧ (∀ e ∈ w.extUsed, e ∈ w'.extUsed) ∧ w'.nodes = w.nodes ∧ w'.materials = w.materials ∧ w'.lights = w.lights

theorem XStep.rfl' {w : W} (h : XInv w) : XStep w w := ⟨h, fun _ he => he, rfl, rfl, rfl⟩

theorem XStep.trans' {a b c : W} (h1 : XStep a b) (h2 : XStep b c) : XStep a c :=
  ⟨h2.1, fun e he => h2.2.1 e (h1.2.1 e he), h2.2.2.1.trans h1.2.2.1, h2.2.2.2.1.trans h1.2.2.2.1, h2.2.2.2.2.trans h1.2.2.2.2⟩

def KTT : String := "KHR_texture_transform"

theorem addTexOpt_xinv (th : Nat → Option PTexture) (w : W) (o : Option Nat) (r : W × Option TexInfo)
    (h : addTexOpt th w o = .ok r) (hw : XInv w) :
    XStep w r.1 ∧ ∀ ti, r.2 = some ti → ti.xform.isSome = true → KTT ∈ r.1.extUsed := by
  unfold addTexOpt at h
  split at h
  · injection h with h; subst h; exact ⟨XStep.rfl' hw, by simp⟩
  · split at h
    · cases h
    · injection h with h; subst h
      obtain ⟨h1, h2, h3, h4, h5, h6⟩ := addTexture_xinv w _ _ hw
      exact ⟨⟨h1, h2, h4, h5, h6⟩, fun ti hti hx => by injection hti with hti; subst hti; exact h3 hx⟩

theorem addTexList_xinv (th : Nat → Option PTexture) (w : W) (l : List (String × Nat)) (r : W × List (String × TexInfo))
    (h : addTexList th w l = .ok r) (hw : XInv w) :
    XStep w r.1 ∧ ∀ kt ∈ r.2, kt.2.xform.isSome = true → KTT ∈ r.1.extUsed := by
  induction l generalizing w r with
  | nil => simp [addTexList] at h; subst h; exact ⟨XStep.rfl' hw, by simp⟩
  | cons kt l ih =>
    obtain ⟨k, id⟩ := kt
    simp only [addTexList] at h
    split at h
    · cases h
    · split at h
      · cases h
      · rename_i _ t _ _ w2 l2 h2
        injection h with h; subst h
        obtain ⟨h1, h2', h3, h4, h5, h6⟩ := addTexture_xinv w id t hw
        obtain ⟨b1, b2⟩ := ih _ _ h2 h1
        refine ⟨XStep.trans' ⟨h1, h2', h4, h5, h6⟩ b1, ?_⟩
        intro x hx hxf
        simp only [List.mem_cons] at hx
        rcases hx with rfl | hx
        · exact b1.2.1 _ (h3 hxf)
        · exact b2 x hx hxf

theorem addMatExts_xinv (th : Nat → Option PTexture) (w : W) (l : List PMatExt) (r : W × List GMatExt)
    (h : addMatExts th w l = .ok r) (hw : XInv w) :
    XStep w r.1 ∧ (∀ e ∈ r.2, e.id ∈ r.1.extUsed ∧ ∀ kt ∈ e.texs, kt.2.xform.isSome = true → KTT ∈ r.1.extUsed) := by
  induction l generalizing w r with
  | nil => simp [addMatExts] at h; subst h; exact ⟨XStep.rfl' hw, by simp⟩
  | cons e l ih =>
    simp only [addMatExts] at h
    split at h
    · cases h
    · rename_i w1 tis h1
      split at h
      · cases h
      · rename_i w2 l2 h2
        injection h with h; subst h
        obtain ⟨a1, a2⟩ := addTexList_xinv th w e.texs _ h1 hw
        have hs : XStep w1 { w1 with extUsed := setInsert w1.extUsed e.id } :=
          ⟨xinv_grow a1.1 (fun x hx => (mem_setInsert _ _ _).mpr (Or.inl hx))
            (fun x hx => (mem_setInsert _ _ _).mpr (Or.inl (a1.1.required x hx))) rfl rfl rfl,
           fun x hx => (mem_setInsert _ _ _).mpr (Or.inl hx), rfl, rfl, rfl⟩
        obtain ⟨b1, b2⟩ := ih _ _ h2 hs.1
        refine ⟨XStep.trans' a1 (XStep.trans' hs b1), ?_⟩
        intro x hx
        simp only [List.mem_cons] at hx
        rcases hx with rfl | hx
        · refine ⟨b1.2.1 _ ((mem_setInsert _ _ _).mpr (Or.inr rfl)), fun kt hkt hxf => ?_⟩
          exact b1.2.1 _ (hs.2.1 _ (a2 kt hkt hxf))
        · exact b2 x hx

theorem addMaterial_xinv (th : Nat → Option PTexture) (w : W) (m : PMaterial) (r : W × Nat)
    (h : addMaterial th w m = .ok r) (hw : XInv w) :
    XInv r.1 ∧ (∀ e ∈ w.extUsed, e ∈ r.1.extUsed) ∧ r.1.nodes = w.nodes ∧ r.1.lights = w.lights := by
  unfold addMaterial at h
  split at h
  · split at h
    · injection h with h; subst h; exact ⟨hw, fun _ he => he, rfl, rfl⟩
    · cases h
  · split at h
    · cases h
    · rename_i r1 h1
      split at h
      · cases h
      · rename_i r2 h2
        split at h
        · cases h
        · rename_i r3 h3
          split at h
          · cases h
          · split at h
            · cases h
            · rename_i r4 h4
              split at h
              · cases h
              · rename_i r5 h5
                injection h with h; subst h
                obtain ⟨a1, a2⟩ := addTexOpt_xinv _ _ _ _ h1 hw
                obtain ⟨b1, b2⟩ := addTexOpt_xinv _ _ _ _ h2 a1.1
                obtain ⟨c1, c2⟩ := addMatExts_xinv _ _ _ _ h3 b1.1
                obtain ⟨d1, d2⟩ := addTexOpt_xinv _ _ _ _ h4 c1.1
                obtain ⟨e1, e2⟩ := addTexOpt_xinv _ _ _ _ h5 d1.1
                have s15 : XStep w r5.1 := XStep.trans' a1 (XStep.trans' b1 (XStep.trans' c1 (XStep.trans' d1 e1)))
                have s25 : XStep r1.1 r5.1 := XStep.trans' b1 (XStep.trans' c1 (XStep.trans' d1 e1))
                have s35 : XStep r2.1 r5.1 := XStep.trans' c1 (XStep.trans' d1 e1)
                have s45 : XStep r3.1 r5.1 := XStep.trans' d1 e1
                refine ⟨⟨e1.1.inst, e1.1.lightNodes, e1.1.lights, ?_, ?_, e1.1.required⟩, s15.2.1, s15.2.2.1, s15.2.2.2.2⟩
                · intro g hg e he
                  simp only [List.mem_append, List.mem_singleton] at hg
                  rcases hg with hg | rfl
                  · exact e1.1.matExts g hg e he
                  · exact s45.2.1 _ (c2 e he).1
                · intro g hg t ht hxf
                  simp only [List.mem_append, List.mem_singleton] at hg
                  rcases hg with hg | rfl
                  · exact e1.1.xform g hg t ht hxf
                  · rcases mem_texInfos_build _ _ _ _ _ _ t ht with h | h | h | h | ⟨e, he, kt, hkt, rfl⟩
                    · exact s25.2.1 _ (a2 t h hxf)
                    · exact s35.2.1 _ (b2 t h hxf)
                    · exact e1.2.1 _ (d2 t h hxf)
                    · exact e2 t h hxf
                    · exact s45.2.1 _ ((c2 e he).2 kt hkt hxf)

theorem xPart_writeAttrs (w : W) (acc : List (String × Nat)) (l : List Attr) : xPart (writeAttrs w acc l).1 = xPart w := by
  induction l generalizing w acc with
  | nil => rfl
  | cons a r ih => simp only [writeAttrs]; rw [ih]; rfl

theorem xPart_addMesh (w : W) (name : String) (id : Nat) (m : PMesh) (mat : Option Nat) :
    xPart (addMesh w name id m mat).1 = xPart w := by
  unfold addMesh
  split
  · rfl
  · split
    · rfl
    · simp only [meshDataFor]
      split
      · rfl
      · have := xPart_writeAttrs { w with meshIdx := mapInsert w.meshIdx (id, mat) w.meshes.length } [] m.written
        simp only [xPart, Prod.mk.injEq] at this ⊢
        exact this

theorem addInstances_xinv (w : W) (inst : List (List Nat)) (hw : XInv w) :
    XInv (addInstances w inst).1 ∧ (addInstances w inst).1.nodes = w.nodes
    ∧ ((addInstances w inst).2.isSome = true → "EXT_mesh_gpu_instancing" ∈ (addInstances w inst).1.extUsed) := by
  unfold addInstances
  split
  · exact ⟨hw, rfl, by simp⟩
  · simp only
    refine ⟨?_, rfl, fun _ => (mem_setInsert _ _ _).mpr (Or.inr rfl)⟩
    have h0 : XInv { w with extUsed := setInsert w.extUsed "EXT_mesh_gpu_instancing" } :=
      xinv_grow hw (fun x hx => (mem_setInsert _ _ _).mpr (Or.inl hx))
        (fun x hx => (mem_setInsert _ _ _).mpr (Or.inl (hw.required x hx))) rfl rfl rfl
    exact xinv_of_xPart h0 rfl

theorem addModel_xinv (s : Scene) (w w' : W) (md : Model) (hw : XInv w) (h : addModel s w md = .ok w') : XInv w' := by
  unfold addModel at h
  split at h
  · cases h
  · split at h
    · cases h
    · rename_i _ id _ _ m hm
      split at h
      · injection h with h; subst h; exact hw
      · split at h
        · cases h
        · rename_i r hr
          have hgate := gate_ok s w md _ r hr
          have hr := hgate.2
          have h1 : XInv r.1 := by
            unfold addModelMaterial at hr
            split at hr
            · injection hr with hr; subst hr; exact hw
            · split at hr
              · cases hr
              · split at hr
                · cases hr
                · rename_i r' h'
                  injection hr with hr; subst hr
                  exact (addMaterial_xinv _ _ _ _ h' hw).1
          have h2 : XInv (addMesh r.1 md.name id m r.2).1 := xinv_of_xPart h1 (xPart_addMesh _ _ _ _ _)
          simp only at h
          split at h
          · injection h with h; subst h; exact h2
          · injection h with h; subst h
            obtain ⟨h3, hn3, hi3⟩ := addInstances_xinv (addMesh r.1 md.name id m r.2).1 md.instances h2
            refine ⟨?_, ?_, h3.lights, h3.matExts, h3.xform, h3.required⟩
            · intro n hn hi
              simp only [List.mem_append, List.mem_singleton] at hn
              rcases hn with hn | rfl
              · exact h3.inst n hn hi
              · exact hi3 hi
            · intro n hn hl
              simp only [List.mem_append, List.mem_singleton] at hn
              rcases hn with hn | rfl
              · exact h3.lightNodes n hn hl
              · simp [modelNode] at hl

theorem addModels_xinv (s : Scene) (w w' : W) (l : List Model) (hw : XInv w) (h : addModels s w l = .ok w') : XInv w' := by
  induction l generalizing w with
  | nil => simp [addModels] at h; subst h; exact hw
  | cons md r ih =>
    simp only [addModels] at h
    split at h
    · cases h
    · rename_i w1 h1
      exact ih w1 (addModel_xinv s w w1 md hw h1) h

theorem addLight_xinv (w : W) (l : List Nat) (hw : XInv w) : XInv (addLight w l) := by
  have hsub : ∀ e ∈ w.extUsed, e ∈ (addLight w l).extUsed := fun e he => (mem_setInsert _ _ _).mpr (Or.inl he)
  have hk : "KHR_lights_punctual" ∈ (addLight w l).extUsed := (mem_setInsert _ _ _).mpr (Or.inr rfl)
  refine ⟨?_, ?_, fun _ => hk, fun g hg e he => hsub _ (hw.matExts g hg e he),
    fun g hg t ht hx => hsub _ (hw.xform g hg t ht hx), fun e he => hsub _ (hw.required e he)⟩
  · intro n hn hi
    simp only [addLight, List.mem_append, List.mem_singleton] at hn
    rcases hn with hn | rfl
    · exact hsub _ (hw.inst n hn hi)
    · simp at hi
  · intro n hn _
    exact hk

theorem addLights_xinv (w : W) (l : List (List Nat)) (hw : XInv w) : XInv (l.foldl addLight w) := by
  induction l generalizing w with
  | nil => exact hw
  | cons p r ih => exact ih _ (addLight_xinv w p hw)

theorem scene_xinv (s : Scene) (w : W) (h : writeScene s = .ok w) : XInv w := by
  unfold writeScene at h
  split at h
  · cases h
  · rename_i w1 h1
    split at h
    · injection h with h; subst h
      unfold addScene at h1
      split at h1
      · cases h1
      · rename_i w0 h0
        injection h1 with h1; subst h1
        exact addLights_xinv _ _ (addModels_xinv s {} w0 s.models
          ⟨by simp, by simp, by simp, by simp, by simp, by simp⟩ h0)
    · cases h

theorem mem_ite_singleton {c : Bool} {k e : String} (h : e ∈ if c = true then [k] else []) : c = true ∧ e = k := by
  cases c <;> simp_all

/-- EXTENSIONS DECLARED, for every scene the writer accepts: every extension the document uses — EXT_mesh_gpu_instancing
    on a node, KHR_lights_punctual (lights or light nodes), each material extension, KHR_texture_transform on any texture
    reference — is listed in `extensionsUsed`, and `extensionsRequired ⊆ extensionsUsed` -/
theorem gltf_extensions_declared (s : Scene) (w : W) (h : writeScene s = .ok w) :
    w.doc.extsSeen.all (fun e => w.doc.extUsed.contains e) = true
    ∧ w.doc.extRequired.all (fun e => w.doc.extUsed.contains e) = true := by
  have hx := scene_xinv s w h
  simp only [List.all_eq_true, List.contains_iff_mem]
  refine ⟨?_, hx.required⟩
  intro e he
  unfold Doc.extsSeen at he
  simp only [W.doc, List.mem_append, List.mem_flatMap, List.mem_map] at he
  rcases he with ((he | he) | he) | he
  · obtain ⟨hany, rfl⟩ := mem_ite_singleton he
    simp only [List.any_eq_true] at hany
    obtain ⟨n, hn, hi⟩ := hany
    exact hx.inst n hn hi
  · obtain ⟨hany, rfl⟩ := mem_ite_singleton he
    simp only [Bool.or_eq_true, decide_eq_true_eq, List.any_eq_true] at hany
    rcases hany with hl | ⟨n, hn, hi⟩
    · exact hx.lights (of_decide_eq_true hl)
    · exact hx.lightNodes n hn hi
  · obtain ⟨g, hg, x, hxe, rfl⟩ := he
    exact hx.matExts g hg x hxe
  · obtain ⟨hany, rfl⟩ := mem_ite_singleton he
    simp only [List.any_eq_true] at hany
    obtain ⟨g, hg, t, ht, hxf⟩ := hany
    exact hx.xform g hg t ht hxf

/-! ### node consistency and the assembled structural validity -/

theorem scene_nodes_ok (s : Scene) (w : W) (hs : SceneOK s) (h : writeScene s = .ok w) :
    w.nodes.all (nodeOK w.accessors w.meshes.length w.lights) = true := by
  simp only [List.all_eq_true]
  intro n hn
  obtain ⟨r1, r2, r3⟩ := (gltf_refs_in_range s w h).1.nodes n hn
  unfold nodeOK
  simp only [Bool.and_eq_true]
  refine ⟨⟨?_, ?_⟩, ?_⟩
  · cases hm : n.mesh with
    | none => rfl
    | some m => simpa using r1 m hm
  · rcases scene_nodes_structure s w hs h n hn with ⟨md, hc⟩ | ⟨l, hl⟩
    · rcases hc.2.2.2.2.2 with ⟨_, hnone⟩ | ⟨_, a0, a1, a2, hi, c0, c1, c2⟩
      · rw [hnone]
      · rw [hi]
        obtain ⟨x0, hx0, k0, d0, n0, _⟩ := c0
        obtain ⟨x1, hx1, k1, d1, n1, _⟩ := c1
        obtain ⟨x2, hx2, k2, d2, n2, _⟩ := c2
        simp [instOK, hx0, hx1, hx2, k0, k1, k2, d0, d1, d2, n0, n1, n2]
    · rw [hl.2.2]
  · cases hm : n.light with
    | none => rfl
    | some l => simpa using r3 l hm

/-- STRUCTURAL VALIDITY.  For every well-formed scene the writer accepts, the whole predicate `valid` — everything the
    property demands of a document except component alignment — holds of the written document and buffer:
    buffer length, bufferView ranges, accessor ranges and bounds, every primitive (attribute counts, index values),
    every node, scene, material, texture reference, extensions declared -/
theorem gltf_scene_valid (s : Scene) (w : W) (hs : SceneOK s) (h : writeScene s = .ok w) : valid w.doc w.buf = true := by
  have h1 := scene_valid_low s w hs h
  have h2 := scene_prims_ok s w hs h
  have h3 := scene_nodes_ok s w hs h
  obtain ⟨h4, h5, h6⟩ := scene_refs_ok s w h
  obtain ⟨h7, h8⟩ := gltf_extensions_declared s w h
  unfold validLow at h1
  simp only [Bool.and_eq_true] at h1
  unfold valid
  simp only [Bool.and_eq_true]
  exact ⟨⟨⟨⟨⟨⟨⟨⟨⟨⟨h1.1.1.1, h1.1.1.2⟩, h1.1.2⟩, h1.2⟩, h2⟩, h3⟩, h4⟩, h5⟩, h6⟩, h7⟩, h8⟩

end C06
end PolyVerif
