/-
  C19 — the hand models of the variadic glue ARE the interpretation of the statement lists extracted from the Go source.

  `Gen/SdfOpsShape.lean` is regenerated on every run by `go/facts c19.ops` from /repo/math/sdf/operators.go and line.go
  (statement language and interpreter: `Model/SdfOpsIR.lean`).  The theorems below hold for EVERY operand list and every
  scalar (ℝ, where the C19 theorems live, and Float, where the driver runs), so all theorems stated about
  `SdfOps.Union` / `SdfOps.Intersect` / `SdfVarLine.VarryingThicknessLine` are theorems about the interpretation of the
  current source text; an edit of the Go functions that changes their extracted shape breaks these theorems by name.
  The driver answers the `c19.union` / `c19.intersect` / `c19.varline` correspondence lines from the interpretation
  of the extracted terms, which ties extractor + interpreter to the running Go code bit for bit.
-/
import PolyVerif.Gen.SdfOpsShape
import PolyVerif.Model.SdfOps
import PolyVerif.Model.SdfVarLine

namespace PolyVerif
namespace C19
open SdfOpsIR
variable {α : Type} [Scalar α]

/-- `SdfOps.Union` is the interpretation of operators.go `Union` as extracted -/
theorem union_eq_shape (fs : List (V3 α → α)) : SdfOps.Union fs = SdfOpsIR.eval Gen.SdfOpsShape.union fs := by
  match fs with
  | [] => rfl
  | [f] => rfl
  | [a, b] => rfl
  | f0 :: f1 :: f2 :: rest => rfl

/-- `SdfOps.Intersect` is the interpretation of operators.go `Intersect` as extracted -/
theorem intersect_eq_shape (fs : List (V3 α → α)) : SdfOps.Intersect fs = SdfOpsIR.eval Gen.SdfOpsShape.intersect fs := by
  match fs with
  | [] => rfl
  | [f] => rfl
  | f0 :: f1 :: rest => rfl

/-- the extracted loop, started after a prefix `pre` at the element `x`, produces the cones of the consecutive pairs of
    `x :: rest` -/
theorem varLine_loop (pre : List (V3 α × α)) (x : V3 α × α) (rest : List (V3 α × α)) :
    Gen.SdfOpsShape.varLine.loop (pre ++ x :: rest) (pre.length + 1) rest.length
      = some (SdfVarLine.cones (x :: rest)) := by
  induction rest generalizing pre x with
  | nil => rfl
  | cons y ys ih =>
    have h := ih (pre ++ [x]) y
    rw [List.append_assoc, List.singleton_append, List.length_append, List.length_singleton] at h
    simp only [List.length_cons, VarLineShape.loop, VarLineShape.coneAt]
    rw [h]
    simp [Gen.SdfOpsShape.varLine, SdfVarLine.cones]

/-- `SdfVarLine.VarryingThicknessLine` is the interpretation of line.go `VarryingThicknessLine` as extracted, with the
    interpretation of the extracted `Union` as its callee -/
theorem varLine_eq_shape (pts : List (V3 α × α)) :
    SdfVarLine.VarryingThicknessLine pts
      = Gen.SdfOpsShape.varLine.eval (SdfOpsIR.eval Gen.SdfOpsShape.union) pts := by
  match pts with
  | [] => rfl
  | [x] => rfl
  | x :: y :: ys =>
    have h := varLine_loop [] x (y :: ys)
    simp only [List.nil_append, List.length_nil, Nat.zero_add] at h
    have hlen : ¬ (x :: y :: ys).length < Gen.SdfOpsShape.varLine.minLen := by
      simp [Gen.SdfOpsShape.varLine]
    have hfuel : (x :: y :: ys).length - Gen.SdfOpsShape.varLine.loopStart = (y :: ys).length := by
      simp [Gen.SdfOpsShape.varLine]
    simp only [VarLineShape.eval, hlen, if_false, hfuel]
    rw [show Gen.SdfOpsShape.varLine.loopStart = 1 from rfl, h]
    simp only [SdfVarLine.VarryingThicknessLine, union_eq_shape]

end C19
end PolyVerif
